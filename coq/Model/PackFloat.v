(* C09, binary64 part: the key column pack_partitions indexes the rows by, on Coq's
   primitive floats (IEEE 754 binary64, evaluated by the kernel), from nothing but the
   rows' bounds rows and how they are split into input partitions.  Transcribes

     spatialpandas/dask.py   DaskGeoSeries.partition_bounds  (per partition: s.total_bounds)
                             DaskGeoSeries.total_bounds      (np.nanmin / np.nanmax of the
                                                              partition bounds)
                             _with_hilbert_distance_column   (total_bounds once, then per
                               partition  s.hilbert_distance(total_bounds=total_bounds, p=p))

   on top of Model/FloatData2Coord.v (GeoSeries.hilbert_distance -> GeometryArray.
   hilbert_distance -> _distances_from_bounds -> _data2coord, operation by operation).

   Model/Pack.v is the same procedure over [num = option Z] with an ABSTRACT key
   function [hkey]; here the key is computed, so that harness/c09.py / c09_float.py can
   compare every index value of every packed frame with the kernel's value, with no
   tolerance and without calling the library's own hilbert_distance for the reference:
   coordinates that are not small integers (non-representable decimals, random doubles,
   extents tiny relative to the magnitude, centres a float or two away from a cell edge)
   are inside the model.

   A bounds row of a missing / empty element is (NaN, NaN, NaN, NaN); the rows of the
   array's [bounds] never hold an infinity (non-finite coordinates are skipped by
   total_bounds_interleaved).  The total bounds of an array are the min / max over its
   finite coordinates = over its bounds rows (property C13), NaN when there is none.
   Zero signs: min(-0.0, +0.0) depends on the order of the comparison, but no key depends
   on the sign of a zero in the total bounds (v - (+-0) differs in the sign of a zero
   result only, which the clips and the cast send to cell 0; a width +-0 is widened).

   No proofs in this file. *)
From Coq Require Import PrimFloat ZArith NArith List Bool.
From SP Require Import Harness Model.Hilbert Model.FloatData2Coord Model.Pack.
Import ListNotations.

(* min / max that skip NaN; NaN when there is nothing else *)
Definition f_nanmin2 (a b : float) : float :=
  if is_nan a then b else if is_nan b then a else if (b <? a)%float then b else a.
Definition f_nanmax2 (a b : float) : float :=
  if is_nan a then b else if is_nan b then a else if (a <? b)%float then b else a.
Definition f_nanmin (l : list float) : float := fold_left f_nanmin2 l nan.
Definition f_nanmax (l : list float) : float := fold_left f_nanmax2 l nan.

(* total bounds of a list of bounds rows (one array, or the partition_bounds table) *)
Definition f_total_bounds (rows : list frow) : frow :=
  (f_nanmin (map (fun b : frow => let '(x0, _, _, _) := b in x0) rows),
   f_nanmin (map (fun b : frow => let '(_, y0, _, _) := b in y0) rows),
   f_nanmax (map (fun b : frow => let '(_, _, x1, _) := b in x1) rows),
   f_nanmax (map (fun b : frow => let '(_, _, _, y1) := b in y1) rows)).

(* DaskGeoSeries.total_bounds: per partition first, then over the partitions *)
Definition f_dask_total_bounds (parts : list (list frow)) : frow :=
  f_total_bounds (map f_total_bounds parts).

(* s.hilbert_distance(total_bounds=tb, p=p) on one partition *)
Definition f_partition_keys (tb : frow) (p : nat) (rows : list frow) : foutcome :=
  let '(a, b, c, d) := tb in
  f_geoseries_hilbert_distance rows (f_total_bounds rows)
                               (Some [FPyFloat a; FPyFloat b; FPyFloat c; FPyFloat d]) p.

Fixpoint all_returned (l : list foutcome) : option (list (list N)) :=
  match l with
  | [] => Some []
  | FReturned ds :: t => match all_returned t with Some r => Some (ds :: r) | None => None end
  | FRaised _ :: _ => None
  end.

(* _with_hilbert_distance_column, the key column only: None = a partition raises (the
   float model of hilbert_distance has no raising path for a well-formed total_bounds
   tuple since _data2coord handles a zero width itself; kept so that a model that
   raises can never be mistaken for agreement) *)
Definition f_with_hilbert_distance_column (tb : frow) (p : nat) (parts : list (list frow))
  : option (list (list N)) :=
  all_returned (map (f_partition_keys tb p) parts).

Definition f_pack_keys (parts : list (list frow)) (p : nat) : option (list (list N)) :=
  f_with_hilbert_distance_column (f_dask_total_bounds parts) p parts.

(* ------------------------------------------------------------------ *)
(* what the correspondence check evaluates                              *)
(* ------------------------------------------------------------------ *)
(* one real packing of a small frame: input partitions as (row id, bounds row of the
   active geometry), output partitions as (row id, index value), requested count, p.
   Result: the model returns keys; the real (index value, row id) pairs are exactly the
   model's (key, row id) pairs; index non-decreasing within and across partitions; count *)
Definition c09_float_case (c : list (list (nat * frow)) * list (list (nat * N)) * N * nat)
  : bool * bool * bool * bool :=
  let '(inp, outp, n, p) := c in
  match f_pack_keys (map (map snd) inp) p with
  | None => (false, false, false, false)
  | Some keys =>
      let keyed := combine (List.concat keys) (map fst (List.concat inp)) in
      let got := map (fun r : nat * N => (snd r, fst r)) (List.concat outp) in
      (true, eqb_kl (sortN keyed) (sortN got), sortedN (map fst got),
       N.eqb (N.of_nat (length outp)) n)
  end.

(* a large frame given by its DISTINCT bounds rows (the keys are elementwise and the
   total bounds are those of the set of rows): the key of every distinct row *)
Definition c09_float_keys (c : list (list frow) * nat) : option (list (list N)) :=
  let '(parts, p) := c in f_pack_keys parts p.

(* the discretisation written the other way round, (v - lo) / width * n: NOT what
   _data2coord computes; only there to exhibit (Properties/C09.v) that the two
   mathematically equal expressions name different cells on near-tie decimals, i.e. that
   the order of the operations is part of what the correspondence check pins down *)
Definition f_scaled_divfirst (v lo hi : float) (n : Z) : float :=
  ((v - lo) / (hi - lo) * Z2float n)%float.
