(* C18, round 4: two ways in which a result can come to depend on something that is not an
   input of the call.

   (1) RESULT BUFFERS.  The array wrappers allocate the result and hand it to a kernel:

         spatialpandas/geometry/line.py, multiline.py, multipoint.py, polygon.py, multipolygon.py
             result = np.zeros(n, dtype=np.bool_);  <kind>s_intersect_bounds(..., result)
             result = np.full(n, np.nan);           _geometry_map_nested<k>(fn, result, ..., missing)
         spatialpandas/geometry/_algorithms/intersection.py : lines_intersect_bounds,
           multilines_intersect_bounds, polygons_..., multipolygons_..., multipoints_...
             result.fill(False); orient the box; if x0 == x1 or y0 == y1: return;
             for i in range(n): <stores into result[i]>
         spatialpandas/geometry/baselist.py : _geometry_map_nested1/2/3
             for i in prange(n): if not missing[i]: result[i] = fn(...)

       What the buffer held before the call (zeros from np.zeros, or - were it np.empty - the
       recycled content of a block freed by an earlier call or another thread) is modelled as an
       arbitrary list [garbage]; the scheduling / history independence of the call is the
       statement that the returned list does not depend on it.

   (2) FLOATING-POINT REDUCTIONS.  compute_area / compute_line_length
       (spatialpandas/geometry/_algorithms/measures.py) add their terms left to right into one
       accumulator, starting from 0.0.  A parallel (prange) reduction gives every thread a
       contiguous chunk, sums each chunk from 0.0 and adds the partial sums in thread order; the
       chunking is a function of the thread count.

   Executable only, no proofs. *)
From Coq Require Import List Bool Arith.
From Coq Require Import PrimFloat.
From SP Require Import Model.Sched.
Import ListNotations.

Section Buffers.
  Variable V : Type.

  (* result.fill(v) *)
  Definition fill (v : V) (r : list V) : list V := map (fun _ => v) r.

  (* <kind>s_intersect_bounds as it is in the repository: clear, then (unless the oriented box is
     degenerate) the stores of the loop, in program order *)
  Definition bounds_kernel (clear : V) (degenerate : bool) (stores : list (nat * V))
             (result : list V) : list V :=
    let r0 := fill clear result in
    if degenerate then r0 else @apply_writes V stores r0.

  (* the same kernel with the early return placed BEFORE the clearing *)
  Definition bounds_kernel_late_clear (clear : V) (degenerate : bool) (stores : list (nat * V))
             (result : list V) : list V :=
    if degenerate then result else @apply_writes V stores (fill clear result).

  (* _geometry_map_nested<k>: iteration i stores fn i unless element i is missing *)
  Fixpoint map_stores (missing : list bool) (fn : nat -> V) (i : nat) : list (nat * V) :=
    match missing with
    | [] => []
    | m :: t => (if m then [] else [(i, fn i)]) ++ map_stores t fn (S i)
    end.

  (* the measure wrappers (length / area): result = np.full(n, nan) over whatever block the
     allocator returned, then the map kernel *)
  Definition measure_wrapper (nan : V) (missing : list bool) (fn : nat -> V) (garbage : list V) : list V :=
    @apply_writes V (map_stores missing fn 0) (fill nan garbage).

  (* ... and with np.empty in place of np.full *)
  Definition measure_wrapper_empty (missing : list bool) (fn : nat -> V) (garbage : list V) : list V :=
    @apply_writes V (map_stores missing fn 0) garbage.
End Buffers.

Arguments fill {V}.
Arguments bounds_kernel {V}.
Arguments bounds_kernel_late_clear {V}.
Arguments map_stores {V}.
Arguments measure_wrapper {V}.
Arguments measure_wrapper_empty {V}.

(* ---- reductions ---- *)

(* the sequential loop: acc = 0.0; for t in terms: acc += t *)
Definition seq_sum (terms : list float) : float := fold_left PrimFloat.add terms 0%float.

(* a prange reduction over the given contiguous chunks (one per thread) *)
Definition chunked_sum (chunks : list (list float)) : float :=
  fold_left (fun acc c => (acc + seq_sum c)%float) chunks 0%float.
