(* spatialpandas/geometry/_algorithms/intersection.py: segments_intersect_1d,
   segments_intersect, multipoints_intersect_bounds, _perform_line_intersect_bounds,
   lines_intersect_bounds, multilines_intersect_bounds,
   _perform_polygon_intersect_bounds, polygons_intersect_bounds,
   multipolygons_intersect_bounds; and the [intersects_bounds] wrappers of the
   array and scalar classes in geometry/{point,multipoint,line,ring,multiline,
   polygon,multipolygon}.py.
   Coordinates are exact integers (DESIGN 3.1); a box is (x0, y0, x1, y1) as the
   caller gave it (not yet oriented).  Executable only, no proofs. *)
From Coq Require Import ZArith List Bool Arith.
From SP Require Import Model.Num Model.Arrow Model.Bounds Model.PointKernels.
Import ListNotations.
Open Scope Z_scope.

Definition box := (Z * Z * Z * Z)%type.

(* ---- segments_intersect_1d ---- *)
Definition segments_intersect_1d (ax0 ax1 bx0 bx1 : Z) : bool :=
  let '(ax0, ax1) := if ax1 <? ax0 then (ax1, ax0) else (ax0, ax1) in
  let '(bx0, bx1) := if bx1 <? bx0 then (bx1, bx0) else (bx0, bx1) in
  Z.max ax0 bx0 <=? Z.min ax1 bx1.

(* ---- segments_intersect ---- *)
Definition segments_intersect (ax0 ay0 ax1 ay1 bx0 by0 bx1 by1 : Z) : bool :=
  if negb (segments_intersect_1d ax0 ax1 bx0 bx1) then false
  else if negb (segments_intersect_1d ay0 ay1 by0 by1) then false
  else
    let a_zero := (ax0 =? ax1) && (ay0 =? ay1) in
    let b_zero := (bx0 =? bx1) && (by0 =? by1) in
    if a_zero && negb b_zero &&
       (((ax0 =? bx0) && (ay0 =? by0)) || ((ax0 =? bx1) && (ay0 =? by1))) then true
    else if b_zero && negb a_zero &&
       (((bx0 =? ax0) && (by0 =? ay0)) || ((bx0 =? ax1) && (by0 =? ay1))) then true
    else if a_zero || b_zero then false
    else
      let b0_o := triangle_orientation ax0 ay0 ax1 ay1 bx0 by0 in
      let b1_o := triangle_orientation ax0 ay0 ax1 ay1 bx1 by1 in
      if (b0_o =? 0) && (b1_o =? 0) then true
      else if b0_o =? b1_o then false
      else
        let a0_o := triangle_orientation bx0 by0 bx1 by1 ax0 ay0 in
        let a1_o := triangle_orientation bx0 by0 bx1 by1 ax1 ay1 in
        if (a0_o =? 0) && (a1_o =? 0) then true
        else if a0_o =? a1_o then false
        else true.

(* ---- "Orient rectangle" ---- *)
Definition orient_box (b : box) : box :=
  let '(x0, y0, x1, y1) := b in
  let '(x0, x1) := if x1 <? x0 then (x1, x0) else (x0, x1) in
  let '(y0, y1) := if y1 <? y0 then (y1, y0) else (y0, y1) in
  (x0, y0, x1, y1).

(* x0 <= x <= x1 and y0 <= y <= y1 *)
Definition in_rect (x0 y0 x1 y1 : Z) (p : pt) : bool :=
  let '(x, y) := p in (x0 <=? x) && (x <=? x1) && (y0 <=? y) && (y <=? y1).

(* comparisons of a bounds entry (None = NaN: every comparison is False) with a
   box coordinate *)
Definition n_gt (a : num) (z : Z) : bool := match a with Some v => z <? v | None => false end.
Definition n_lt (a : num) (z : Z) : bool := match a with Some v => v <? z | None => false end.
Definition n_ge (a : num) (z : Z) : bool := match a with Some v => z <=? v | None => false end.
Definition n_le (a : num) (z : Z) : bool := match a with Some v => v <=? z | None => false end.

(* total_bounds_interleaved(flat_values[start:stop]) on finite coordinates *)
Definition zbounds (seg : list Z) : bbox := total_bounds_interleaved (map Some seg).

(* np.isnan(bounds[0]) and np.isnan(bounds[1]): no finite coordinate at all
   ("fix:" commit df4dba3) *)
Definition bounds_nan (bnd : bbox) : bool :=
  let '(b0, b1, _, _) := bnd in
  match b0, b1 with None, None => true | _, _ => false end.

(* bounds outside of rect *)
Definition bounds_reject (bnd : bbox) (x0 y0 x1 y1 : Z) : bool :=
  let '(b0, b1, b2, b3) := bnd in
  n_gt b0 x1 || n_gt b1 y1 || n_lt b2 x0 || n_lt b3 y0.

(* bounds contained in rect when both are projected onto the x or the y axis *)
Definition bounds_shortcut (bnd : bbox) (x0 y0 x1 y1 : Z) : bool :=
  let '(b0, b1, b2, b3) := bnd in
  (n_ge b0 x0 && n_le b2 x1) || (n_ge b1 y0 && n_le b3 y1).

(* one segment against top, bottom, left, right edge of the rect, in that order *)
Definition edge_hits_rect (x0 y0 x1 y1 : Z) (e : pt * pt) : bool :=
  let '((ex0, ey0), (ex1, ey1)) := e in
  segments_intersect ex0 ey0 ex1 ey1 x0 y1 x1 y1
  || segments_intersect ex0 ey0 ex1 ey1 x0 y0 x1 y0
  || segments_intersect ex0 ey0 ex1 ey1 x0 y0 x0 y1
  || segments_intersect ex0 ey0 ex1 ey1 x1 y0 x1 y1.

(* consecutive pairs of an offsets array: (o[j], o[j+1]) *)
Fixpoint opairs (l : list nat) : list (nat * nat) :=
  match l with
  | a :: ((b :: _) as t) => (a, b) :: opairs t
  | _ => []
  end.

(* ---- multipoints_intersect_bounds (no zero-extent early return) ---- *)
Definition perform_multipoint (x0 y0 x1 y1 : Z) (vals : list Z) (start stop : nat) : bool :=
  existsb (in_rect x0 y0 x1 y1) (zpairs (slice start stop vals)).

Definition multipoints_intersect_bounds (b : box) (vals : list Z)
           (starts stops : list nat) : list bool :=
  let '(x0, y0, x1, y1) := orient_box b in
  map (fun '(s, e) => perform_multipoint x0 y0 x1 y1 vals s e) (combine starts stops).

(* ---- _perform_line_intersect_bounds (rect already oriented) ---- *)
Definition perform_line (x0 y0 x1 y1 : Z) (vals : list Z) (start stop : nat) : bool :=
  let seg := slice start stop vals in
  let bnd := zbounds seg in
  if bounds_nan bnd then false
  else if bounds_reject bnd x0 y0 x1 y1 then false
  else if bounds_shortcut bnd x0 y0 x1 y1 then true
  else if existsb (in_rect x0 y0 x1 y1) (zpairs seg) then true
  else existsb (edge_hits_rect x0 y0 x1 y1) (edges (zpairs seg)).

(* ---- lines_intersect_bounds ---- *)
Definition lines_intersect_bounds (b : box) (vals : list Z)
           (starts stops : list nat) : list bool :=
  let '(x0, y0, x1, y1) := orient_box b in
  if (x0 =? x1) || (y0 =? y1) then map (fun _ => false) starts
  else map (fun '(s, e) => perform_line x0 y0 x1 y1 vals s e) (combine starts stops).

(* ---- multilines_intersect_bounds ---- *)
Definition perform_multiline (x0 y0 x1 y1 : Z) (vals : list Z) (offsets1 : list nat)
           (start0 stop0 : nat) : bool :=
  let element_offsets := slice start0 (stop0 + 1) offsets1 in
  existsb (fun '(s, e) => perform_line x0 y0 x1 y1 vals s e) (opairs element_offsets).

Definition multilines_intersect_bounds (b : box) (vals : list Z)
           (starts0 stops0 offsets1 : list nat) : list bool :=
  let '(x0, y0, x1, y1) := orient_box b in
  if (x0 =? x1) || (y0 =? y1) then map (fun _ => false) starts0
  else map (fun '(s, e) => perform_multiline x0 y0 x1 y1 vals offsets1 s e)
           (combine starts0 stops0).

(* ---- _perform_polygon_intersect_bounds (rect already oriented) ---- *)
Definition perform_polygon (x0 y0 x1 y1 : Z) (vals : list Z) (offsets1 : list nat)
           (start0 stop0 : nat) : bool :=
  let start1 := getn offsets1 start0 in
  let stop1 := getn offsets1 stop0 in
  let seg := slice start1 stop1 vals in
  let bnd := zbounds seg in
  if bounds_nan bnd then false
  else if bounds_reject bnd x0 y0 x1 y1 then false
  else if bounds_shortcut bnd x0 y0 x1 y1 then true
  else if existsb (in_rect x0 y0 x1 y1) (zpairs seg) then true
  else
    let polygon_offsets := slice start0 (stop0 + 1) offsets1 in
    if existsb (fun ring => existsb (edge_hits_rect x0 y0 x1 y1) (edges (zpairs ring)))
               (rings_of vals polygon_offsets) then true
    else
      point_intersects_polygon x0 y0 vals polygon_offsets
      || point_intersects_polygon x1 y0 vals polygon_offsets
      || point_intersects_polygon x1 y1 vals polygon_offsets
      || point_intersects_polygon x0 y1 vals polygon_offsets.

(* ---- polygons_intersect_bounds (no zero-extent early return) ---- *)
Definition polygons_intersect_bounds (b : box) (vals : list Z)
           (starts0 stops0 offsets1 : list nat) : list bool :=
  let '(x0, y0, x1, y1) := orient_box b in
  map (fun '(s, e) => perform_polygon x0 y0 x1 y1 vals offsets1 s e) (combine starts0 stops0).

(* ---- multipolygons_intersect_bounds ---- *)
Definition perform_multipolygon (x0 y0 x1 y1 : Z) (vals : list Z) (offsets1 offsets2 : list nat)
           (start0 stop0 : nat) : bool :=
  let polygon_offsets := slice start0 (stop0 + 1) offsets1 in
  existsb (fun '(s, e) => perform_polygon x0 y0 x1 y1 vals offsets2 s e) (opairs polygon_offsets).

Definition multipolygons_intersect_bounds (b : box) (vals : list Z)
           (starts0 stops0 offsets1 offsets2 : list nat) : list bool :=
  let '(x0, y0, x1, y1) := orient_box b in
  map (fun '(s, e) => perform_multipolygon x0 y0 x1 y1 vals offsets1 offsets2 s e)
      (combine starts0 stops0).

(* =====================================================================
   wrappers: array classes
   ===================================================================== *)

(* numpy integer-array indexing l[inds]; None = IndexError *)
Definition select {A} (d : A) (l : list A) (inds : option (list nat)) : option (list A) :=
  match inds with
  | None => Some l
  | Some js =>
      if forallb (fun j => Nat.ltb j (length l)) js then Some (map (fun j => nth j l d) js)
      else None
  end.

(* start_offsets0 = offsets0[:-1]; stop_offsets0 = offsets0[1:]; both [inds] *)
Definition starts_stops (offsets0 : list nat) (inds : option (list nat))
  : option (list nat * list nat) :=
  match select 0%nat (removelast offsets0) inds, select 0%nat (tl offsets0) inds with
  | Some s, Some e => Some (s, e)
  | _, _ => None
  end.

(* MultiPointArray.intersects_bounds *)
Definition multipoint_array (a : listarr) (b : box) (inds : option (list nat))
  : option (list bool) :=
  if negb (wf_listarr a) then None else
  match finite_vals (buffer_values a), starts_stops (buffer_outer_offsets a) inds with
  | Some vals, Some (s, e) => Some (multipoints_intersect_bounds b vals s e)
  | _, _ => None
  end.

(* LineArray.intersects_bounds (RingArray inherits it) *)
Definition line_array (a : listarr) (b : box) (inds : option (list nat))
  : option (list bool) :=
  if negb (wf_listarr a) then None else
  match finite_vals (buffer_values a), starts_stops (buffer_outer_offsets a) inds with
  | Some vals, Some (s, e) => Some (lines_intersect_bounds b vals s e)
  | _, _ => None
  end.

(* MultiLineArray.intersects_bounds: offsets0, offsets1 = self.buffer_offsets *)
Definition multiline_array (a : listarr) (b : box) (inds : option (list nat))
  : option (list bool) :=
  if negb (wf_listarr a) then None else
  match buffer_offsets a with
  | [offsets0; offsets1] =>
      match finite_vals (buffer_values a), starts_stops offsets0 inds with
      | Some vals, Some (s, e) => Some (multilines_intersect_bounds b vals s e offsets1)
      | _, _ => None
      end
  | _ => None
  end.

(* PolygonArray.intersects_bounds *)
Definition polygon_array (a : listarr) (b : box) (inds : option (list nat))
  : option (list bool) :=
  if negb (wf_listarr a) then None else
  match buffer_offsets a with
  | [offsets0; offsets1] =>
      match finite_vals (buffer_values a), starts_stops offsets0 inds with
      | Some vals, Some (s, e) => Some (polygons_intersect_bounds b vals s e offsets1)
      | _, _ => None
      end
  | _ => None
  end.

(* MultiPolygonArray.intersects_bounds *)
Definition multipolygon_array (a : listarr) (b : box) (inds : option (list nat))
  : option (list bool) :=
  if negb (wf_listarr a) then None else
  match buffer_offsets a with
  | [offsets0; offsets1; offsets2] =>
      match finite_vals (buffer_values a), starts_stops offsets0 inds with
      | Some vals, Some (s, e) =>
          Some (multipolygons_intersect_bounds b vals s e offsets1 offsets2)
      | _, _ => None
      end
  | _ => None
  end.

(* PointArray.intersects_bounds: xs = self.x (NaN where missing), ys likewise,
   [inds], outside = isnan(xs) | xs < x0 | xs > x1 | ys < y0 | ys > y1.
   A slot is (missing) None or Some (x, y); a non-missing slot holding a
   non-finite coordinate is outside the modelled domain (whole result None). *)
Definition point_test (b : box) (p : option pt) : bool :=
  let '(x0, y0, x1, y1) := orient_box b in
  match p with
  | None => false                                    (* isnan(x) *)
  | Some (x, y) => negb ((x <? x0) || (x1 <? x) || (y <? y0) || (y1 <? y))
  end.

Fixpoint all_some {A} (l : list (option A)) : option (list A) :=
  match l with
  | [] => Some []
  | Some v :: t => match all_some t with Some r => Some (v :: r) | None => None end
  | None :: _ => None
  end.

(* slot i of self.x / self.y: Some None = missing (NaN), Some (Some p) = finite
   point, None = non-finite coordinate in a non-missing slot *)
Definition point_slot (a : fixarr) (i : nat) : option (option pt) :=
  if isna_at (fa_valid a) (fa_off a) i then Some None
  else match nth (2 * i) (fa_flat_values a) None, nth (2 * i + 1) (fa_flat_values a) None with
       | Some x, Some y => Some (Some (x, y))
       | _, _ => None
       end.

Definition point_array (a : fixarr) (b : box) (inds : option (list nat))
  : option (list bool) :=
  if negb (wf_fixarr a) then None else
  match all_some (map (point_slot a) (seq 0 (fa_len a))) with
  | Some slots =>
      match select None slots inds with
      | Some sel => Some (map (point_test b) sel)
      | None => None
      end
  | None => None
  end.

(* =====================================================================
   wrappers: scalar classes.  A scalar is built by arr[i] from the Python value
   of the element: its [listarray] is the child array of a fresh one-element
   pyarrow array, one nesting level less than the array class.  [nbuf] is
   len(listarray.buffers()): 1 for the NullArray of an empty element, 2 for a
   primitive array (Line, MultiPoint), >= 3 for list arrays.
   ===================================================================== *)

(* _ListArrayBufferMixin.buffer_offsets including its len(buffers) < 3 cases *)
Definition sc_buffer_offsets (nbuf : nat) (a : listarr) : list (list nat) :=
  if Nat.ltb nbuf 2 then [[0%nat]]
  else if Nat.ltb nbuf 3 then [[0%nat; la_len a]]
  else buffer_offsets a.

Definition outer_offsets_of (bo : list (list nat)) : list nat :=
  match bo with
  | [] => []
  | o0 :: rest => fold_left (fun flat offs => map (getn offs) flat) rest o0
  end.

(* buffer_inner_offsets: a single level of offsets is returned as it is
   ("fix:" commit 0e152f8); two or more are chased from the first level *)
Definition inner_offsets_of (bo : list (list nat)) : list nat :=
  match bo with
  | [] => []
  | [o0] => o0
  | o0 :: rest =>
      let '(s, e) :=
        fold_left (fun '(s, e) offs => (getn offs s, getn offs e))
                  (removelast rest) (getn o0 0, getn o0 (length o0 - 1)) in
      slice s (e + 1) (last (o0 :: rest) [])
  end.

Definition wf_scalar (nbuf : nat) (a : listarr) : bool :=
  if Nat.ltb nbuf 2 then Nat.eqb (length (la_vals a)) 0
  else if Nat.ltb nbuf 3 then
    Nat.eqb (la_off a) 0 && Nat.leb (la_len a) (length (la_vals a))
    && match la_offs a with [] => true | _ => false end
  else wf_listarr a.

(* MultiPoint.intersects_bounds: result = zeros(1); kernel over
   offsets[:-1], offsets[1:] of buffer_outer_offsets; result[0] *)
Definition multipoint_scalar (nbuf : nat) (a : listarr) (b : box) : option bool :=
  if negb (wf_scalar nbuf a) then None else
  let offsets := outer_offsets_of (sc_buffer_offsets nbuf a) in
  match finite_vals (buffer_values a) with
  | Some vals =>
      Some (hd false (multipoints_intersect_bounds b vals (removelast offsets) (tl offsets)))
  | None => None
  end.

(* Line.intersects_bounds (Ring inherits it) *)
Definition line_scalar (nbuf : nat) (a : listarr) (b : box) : option bool :=
  if negb (wf_scalar nbuf a) then None else
  let offsets := outer_offsets_of (sc_buffer_offsets nbuf a) in
  match finite_vals (buffer_values a) with
  | Some vals =>
      Some (hd false (lines_intersect_bounds b vals (removelast offsets) (tl offsets)))
  | None => None
  end.

(* MultiLine.intersects_bounds: lines_intersect_bounds over the element's lines; .any() *)
Definition multiline_scalar (nbuf : nat) (a : listarr) (b : box) : option bool :=
  if negb (wf_scalar nbuf a) then None else
  let offsets := outer_offsets_of (sc_buffer_offsets nbuf a) in
  match finite_vals (buffer_values a) with
  | Some vals =>
      Some (existsb (fun r => r)
                    (lines_intersect_bounds b vals (removelast offsets) (tl offsets)))
  | None => None
  end.

(* Polygon.intersects_bounds: offsets1 = buffer_inner_offsets; start [0];
   stop [len(offsets1) - 1]; result[0] *)
Definition polygon_scalar (nbuf : nat) (a : listarr) (b : box) : option bool :=
  if negb (wf_scalar nbuf a) then None else
  let offsets1 := inner_offsets_of (sc_buffer_offsets nbuf a) in
  match finite_vals (buffer_values a) with
  | Some vals =>
      Some (hd false (polygons_intersect_bounds b vals [0%nat] [(length offsets1 - 1)%nat]
                                                offsets1))
  | None => None
  end.

(* MultiPolygon.intersects_bounds: if len(self.buffer_offsets) < 2: return False
   (the empty multipolygon; repaired by "fix:" commit aea1afe);
   offsets1, offsets2 = self.buffer_offsets (ValueError = None when more than two);
   offsets0 = [0, len(offsets1) - 1]; result[0] *)
Definition multipolygon_scalar (nbuf : nat) (a : listarr) (b : box) : option bool :=
  if negb (wf_scalar nbuf a) then None else
  match sc_buffer_offsets nbuf a with
  | [] | [_] => Some false
  | [offsets1; offsets2] =>
      match finite_vals (buffer_values a) with
      | Some vals =>
          let offsets0 := [0%nat; (length offsets1 - 1)%nat] in
          Some (hd false (multipolygons_intersect_bounds b vals (removelast offsets0)
                                                         (tl offsets0) offsets1 offsets2))
      | None => None
      end
  | _ => None
  end.

(* Point.intersects_bounds on flat_values = [x, y] *)
Definition point_scalar (p : num * num) (b : box) : option bool :=
  match p with
  | (Some x, Some y) => Some (point_test b (Some (x, y)))
  | _ => None
  end.

(* =====================================================================
   what the correspondence check evaluates: one array, several boxes, the
   whole-array form and the form restricted to [inds]; result bits packed
   ===================================================================== *)
Definition array_fn := listarr -> box -> option (list nat) -> option (list bool).

Definition run_array {A} (f : A -> box -> option (list nat) -> option (list bool))
           (c : A * list nat * list box) : list (option (list bool) * option (list bool)) :=
  let '(a, inds, boxes) := c in
  map (fun b => (f a b None, f a b (Some inds))) boxes.

Definition run_scalar (f : nat -> listarr -> box -> option bool)
           (c : nat * listarr * list box) : list (option bool) :=
  let '(nbuf, a, boxes) := c in map (f nbuf a) boxes.

Definition run_point_scalar (c : (num * num) * list box) : list (option bool) :=
  let '(p, boxes) := c in map (point_scalar p) boxes.

(* packed results (a leading 1 keeps the length): fewer characters to parse *)
Definition pack_bits (l : list bool) : Z :=
  fold_left (fun acc (b : bool) => 2 * acc + (if b then 1 else 0)) l 1.

Definition run_array_packed {A} (f : A -> box -> option (list nat) -> option (list bool))
           (c : A * list nat * list box) : list (option Z * option Z) :=
  map (fun '(r1, r2) => (option_map pack_bits r1, option_map pack_bits r2)) (run_array f c).

Definition pack_opts (l : list (option bool)) : option Z := option_map pack_bits (all_some l).

Definition run_scalar_packed (f : nat -> listarr -> box -> option bool)
           (c : nat * listarr * list box) : option Z := pack_opts (run_scalar f c).

Definition run_point_scalar_packed (c : (num * num) * list box) : option Z :=
  pack_opts (run_point_scalar c).

(* whole-array form only *)
Definition run_array1_packed {A} (f : A -> box -> option (list nat) -> option (list bool))
           (c : A * list box) : list (option Z) :=
  let '(a, boxes) := c in map (fun b => option_map pack_bits (f a b None)) boxes.
