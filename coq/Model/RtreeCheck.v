(* Glue of the C03 correspondence check: compact encodings of the results of
   Model/Rtree.v (so that the case files stay small) and the enumerations the
   harness shares with the model.  No proofs.  Nothing here is part of the
   model: every function only calls [build], [intersects], [covers_overlaps],
   [total_bounds], [start_index], [stop_index], [leaf_start_of], [tree_len]. *)
From Coq Require Import ZArith List Bool Arith.
From SP Require Import Model.Num Model.Rtree.
Import ListNotations.

(* a set of row numbers as the integer sum of 2^i (order-independent canonical
   form; a duplicate shows as a carry) *)
Definition mask (l : list nat) : Z :=
  fold_left (fun a i => (a + 2 ^ Z.of_nat i)%Z) l 0%Z.

(* (intersects, covers, overlaps) of one query packed in one integer *)
Definition pack3 (n : nat) (a b c : list nat) : Z :=
  let s := (2 ^ Z.of_nat n)%Z in
  (mask a + s * (mask b + s * mask c))%Z.

Definition query_packed (T : rtree) (n : nat) (q : list Z) : Z :=
  let (cv, ov) := covers_overlaps T q in pack3 n (intersects T q) cv ov.

(* an index build and a batch of queries:
   (_bounds_tree, total_bounds, packed results per query) *)
Definition rtree_case_packed (c : nat * list row * list nat * nat * list (list Z))
  : list row * row * list Z :=
  let '(d, rows, keys, page_size, queries) := c in
  let T := build d rows keys page_size in
  (t_tree T, total_bounds T, map (query_packed T (length rows)) queries).

(* every 1-d query with corners in -1..7 (the half grid -0.5..3.5 scaled by 2),
   in the order of harness/c03_util.py:all_queries_1d *)
Definition grid1 : list Z := [-1; 0; 1; 2; 3; 4; 5; 6; 7]%Z.
Definition all_queries_1d : list (list Z) :=
  flat_map (fun a => map (fun b => [a; b]) grid1) grid1.

Definition rtree_case_1d (c : list row * list nat * nat) : list row * row * list Z :=
  let '(rows, keys, page_size) := c in
  rtree_case_packed (1, rows, keys, page_size, all_queries_1d).

(* shape of the tree over n rows: (tree length, _leaf_start()) *)
Definition shape_case (c : nat * nat) : nat * nat :=
  let (n, ps) := c in
  let T := build 1 (repeat [Some 0%Z; Some 0%Z] n) (seq 0 n) ps in
  (tree_len T, leaf_start_of T).

(* node -> (start_index, stop_index) for every node *)
Definition node_ranges_case (c : nat * nat) : list (nat * nat) :=
  let (n, ps) := c in
  let T := build 1 (repeat [Some 0%Z; Some 0%Z] n) (seq 0 n) ps in
  map (fun node => (start_index T node, stop_index T node)) (seq 0 (tree_len T)).

(* ---- public-API comparison: the model runs with the identity permutation as
   [keys]; by C03_independent the index sets and total_bounds do not depend on
   the permutation (for rows with min <= max), so no internal of the real index
   is needed ---- *)
Definition rtree_case_public (c : nat * list row * nat * list (list Z)) : row * list Z :=
  let '(d, rows, page_size, queries) := c in
  let T := build d rows (seq 0 (length rows)) page_size in
  (total_bounds T, map (query_packed T (length rows)) queries).

Definition rtree_case_public_1d (c : list row * nat) : row * list Z :=
  let (rows, page_size) := c in
  rtree_case_public (1, rows, page_size, all_queries_1d).

(* ---- optional, internals-based: the tree array for the exported keys ---- *)
Definition tree_case (c : nat * list row * list nat * nat) : list row :=
  let '(d, rows, keys, page_size) := c in
  t_tree (build d rows keys page_size).
