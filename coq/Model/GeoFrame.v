(* C20 — the active geometry column: bookkeeping of GeoDataFrame._geometry as a
   state machine over frame operations.  Transcribes
     spatialpandas/geodataframe.py   (GeoDataFrame.__init__, _constructor,
        _constructor_from_mgr, __finalize__, set_geometry, _has_valid_geometry,
        geometry, cx, build_sindex)
     spatialpandas/geoseries.py      (_constructor_expanddim_from_mgr)
     spatialpandas/dask.py           (DaskGeoDataFrame.geometry, set_geometry,
        partition_sindex, cx, _with_hilbert_distance_column, pack_partitions,
        build_sindex, meta_nonempty_dataframe, make_meta_dataframe)
     spatialpandas/io/parquet.py     (read_parquet, _perform_read_parquet_dask geometry=)
     spatialpandas/tools/sjoin.py    (_record_reset_index, _sjoin_pandas_pandas: which
        columns are read)
   What pandas / Dask do between the repo's hooks is NOT transcribed; it is a fixed
   table [pop_class] / [dop_class] of propagation classes, every row of which the
   correspondence run checks against the real pandas / Dask.
   No proofs in this file. *)
From Coq Require Import List Bool String Arith.
Import ListNotations.
Local Open Scope string_scope.
Local Open Scope list_scope.

(* ------------------------------------------------------------------ *)
(* frames                                                               *)
(* ------------------------------------------------------------------ *)

(* dtype of a column: a spatialpandas GeometryDtype of some kind, or anything else *)
Inductive ckind := KPlain | KGeom (k : nat).

Definition col := (string * ckind)%type.

(* type(frame).__name__ : pandas.DataFrame | spatialpandas.GeoDataFrame *)
Inductive fcls := CPlain | CGeo.

(* [f_act] is the instance attribute GeoDataFrame._geometry (class default None);
   for a plain DataFrame it is kept at None *)
Record frame := mkFrame { f_cols : list col; f_cls : fcls; f_act : option string }.

Definition is_geom (k : ckind) : bool :=
  match k with KGeom _ => true | KPlain => false end.

Fixpoint lookup (cs : list col) (n : string) : option ckind :=
  match cs with
  | [] => None
  | (m, k) :: t => if String.eqb m n then Some k else lookup t n
  end.

(* `name in self` *)
Definition has_col (cs : list col) (n : string) : bool :=
  match lookup cs n with Some _ => true | None => false end.

(* `name in self and isinstance(self[name].dtype, GeometryDtype)` *)
Definition is_geom_col (cs : list col) (n : string) : bool :=
  match lookup cs n with Some k => is_geom k | None => false end.

(* any(isinstance(block.dtype, GeometryDtype) for block in mgr.blocks) *)
Definition any_geom (cs : list col) : bool :=
  existsb (fun c => is_geom (snd c)) cs.

Definition names (cs : list col) : list string := map fst cs.

Fixpoint mem (n : string) (l : list string) : bool :=
  match l with [] => false | m :: t => String.eqb m n || mem n t end.

Fixpoint nodup_names (l : list string) : bool :=
  match l with [] => true | m :: t => negb (mem m t) && nodup_names t end.

(* column labels are unique (asserted by the correspondence run on every real frame) *)
Definition wf_cols (cs : list col) : bool := nodup_names (names cs).
Definition wf_frame (f : frame) : bool := wf_cols (f_cols f).

(* Python truthiness of a column label (labels are strings here) *)
Definition truthy (s : string) : bool := negb (String.eqb s "").

Definition is_geo (f : frame) : bool :=
  match f_cls f with CGeo => true | CPlain => false end.

Definition plain_of (cs : list col) : frame := mkFrame cs CPlain None.

(* ------------------------------------------------------------------ *)
(* geodataframe.py                                                      *)
(* ------------------------------------------------------------------ *)

(* GeoDataFrame._has_valid_geometry *)
Definition has_valid_geometry (f : frame) : bool :=
  match f_act f with
  | Some g => is_geom_col (f_cols f) g
  | None => false
  end.

(* GeoDataFrame.geometry: the label of the column returned; None = raises ValueError.
   On a plain DataFrame `.geometry` is an AttributeError (or an unrelated column):
   reported as None as well. *)
Definition geometry (f : frame) : option string :=
  match f_cls f with
  | CPlain => None
  | CGeo => if has_valid_geometry f then f_act f else None
  end.

(* set_geometry(geometry, inplace=True); None = raises ValueError *)
Definition set_geometry_inplace (f : frame) (g : string) : option frame :=
  if is_geom_col (f_cols f) g
  then Some (mkFrame (f_cols f) (f_cls f) (Some g))
  else None.

(* the loop of __init__:  first_geometry_col = first_geometry_col or col
   (`or`: a falsy label already found is replaced by the next geometry column) *)
Fixpoint first_geometry_col_from (acc : option string) (cs : list col) : option string :=
  match cs with
  | [] => acc
  | (n, k) :: t =>
      if is_geom k then
        first_geometry_col_from
          (match acc with
           | Some a => if truthy a then Some a else Some n
           | None => Some n
           end) t
      else first_geometry_col_from acc t
  end.

Definition first_geometry_col (cs : list col) : option string :=
  first_geometry_col_from None cs.

(* GeoDataFrame.__init__(data, geometry=geometry) where data is a frame (a dict of
   columns is the plain frame of those columns); None = raises ValueError *)
Definition gdf_init (data : frame) (geom : option string) : option frame :=
  let cs := f_cols data in
  match first_geometry_col cs with
  | None => None                               (* no geometry column at all *)
  | Some first =>
      let g1 :=
        match geom with
        | Some g => Some g
        | None =>
            (* isinstance(data, GeoDataFrame) and data._has_valid_geometry() *)
            if is_geo data && has_valid_geometry data then f_act data else None
        end in
      let g2 := match g1 with Some g => g | None => first end in
      (* self._geometry = None; self.set_geometry(geometry, inplace=True) *)
      set_geometry_inplace (mkFrame cs CGeo None) g2
  end.

(* _MaybeGeoDataFrame.__new__ (= GeoDataFrame._constructor):
   GeoDataFrame(data) or, on ValueError, pd.DataFrame(data) *)
Definition maybe_geodataframe (data : frame) : frame :=
  match gdf_init data None with
  | Some f => f
  | None => plain_of (f_cols data)
  end.

(* (gdf.columns == "geometry").sum() *)
Fixpoint count_named (n : string) (cs : list col) : nat :=
  match cs with
  | [] => 0
  | (m, _) :: t => (if String.eqb m n then 1 else 0) + count_named n t
  end.

(* GeoDataFrame._constructor_from_mgr *)
Definition constructor_from_mgr (cs : list col) : frame :=
  if negb (any_geom cs) then plain_of cs
  else if Nat.eqb (count_named "geometry" cs) 1
       then mkFrame cs CGeo (Some "geometry")
       else mkFrame cs CGeo None.

(* <type of src>._constructor_from_mgr: pandas' own for a plain DataFrame *)
Definition from_mgr (src : frame) (cs : list col) : frame :=
  match f_cls src with
  | CPlain => plain_of cs
  | CGeo => constructor_from_mgr cs
  end.

(* NDFrame.__finalize__(self=res, other=src) with src an NDFrame:
   for name in set(self._metadata) & set(other._metadata): copy *)
Definition pandas_finalize (res src : frame) : frame :=
  match f_cls res, f_cls src with
  | CGeo, CGeo => mkFrame (f_cols res) CGeo (f_act src)
  | _, _ => res
  end.

(* set-of-values of obj._geometry over the GeoDataFrames among objs *)
Definition opt_eqb (a b : option string) : bool :=
  match a, b with
  | Some x, Some y => String.eqb x y
  | None, None => true
  | _, _ => false
  end.

Fixpoint omem (a : option string) (l : list (option string)) : bool :=
  match l with [] => false | b :: t => opt_eqb b a || omem a t end.

Fixpoint dedup (l : list (option string)) : list (option string) :=
  match l with
  | [] => []
  | a :: t => if omem a t then dedup t else a :: dedup t
  end.

Definition concat_names (objs : list frame) : list (option string) :=
  dedup (map f_act (filter is_geo objs)).

(* GeoDataFrame.__finalize__(result, other, method="concat") — runs only when the
   result is a GeoDataFrame *)
Definition finalize_concat (res : frame) (objs : list frame) : frame :=
  match f_cls res with
  | CPlain => res
  | CGeo =>
      match concat_names objs with
      | [Some name] =>
          if has_col (f_cols res) name
          then mkFrame (f_cols res) CGeo (Some name)
          else res
      | _ => res
      end
  end.

(* outer union of the column labels in order of first appearance *)
Fixpoint union_cols (acc : list col) (cs : list col) : list col :=
  match cs with
  | [] => acc
  | c :: t => if has_col acc (fst c) then union_cols acc t
              else union_cols (acc ++ [c]) t
  end.

Definition concat_cols (objs : list frame) : list col :=
  fold_left (fun acc f => union_cols acc (f_cols f)) objs [].

(* pd.concat(objs) along the rows; objs[0] is pandas' `sample`:
   out = sample._constructor_from_mgr(...); out.__finalize__(ns(objs=objs), "concat").
   None = raises (no objects). *)
Definition concat_frames (objs : list frame) : option frame :=
  match objs with
  | [] => None
  | sample :: _ =>
      Some (finalize_concat (from_mgr sample (concat_cols objs)) objs)
  end.

(* ------------------------------------------------------------------ *)
(* pandas operations and their propagation class                        *)
(* ------------------------------------------------------------------ *)

Inductive pclass :=
| Finalize      (* result = src._constructor_from_mgr(..).__finalize__(src) *)
| CtorOnly      (* the operand is rebuilt with src._constructor_from_mgr(..), nothing copied
                   (merge: followed by an axis-1 concat of the rebuilt operand) *)
| ConcatStyle   (* result = objs[0]._constructor_from_mgr(..).__finalize__(objs, "concat") *)
| Repo.         (* a method of the repo itself, transcribed above           *)

Inductive pop :=
(* rows change, columns stay *)
| OIlocSlice | OIlocList | OLocMask | OLocLabels | OBoolMask | OHead | OTail
| OSortValues | OSortIndex | OCopyDeep | OCopyShallow | OPickle | OCx
(* columns change *)
| OSubset (ns : list string)       (* df[[...]] *)
| ODrop (ns : list string)         (* df.drop(columns=[...]) *)
| OAssign (n : string)             (* df.assign(n=<plain values>), n a new label *)
| ORename (old new : string)       (* df.rename(columns={old: new}) *)
| OResetIndex (n : string)         (* df.reset_index(): the index becomes the first column n *)
| OMerge (n : string) (ident : bool)
    (* df.merge(<plain frame with the key and a new column n>, on=key); ident = every row of
       df is matched exactly once, in order (pandas then keeps `left[:]` instead of
       re-indexing the left manager) *)
| OConcat (before after : list frame)   (* pd.concat(before ++ [df] ++ after) *)
(* the repo's own methods *)
| OSetGeometry (g : string) (inplace : bool)
| OGeoInit                         (* GeoDataFrame(df) *)
| OConstructor.                    (* df._constructor(df) = _MaybeGeoDataFrame(df) *)

(* THE TABLE: which pandas code path each operation takes *)
Definition pop_class (o : pop) : pclass :=
  match o with
  | OIlocSlice | OIlocList | OLocMask | OLocLabels | OBoolMask | OHead | OTail
  | OSortValues | OSortIndex | OCopyDeep | OCopyShallow | OPickle | OCx
  | OSubset _ | ODrop _ | OAssign _ | ORename _ _ | OResetIndex _ => Finalize
  | OMerge _ _ => CtorOnly
  | OConcat _ _ => ConcatStyle
  | OSetGeometry _ _ | OGeoInit | OConstructor => Repo
  end.

Fixpoint select_cols (cs : list col) (ns : list string) : option (list col) :=
  match ns with
  | [] => Some []
  | n :: t =>
      match lookup cs n, select_cols cs t with
      | Some k, Some r => Some ((n, k) :: r)
      | _, _ => None                                   (* KeyError *)
      end
  end.

Fixpoint all_in (cs : list col) (ns : list string) : bool :=
  match ns with [] => true | n :: t => has_col cs n && all_in cs t end.

Definition rename_cols (cs : list col) (old new : string) : list col :=
  map (fun c => if String.eqb (fst c) old then (new, snd c) else c) cs.

(* columns of the result; None = the operation raises *)
Definition pop_cols (o : pop) (cs : list col) : option (list col) :=
  match o with
  | OSubset ns => select_cols cs ns
  | ODrop ns => if all_in cs ns
                then Some (filter (fun c => negb (mem (fst c) ns)) cs)
                else None                               (* KeyError *)
  | OAssign n => if has_col cs n then None (* not generated *) else Some (cs ++ [(n, KPlain)])
  | ORename old new => Some (rename_cols cs old new)
  | OResetIndex n => if has_col cs n then None (* ValueError: cannot insert *)
                     else Some ((n, KPlain) :: cs)
  | OMerge n _ => if has_col cs n then None (* not generated *) else Some (cs ++ [(n, KPlain)])
  | _ => Some cs
  end.

Definition apply_pop (o : pop) (f : frame) : option frame :=
  match o with
  | OSetGeometry g inplace =>
      match f_cls f with
      | CPlain => None                                  (* AttributeError *)
      | CGeo =>
          if inplace then set_geometry_inplace f g
          else if is_geom_col (f_cols f) g then gdf_init f (Some g) else None
      end
  | OGeoInit => gdf_init f None
  | OConstructor =>
      (* pd.DataFrame._constructor is pd.DataFrame itself *)
      match f_cls f with
      | CPlain => Some (plain_of (f_cols f))
      | CGeo => Some (maybe_geodataframe f)
      end
  | OMerge n ident =>
      (* pandas _MergeOperation._reindex_and_concat:
           left = self.left[:]                                   (finalize)
           if the left indexer is not the identity range:
               left = left._constructor_from_mgr(reindexed mgr)  (constructor only)
           result = concat([left, right], axis=1)                (concat-style, sample = left)
         then result.__finalize__(ns(input_objs=[left, right]), method="merge"): no _metadata *)
      match pop_cols o (f_cols f) with
      | None => None
      | Some cs =>
          let l0 := pandas_finalize (from_mgr f (f_cols f)) f in
          let l1 := if ident then l0 else from_mgr l0 (f_cols f) in
          Some (finalize_concat (from_mgr l1 cs) [l1; plain_of [(n, KPlain)]])
      end
  | OConcat before after => concat_frames (before ++ [f] ++ after)
  | OCx =>
      (* GeoDataFrame.cx: _CoordinateIndexer(self.geometry.array, parent=self), then
         parent.iloc[inds] / parent[mask] / parent *)
      match geometry f with
      | None => None
      | Some _ => Some (pandas_finalize (from_mgr f (f_cols f)) f)
      end
  | _ =>
      match pop_cols o (f_cols f) with
      | None => None
      | Some cs =>
          match pop_class o with
          | CtorOnly => Some (from_mgr f cs)
          | _ => Some (pandas_finalize (from_mgr f cs) f)
          end
      end
  end.

(* what the correspondence run observes of a frame:
   (isinstance GeoDataFrame, _geometry, .geometry.name or None if it raises,
    [(label, has a GeometryDtype)]) *)
Definition obs := (bool * option string * option string * list (string * bool))%type.

Definition observe (f : frame) : obs :=
  (is_geo f, f_act f, geometry f, map (fun c => (fst c, is_geom (snd c))) (f_cols f)).

(* observations after each step; a raising step is None and ends the run *)
Fixpoint run_pops (f : frame) (ops : list pop) : list (option obs) :=
  match ops with
  | [] => []
  | o :: t =>
      match apply_pop o f with
      | None => [None]
      | Some f' => Some (observe f') :: run_pops f' t
      end
  end.

Fixpoint exec_pops (f : frame) (ops : list pop) : option frame :=
  match ops with
  | [] => Some f
  | o :: t => match apply_pop o f with None => None | Some f' => exec_pops f' t end
  end.

(* geoseries.py GeoSeries._constructor_expanddim_from_mgr (to_frame, reset_index of a
   GeoSeries): geo_col_name is a *list* when there is exactly one geometry column, so
   df[geo_col_name] is a DataFrame without .dtype and the branch taken is always
   GeoDataFrame(df) *)
Definition expanddim_from_mgr (cs : list col) : option frame :=
  if any_geom cs then gdf_init (plain_of cs) None else Some (plain_of cs).

(* ------------------------------------------------------------------ *)
(* which column the spatial operations of a pandas frame read           *)
(* ------------------------------------------------------------------ *)

(* GeoDataFrame.cx -> self.geometry.array *)
Definition cx_reads (f : frame) : option string := geometry f.
(* GeoDataFrame.build_sindex -> self.geometry.build_sindex *)
Definition build_sindex_reads (f : frame) : option string := geometry f.

(* sjoin._record_reset_index: df.copy(deep=True); rename index; reset_index(drop=False) *)
Definition record_reset_index (f : frame) (n : string) : option frame :=
  match apply_pop OCopyDeep f with
  | None => None
  | Some f1 => apply_pop (OResetIndex n) f1
  end.

(* _sjoin_pandas_pandas: left_df.geometry (sindex, array), right_df.geometry (array,
   bounds) and the dropped right_df.geometry.name, all taken after _record_reset_index;
   (label read on the left, label read on the right) *)
Definition sjoin_reads (l r : frame) (il ir : string) : option (string * string) :=
  match record_reset_index r ir, record_reset_index l il with
  | Some r1, Some l1 =>
      match geometry l1, geometry r1 with
      | Some gl, Some gr => Some (gl, gr)
      | _, _ => None
      end
  | _, _ => None
  end.

(* ------------------------------------------------------------------ *)
(* Dask frames                                                          *)
(* ------------------------------------------------------------------ *)

(* a partition is what computing it gives: Some frame, or None when it raises *)
Record dframe := mkD { d_meta : frame; d_parts : list (option frame) }.

Definition omap_pop (o : pop) (p : option frame) : option frame :=
  match p with None => None | Some f => apply_pop o f end.

(* dask.py make_meta_dataframe: df.head(0) *)
Definition make_meta (f : frame) : option frame := apply_pop OHead f.

(* dask.py meta_nonempty_dataframe:
     result = GeoDataFrame(meta_nonempty(pd.DataFrame(df.head(0))))
     if df._has_valid_geometry(): result.set_geometry(df._geometry, inplace=True) *)
Definition meta_nonempty (f : frame) : option frame :=
  match f_cls f with
  | CPlain => Some f
  | CGeo =>
      match gdf_init (plain_of (f_cols f)) None with
      | None => None
      | Some r =>
          if has_valid_geometry f then
            match f_act f with
            | Some g => set_geometry_inplace r g
            | None => Some r
            end
          else Some r
      end
  end.

Fixpoint repeat_part (p : option frame) (n : nat) : list (option frame) :=
  match n with O => [] | S k => p :: repeat_part p k end.

(* dd.from_pandas(f, npartitions=n): meta = make_meta(f), partitions = f.iloc[a:b] *)
Definition from_pandas (f : frame) (n : nat) : option dframe :=
  match make_meta f with
  | None => None
  | Some m => Some (mkD m (repeat_part (apply_pop OIlocSlice f) n))
  end.

Fixpoint sequence (l : list (option frame)) : option (list frame) :=
  match l with
  | [] => Some []
  | None :: _ => None
  | Some f :: t => match sequence t with None => None | Some r => Some (f :: r) end
  end.

(* dask methods.concat: a single frame is returned as it is *)
Definition dask_methods_concat (fs : list frame) : option frame :=
  match fs with
  | [f] => Some f
  | _ => concat_frames fs
  end.

(* ddf.compute(): repartition to one partition = methods.concat of the partitions *)
Definition dcompute (d : dframe) : option frame :=
  match sequence (d_parts d) with
  | None => None
  | Some fs => dask_methods_concat fs
  end.

Fixpoint select_parts (ps : list (option frame)) (sel : list nat) : list (option frame) :=
  match sel with
  | [] => []
  | i :: t => nth i ps None :: select_parts ps t
  end.

Inductive dclass :=
| MetaFromMeta      (* meta = op(meta), partitions = op(partition)            *)
| MetaFromNonempty  (* meta = make_meta(op(meta_nonempty(meta))), partitions = op(partition) *)
| MetaKept          (* meta passed explicitly: unchanged                      *)
| Shuffle           (* partitions are split and re-assembled with methods.concat *)
| DRepo.

Inductive dop :=
| DSubset (ns : list string)        (* ddf[[...]] *)
| DMask                             (* ddf[ddf.v > k] *)
| DLocAll                           (* ddf.loc[lo:hi] over the whole known index range *)
| DAssign (n : string)
| DDrop (ns : list string)
| DRename (old new : string)
| DResetIndex (n : string)
| DCopy | DPersist | DPickle        (* same graph / same partitions *)
| DPartitions (sel : list nat)      (* ddf.partitions[sel] *)
| DMapIdentity                      (* ddf.map_partitions(lambda df: df) *)
| DConcatSelf                       (* dd.concat([ddf, ddf]) *)
| DSortValues (nout : nat)          (* nout = npartitions of the result *)
| DSetIndex (n : string) (nout : nat)
| DRepartition (nout : nat)
| DPackPartitions (nout : nat)
| DCx (sel : list nat)              (* sel = partitions whose extent meets the box *)
| DCxPartitions (sel : list nat)
| DBuildSindex
| DSetGeometry (g : string).

(* THE TABLE for Dask *)
Definition dop_class (o : dop) : dclass :=
  match o with
  | DSubset _ | DMask | DLocAll | DAssign _ | DDrop _ | DRename _ _ | DResetIndex _
  | DCopy | DPersist | DPickle | DPartitions _ => MetaFromMeta
  | DMapIdentity | DConcatSelf => MetaFromNonempty
  | DSortValues _ | DSetIndex _ _ | DRepartition _ => Shuffle
  | DPackPartitions _ | DCx _ | DCxPartitions _ | DBuildSindex | DSetGeometry _ => DRepo
  end.

(* the pandas operation applied to the meta and to each partition *)
Definition dop_pop (o : dop) : pop :=
  match o with
  | DSubset ns => OSubset ns
  | DMask => OBoolMask
  | DLocAll => OLocLabels
  | DAssign n => OAssign n
  | DDrop ns => ODrop ns
  | DRename a b => ORename a b
  | DResetIndex n => OResetIndex n
  | DSetIndex n _ => ODrop [n]
  | DSortValues _ => OSortValues
  | _ => OCopyShallow
  end.

(* a shuffled output partition: pieces of the input partitions (each an
   op(partition)) re-assembled with pd.concat; when an output happens to be built
   from one piece only, dask's methods.concat returns the piece itself — the two
   coincide whenever the partitions agree on a valid active geometry, which is
   the only situation in which the correspondence run applies a Shuffle operation *)
Definition shuffle_parts (o : pop) (ps : list (option frame)) (nout : nat)
  : list (option frame) :=
  let piece :=
    match sequence (map (omap_pop o) ps) with
    | None => None
    | Some fs => concat_frames fs
    end in
  repeat_part piece nout.

(* DaskGeoDataFrame.partition_sindex / _partition_bounds key: self._meta.geometry.name *)
Definition partition_sindex_key (d : dframe) : option string := geometry (d_meta d).

(* None = the call itself raises (meta creation is eager) *)
Definition apply_dop (o : dop) (d : dframe) : option dframe :=
  let m := d_meta d in
  let ps := d_parts d in
  match o with
  | DSetGeometry g =>
      (* if geometry != self._meta._geometry: map_partitions(lambda df: df.set_geometry(g)) *)
      match f_cls m with
      | CPlain => None
      | CGeo =>
          if opt_eqb (Some g) (f_act m) then Some d
          else
            match meta_nonempty m with
            | None => None
            | Some mn =>
                match apply_pop (OSetGeometry g false) mn with
                | None => None
                | Some m1 =>
                    match make_meta m1 with
                    | None => None
                    | Some m2 => Some (mkD m2 (map (omap_pop (OSetGeometry g false)) ps))
                    end
                end
            end
      end
  | DBuildSindex =>
      (* map_partitions(lambda df: df.build_sindex() and df, meta=self._meta) *)
      match f_cls m with
      | CPlain => None
      | CGeo =>
          Some (mkD m (map (fun p => match p with
                                     | Some f => match build_sindex_reads f with
                                                 | Some _ => Some f | None => None end
                                     | None => None end) ps))
      end
  | DCx sel =>
      (* _DaskCoordinateIndexer(self, self.partition_sindex): partitions chosen by the
         extents of the column named by the META, rows by each partition's own cx;
         from_delayed(meta=ddf._meta) *)
      match partition_sindex_key d with
      | None => None
      | Some _ =>
          match sel with
          | [] => from_pandas m 1                (* dd.from_pandas(self._obj._meta, 1) *)
          | _ => Some (mkD m (map (omap_pop OCx) (select_parts ps sel)))
          end
      end
  | DCxPartitions sel =>
      match partition_sindex_key d with
      | None => None
      | Some _ =>
          match sel with
          | [] => from_pandas m 1
          | _ => Some (mkD m (select_parts ps sel))
          end
      end
  | DPackPartitions nout =>
      (* _with_hilbert_distance_column: frame = self.reset_index(drop=True) when the index is
         already named hilbert_distance (same state); geometry = frame.geometry (meta's name);
         assign(hilbert_distance=..); set_index('hilbert_distance', shuffle_method='tasks');
         repartition *)
      match partition_sindex_key d with
      | None => None
      | Some _ => Some (mkD m (shuffle_parts OCopyShallow ps nout))
      end
  | DPartitions sel => Some (mkD m (select_parts ps sel))
  | DMapIdentity =>
      match meta_nonempty m with
      | None => None
      | Some mn => match make_meta mn with
                   | None => None
                   | Some m1 => Some (mkD m1 ps)
                   end
      end
  | DConcatSelf =>
      (* Concat._meta = make_meta(methods.concat([meta_nonempty(df._meta) for df in frames])) *)
      match meta_nonempty m with
      | None => None
      | Some mn =>
          match concat_frames [mn; mn] with
          | None => None
          | Some mc => match make_meta mc with
                       | None => None
                       | Some m1 => Some (mkD m1 (ps ++ ps))
                       end
          end
      end
  | DSortValues nout | DSetIndex _ nout | DRepartition nout =>
      match apply_pop (dop_pop o) m with
      | None => None
      | Some m1 => Some (mkD m1 (shuffle_parts (dop_pop o) ps nout))
      end
  | _ =>
      match apply_pop (dop_pop o) m with
      | None => None
      | Some m1 => Some (mkD m1 (map (omap_pop (dop_pop o)) ps))
      end
  end.

(* io/parquet.py read_parquet: GeoDataFrame(<plain frame read by pyarrow>) *)
Definition read_parquet (cs : list col) : option frame := gdf_init (plain_of cs) None.

(* io/parquet.py _perform_read_parquet_dask(geometry=g): n pieces.
   read_partition: df = read_parquet(piece); if geometry: df = df.set_geometry(geometry)
   meta = GeoDataFrame(meta); if geometry: meta = meta.set_geometry(geometry);
   geometry = meta.geometry.name *)
Definition read_parquet_dask (cs : list col) (g : option string) (n : nat) : option dframe :=
  let with_geometry (f : option frame) : option frame :=
    match g with
    | Some gn => if truthy gn then omap_pop (OSetGeometry gn false) f else f
    | None => f
    end in
  match with_geometry (read_parquet cs) with
  | None => None
  | Some m =>
      match geometry m with
      | None => None
      | Some _ => Some (mkD m (repeat_part (with_geometry (read_parquet cs)) n))
      end
  end.

(* what is observed of a Dask frame: (meta, partitions or None where one raises,
   compute()) *)
Definition dobs := (obs * list (option obs) * option obs)%type.

Definition omap_obs (p : option frame) : option obs :=
  match p with Some f => Some (observe f) | None => None end.

Definition dobserve (d : dframe) : dobs :=
  (observe (d_meta d), map omap_obs (d_parts d), omap_obs (dcompute d)).

Fixpoint run_dops (d : dframe) (ops : list dop) : list (option dobs) :=
  match ops with
  | [] => []
  | o :: t =>
      match apply_dop o d with
      | None => [None]
      | Some d' => Some (dobserve d') :: run_dops d' t
      end
  end.

Fixpoint exec_dops (d : dframe) (ops : list dop) : option dframe :=
  match ops with
  | [] => Some d
  | o :: t => match apply_dop o d with None => None | Some d' => exec_dops d' t end
  end.

(* which columns Dask's spatial operations read *)
(* cx: (partition selection, row filter inside each selected partition) *)
Definition dcx_reads (d : dframe) : option string * list (option string) :=
  (partition_sindex_key d,
   map (fun p => match p with Some f => cx_reads f | None => None end) (d_parts d)).
(* pack_partitions / pack_partitions_to_parquet Hilbert key *)
Definition pack_key_reads (d : dframe) : option string := geometry (d_meta d).
(* sjoin(ddf, right): left_ddf.geometry.partition_bounds, then per partition sjoin *)
Definition dsjoin_reads (d : dframe) : option string := geometry (d_meta d).

(* ------------------------------------------------------------------ *)
(* entry points of the correspondence run                               *)
(* ------------------------------------------------------------------ *)

(* pandas: the data is a dict of columns -> GeoDataFrame(dict) is the first step *)
Definition run_pandas (c : list col * list pop) : option (list (option obs)) :=
  if wf_cols (fst c) then Some (run_pops (plain_of (fst c)) (snd c)) else None.

(* dask: GeoDataFrame(dict), pandas steps, from_pandas(n), dask steps *)
Definition run_dask (c : list col * list pop * nat * list dop)
  : option (option dobs * list (option dobs)) :=
  let '(cs, pops, n, dops) := c in
  if wf_cols cs then
    match exec_pops (plain_of cs) pops with
    | None => None
    | Some f =>
        match from_pandas f n with
        | None => Some (None, [])
        | Some d => Some (Some (dobserve d), run_dops d dops)
        end
    end
  else None.

(* parquet: read_parquet_dask(path, geometry=g) of a dataset of n pieces *)
Definition run_read_parquet_dask (c : list col * option string * nat * list dop)
  : option (option dobs * list (option dobs)) :=
  let '(cs, g, n, dops) := c in
  if wf_cols cs then
    match read_parquet_dask cs g n with
    | None => Some (None, [])
    | Some d => Some (Some (dobserve d), run_dops d dops)
    end
  else None.

(* ------------------------------------------------------------------ *)
(* the PUBLIC part of the observations: the private attribute _geometry is left out
   (is GeoDataFrame, .geometry.name or None if it raises, [(label, has a GeometryDtype)]);
   this is what the verdict of the correspondence run is based on *)
Definition pobs := (bool * option string * list (string * bool))%type.

Definition pub_obs (o : obs) : pobs :=
  let '(g, _, nm, cs) := o in (g, nm, cs).

Definition pdobs := (pobs * list (option pobs) * option pobs)%type.

Definition pub_dobs (d : dobs) : pdobs :=
  let '(m, ps, c) := d in (pub_obs m, map (option_map pub_obs) ps, option_map pub_obs c).

Definition run_pandas_pub (c : list col * list pop) : option (list (option pobs)) :=
  option_map (map (option_map pub_obs)) (run_pandas c).

Definition pub_dres (r : option dobs * list (option dobs)) : option pdobs * list (option pdobs) :=
  (option_map pub_dobs (fst r), map (option_map pub_dobs) (snd r)).

Definition run_dask_pub (c : list col * list pop * nat * list dop) :=
  option_map pub_dres (run_dask c).

Definition run_read_parquet_dask_pub (c : list col * option string * nat * list dop) :=
  option_map pub_dres (run_read_parquet_dask c).

Definition expanddim_obs (cs : list col) : option obs :=
  match expanddim_from_mgr cs with Some f => Some (observe f) | None => None end.

Definition expanddim_obs_pub (cs : list col) : option pobs := option_map pub_obs (expanddim_obs cs).
