(* C09 — DaskGeoDataFrame.pack_partitions.  Transcribes
     spatialpandas/dask.py   pack_partitions, _compute_packing_npartitions,
                             _with_hilbert_distance_column
   What the repo does itself: take the total bounds of the WHOLE frame once, give
   every row the Hilbert distance of its own bounds row against these bounds
   (GeoSeries.hilbert_distance -> GeometryArray.hilbert_distance ->
   _distances_from_bounds, elementwise: properties C07 / C08), hand the keyed frame to
   Dask's set_index, and to repartition when the partition count differs.
   Dask's set_index / repartition are parameters with contracts (Spec/DaskSpec.v),
   checked on the real Dask by harness/c09.py.  No proofs in this file.

   A row here is the payload of a frame row (all columns, the geometry values
   included).  The index of the input frame is not part of it: set_index replaces the
   index by the key (a stale 'hilbert_distance' index of an already packed frame is
   dropped first, `reset_index(drop=True)`, so that the new key is used). *)
From Coq Require Import ZArith NArith List Bool Arith.
From SP Require Import Model.Num Model.Bounds Model.DaskModel.
Import ListNotations.

(* _compute_packing_npartitions: max(nrows // 2**23, 8) when not given *)
Definition compute_packing_npartitions (npartitions : option N) (nrows : N) : N :=
  match npartitions with
  | Some n => n
  | None => N.max (N.div nrows (2 ^ 23)) 8
  end.

Section Pack.
  Variable R : Type.
  Variable rbox : R -> bbox.            (* the row of geometry.bounds (active geometry) *)
  (* s.hilbert_distance(total_bounds, p) at one row: a function of the row's bounds
     row only (the C08 model: centre of the box -> _data2coord against total_bounds
     -> distance_from_coordinate) *)
  Variable hkey : bbox -> nat -> bbox -> N.
  (* ddf.set_index('hilbert_distance', npartitions=n, shuffle_method=...) *)
  Variable set_index : (R * N -> N) -> N -> list (list (R * N)) -> list (list (R * N)).
  (* ddf.repartition(npartitions=n) *)
  Variable repartition : N -> list (list (R * N)) -> list (list (R * N)).

  (* _with_hilbert_distance_column:
       total_bounds = geometry.total_bounds                  (whole frame, once)
       assign(hilbert_distance=geometry.map_partitions(
           lambda s: s.hilbert_distance(total_bounds=total_bounds, p=p))) *)
  Definition with_hilbert_distance_column (parts : list (list R)) (p : nat)
    : list (list (R * N)) :=
    let tb := dask_total_bounds R rbox parts in
    map (map (fun r => (r, hkey tb p (rbox r)))) parts.

  Definition nparts {A} (parts : list (list A)) : N := N.of_nat (length parts).
  Definition nrows {A} (parts : list (list A)) : N := N.of_nat (length (concat parts)).

  (* pack_partitions *)
  Definition pack_partitions (parts : list (list R)) (npartitions : option N) (p : nat)
    : list (list (R * N)) :=
    let n := compute_packing_npartitions npartitions (nrows parts) in
    let ddf := with_hilbert_distance_column parts p in
    let ddf := set_index snd n ddf in
    if negb (N.eqb (nparts ddf) n) then repartition n ddf else ddf.

  (* the same on the pandas frame: every row with its key against the frame's own
     total bounds *)
  Definition keyed_rows (rows : list R) (p : nat) : list (R * N) :=
    let tb := pandas_total_bounds R rbox rows in
    map (fun r => (r, hkey tb p (rbox r))) rows.
End Pack.

(* ------------------------------------------------------------------ *)
(* what the correspondence check evaluates                              *)
(* ------------------------------------------------------------------ *)
Fixpoint sortedN (l : list N) : bool :=
  match l with
  | a :: ((b :: _) as t) => N.leb a b && sortedN t
  | _ => true
  end.

Fixpoint insertN (x : N * nat) (l : list (N * nat)) : list (N * nat) :=
  match l with
  | [] => [x]
  | y :: t =>
      if (N.ltb (fst x) (fst y) || (N.eqb (fst x) (fst y) && Nat.leb (snd x) (snd y)))%bool
      then x :: l else y :: insertN x t
  end.
Definition sortN (l : list (N * nat)) : list (N * nat) := fold_right insertN [] l.

Fixpoint eqb_kl (a b : list (N * nat)) : bool :=
  match a, b with
  | [], [] => true
  | (k, i) :: t, (k', i') :: t' => N.eqb k k' && Nat.eqb i i' && eqb_kl t t'
  | _, _ => false
  end.

(* one real packing: the input partitions as (row id, bounds row, key recomputed
   independently for this row), the output partitions as (row id, index value), the
   requested partition count.  Result: the model's global total bounds, and whether
   the three contracts hold of the real output: same multiset of (key, row id) as the
   model's keyed rows; keys non-decreasing within and across partitions; count. *)
Definition c09_case (c : list (list (nat * bbox * N)) * list (list (nat * N)) * N)
  : bbox * bool * bool * bool :=
  let '(inp, outp, n) := c in
  let tb := dask_total_bounds (nat * bbox * N) (fun r => snd (fst r)) inp in
  let keyed := map (fun r : nat * bbox * N => (snd r, fst (fst r))) (concat inp) in
  let got := map (fun r : nat * N => (snd r, fst r)) (concat outp) in
  (tb, eqb_kl (sortN keyed) (sortN got), sortedN (map fst got),
   N.eqb (N.of_nat (length outp)) n).
