(* C06, histories: several Dask collections alive in one process.

   dask-expr keeps ONE expression per name (a weak registry: a name leaves it when the
   last collection using it is garbage collected) and dd.from_pandas(frame, npartitions)
   names its expression after dask.tokenize.tokenize(frame, ...).  spatialpandas takes
   part in that through its normalize_token handlers (spatialpandas/dask.py:
   normalize_geodataframe, and whatever handler exists for the geometry arrays).  What a
   caller of from_pandas gets back is therefore the collection registered under the
   token of the frame, which need not have been made from THAT frame.

   F = pandas frames as values (index, columns, geometry content, active geometry),
   T = tokens.  No proofs in this file. *)
From Coq Require Import List Bool.
Import ListNotations.

Section Registry.
  Variable F : Type.
  Variable T : Type.
  Variable tok : F -> T.
  Variable T_eq_dec : forall a b : T, {a = b} + {a <> b}.

  (* name -> the frame the expression registered under that name holds; newest first *)
  Definition registry := list (T * F).

  Fixpoint lookup (r : registry) (t : T) : option F :=
    match r with
    | [] => None
    | (u, g) :: r' => if T_eq_dec t u then Some g else lookup r' t
    end.

  (* dd.from_pandas(f): the expression alive under f's name if there is one, else a new
     expression holding f.  Result: the registry and the frame the returned collection
     computes to (compute = concatenation of the partitions = the frame it holds) *)
  Definition from_pandas (r : registry) (f : F) : registry * F :=
    match lookup r (tok f) with
    | Some g => (r, g)
    | None => ((tok f, f) :: r, f)
    end.

  (* the collections named t are garbage collected *)
  Definition drop (r : registry) (t : T) : registry :=
    filter (fun e => if T_eq_dec (fst e) t then false else true) r.

  Inductive op := FromPandas (f : F) | Drop (t : T).

  (* a history of from_pandas calls and collections going away; per from_pandas call the
     pair (frame passed in, frame the returned collection holds) *)
  Fixpoint run (r : registry) (h : list op) : list (F * F) :=
    match h with
    | [] => []
    | FromPandas f :: h' => let (r', g) := from_pandas r f in (f, g) :: run r' h'
    | Drop t :: h' => run (drop r t) h'
    end.
End Registry.

Arguments FromPandas {F T} f.
Arguments Drop {F T} t.
