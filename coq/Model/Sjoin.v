(* spatialpandas/tools/sjoin.py: sjoin (argument validation), _record_reset_index,
   _sjoin_pandas_pandas (name-clash check, the loop over the right frame that
   builds the (_key_left, _key_right) pair table, the three merge chains).

   What is modelled how
   * a frame is: its index kind and name(s), its column names in order, the name
     of its active geometry column, and its rows by *position* (0 .. n-1).  The
     left geometry is the exported PointArray ([fixarr]); the right geometries are
     the scalars [right_geom[i]] ([None] = missing) as Model/PointShape.v sees them.
   * [left_geom.intersects(shape, inds=...)] is PointShape.array_intersects.
   * [right_df.geometry.bounds] row i is [shape_bounds] of element i (the tight
     extent, C13); the correspondence check compares it with the real rows.
   * [sindex.intersects(bounds)] is a parameter [cand] of the loop (C03 owns the
     R-tree); the executable instance [cand_scan] is the linear scan with the
     comparisons of _NumbaRtree.intersects (IEEE: false on NaN), i.e. what C03
     proves the tree returns, as a set.  The output of the join does not depend
     on the order of the candidates (the check compares sorted rows).
   * pandas [merge] is a parameter [mrg : merge_op] of the chains; the executable
     instance [merge_rel] is the relational join (pandas' contract up to row
     order).  An output row is (position of the left row | missing, position of
     the right row | missing); the harness checks on the real frames that every
     value of an output row is the value of these source rows.
   * column names: pandas' suffix rule (_items_overlap_with_suffix), set_index
     and drop with their KeyErrors, transcribed in [suffix_cols], [set_index],
     [drop_cols].
   Outside the model ([None]): non-finite coordinates, duplicate column names
   inside one frame, a user column called _key_left / _key_right.
   Executable only; no proofs here. *)
From Coq Require Import ZArith List Bool Arith String DecimalString.
From SP Require Import Model.Num Model.Arrow Model.Bounds Model.PointKernels Model.PointShape.
Import ListNotations.

(* ------------------------------------------------------------------ *)
(* names *)

Definition sapp (a b : string) : string := String.append a b.

(* f"{l}" for a level number *)
Definition dec (n : nat) : string := NilEmpty.string_of_uint (Nat.to_uint n).

Definition mem (s : string) (l : list string) : bool := existsb (String.eqb s) l.

Definition key_left : string := "_key_left".
Definition key_right : string := "_key_right".

(* df.index: a plain Index with its name, or a MultiIndex with its names *)
Inductive index_kind : Type :=
| IxPlain (name : option string)
| IxMulti (names : list (option string)).

Record fmeta := {
  fm_index : index_kind;
  fm_cols : list string;        (* df.columns, in order, the geometry column included *)
  fm_geom : string              (* df.geometry.name *)
}.

(* _record_reset_index: (old_index_name, new_column_name).
   try: old = [df.index.name]; df.index.rename("index_<suffix>")
   - a plain Index: succeeds;
   - a MultiIndex with one level: rename(str) succeeds as well, and
     MultiIndex.name is None whatever the level is called;
   - a MultiIndex with >= 2 levels: TypeError, the except branch numbers the levels. *)
Definition record_reset_index (ix : index_kind) (suffix : string)
  : list (option string) * list string :=
  match ix with
  | IxPlain nm => ([nm], [sapp "index_" suffix])
  | IxMulti names =>
      match names with
      | [_] => ([None], [sapp "index_" suffix])
      | _ => (names, map (fun l => sapp (sapp "index_" suffix) (dec l)) (seq 0 (List.length names)))
      end
  end.

(* any(original_left_df.columns.isin(index_left + index_right)) or any(original_right_df...) *)
Definition name_clash (lcols rcols index_left index_right : list string) : bool :=
  existsb (fun c => mem c (index_left ++ index_right)) lcols ||
  existsb (fun c => mem c (index_left ++ index_right)) rcols.

(* ------------------------------------------------------------------ *)
(* the loop over the right frame *)

(* IEEE <: false as soon as an operand is NaN *)
Definition num_lt (a b : num) : bool :=
  match a, b with Some x, Some y => Z.ltb x y | _, _ => false end.
Definition num_isnan (a : num) : bool := match a with None => true | Some _ => false end.

(* outside_mask of one row of the left bounds for the query box (rtree.py
   _NumbaRtree.intersects): isnan(row[0]) | row[d+n] < q[d] | row[d] > q[d+n] *)
Definition box_outside (q r : bbox) : bool :=
  let '(qx0, qy0, qx1, qy1) := q in
  let '(rx0, ry0, rx1, ry1) := r in
  num_isnan rx0 || num_lt rx1 qx0 || num_lt qx1 rx0 || num_lt ry1 qy0 || num_lt qy1 ry0.

(* the rows the index answers with, as a linear scan in row order *)
Definition cand_scan (lb : list bbox) (q : bbox) : list nat :=
  map fst (filter (fun ir => negb (box_outside q (snd ir))) (combine (seq 0 (List.length lb)) lb)).

(* right_df.geometry.bounds.values[i, :] for a non-missing element *)
Definition shape_bounds (s : shape) : bbox :=
  match s with
  | ShPoint x y => total_bounds_interleaved [x; y]
  | ShMultiPoint b | ShLine b | ShMultiLine b | ShPolygon b | ShMultiPolygon b =>
      total_bounds_interleaved (sb_flat_values b)
  end.

Definition right_bounds (right : list (option shape)) : list bbox :=
  map (fun s => match s with None => nanbox | Some sh => shape_bounds sh end) right.

Section Loop.
  Variable cand : bbox -> list nat.      (* sindex.intersects *)
  Variable a : fixarr.                   (* left_df.geometry.array *)

  (* one iteration: intersecting_inds of right row i *)
  Definition row_matches (s : option shape) : option (outcome (list nat)) :=
    match s with
    | None => Some (Value [])                       (* if right_geom[i] is None: continue *)
    | Some sh =>
        let c := cand (shape_bounds sh) in
        match c with
        | [] => Some (Value [])                     (* if len(candidate_inds) > 0: *)
        | _ =>
            match array_intersects a sh (Some c) with
            | None => None
            | Some RaisesEmptyLine => Some RaisesEmptyLine
            | Some (Value mask) =>                  (* candidate_inds[intersecting_mask] *)
                Some (Value (map fst (filter snd (combine c mask))))
            end
        end
    end.

  (* for i in range(len(right_df)); np.concatenate(left_inds), np.concatenate(right_inds) *)
  Fixpoint pairs_from (i : nat) (right : list (option shape))
    : option (outcome (list (nat * nat))) :=
    match right with
    | [] => Some (Value [])
    | s :: t =>
        match row_matches s with
        | None => None
        | Some RaisesEmptyLine => Some RaisesEmptyLine
        | Some (Value ls) =>
            match pairs_from (S i) t with
            | None => None
            | Some RaisesEmptyLine => Some RaisesEmptyLine
            | Some (Value ps) => Some (Value (map (fun l => (l, i)) ls ++ ps))
            end
        end
    end.

  (* (_key_left, _key_right) *)
  Definition pair_table (right : list (option shape)) := pairs_from 0 right.
End Loop.

(* ------------------------------------------------------------------ *)
(* pandas merge on an integer key: the relational join *)

Inductive how : Type := Inner | Left | Right.

Section Merge.
  Context {A B : Type}.
  Variable ka : A -> option nat.    (* key of a left row; None = NaN (matches nothing here:
                                       the other side's key is always a RangeIndex) *)
  Variable kb : B -> option nat.

  Definition key_match (x : A) (y : B) : bool :=
    match ka x, kb y with
    | Some i, Some j => Nat.eqb i j
    | _, _ => false
    end.

  Definition merge_rel (h : how) (la : list A) (lb : list B) : list (option A * option B) :=
    match h with
    | Inner =>
        flat_map (fun x => map (fun y => (Some x, Some y)) (filter (key_match x) lb)) la
    | Left =>
        flat_map (fun x => match filter (key_match x) lb with
                           | [] => [(Some x, None)]
                           | m => map (fun y => (Some x, Some y)) m
                           end) la
    | Right =>
        flat_map (fun y => match filter (fun x => key_match x y) la with
                           | [] => [(None, Some y)]
                           | m => map (fun x => (Some x, Some y)) m
                           end) lb
    end.
End Merge.

(* any implementation of merge: key of the left rows, key of the right rows, how *)
Definition merge_op : Type :=
  forall (A B : Type), (A -> option nat) -> (B -> option nat) -> how -> list A -> list B ->
                       list (option A * option B).

Definition merge_rel_op : merge_op := fun A B ka kb h la lb => merge_rel ka kb h la lb.

(* an output row: position of the left row, position of the right row *)
Definition orow := (option nat * option nat)%type.

(* the three merge chains on rows.  [nl] = len(left_df), [nr] = len(right_df);
   after reset_index both frames carry a RangeIndex, so "left_index=True" /
   "right_index=True" is the join on the row position. *)
Definition join_rows (mrg : merge_op) (h : how) (nl nr : nat) (pairs : list (nat * nat))
  : list orow :=
  match h with
  | Right =>
      (* result.merge(right_df, left_on="_key_right", right_index=True, how="right") *)
      let m1 := mrg _ _ (fun p : nat * nat => Some (snd p)) (fun r : nat => Some r)
                    Right pairs (seq 0 nr) in
      (* left_nogeom.merge(m1, left_index=True, right_on="_key_left", how="right");
         _key_left of a row of m1 without pair is NaN *)
      let m2 := mrg _ _ (fun l : nat => Some l)
                    (fun x : option (nat * nat) * option nat =>
                       match fst x with Some p => Some (fst p) | None => None end)
                    Right (seq 0 nl) m1 in
      map (fun o => (fst o, match snd o with Some x => snd x | None => None end)) m2
  | _ =>
      (* left_df.merge(result.set_index("_key_left"), left_index=True, right_index=True[, how="left"]) *)
      let m1 := mrg _ _ (fun l : nat => Some l) (fun p : nat * nat => Some (fst p))
                    h (seq 0 nl) pairs in
      (* .merge(right_nogeom, left_on="_key_right", right_index=True[, how="left"]);
         _key_right of a row of m1 without pair is NaN *)
      let m2 := mrg _ _ (fun x : option nat * option (nat * nat) =>
                           match snd x with Some p => Some (snd p) | None => None end)
                    (fun r : nat => Some r) h m1 (seq 0 nr) in
      map (fun o => (match fst o with Some x => fst x | None => None end, snd o)) m2
  end.

(* ------------------------------------------------------------------ *)
(* column names *)

(* pandas Index.duplicated(): True at the second and later occurrences *)
Fixpoint duplicated_from (seen l : list string) : list bool :=
  match l with
  | [] => []
  | x :: t => mem x seen :: duplicated_from (x :: seen) t
  end.
Definition duplicated (l : list string) : list bool := duplicated_from [] l.
Definition has_dup (l : list string) : bool := existsb (fun b => b) (duplicated l).

(* labels[(labels.duplicated()) & (~orig.duplicated())] is non-empty *)
Definition new_dups (orig labels : list string) : bool :=
  existsb (fun p => fst p && negb (snd p)) (combine (duplicated labels) (duplicated orig)).

Definition renamer (to_rename : list string) (suffix x : string) : string :=
  if mem x to_rename then sapp x suffix else x.

(* pandas.core.reshape.merge._items_overlap_with_suffix(left, right, (lsfx, rsfx)),
   both suffixes non-empty strings.  None = MergeError *)
Definition suffix_cols (lsfx rsfx : string) (left right : list string)
  : option (list string * list string) :=
  let to_rename := filter (fun c => mem c right) left in
  match to_rename with
  | [] => Some (left, right)
  | _ =>
      let llabels := map (renamer to_rename lsfx) left in
      let rlabels := map (renamer to_rename rsfx) right in
      let dups :=
        new_dups left llabels || new_dups right rlabels ||
        existsb (fun c => mem c right && negb (mem c to_rename)) llabels ||
        existsb (fun c => mem c left && negb (mem c to_rename)) rlabels in
      if dups then None else Some (llabels, rlabels)
  end.

Definition remove_all (xs l : list string) : list string := filter (fun c => negb (mem c xs)) l.

(* DataFrame.set_index(keys) on the columns: None = KeyError (a key is not a column) *)
Definition set_index (keys cols : list string) : option (list string) :=
  if forallb (fun k => mem k cols) keys then Some (remove_all keys cols) else None.

(* DataFrame.drop(labels, axis=1): None = KeyError *)
Definition drop_cols (labels cols : list string) : option (list string) :=
  if forallb (fun k => mem k cols) labels then Some (remove_all labels cols) else None.

Inductive err : Type :=
| ErrSuffixEqual      (* ValueError: lsuffix and rsuffix must not be equal *)
| ErrNameClash        (* ValueError: ... cannot be column names in the GeoDataFrames being joined *)
| ErrEmptyLine        (* ValueError / StopIteration of an empty (sub-)line, from point.py *)
| ErrMerge            (* pandas MergeError: suffixes cause duplicate columns *)
| ErrKey.             (* pandas KeyError from set_index / drop *)

(* name under which column [c] of the list [cols] appears in [labels] (same position) *)
Fixpoint renamed_as (c : string) (cols labels : list string) : string :=
  match cols, labels with
  | x :: t, y :: u => if String.eqb x c then y else renamed_as c t u
  | _, _ => c
  end.

(* columns of the joined frame and the name of the surviving geometry column *)
Definition join_cols (h : how) (lsuffix rsuffix : string) (lm rm : fmeta)
           (index_left index_right : list string) : err + (list string * string) :=
  let lsfx := sapp "_" lsuffix in
  let rsfx := sapp "_" rsuffix in
  let lcols := index_left ++ fm_cols lm in          (* after reset_index *)
  let rcols := index_right ++ fm_cols rm in
  match h with
  | Right =>
      match drop_cols [fm_geom lm] lcols with
      | None => inl ErrKey
      | Some lside =>
          let rside := [key_left; key_right] ++ rcols in
          match suffix_cols lsfx rsfx lside rside with
          | None => inl ErrMerge
          | Some (ll, rl) =>
              match set_index index_right (ll ++ rl) with
              | None => inl ErrKey
              | Some cols =>
                  match drop_cols [key_left; key_right] cols with
                  | None => inl ErrKey
                  | Some cols' => inr (cols', renamed_as (fm_geom rm) rside rl)
                  end
              end
          end
      end
  | _ =>
      match drop_cols [fm_geom rm] rcols with
      | None => inl ErrKey
      | Some rside =>
          let lside := lcols ++ [key_right] in
          match suffix_cols lsfx rsfx lside rside with
          | None => inl ErrMerge
          | Some (ll, rl) =>
              match set_index index_left (ll ++ rl) with
              | None => inl ErrKey
              | Some cols =>
                  match drop_cols [key_right] cols with
                  | None => inl ErrKey
                  | Some cols' => inr (cols', renamed_as (fm_geom lm) lside ll)
                  end
              end
          end
      end
  end.

(* ------------------------------------------------------------------ *)
(* sjoin *)

Record jres := {
  j_rows : list orow;                      (* the joined frame, row by row *)
  j_cols : list string;                    (* its columns *)
  j_index_names : list (option string);    (* its index names *)
  j_geom : string;                         (* the geometry column that survived *)
  j_right_bounds : list bbox               (* right_df.geometry.bounds, as used by the loop *)
}.

Definition in_model (lm rm : fmeta) : bool :=
  negb (has_dup (fm_cols lm)) && negb (has_dup (fm_cols rm)) &&
  mem (fm_geom lm) (fm_cols lm) && mem (fm_geom rm) (fm_cols rm) &&
  negb (existsb (fun c => mem c [key_left; key_right]) (fm_cols lm ++ fm_cols rm)).

Definition sjoin (mrg : merge_op) (cand : fixarr -> bbox -> list nat)
           (h : how) (lsuffix rsuffix : string) (lm rm : fmeta)
           (a : fixarr) (right : list (option shape)) : option (err + jres) :=
  if negb (in_model lm rm && wf_fixarr a) then None
  else if String.eqb lsuffix rsuffix then Some (inl ErrSuffixEqual)
  else
    let '(right_index_name, index_right) := record_reset_index (fm_index rm) rsuffix in
    let '(left_index_name, index_left) := record_reset_index (fm_index lm) lsuffix in
    if name_clash (fm_cols lm) (fm_cols rm) index_left index_right then Some (inl ErrNameClash)
    else
      match pair_table (cand a) a right with
      | None => None
      | Some RaisesEmptyLine => Some (inl ErrEmptyLine)
      | Some (Value pairs) =>
          match join_cols h lsuffix rsuffix lm rm index_left index_right with
          | inl e => Some (inl e)
          | inr (cols, g) =>
              Some (inr {| j_rows := join_rows mrg h (fa_len a) (List.length right) pairs;
                           j_cols := cols;
                           j_index_names := match h with
                                            | Right => right_index_name
                                            | _ => left_index_name
                                            end;
                           j_geom := g;
                           j_right_bounds := right_bounds right |})
          end
      end.

(* ------------------------------------------------------------------ *)
(* what the correspondence check evaluates *)

(* canonical order of the output rows: None < Some 0 < Some 1 ..., lexicographic *)
Definition okey (o : option nat) : nat := match o with None => 0 | Some n => S n end.
Definition orow_leb (x y : orow) : bool :=
  Nat.ltb (okey (fst x)) (okey (fst y)) ||
  (Nat.eqb (okey (fst x)) (okey (fst y)) && Nat.leb (okey (snd x)) (okey (snd y))).
Fixpoint insert_orow (x : orow) (l : list orow) : list orow :=
  match l with
  | [] => [x]
  | y :: t => if orow_leb x y then x :: l else y :: insert_orow x t
  end.
Definition sort_orows (l : list orow) : list orow := fold_right insert_orow [] l.

Definition err_code (e : err) : nat :=
  match e with
  | ErrSuffixEqual => 1 | ErrNameClash => 2 | ErrEmptyLine => 3 | ErrMerge => 4 | ErrKey => 5
  end.

Definition scan_cand (a : fixarr) : bbox -> list nat := cand_scan (fa_bounds a).

Definition sjoin_case
  (c : how * string * string * fmeta * fmeta * fixarr * list (option shape))
  : option (nat + (list orow * list string * list (option string) * string * list bbox)) :=
  let '(h, ls, rs, lm, rm, a, rgeoms) := c in
  match sjoin merge_rel_op scan_cand h ls rs lm rm a rgeoms with
  | None => None
  | Some (inl e) => Some (inl (err_code e))
  | Some (inr r) =>
      Some (inr (sort_orows (j_rows r), j_cols r, j_index_names r, j_geom r, j_right_bounds r))
  end.
