(* spatialpandas/geometry/_algorithms/orientation.py (orient_polygons),
   PolygonArray.oriented (polygon.py), MultiPolygonArray.oriented (multipolygon.py)
   with the arithmetic the code really performs: the ring areas are binary64 values
   computed by compute_area (Model/FloatMeasures.v, bit exact) on np.float64(values[i]),
   and the rings are reversed in a buffer OF THE ARRAY'S OWN dtype (no value is ever
   converted on the way: the copy is a copy).  Executable definitions only.

   Model/Orient.v is the same function over exact integers (the images of scaled dyadic
   inputs); this file covers what that model cannot express:
     * float coordinates that are not small integers (many-digit decimals, tiny extents:
       areas of 1e-9 and far below, subnormal, overflowing, near 2^53): the decision
       "flip this ring" is  (area > 0) != expected_ccw  and  area != 0  on the binary64
       area, whatever its magnitude -- no tolerance, no threshold;
     * integer subtypes whose values are not representable in binary64 (|v| > 2^53 in an
       int64 array): the DECISION is taken on the rounded images, the VALUES that are
       moved are the integers themselves.
   The values have an arbitrary type A with a conversion [to_f : A -> float]
   (identity for float arrays -- float32 is widened exactly by the harness -- and
   [f_of_Z] for the signed-integer subtypes). *)
From Coq Require Import PrimFloat Uint63 List ZArith Bool Arith.
From SP Require Import Harness Model.Num Model.Arrow Model.Measures Model.Orient
  Model.FloatMeasures Spec.MeasuresSpec.
Import ListNotations.

(* np.float64(values[i]) of a signed-integer buffer: cvtsi2sd, round to nearest even.
   [of_uint63] is the correctly rounded conversion of a 63-bit natural number. *)
Definition f_of_Z (z : Z) : float :=
  if (z =? -9223372036854775808)%Z then PrimFloat.opp 0x1p+63%float
  else if (z <? 0)%Z then PrimFloat.opp (PrimFloat.of_uint63 (Uint63.of_Z (- z)))
  else PrimFloat.of_uint63 (Uint63.of_Z z).

(* xs = values[a:b:2]; ys = values[a+1:b:2];
   values[a:b:2] = xs[::-1]; values[a+1:b:2] = ys[::-1]   -- Orient.flip_ring at any type *)
Definition flip_ring_g {A} (vals : list A) (a b : nat) : list A :=
  let seg := slice a b vals in
  firstn a vals ++ interleave (rev (evens seg)) (rev (odds seg)) ++ skipn (a + length seg) vals.

(* areas[i] = compute_area(values, ring_offsets[i:i+2])     (binary64, halved) *)
Definition f_ring_areas (fv : list float) (ring_offs : list nat) : list float :=
  map (fun i => f_compute_area fv (slice i (i + 2) ring_offs))
      (seq 0 (length ring_offs - 1)).

(* ((areas > 0) != expected_ccw) & (areas != 0)       NaN: (NaN > 0) = False, (NaN != 0) = True *)
Definition f_flip_test (area : float) (ccw : bool) : bool :=
  negb (Bool.eqb (PrimFloat.ltb zero area) ccw) && negb (PrimFloat.eqb area zero).

(* flip_inds = np.nonzero(...): increasing ring indices, decided on the ORIGINAL values *)
Definition f_flip_inds (fv : list float) (poly_offs ring_offs : list nat) : list nat :=
  let num_rings := length ring_offs - 1 in
  let ccw := expected_ccw poly_offs ring_offs in
  let areas := f_ring_areas fv ring_offs in
  filter (fun i => f_flip_test (nth i areas nan) (nth i ccw false)) (seq 0 num_rings).

(* the loop over flip_starts / flip_stops *)
Definition orient_by {A} (vals : list A) (flips : list nat) (ring_offs : list nat) : list A :=
  fold_left (fun v i => flip_ring_g v (getn ring_offs i) (getn ring_offs (i + 1))) flips vals.

(* orient_polygons(values, polygon_offsets, ring_offsets): the mutated values *)
Definition f_orient_polygons {A} (to_f : A -> float) (vals : list A)
           (poly_offs ring_offs : list nat) : list A :=
  orient_by vals (f_flip_inds (map to_f vals) poly_offs ring_offs) ring_offs.

(* <Kind>Array.oriented(): the result's structure (values left out) and the two offset
   levels handed to orient_polygons *)
Definition oriented_frame (k : kind) (a : listarr) : option (listarr * list nat * list nat) :=
  match k, buffer_offsets a with
  | KPolygon, [po; ro] =>
      Some ({| la_off := 0; la_len := la_len a; la_valid := Some (map negb (la_isna a));
               la_offs := [po; ro]; la_vals := [] |}, po, ro)
  | KMultiPolygon, [mo; po; ro] =>
      Some ({| la_off := 0; la_len := la_len a; la_valid := Some (map negb (la_isna a));
               la_offs := [mo; po; ro]; la_vals := [] |}, po, ro)
  | _, _ => None
  end.

(* decoded elements of an array whose values buffer has type A: the positions are decoded
   by Spec.MeasuresSpec.decode_elems, then looked up *)
Definition positions (n : nat) : list num := map (fun i => Some (Z.of_nat i)) (seq 0 n).

Definition with_vals (a : listarr) (v : list num) : listarr :=
  {| la_off := la_off a; la_len := la_len a; la_valid := la_valid a;
     la_offs := la_offs a; la_vals := v |}.

Definition decode_with {A} (d : A) (k : kind) (a : listarr) (vals : list A)
  : list (option (list (list (list A)))) :=
  map (option_map (map (map (map (fun t : num =>
         match t with Some z => nth (Z.to_nat z) vals d | None => d end)))))
      (decode_elems k (with_vals a (positions (length vals)))).

(* what the correspondence check evaluates: the decoded elements of oriented() and of
   oriented().oriented();  None when the exported buffers are not well formed *)
Definition f_oriented_twice {A} (d : A) (to_f : A -> float) (k : kind) (a : listarr)
           (vals : list A) :=
  if f_wf a (map to_f vals) then
    match oriented_frame k a with
    | Some (b, po, ro) =>
        let v1 := f_orient_polygons to_f vals po ro in
        match oriented_frame k b with
        | Some (c, po2, ro2) =>
            let v2 := f_orient_polygons to_f v1 po2 ro2 in
            Some (decode_with d k b v1, decode_with d k c v2)
        | None => None
        end
    | None => None
    end
  else None.

(* float32 / float64 arrays (values widened exactly) and int16 / int32 / int64 arrays *)
Definition f_oriented_float (k : kind) (a : listarr) (vals : list float) :=
  f_oriented_twice nan (fun x => x) k a vals.
Definition f_oriented_int (k : kind) (a : listarr) (vals : list Z) :=
  f_oriented_twice 0%Z f_of_Z k a vals.

(* the binary64 ring areas the decision was taken on (for explanations and classification) *)
Definition f_oriented_areas {A} (to_f : A -> float) (k : kind) (a : listarr) (vals : list A)
  : list float :=
  match oriented_frame k a with
  | Some (_, _, ro) => f_ring_areas (map to_f vals) ro
  | None => []
  end.
