(* Bit-exact binary64 model of the numeric path of hilbert_distance:
     spatialpandas/utils.py:_data2coord
     spatialpandas/spatialindex/rtree.py:_distances_from_bounds
     spatialpandas/geometry/base.py:GeometryArray.hilbert_distance
     spatialpandas/geoseries.py:GeoSeries.hilbert_distance

   NUMBERS.  A float64 is a Coq primitive float ([PrimFloat.float], IEEE 754
   binary64, round to nearest even, evaluated by the kernel with the machine's
   own floating-point unit).  Every operation of the Python / numba code is ONE
   primitive operation here, in the order the source writes them; the compiled
   code (numba nopython, no fastmath) neither contracts  a*b+c  into an FMA nor
   reassociates nor folds  n / x_width  differently: checked on every run by
   harness/c08_float.py, which compares this model with the real code on
   arbitrary float64 inputs with no tolerance.

   Model/Data2Coord.v is the exact rational model of the same functions; it
   answers only in the exact-scaling regime.  Proofs/FloatData2CoordProofs.v
   shows that the two agree there.

   No proofs in this file. *)
From Coq Require Import PrimFloat Uint63 ZArith NArith List Bool String SpecFloat FloatOps.
From SP Require Import Harness Model.Hilbert.
Import ListNotations.
Local Open Scope Z_scope.

(* ---- conversions --------------------------------------------------------- *)
(* int64 -> float64 of an integer below 2^63 in magnitude (numba: sitofp); used for
   n = 2^p and n - 1 (p <= 31), where it is exact *)
Definition Z2float (z : Z) : float :=
  if z <? 0 then PrimFloat.opp (of_uint63 (Uint63.of_Z (- z))) else of_uint63 (Uint63.of_Z z).

(* Python float(int): round to nearest even (OverflowError beyond the float range is not
   modelled: the harness never passes such integers) *)
Definition int2float (z : Z) : float := SF2Prim (binary_normalize prec emax z 0 false).

Definition INT64_MIN : Z := - 2 ^ 63.

(* scaled.astype(np.int64)  (numba: fptosi; x86-64: cvttsd2si): truncation toward zero;
   NaN, +-inf and values outside the int64 range give the "integer indefinite"
   value INT64_MIN.  [Prim2SF x = S754_finite s m e] means x = (-1)^s * m * 2^e. *)
Definition float_to_int64 (x : float) : Z :=
  match Prim2SF x with
  | S754_zero _ => 0
  | S754_finite s m e =>
      let mag := if 0 <=? e then Z.pos m * 2 ^ e else Z.pos m / 2 ^ (- e) in
      let r := if s then - mag else mag in
      if (INT64_MIN <=? r) && (r <? 2 ^ 63) then r else INT64_MIN
  | S754_infinity _ | S754_nan => INT64_MIN
  end.

(* ---- _data2coord(vals, val_range, n) -----------------------------------
     x_width = val_range[1] - val_range[0]
     if x_width == 0:
         res = np.zeros(len(vals), dtype=np.int64)
         res[vals > val_range[1]] = n - 1
         return res
     scaled = (vals - val_range[0]) * (n / x_width)
     scaled[scaled < 0] = 0
     scaled[scaled > n - 1] = n - 1
     res = scaled.astype(np.int64)
     res[res < 0] = 0
     res[res > n - 1] = n - 1
   A range without extent (x_width is +0.0 or -0.0: beyond 2^53 the caller's widening of a zero
   extent by 1 is absorbed) puts values up to the single value of the range - and NaN, which
   fails the comparison - in cell 0 and values beyond it in cell n - 1.  A NaN width is not == 0
   and takes the general path: every scaled value is NaN.  There NaN fails both float
   comparisons, stays NaN, is converted to INT64_MIN and brought to 0 by the integer clip. *)
Definition f_scaled (v lo hi : float) (n : Z) : float :=
  let x_width := (hi - lo)%float in
  ((v - lo) * (Z2float n / x_width))%float.

Definition f_clip (scaled : float) (n : Z) : float :=
  let scaled := if (scaled <? 0)%float then 0%float else scaled in
  let scaled := if (Z2float (n - 1) <? scaled)%float then Z2float (n - 1) else scaled in
  scaled.

Definition i_clip (res n : Z) : Z :=
  let res := if res <? 0 then 0 else res in
  let res := if n - 1 <? res then n - 1 else res in
  res.

Definition f_data2coord (v lo hi : float) (n : Z) : Z :=
  if ((hi - lo) =? 0)%float then (if (hi <? v)%float then n - 1 else 0)
  else i_clip (float_to_int64 (f_clip (f_scaled v lo hi n) n)) n.

Definition f_data2coord_arr (vals : list float) (lo hi : float) (n : Z) : list Z :=
  map (fun v => f_data2coord v lo hi n) vals.

(* ---- _distances_from_bounds(bounds, total_bounds, p) --------------------
     n = bounds.shape[1] // 2                                   (= 2)
     dim_ranges = [(total_bounds[d], total_bounds[d+n]) for d in range(n)]
     for d in range(n):
         if dim_ranges[d][0] == dim_ranges[d][1]:
             dim_ranges[d] = (dim_ranges[d][0], dim_ranges[d][1] + 1)
     dim_mids = [(bounds[:, d] + bounds[:, d+n]) / 2.0 for d in range(n)]
     side_length = 2 ** p
     coords[:, d] = _data2coord(dim_mids[d], dim_ranges[d], side_length)
     return distances_from_coordinates(p, coords)                          *)
Definition frow := (float * float * float * float)%type.      (* x0, y0, x1, y1 *)

Definition f_widen (r : float * float) : float * float :=
  let '(lo, hi) := r in if (lo =? hi)%float then (lo, (hi + 1)%float) else (lo, hi).

(* can overflow to +-inf; inf + -inf = NaN *)
Definition f_mid (a b : float) : float := ((a + b) / 2)%float.

Inductive foutcome := FReturned (ds : list N) | FRaised (exc : string).

Definition f_distances_from_bounds (bounds : list frow) (tb : frow) (p : nat) : foutcome :=
  let '(tx0, ty0, tx1, ty1) := tb in
  let '(xlo, xhi) := f_widen (tx0, tx1) in
  let '(ylo, yhi) := f_widen (ty0, ty1) in
  let xmids := map (fun b : frow => let '(x0, _, x1, _) := b in f_mid x0 x1) bounds in
  let ymids := map (fun b : frow => let '(_, y0, _, y1) := b in f_mid y0 y1) bounds in
  let side_length := 2 ^ Z.of_nat p in
  let cxs := f_data2coord_arr xmids xlo xhi side_length in
  let cys := f_data2coord_arr ymids ylo yhi side_length in
  FReturned (map (fun c : Z * Z => distance_from_coordinate p [Z.to_N (fst c); Z.to_N (snd c)])
                 (combine cxs cys)).

(* the Hilbert distance of ONE row *)
Definition f_hd1 (tb : frow) (p : nat) (b : frow) : N :=
  let '(tx0, ty0, tx1, ty1) := tb in
  let '(xlo, xhi) := f_widen (tx0, tx1) in
  let '(ylo, yhi) := f_widen (ty0, ty1) in
  let '(x0, y0, x1, y1) := b in
  let side_length := 2 ^ Z.of_nat p in
  distance_from_coordinate p [Z.to_N (f_data2coord (f_mid x0 x1) xlo xhi side_length);
                              Z.to_N (f_data2coord (f_mid y0 y1) ylo yhi side_length)].

(* ---- GeometryArray.hilbert_distance(self, total_bounds=None, p=10) ------
     if total_bounds is None: total_bounds = self.total_bounds
     total_bounds = [float(b) for b in total_bounds]
     if total_bounds[0] == total_bounds[2]: total_bounds[2] += 1.0
     if total_bounds[1] == total_bounds[3]: total_bounds[3] += 1.0
     total_bounds = tuple(total_bounds)
     return _distances_from_bounds(self.bounds, total_bounds, p)            *)
Inductive fpyval := FPyInt (z : Z) | FPyFloat (x : float).

Definition f_to_float (v : fpyval) : float :=
  match v with FPyInt z => int2float z | FPyFloat x => x end.

(* what the call sees of the array: self.bounds, self.total_bounds *)
Definition f_hilbert_distance (bounds : list frow) (total : frow) (total_bounds : option (list fpyval))
           (p : nat) : foutcome :=
  let tbf := match total_bounds with
             | None => let '(a, b, c, d) := total in [a; b; c; d]
             | Some s => map f_to_float s
             end in
  match tbf with
  | t0 :: t1 :: t2 :: t3 :: _ =>
      let t2 := if (t0 =? t2)%float then (t2 + 1)%float else t2 in
      let t3 := if (t1 =? t3)%float then (t3 + 1)%float else t3 in
      f_distances_from_bounds bounds (t0, t1, t2, t3) p
  | _ => FRaised "IndexError"
  end.

(* GeoSeries.hilbert_distance(total_bounds=None, p=15): the array's, as a Series *)
Definition f_geoseries_hilbert_distance := f_hilbert_distance.

(* ---- comparison glue for the correspondence check ---------------------- *)
#[export] Instance EqbC_foutcome : EqbC foutcome :=
  fun a b => match a, b with
             | FReturned x, FReturned y => eqbc x y
             | FRaised x, FRaised y => eqbc x y
             | _, _ => false
             end.
