(* spatialpandas/dask.py: DaskGeoDataFrame.pack_partitions_to_parquet as a filesystem state
   machine.  Executable only; no proofs.

   The procedure is written once, over an abstract state type St, in terms of the nine
   functions the code decorates with @retryit plus the final read_parquet_dask (record
   [wrappers]); each wrapper body is written once in terms of the filesystem primitives it
   calls (record [prims]).  This file instantiates both with the fault-free filesystem of
   Model/FS.v ([pack]); Model/Retry.v instantiates them with a filesystem whose primitives
   fail according to a fault schedule and with the retry loop around each body. *)
From Coq Require Import ZArith List Bool Arith.
From SP Require Import Harness Model.FS.
Import ListNotations.

(* ------------------------------------------------------------------ a state/exception monad *)
Inductive outcome (St A : Type) :=
| OK (a : A) (s : St)      (* returned a in state s *)
| Err (s : St).            (* raised, leaving state s *)
Arguments OK {St A} a s.
Arguments Err {St A} s.

Definition M (St A : Type) := St -> outcome St A.

Definition ret {St A} (a : A) : M St A := fun s => OK a s.
Definition fail {St A} : M St A := fun s => Err s.
Definition bind {St A B} (m : M St A) (k : A -> M St B) : M St B :=
  fun s => match m s with OK a s' => k a s' | Err s' => Err s' end.

Notation "x <- m ;; k" := (bind m (fun x => k)) (at level 61, m at next level, right associativity).
Notation "m ;;; k" := (bind m (fun _ => k)) (at level 61, right associativity).

(* try: m except: None -- the state an exception leaves is kept *)
Definition try {St A} (m : M St A) : M St (option A) :=
  fun s => match m s with OK a s' => OK (Some a) s' | Err s' => OK None s' end.

(* for x in l: f x *)
Fixpoint miter {St A} (f : A -> M St unit) (l : list A) : M St unit :=
  match l with
  | [] => ret tt
  | x :: t => f x ;;; miter f t
  end.

(* [f x for x in l] *)
Fixpoint mmap {St A B} (f : A -> M St B) (l : list A) : M St (list B) :=
  match l with
  | [] => ret []
  | x :: t => y <- f x ;; ys <- mmap f t ;; ret (y :: ys)
  end.

(* ------------------------------------------------------------------ configuration *)
Inductive tmpmode :=
| TInside                      (* tempdir_format=None: os.path.join(path, "part.{partition}.parquet") *)
| TExternal (parent : path).   (* tempdir_format = <parent>/t{partition}; <parent> may contain the {uuid} *)

Record config := {
  c_path : path;            (* the dataset path *)
  c_k : nat;                (* npartitions *)
  c_tmp : tmpmode;
  c_overwrite : bool;
  c_iorder : list nat;      (* order in which dask runs the process_partition tasks *)
  c_corder : list nat;      (* order in which dask runs the concat_parts tasks *)
}.

(* part_output_paths[N] *)
Definition out_path (cfg : config) (N : nat) : path := c_path cfg ++ [NPart N].
(* parts_tmp_paths[N] = tempdir_format.format(partition=N, uuid=dataset_uuid) *)
Definition tmp_path (cfg : config) (N : nat) : path :=
  match c_tmp cfg with
  | TInside => c_path cfg ++ [NPart N]
  | TExternal t => t ++ [NTmp N]
  end.

(* The assignment: asg[i] = the output partitions that receive at least one row of input
   partition i, in the order df.groupby('_partition') yields them (ascending, distinct). *)
Definition assignment := list (list nat).

(* part_num_to_subparts.get(N, []): built from part_path_infos, which dask.compute returns
   in the order of the input partitions whatever the execution order *)
Fixpoint subparts_from (cfg : config) (asg : assignment) (i : nat) (N : nat) : list path :=
  match asg with
  | [] => []
  | outs :: t =>
      (if existsb (Nat.eqb N) outs then [tmp_path cfg N ++ [NSub i]] else [])
        ++ subparts_from cfg t (S i) N
  end.
Definition subparts (cfg : config) (asg : assignment) (N : nat) : list path :=
  subparts_from cfg asg 0 N.

(* ------------------------------------------------------------------ sorting a listing *)
(* [sorted(filesystem.ls(...))] sorts path strings.  All entries of a verified listing are
   "part<i>.parquet" files of one directory; the model orders them by i, which is the
   string order as long as i < 10 (beyond that only the order in which the sub-parts are
   read and concatenated differs, and the rows are sorted afterwards). *)
Definition name_key (a : name) : nat :=
  match a with NSub i => i | NPart n => n | NTmp n => n | _ => 0 end.
Definition path_leb (p q : path) : bool :=
  Nat.leb (name_key (last p NMeta)) (name_key (last q NMeta)).
Fixpoint insert_path (p : path) (l : list path) : list path :=
  match l with
  | [] => [p]
  | q :: t => if path_leb p q then p :: q :: t else q :: insert_path p t
  end.
Fixpoint sort_paths (l : list path) : list path :=
  match l with [] => [] | p :: t => insert_path p (sort_paths t) end.

(* ------------------------------------------------------------------ primitives and wrapper bodies *)
Record prims (St : Type) := {
  p_exists : path -> M St bool;
  p_isfile : path -> M St bool;
  p_isdir : path -> M St bool;
  p_info : path -> M St unit;
  p_ls : path -> M St (list path);
  p_find : path -> M St (list path);
  p_makedirs : path -> M St unit;
  p_rm : path -> M St unit;                  (* rm(path, recursive=True) under `except FileNotFoundError: pass` *)
  p_write : path -> content -> M St unit;     (* open(path,'wb') ... close *)
  p_read : path -> M St content;              (* open(path,'rb') and parse *)
  p_read_opt : path -> M St (option content); (* the same under `except FileNotFoundError` *)
  p_move : path -> path -> M St unit;
}.
Arguments p_exists {St}. Arguments p_isfile {St}. Arguments p_isdir {St}. Arguments p_info {St}.
Arguments p_ls {St}. Arguments p_find {St}. Arguments p_makedirs {St}. Arguments p_rm {St}.
Arguments p_write {St}. Arguments p_read {St}. Arguments p_read_opt {St}. Arguments p_move {St}.

Section Bodies.
Context {St : Type} (P : prims St).

(* rm_retry: the removal is attempted whatever an existence check would say (a
   FileNotFoundError of rm is swallowed: p_rm), then the path must be gone *)
Definition body_rm (p : path) : M St unit :=
  p_rm P p ;;;
  b <- p_exists P p ;;
  if b then fail (* ValueError: deletion not yet complete *) else ret tt.

(* mkdirs_retry *)
Definition body_mkdirs (p : path) : M St unit := p_makedirs P p.

(* write_partition(df_part, part_path) *)
Definition body_write_partition (p : path) (c : content) : M St unit := p_write P p c.

(* pyarrow reading one parquet file of a dataset: isfile + open/read; the file must parse *)
Definition pq_read_file (p : path) : M St (list cell) :=
  b <- p_isfile P p ;;
  if b then
    c <- p_read P p ;;
    match c with CRows cells => ret cells | _ => fail end
  else fail.

(* read_parquet(<list of files>): ParquetDataset inspects the first file for the schema
   (an error there is raised at once), then the scanner visits every file in the order
   given; an error on one file does not keep it from visiting the others, it is raised
   once all have been visited (recorded from the real library) *)
Definition pq_read_list (l : list path) : M St (list cell) :=
  match l with
  | [] => fail
  | p0 :: _ =>
      pq_read_file p0 ;;;
      rs <- mmap (fun p => try (pq_read_file p)) l ;;
      if forallb (fun r => match r with Some _ => true | None => false end) rs
      then ret (List.concat (map (fun r => match r with Some c => c | None => [] end) rs))
      else fail
  end.

(* read_parquet_retry(parts_tmp_path, subpart_paths, part_output_path) *)
Definition body_read_parquet (tmp : path) (subs : list path) (out : path) : M St (list cell) :=
  b1 <- p_isfile P out ;;
  shortcut <- (if b1 then (b2 <- p_isdir P tmp ;; ret (negb b2)) else ret false) ;;
  if shortcut then
    pq_read_list [out]
  else
    ls_res <- p_ls P tmp ;;
    let ls_res := sort_paths ls_res in
    if paths_perm_eqb subs ls_res (* sorted(subpart_paths_stripped) != ls_res *) then
      pq_read_list ls_res
    else fail (* ValueError: Filesystem not yet consistent *).

(* write_concatted_part(part_df, part_output_path, md_list) *)
Definition body_write_concatted (out : path) (cells : list cell) : M St unit :=
  p_write P out (CRows cells).

(* move_retry *)
Definition body_move (p1 p2 : path) : M St unit :=
  b <- p_exists P p1 ;;
  if b then p_move P p1 p2
  else
    b2 <- p_exists P p2 ;;
    if b2 then ret tt else fail (* ValueError: neither source nor target found *).

(* write_metadata_file *)
Definition body_write_metadata (ds : path) (parts : list (list cell)) : M St unit :=
  p_write P (ds ++ [NMeta]) (CMeta parts).

(* write_commonmetadata_file: the schema is taken from part.0.parquet *)
Definition body_write_common (ds : path) (parts : list (list cell)) : M St unit :=
  c <- p_read P (ds ++ [NPart 0]) ;;
  match c with
  | CRows _ => p_write P (ds ++ [NCommon]) (CCommon parts)
  | _ => fail
  end.

(* read_parquet_dask(path): the filesystem accesses it makes before returning the lazy
   frame (recorded from the real library; read-only).  Not retried. *)
Definition body_final_read (ds : path) : M St unit :=
  b <- p_exists P ds ;;
  if negb b then fail (* FileNotFoundError *) else
  d <- p_isdir P ds ;;
  if negb d then fail else
  files <- p_find P ds ;;
  let f0 := ds ++ [NPart 0] in
  if negb (existsb (path_eqb f0) files) then fail else
  pq_read_file f0 ;;;                         (* ParquetDataset(files): schema of the first *)
  cm <- p_read_opt P (ds ++ [NCommon]) ;;     (* _load_partition_bounds: a missing file is tolerated *)
  match cm with Some (CCommon _) | None => ret tt | _ => fail end ;;;
  d0 <- p_isdir P f0 ;;                       (* dd.read_parquet(files[0])._meta *)
  if d0 then fail else
  pq_read_file f0 ;;;
  pq_read_file f0 ;;;
  p_info P f0.
End Bodies.

(* ------------------------------------------------------------------ the procedure over the wrappers *)
Record wrappers (St : Type) := {
  w_rm : path -> M St unit;
  w_mkdirs : path -> M St unit;
  w_write_partition : path -> content -> M St unit;
  w_read_parquet : path -> list path -> path -> M St (list cell);
  w_write_concatted : path -> list cell -> M St unit;
  w_move : path -> path -> M St unit;
  w_write_metadata : path -> list (list cell) -> M St unit;
  w_write_common : path -> list (list cell) -> M St unit;
  w_final_read : path -> M St unit;
}.
Arguments w_rm {St}. Arguments w_mkdirs {St}. Arguments w_write_partition {St}.
Arguments w_read_parquet {St}. Arguments w_write_concatted {St}. Arguments w_move {St}.
Arguments w_write_metadata {St}. Arguments w_write_common {St}. Arguments w_final_read {St}.

Section Procedure.
Context {St : Type} (W : wrappers St).

(* process_partition(df, i) *)
Definition process_partition (cfg : config) (asg : assignment) (i : nat) : M St unit :=
  miter (fun N => w_write_partition W (tmp_path cfg N ++ [NSub i]) (CRows [(i, N)]))
        (nth i asg []).

(* concat_parts(parts_tmp_path, subpart_paths, part_output_path):
   None for an empty output, else the cells the written part holds *)
Definition concat_parts (tmp : path) (subs : list path) (out : path) : M St (option (list cell)) :=
  match subs with
  | [] =>
      w_rm W tmp ;;;
      w_rm W out ;;;
      ret None
  | _ =>
      cells <- w_read_parquet W tmp subs out ;;
      w_rm W tmp ;;;
      w_rm W out ;;;
      w_write_concatted W out cells ;;;
      ret (Some cells)
  end.

Fixpoint find_result {A} (N : nat) (rs : list (nat * A)) : option A :=
  match rs with
  | [] => None
  | (n, a) :: t => if Nat.eqb n N then Some a else find_result N t
  end.

(* (N, cells) for the outputs whose concat_parts returned a value, in out_partitions order *)
Fixpoint nonempty_parts (rs : list (nat * option (list cell))) (Ns : list nat)
  : list (nat * list cell) :=
  match Ns with
  | [] => []
  | N :: t =>
      match find_result N rs with
      | Some (Some cells) => (N, cells) :: nonempty_parts rs t
      | _ => nonempty_parts rs t
      end
  end.

(* for p1, p2 in zip(input_paths, output_paths): if p1 != p2: move_retry(p1, p2) *)
Fixpoint compact (cfg : config) (ne : list (nat * list cell)) (j : nat) : M St unit :=
  match ne with
  | [] => ret tt
  | (N, _) :: t =>
      (if Nat.eqb N j then ret tt else w_move W (out_path cfg N) (out_path cfg j)) ;;;
      compact cfg t (S j)
  end.

(* the whole call; returns the cells of part.0 .. part.(m-1) *)
Definition pack_proc (cfg : config) (asg : assignment) : M St (list (list cell)) :=
  let outs := seq 0 (c_k cfg) in
  (if c_overwrite cfg then w_rm W (c_path cfg) else ret tt) ;;;
  miter (fun N => w_mkdirs W (out_path cfg N) ;;; w_mkdirs W (tmp_path cfg N)) outs ;;;
  miter (process_partition cfg asg) (c_iorder cfg) ;;;
  rs <- mmap (fun N => r <- concat_parts (tmp_path cfg N) (subparts cfg asg N) (out_path cfg N) ;;
                       ret (N, r)) (c_corder cfg) ;;
  let ne := nonempty_parts rs outs in
  match ne with
  | [] => fail (* zip of an empty list cannot be unpacked: ValueError *)
  | _ =>
      compact cfg ne 0 ;;;
      let parts := map snd ne in
      w_write_metadata W (c_path cfg) parts ;;;
      w_write_common W (c_path cfg) parts ;;;
      w_final_read W (c_path cfg) ;;;
      ret parts
  end.
End Procedure.

(* ------------------------------------------------------------------ the fault-free instance *)
Definition lift_q {A} (q : fs -> A) : M fs A := fun f => OK (q f) f.
Definition lift_o {A} (q : fs -> option A) : M fs A :=
  fun f => match q f with Some a => OK a f | None => Err f end.
Definition lift_m (m : fs -> option fs) : M fs unit :=
  fun f => match m f with Some f' => OK tt f' | None => Err f end.

Definition pure_prims : prims fs := {|
  p_exists := fun p => lift_q (fun f => exists_b f p);
  p_isfile := fun p => lift_q (fun f => isfile_b f p);
  p_isdir := fun p => lift_q (fun f => isdir_b f p);
  p_info := fun p => lift_o (fun f => if exists_b f p then Some tt else None);
  p_ls := fun p => lift_o (fun f => ls f p);
  p_find := fun p => lift_q (fun f => find f p);
  p_makedirs := fun p => lift_m (fun f => makedirs f p);
  p_rm := fun p => lift_m (fun f => if exists_b f p then rm f p else Some f);
  p_write := fun p c => lift_m (fun f => write f p c);
  p_read := fun p => lift_o (fun f => read f p);
  p_read_opt := fun p => lift_q (fun f => read f p);
  p_move := fun p1 p2 => lift_m (fun f => move f p1 p2);
|}.

(* without faults a retried function runs once: it either returns or fails the same way
   on every attempt *)
Definition pure_wrappers : wrappers fs := {|
  w_rm := body_rm pure_prims;
  w_mkdirs := body_mkdirs pure_prims;
  w_write_partition := body_write_partition pure_prims;
  w_read_parquet := body_read_parquet pure_prims;
  w_write_concatted := body_write_concatted pure_prims;
  w_move := body_move pure_prims;
  w_write_metadata := body_write_metadata pure_prims;
  w_write_common := body_write_common pure_prims;
  w_final_read := body_final_read pure_prims;
|}.

Definition pack (f : fs) (cfg : config) (asg : assignment) : outcome fs (list (list cell)) :=
  pack_proc pure_wrappers cfg asg f.

(* ------------------------------------------------------------------ harness glue *)
(* case = (prior tree, config, assignment, real final tree, cells of the real parts);
   result = Some (trees agree, parts agree, model tree well-formed) or None if the model raises *)
Definition pack_check (case : fs * config * assignment * fs * list (list cell))
  : option (bool * bool * bool) :=
  let '(f0, cfg, asg, real_final, real_parts) := case in
  match pack f0 cfg asg with
  | OK parts f1 => Some (fs_eqb f1 real_final, list_eqb cells_eqb parts real_parts, wf_fs_b f1)
  | Err _ => None
  end.
