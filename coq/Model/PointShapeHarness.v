(* Glue between harness/c02.py and Model/PointShape.v: a compact wire format
   (Coq elaborates large list literals slowly, so cases and expected results
   travel as a few integers) and the function the correspondence check
   evaluates.  Executable only; nothing here is part of the model proper. *)
From Coq Require Import ZArith List Bool Arith.
From SP Require Import Model.Num Model.Arrow Model.PointKernels Model.PointShape.
Import ListNotations.
Open Scope Z_scope.

(* a list of booleans as one integer: element i is bit i, a final 1 marks the length *)
Definition enc_bools (l : list bool) : Z :=
  fold_right (fun (b : bool) acc => 2 * acc + (if b then 1 else 0)) 1 l.

Definition enc_out (o : outcome (list bool)) : Z :=
  match o with Value l => enc_bools l | RaisesEmptyLine => -1 end.

(* scalar results, base 4: 0 missing element, 1 raises, 2 False, 3 True; final 1 *)
Definition enc_scalars (l : list (option (outcome bool))) : Z :=
  fold_right (fun (o : option (outcome bool)) acc =>
                4 * acc + match o with
                          | None => 0
                          | Some RaisesEmptyLine => 1
                          | Some (Value false) => 2
                          | Some (Value true) => 3
                          end) 1 l.

Definition nats (l : list Z) : list nat := map Z.to_nat l.

(* shape on the wire: code = 0 for a Point (vals = [x; y]); otherwise
   code = 3 * kind + buffer form, kind 1..5 = multipoint, line, multiline,
   polygon, multipolygon; buffer form 0 = NullArray, 1 = primitive array,
   2 = ListArray *)
Definition mk_sbuf (form off len : Z) (offs : list (list Z)) (vals : list Z) : sbuf :=
  match form with
  | 0 => BNull
  | 1 => BPlain (Z.to_nat off) (Z.to_nat len) (map Some vals)
  | _ => BList (Build_listarr (Z.to_nat off) (Z.to_nat len) None (map nats offs) (map Some vals))
  end.

Definition mk_shape (code off len : Z) (offs : list (list Z)) (vals : list Z) : shape :=
  if code =? 0 then ShPoint (Some (nth 0 vals 0)) (Some (nth 1 vals 0))
  else
    let b := mk_sbuf (code mod 3) off len offs vals in
    match code / 3 with
    | 1 => ShMultiPoint b
    | 2 => ShLine b
    | 3 => ShMultiLine b
    | 4 => ShPolygon b
    | _ => ShMultiPolygon b
    end.

Definition wire_case : Type :=
  (Z * Z * Z * Z * list (list Z) * list Z * list Z * Z * Z)%type.

(* (array form, inds form, scalar forms, model agrees with the oracle where the
   oracle is defined: known/value are bit masks over the array's slots) *)
Definition harness_eval (arrs : list fixarr) (c : wire_case) : option (Z * Z * Z * bool) :=
  let '(k, code, off, len, offs, vals, inds, known, value) := c in
  let a := nth (Z.to_nat k) arrs (Build_fixarr 0 0 None []) in
  let s := mk_shape code off len offs vals in
  let inds := nats inds in
  if wf_fixarr a && inds_ok (fa_len a) inds then
    obind (array_intersects a s None) (fun r1 =>
    obind (array_intersects a s (Some inds)) (fun r2 =>
    obind (all_some (map (element_intersects a s) (seq 0 (fa_len a)))) (fun r3 =>
      Some (enc_out r1, enc_out r2, enc_scalars r3,
            Z.land (enc_out r1) known =? value))))
  else None.
