(* C17: inert elements (missing, or without any finite coordinate), their
   removal from an array and the order-preserving renumbering of the rows that
   stay; the cases the correspondence check evaluates on the buffer-level models
   of Model/Arrow.v, Model/Bounds.v, Model/Rtree.v.  Executable only. *)
From Coq Require Import ZArith List Bool Arith.
From SP Require Import Model.Num Model.Arrow Model.Bounds Model.Rtree.

Import ListNotations.

(* a coordinate that is not finite (NaN, +inf, -inf on the Python side) *)
Definition nonfinite (x : num) : bool :=
  match x with None => true | Some _ => false end.

(* an element of a list-backed array as [decode_flat] gives it:
   missing, or no finite coordinate (empty, NaN-only, inf-only) *)
Definition inert_flat (o : option (list num)) : bool :=
  match o with None => true | Some vs => forallb nonfinite vs end.

(* an element of a point array as [fa_decode] gives it *)
Definition inert_pt (o : option (num * num)) : bool :=
  match o with None => true | Some (x, y) => nonfinite x && nonfinite y end.

Definition la_inert (a : listarr) : list bool := map inert_flat (decode_flat a).
Definition fa_inert (a : fixarr) : list bool := map inert_pt (fa_decode a).

(* the rows that stay when the flagged rows are removed *)
Definition keep {A} (flags : list bool) (l : list A) : list A :=
  map snd (filter (fun p => negb (fst p)) (combine flags l)).

(* positions, in the long list, of the rows that stay; [renumber flags i] is the
   position of the i-th row that stays: the order-preserving renumbering *)
Definition kept_positions (flags : list bool) : list nat :=
  keep flags (seq 0 (length flags)).
Definition renumber (flags : list bool) (i : nat) : nat :=
  nth i (kept_positions flags) 0.

(* ---- decidable equalities for the check ---- *)
Definition num_eqb (a b : num) : bool :=
  match a, b with
  | None, None => true
  | Some x, Some y => Z.eqb x y
  | _, _ => false
  end.

Fixpoint list_eqb {A} (eqb : A -> A -> bool) (l1 l2 : list A) : bool :=
  match l1, l2 with
  | [], [] => true
  | x :: t1, y :: t2 => eqb x y && list_eqb eqb t1 t2
  | _, _ => false
  end.

Definition bbox_eqb (a b : bbox) : bool :=
  let '(a0, a1, a2, a3) := a in
  let '(b0, b1, b2, b3) := b in
  num_eqb a0 b0 && num_eqb a1 b1 && num_eqb a2 b2 && num_eqb a3 b3.

Definition oflat_eqb (a b : option (list num)) : bool :=
  match a, b with
  | None, None => true
  | Some x, Some y => list_eqb num_eqb x y
  | _, _ => false
  end.

Definition opt_pt_eqb (a b : option (num * num)) : bool :=
  match a, b with
  | None, None => true
  | Some (x, y), Some (u, v) => num_eqb x u && num_eqb y v
  | _, _ => false
  end.

(* ---- what the correspondence check evaluates ---- *)

(* [full] = the array with inert rows, [base] = the array built from the other
   rows alone.  Result: the inert flags of [full], its bounds rows, its
   total_bounds, (total_bounds full = total_bounds base,
                  the non-inert decoded elements of full are those of base). *)
(* the guards of the C17 theorems (Spec/BoundsSpec.v states them as [nulls_empty]
   and [even_outer]; repeated here because a Model file imports no Spec file):
   a missing slot spans an empty range, every outer offset is even *)
Definition la_guards (a : listarr) : bool :=
  forallb (fun i => negb (isna_at (la_valid a) (la_off a) i)
                    || Nat.eqb (getn (buffer_outer_offsets a) i)
                               (getn (buffer_outer_offsets a) (S i)))
          (seq 0 (la_len a))
  && forallb Nat.even (buffer_outer_offsets a).

Definition c17_la_case (c : listarr * listarr)
  : option (list bool * list bbox * bbox * (bool * bool * bool)) :=
  let '(full, base) := c in
  if wf_listarr full && wf_listarr base then
    Some (la_inert full, la_bounds full, la_total_bounds full,
          (bbox_eqb (la_total_bounds full) (la_total_bounds base),
           list_eqb oflat_eqb (keep (la_inert full) (decode_flat full)) (decode_flat base),
           la_guards full && la_guards base))
  else None.

Definition c17_fa_case (c : fixarr * fixarr)
  : option (list bool * list bbox * bbox * (bool * bool * bool)) :=
  let '(full, base) := c in
  if wf_fixarr full && wf_fixarr base then
    Some (fa_inert full, fa_bounds full, fa_total_bounds full,
          (bbox_eqb (fa_total_bounds full) (fa_total_bounds base),
           list_eqb opt_pt_eqb (keep (fa_inert full) (fa_decode full)) (fa_decode base),
           true))
  else None.

(* a row of a bounds array that the index treats as "no box" *)
Definition nan_row (r : row) : bool := existsb isnan r.

(* an index over [rows] (some of them NaN) built with the permutation [keys],
   and the index over the other rows alone built with [keys0]; per query the
   sorted answers of the first index, and whether each of them is the renumbered
   answer of the second index *)
Definition c17_rtree_case (c : nat * list row * list nat * list nat * nat * list (list Z))
  : list (list nat * list nat * list nat) * bool :=
  let '(d, rows, keys, keys0, page_size, queries) := c in
  let flags := map nan_row rows in
  let T := build d rows keys page_size in
  let T0 := build d (keep flags rows) keys0 page_size in
  let ren l := sort_nat (map (renumber flags) l) in
  let per := map (fun q => let (cv, ov) := covers_overlaps T q in
                           (sort_nat (intersects T q), sort_nat cv, sort_nat ov)) queries in
  let per0 := map (fun q => let (cv, ov) := covers_overlaps T0 q in
                            (ren (intersects T0 q), ren cv, ren ov)) queries in
  (per,
   list_eqb (fun '(a, b, c) '(a0, b0, c0) =>
               list_eqb Nat.eqb a a0 && list_eqb Nat.eqb b b0 && list_eqb Nat.eqb c c0)
            per per0).
