(* The view the library takes of a pyarrow array: it never asks pyarrow for
   elements inside its kernels, it reads [buffers()] and does its own offset
   arithmetic (spatialpandas/geometry/baselist.py, basefixed.py, base.py).
   Executable definitions only. *)
From Coq Require Import ZArith List Bool Arith.
From SP Require Import Model.Num.
Import ListNotations.

(* ---- list-backed arrays: multipoint/line/ring (1 level), multiline/polygon
        (2 levels), multipolygon (3 levels) ---- *)
Record listarr := {
  la_off   : nat;                 (* listarray.offset *)
  la_len   : nat;                 (* len(listarray) *)
  la_valid : option (list bool);  (* validity bitmap, one bool per absolute slot;
                                     None = buffers()[0] is None *)
  la_offs  : list (list nat);     (* the offsets buffer of every nesting level, unsliced *)
  la_vals  : list num             (* the values buffer, unsliced *)
}.

(* _ListArrayBufferMixin.buffer_offsets: first level sliced to the current
   extension-array slice, all others whole. *)
Definition buffer_offsets (a : listarr) : list (list nat) :=
  match la_offs a with
  | [] => []
  | o0 :: rest => slice (la_off a) (la_off a + la_len a + 1) o0 :: rest
  end.

Definition buffer_values (a : listarr) : list num := la_vals a.

(* flat_values: start/stop chased through every level *)
Definition flat_range (a : listarr) : nat * nat :=
  match buffer_offsets a with
  | [] => (0, 0)
  | o0 :: rest =>
      fold_left (fun '(s, e) offs => (getn offs s, getn offs e)) rest
                (getn o0 0, getn o0 (length o0 - 1))
  end.

Definition flat_values (a : listarr) : list num :=
  let '(s, e) := flat_range a in slice s e (buffer_values a).

(* buffer_outer_offsets: offsets into the values buffer delimiting each element *)
Definition buffer_outer_offsets (a : listarr) : list nat :=
  match buffer_offsets a with
  | [] => []
  | o0 :: rest => fold_left (fun flat offs => map (getn offs) flat) rest o0
  end.

(* buffer_inner_offsets: the slice of the innermost offsets buffer that
   belongs to the current array slice *)
Definition buffer_inner_offsets (a : listarr) : list nat :=
  match buffer_offsets a with
  | [] => []
  | [o0] => o0   (* a single level of offsets is already the innermost one (fix 0e152f8) *)
  | o0 :: rest =>
      let '(s, e) :=
        fold_left (fun '(s, e) offs => (getn offs s, getn offs e))
                  (removelast rest) (getn o0 0, getn o0 (length o0 - 1)) in
      slice s (e + 1) (last (o0 :: rest) [])
  end.

(* _extract_isnull_bytemap *)
Definition isna_at (valid : option (list bool)) (off i : nat) : bool :=
  match valid with
  | None => false
  | Some bits => negb (nth (off + i) bits true)
  end.

Definition la_isna (a : listarr) : list bool :=
  map (isna_at (la_valid a) (la_off a)) (seq 0 (la_len a)).

(* ---- fixed-width arrays: PointArray (two coordinates per slot) ---- *)
Record fixarr := {
  fa_off   : nat;
  fa_len   : nat;
  fa_valid : option (list bool);
  fa_vals  : list num             (* 2 values per slot, unsliced; null slots hold
                                     whatever placeholder bytes pyarrow put there *)
}.

Definition fa_flat_values (a : fixarr) : list num :=
  if Nat.eqb (fa_len a) 0 then []
  else slice (2 * fa_off a) (2 * fa_off a + 2 * fa_len a) (fa_vals a).

Definition fa_isna (a : fixarr) : list bool :=
  map (isna_at (fa_valid a) (fa_off a)) (seq 0 (fa_len a)).

(* ---- the abstraction function: what elements an array holds ---- *)

(* pairs of an interleaved coordinate list *)
Fixpoint pairs (vs : list num) : list (num * num) :=
  match vs with
  | x :: y :: t => (x, y) :: pairs t
  | _ => []
  end.

(* coordinates of element i, flattened over all nesting levels: everything the
   values buffer holds between the element's outer offsets *)
Definition elem_flat (a : listarr) (i : nat) : list num :=
  let oo := buffer_outer_offsets a in
  slice (getn oo i) (getn oo (S i)) (buffer_values a).

Definition decode_flat (a : listarr) : list (option (list num)) :=
  map (fun i => if isna_at (la_valid a) (la_off a) i then None
                else Some (elem_flat a i))
      (seq 0 (la_len a)).

Definition fa_decode (a : fixarr) : list (option (num * num)) :=
  map (fun i => if isna_at (fa_valid a) (fa_off a) i then None
                else Some (nth (2 * (fa_off a + i)) (fa_vals a) None,
                           nth (2 * (fa_off a + i) + 1) (fa_vals a) None))
      (seq 0 (fa_len a)).

(* ---- well-formedness: what pyarrow guarantees for the arrays the library
        builds; asserted by the harness on every real array ---- *)
Fixpoint mono (l : list nat) : bool :=
  match l with
  | a :: ((b :: _) as t) => Nat.leb a b && mono t
  | _ => true
  end.

(* each level's offsets are non-decreasing, long enough for the level above,
   and end inside the level below *)
Fixpoint wf_levels (need : nat) (offs : list (list nat)) (nvals : nat) : bool :=
  match offs with
  | [] => Nat.leb need nvals
  | o :: rest =>
      Nat.ltb need (length o) && mono o &&
      wf_levels (last o 0) rest nvals
  end.

Definition wf_listarr (a : listarr) : bool :=
  match la_offs a with
  | [] => false
  | _ => wf_levels (la_off a + la_len a) (la_offs a) (length (la_vals a))
  end
  && match la_valid a with
     | None => true
     | Some bits => Nat.leb (la_off a + la_len a) (length bits)
     end.

Definition wf_fixarr (a : fixarr) : bool :=
  Nat.leb (2 * (fa_off a + fa_len a)) (length (fa_vals a))
  && match fa_valid a with
     | None => true
     | Some bits => Nat.leb (fa_off a + fa_len a) (length bits)
     end.
