(* The partition-bounds metadata of a spatialpandas parquet dataset and the
   pruning filter of read_parquet_dask.

   spatialpandas/io/parquet.py: to_parquet_dask (writer), _load_partition_bounds,
     _perform_read_parquet_dask (concatenation over datasets, bounds= filter)
   spatialpandas/dask.py: pack_partitions_to_parquet (collection of total_bounds
     of the non-empty output partitions, compaction of their file names)

   A bounds value is [num] = option Z: [None] is NaN (JSON "NaN"); recorded
   extents are never infinite (Model/Bounds.v).  Executable definitions only. *)
From Coq Require Import ZArith NArith List Bool Ascii String DecimalString Decimal.
From SP Require Import Model.Num Model.Arrow Model.Bounds Model.NatSort.
Import ListNotations.


(* ---- the JSON value ---- *)

(* one JSON object {"<key>": value, ...} in document order, as json.loads
   returns it (a dict keeps insertion order; keys of a well-formed document are
   distinct) *)
Definition entries := list (string * num).

(* DataFrame.to_dict() of a bounds frame: {"x0": {...}, "y0": {...}, "x1": {...}, "y1": {...}} *)
Record bounds_json := {
  jx0 : entries; jy0 : entries; jx1 : entries; jy1 : entries
}.

Definition bx0 (b : bbox) : num := let '(x0, _, _, _) := b in x0.
Definition by0 (b : bbox) : num := let '(_, y0, _, _) := b in y0.
Definition bx1 (b : bbox) : num := let '(_, _, x1, _) := b in x1.
Definition by1 (b : bbox) : num := let '(_, _, _, y1) := b in y1.

(* ---- writer: json.dumps({... frame.to_dict() ...}) ----
   The frame has index 0..n-1 (partition_bounds ends with reset_index(drop=True);
   pd.DataFrame(list of Series) numbers its rows); to_dict() gives
   {column: {index label: value}} and json.dumps turns the int labels into their
   decimal strings. *)
Definition dump_col (f : bbox -> num) (bs : list bbox) : entries :=
  combine (map (fun i => dec (N.of_nat i)) (seq 0 (List.length bs))) (map f bs).

Definition dump (bs : list bbox) : bounds_json :=
  {| jx0 := dump_col bx0 bs; jy0 := dump_col by0 bs;
     jx1 := dump_col bx1 bs; jy1 := dump_col by1 bs |}.

(* ---- reader: _load_partition_bounds ---- *)

(* pd.DataFrame(dict of dicts): the index is the union of the inner keys in
   first-seen order (union_indexes(sort=False)) *)
Fixpoint uniq (seen : list string) (l : list string) : list string :=
  match l with
  | [] => []
  | x :: t => if existsb (String.eqb x) seen then uniq seen t
              else x :: uniq (x :: seen) t
  end.

(* ... and a label absent from a column gives NaN *)
Fixpoint lookup (k : string) (e : entries) : num :=
  match e with
  | [] => None
  | (k', v) :: t => if String.eqb k k' then v else lookup k t
  end.

(* index.astype('int'): int(label); anything but decimal digits is a ValueError
   (None).  Scope: labels of decimal digits (what json.dumps wrote). *)
Definition parse_int (s : string) : option N :=
  match s with
  | EmptyString => None
  | _ => option_map N.of_uint (NilEmpty.uint_of_string s)
  end.

Fixpoint parse_all (ks : list string) : option (list N) :=
  match ks with
  | [] => Some []
  | k :: t => match parse_int k, parse_all t with
              | Some n, Some r => Some (n :: r)
              | _, _ => None
              end
  end.

(* set_index(int labels).sort_index().reset_index(drop=True) *)
Definition load (j : bounds_json) : option (list bbox) :=
  let index := uniq [] (map fst (jx0 j) ++ map fst (jy0 j) ++ map fst (jx1 j) ++ map fst (jy1 j)) in
  let rows := map (fun k => (lookup k (jx0 j), lookup k (jy0 j), lookup k (jx1 j), lookup k (jy1 j)))
                  index in
  match parse_all index with
  | None => None
  | Some ints =>
      Some (map snd (sort_by (fun a b => N.ltb (fst a) (fst b)) (combine ints rows)))
  end.

(* ---- several datasets: _perform_read_parquet_dask ----
   Every dataset contributes {column: frame} or None (no metadata).  If any is
   None there are no partition bounds at all; otherwise the frames of a column
   are concatenated in dataset order (dict.get(col, []) + append, pd.concat). *)
Definition colbounds := list (string * list bbox).

Fixpoint cb_get (c : string) (m : colbounds) : option (list bbox) :=
  match m with
  | [] => None
  | (c', v) :: t => if String.eqb c c' then Some v else cb_get c t
  end.

(* partition_bounds[col] = partition_bounds.get(col, []) + [col_bounds]  (frames
   kept concatenated) *)
Fixpoint cb_append (c : string) (v : list bbox) (m : colbounds) : colbounds :=
  match m with
  | [] => [(c, v)]
  | (c', v') :: t => if String.eqb c c' then (c', v' ++ v) :: t
                     else (c', v') :: cb_append c v t
  end.

Definition concat_datasets (ds : list (option colbounds)) : colbounds :=
  if existsb (fun d => match d with None => true | Some _ => false end) ds then []
  else fold_left (fun acc d =>
                    match d with
                    | Some m => fold_left (fun acc' '(c, v) => cb_append c v acc') m acc
                    | None => acc
                    end) ds [].

(* ---- the bounds= filter ---- *)

(* Python float comparison; None = NaN compares False *)
Definition num_gtb (a b : num) : bool :=
  match a, b with Some x, Some y => Z.gtb x y | _, _ => false end.
Definition num_geb (a b : num) : bool :=
  match a, b with Some x, Some y => Z.geb x y | _, _ => false end.
Definition num_leb (a b : num) : bool :=
  match a, b with Some x, Some y => Z.leb x y | _, _ => false end.

Definition qbox := (num * num * num * num)%type.

(* if x0 > x1: x0, x1 = x1, x0 ; if y0 > y1: y0, y1 = y1, y0 *)
Definition norm_box (q : qbox) : qbox :=
  let '(x0, y0, x1, y1) := q in
  let '(x0, x1) := if num_gtb x0 x1 then (x1, x0) else (x0, x1) in
  let '(y0, y1) := if num_gtb y0 y1 then (y1, y0) else (y0, y1) in
  (x0, y0, x1, y1).

(* inds = (df.x1 >= x0) & (df.y1 >= y0) & (df.x0 <= x1) & (df.y0 <= y1)
   -- a NaN extent (a partition of missing / empty geometries only) fails every
   test and is dropped *)
Definition keep (q : qbox) (b : bbox) : bool :=
  let '(qx0, qy0, qx1, qy1) := norm_box q in
  let '(x0, y0, x1, y1) := b in
  num_geb x1 qx0 && num_geb y1 qy0 && num_leb x0 qx1 && num_leb y0 qy1.

Fixpoint select {A} (inds : list bool) (l : list A) : list A :=
  match inds, l with
  | true :: it, x :: t => x :: select it t
  | false :: it, _ :: t => select it t
  | _, _ => []
  end.

(* the filter step: [pieces] are the delayed partitions in loaded order.
   `if bounds and geometry in partition_bounds:` otherwise nothing is filtered.
   A frame whose length differs from the number of pieces makes
   .assign(delayed_partition=...) raise (None); the other columns' frames are
   masked with the same [inds] and renumbered (reset_index(drop=True)). *)
Definition prune {P} (q : option qbox) (active : string) (pb : colbounds) (pieces : list P)
  : option (colbounds * list P) :=
  match q, cb_get active pb with
  | Some q, Some rows =>
      if negb (Nat.eqb (List.length rows) (List.length pieces)) then None
      else if negb (forallb (fun '(_, r) => Nat.eqb (List.length r) (List.length rows)) pb) then None
      else
        let inds := map (keep q) rows in
        Some (map (fun '(c, r) => (c, select inds r)) pb, select inds pieces)
  | _, _ => Some (pb, pieces)
  end.

(* the last step of _perform_read_parquet_dask:
     if partition_bounds and delayed_partitions: result._partition_bounds = partition_bounds
   (when no partition is selected the result is one empty stand-in partition and
   no bounds are attached to it) *)
Definition expose {P} (pb : colbounds) (kept : list P) : colbounds :=
  match pb, kept with
  | _ :: _, _ :: _ => pb
  | _, _ => []
  end.

(* ---- pack_partitions_to_parquet: which file holds which output partition,
        and which bounds row describes it ----
   write_info[k] is None for an output partition without rows, else the
   total_bounds of every geometry column of the rows written to
   part.k.parquet.  The non-empty parts are renamed to part.0 .. part.(m-1)
   in order (input_paths -> output_paths), and their bounds are collected in
   the same order. *)
Definition pack_layout {C} (dir : string) (write_info : list (option (C * list (string * bbox))))
  : list (string * string * C) * colbounds :=
  let n := List.length write_info in
  let part_output_paths := map (fun k => part_path dir (N.of_nat k)) (seq 0 n) in
  let kept := flat_map (fun '(p, wi) => match wi with Some i => [(p, i)] | None => [] end)
                       (combine part_output_paths write_info) in
  let output_paths := firstn (List.length kept) part_output_paths in
  (* (moved from, final path, content) *)
  let files := map (fun '((p1, (c, _)), p2) => (p1, p2, c)) (combine kept output_paths) in
  let all_bounds :=
    fold_left (fun acc '(_, (_, tb)) =>
                 fold_left (fun acc' '(col, b) => cb_append col [b] acc') tb acc)
              kept [] in
  (files, all_bounds).

(* ---- what the correspondence check evaluates ---- *)

(* one dataset: raw JSON per column -> frames *)
Definition load_cols (m : list (string * bounds_json)) : option colbounds :=
  fold_right (fun '(c, j) acc =>
                match load j, acc with
                | Some r, Some a => Some ((c, r) :: a)
                | _, _ => None
                end) (Some []) m.

(* several datasets: raw JSON (None = no spatialpandas metadata) -> frames
   exposed as _partition_bounds.  A dataset that raises makes the read raise. *)
Definition load_datasets (ds : list (option (list (string * bounds_json)))) : option colbounds :=
  let loaded := map (fun d => match d with
                              | None => Some None
                              | Some m => option_map Some (load_cols m)
                              end) ds in
  if forallb (fun o => match o with Some _ => true | None => false end) loaded
  then Some (concat_datasets (flat_map (fun o => match o with Some d => [d] | None => [] end) loaded))
  else None.

(* read_parquet_dask(paths, geometry=active, bounds=q): bounds frames after
   loading and pruning, and the indices (in loaded order) of the pieces kept *)
Definition read_bounds (ds : list (option (list (string * bounds_json))))
           (npieces : nat) (active : string) (q : option qbox)
  : option (colbounds * list nat) :=
  match load_datasets ds with
  | None => None
  | Some pb =>
      match prune q active pb (seq 0 npieces) with
      | None => None
      | Some (pb', kept) => Some (expose pb' kept, kept)
      end
  end.
