(* dask.utils.natural_sort_key and the ordering of parquet pieces in
   spatialpandas/io/parquet.py:_perform_read_parquet_dask

       dataset_pieces = sorted(fragments, key=lambda piece: natural_sort_key(piece.path))

   dask/utils.py:
       def natural_sort_key(s):
           return [int(part) if part.isdigit() else part for part in re.split(r"(\d+)", s)]

   re.split with one capturing group returns non-digit run, digit run, non-digit
   run, ... : it starts and ends with a (possibly empty) non-digit run.
   Scope: ASCII paths (for ASCII, \d and str.isdigit are both [0-9]).
   Executable definitions only. *)
From Coq Require Import NArith List Bool Ascii String DecimalString Decimal.
Import ListNotations.
Local Open Scope string_scope.

(* one component of the key: a str or an int *)
Definition tok := (string + N)%type.

Definition is_digit (c : ascii) : bool :=
  let n := N_of_ascii c in (N.leb 48 n && N.leb n 57)%bool.

(* int(part) for a run of decimal digits (leading zeros allowed) *)
Definition int_of_digits (ds : list ascii) : N :=
  match NilEmpty.uint_of_string (string_of_list_ascii ds) with
  | Some d => N.of_uint d
  | None => 0%N
  end.

(* the scanner: [racc] is the current run, reversed *)
Fixpoint nsk_str (racc : list ascii) (s : string) : list tok :=
  match s with
  | EmptyString => [inl (string_of_list_ascii (List.rev racc))]
  | String c t =>
      if is_digit c
      then inl (string_of_list_ascii (List.rev racc)) :: nsk_int [c] t
      else nsk_str (c :: racc) t
  end
with nsk_int (racc : list ascii) (s : string) : list tok :=
  match s with
  | EmptyString => [inr (int_of_digits (List.rev racc)); inl ""]
  | String c t =>
      if is_digit c
      then nsk_int (c :: racc) t
      else inr (int_of_digits (List.rev racc)) :: nsk_str [c] t
  end.

Definition natural_sort_key (s : string) : list tok := nsk_str [] s.

(* Python's == and < on key components.  str == int is False; str < int raises
   TypeError: None. *)
Definition tok_eqb (a b : tok) : bool :=
  match a, b with
  | inl s, inl t => String.eqb s t
  | inr n, inr m => N.eqb n m
  | _, _ => false
  end.

Definition tok_ltb (a b : tok) : option bool :=
  match a, b with
  | inl s, inl t => Some (String.ltb s t)      (* code-point order *)
  | inr n, inr m => Some (N.ltb n m)
  | _, _ => None
  end.

(* list.__lt__: first position where the elements are not equal decides; a
   proper prefix is smaller *)
Fixpoint key_ltb (a b : list tok) : option bool :=
  match a, b with
  | [], [] => Some false
  | [], _ :: _ => Some true
  | _ :: _, [] => Some false
  | x :: a', y :: b' => if tok_eqb x y then key_ltb a' b' else tok_ltb x y
  end.

(* sorted(..., key=...) is stable and uses only <.  Stable insertion sort. *)
Fixpoint insert_by {A} (lt : A -> A -> bool) (x : A) (l : list A) : list A :=
  match l with
  | [] => [x]
  | y :: t => if lt y x then y :: insert_by lt x t else x :: l
  end.

Definition sort_by {A} (lt : A -> A -> bool) (l : list A) : list A :=
  fold_right (insert_by lt) [] l.

(* [None] = a comparison raised TypeError (theorem nsk_never_typeerror: never) *)
Definition path_ltb_opt (p q : string) : option bool :=
  key_ltb (natural_sort_key p) (natural_sort_key q).

Definition path_ltb (p q : string) : bool :=
  match path_ltb_opt p q with Some b => b | None => false end.

Definition sort_pieces (paths : list string) : list string := sort_by path_ltb paths.

(* str(i) of a non-negative int *)
Definition dec (i : N) : string := NilEmpty.string_of_uint (N.to_uint i).

(* the name Dask's writer and pack_partitions_to_parquet give partition i
   (spatialpandas/dask.py: os.path.join(path, f"part.{out_partition}.parquet")) *)
Definition part_path (dir : string) (i : N) : string :=
  dir ++ "/part." ++ dec i ++ ".parquet".

(* what the correspondence check evaluates *)
Definition nsk_all (paths : list string) : list (list tok) * list string :=
  (map natural_sort_key paths, sort_pieces paths).
