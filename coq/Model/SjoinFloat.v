(* The pair table of sjoin over binary64 coordinates.

   Model/Sjoin.v works on integer coordinates (option Z): it cannot express a frame
   whose coordinates are not integers (decimal degrees, 1e-6-sized steps, extents
   that are tiny relative to the magnitude), and on those frames the numeric kernels
   are the only thing between "the point is ON the line" and "the point is near the
   line".  This file is the same loop

     spatialpandas/tools/sjoin.py  _sjoin_pandas_pandas:
        for i in range(len(right_df)):
            if right_geom[i] is None: continue
            candidate_inds = sindex.intersects(right_bounds[i])
            mask = left_geom.intersects(right_geom[i], inds=candidate_inds)

   over Coq's primitive floats, with the array kernels of

     spatialpandas/geometry/point.py  PointArray._intersects_point,
        _perform_intersects_multipoint, _perform_intersects_line,
        _perform_intersects_polygon (+ the "no finite coordinate" guard)

   built on Model/FloatKernels.v (fsegment_intersects_point,
   fpoint_intersects_polygon).  Defined for FINITE coordinates (the check only
   draws finite ones here; non-finite coordinates are C17's subject).  The
   candidates are the rows whose point lies in the closed bounds row of the right
   shape (what the R-tree answers as a set: C03, C05_rtree_is_an_index); a shape
   without coordinates has a NaN bounds row, for which the tree answers every row.

   Executable only, no proofs.  Evaluated by harness/c05_float.py. *)
From Coq Require Import ZArith List Bool Arith.
From SP Require Import Model.Num Model.FloatKernels.
Import ListNotations.

(* a right geometry as the loop sees it *)
Inductive fshape : Type :=
| FPoint (x y : float)                              (* Point *)
| FMultiPoint (flat : list float)                   (* MultiPoint: flat_values *)
| FLines (lines : list (list float))                (* Line / Ring: one sub-line; MultiLine: several *)
| FPolygon (vals : list float) (offs : list nat).   (* Polygon / MultiPolygon: buffer_values,
                                                       buffer_inner_offsets (all rings in order) *)

(* np.any((xs == x) & (ys == y)) *)
Definition fany_vertex (x y : float) (flat : list float) : bool :=
  existsb (fun '(vx, vy) => (vx =? x)%float && (vy =? y)%float) (fpairs flat).

(* numba's min / max over the elements of an array slice: the two-argument rule
   folded from the first element *)
Definition flmin (h : float) (t : list float) : float := fold_left fmin t h.
Definition flmax (h : float) (t : list float) : float := fold_left fmax t h.

(* for m in range(len(line_xs) - 1): segment_intersects_point(...) ; break on a hit *)
Definition fany_segment (x y : float) (ps : list fpt) : bool :=
  existsb (fun '((ax0, ay0), (ax1, ay1)) => fsegment_intersects_point ax0 ay0 ax1 ay1 x y)
          (fedges ps).

(* _perform_intersects_line, the body for one point: every sub-line is visited; an
   empty sub-line and one whose bounding box does not hold the point `continue` *)
Fixpoint far_lines (x y : float) (lines : list (list float)) (acc : bool) : bool :=
  match lines with
  | [] => acc
  | flat :: rest =>
      match fpairs flat with
      | [] => far_lines x y rest acc
      | (hx, hy) :: t =>
          let xs := map fst t in let ys := map snd t in
          let '(b0, b1, b2, b3) := (flmin hx xs, flmin hy ys, flmax hx xs, flmax hy ys) in
          if (x <? b0)%float || (y <? b1)%float || (b2 <? x)%float || (b3 <? y)%float
          then far_lines x y rest acc
          else if fany_vertex x y flat then far_lines x y rest true
          else far_lines x y rest (acc || fany_segment x y ((hx, hy) :: t))
      end
  end.

(* PointArray._intersects(shape, inds) at one position holding the point (x, y) *)
Definition fintersects (p : fpt) (s : fshape) : bool :=
  let '(x, y) := p in
  match s with
  | FPoint px py => (x =? px)%float && (y =? py)%float
  | FMultiPoint flat => fany_vertex x y flat
  | FLines lines => far_lines x y lines false
  | FPolygon vals offs =>
      (* if not np.isfinite(polygon.buffer_values).any(): nothing *)
      if negb (existsb fisfinite vals) then false
      else fpoint_intersects_polygon x y vals offs
  end.

Definition fshape_coords (s : fshape) : list float :=
  match s with
  | FPoint x y => [x; y]
  | FMultiPoint flat => flat
  | FLines lines => concat lines
  | FPolygon vals _ => vals
  end.

(* the bounds row of the shape (finite coordinates) and the candidate test: the
   point's degenerate box is not outside the query box; no coordinates = NaN row =
   every row is a candidate *)
Definition fcandidate (p : fpt) (s : fshape) : bool :=
  let '(x, y) := p in
  match fpairs (fshape_coords s) with
  | [] => true
  | (hx, hy) :: t =>
      let xs := map fst t in let ys := map snd t in
      negb ((x <? flmin hx xs)%float || (flmax hx xs <? x)%float ||
            (y <? flmin hy ys)%float || (flmax hy ys <? y)%float)
  end.

Definition indexed {A} (l : list A) : list (nat * A) := combine (seq 0 (length l)) l.

(* rows of the (_key_left, _key_right) table, right row after right row, left
   positions ascending within one right row *)
Definition fsjoin_pairs (left : list (option fpt)) (right : list (option fshape))
  : list (nat * nat) :=
  flat_map (fun '(r, os) =>
    match os with
    | None => []                                     (* a missing geometry intersects nothing *)
    | Some s =>
        flat_map (fun '(l, op) =>
          match op with
          | None => []                               (* a missing point intersects nothing *)
          | Some p => if fcandidate p s && fintersects p s then [(l, r)] else []
          end) (indexed left)
    end) (indexed right).

(* the same table without the candidate filter: what the scalar form decides pair by pair *)
Definition fsjoin_pairs_nofilter (left : list (option fpt)) (right : list (option fshape))
  : list (nat * nat) :=
  flat_map (fun '(r, os) =>
    match os with
    | None => []
    | Some s =>
        flat_map (fun '(l, op) =>
          match op with
          | None => []
          | Some p => if fintersects p s then [(l, r)] else []
          end) (indexed left)
    end) (indexed right).

(* what the correspondence check evaluates *)
Definition fsjoin_case (c : list (option fpt) * list (option fshape)) : list (nat * nat) :=
  fsjoin_pairs (fst c) (snd c).
