(* Glue of the C05 correspondence check: the verdict on one sjoin call, computed
   inside the kernel from the model's result and the implementation's.
   Only observable behaviour of the public sjoin API is compared:
   - the output rows as a multiset (both sides hand them over sorted),
   - the column names (order reported separately: the property promises the names),
   - the index names, the surviving geometry column, the right bounds rows,
   - the exception *class* (1 = ValueError/StopIteration, 4 = pandas MergeError,
     5 = KeyError, 9 = anything else).
   Excluded inputs (a MultiIndex with one level, suffix/level-digit collisions, suffix
   collisions pandas rejects) get verdict 2 whatever the implementation did.
   No proofs here. *)
From Coq Require Import ZArith List Bool Arith String.
From SP Require Import Harness Model.Num Model.Arrow Model.Bounds Model.PointKernels
                       Model.PointShape Model.Sjoin.
Import ListNotations.

Definition case_t : Type := (how * string * string * fmeta * fmeta * fixarr * list (option shape))%type.
Definition res_t : Type :=
  option (nat + (list orow * list string * list (option string) * string * list bbox)).

Definition same_set (a b : list string) : bool :=
  Nat.eqb (List.length a) (List.length b) &&
  forallb (fun x => mem x b) a && forallb (fun x => mem x a) b.

Definition one_level (m : fmeta) : bool :=
  match fm_index m with IxMulti [_] => true | _ => false end.

(* 0 = agree; 1 = differ; 2 = excluded input (not compared); 3 = agree up to column order *)
Definition sjoin_verdict (cr : case_t * res_t) : nat :=
  let '(c, r) := cr in
  let '(h, ls, rs, lm, rm, a, rg) := c in
  if one_level lm || one_level rm then 2
  else
    match sjoin_case c with
    | None => match r with None => 0 | _ => 1 end
    | Some (inl e) =>
        if Nat.leb 4 e then 2
        else match r with
             | Some (inl e') => if Nat.eqb e' 1 then 0 else 1
             | _ => 1
             end
    | Some (inr (rows, cols, names, g, bnds)) =>
        match r with
        | Some (inr (rows', cols', names', g', bnds')) =>
            if eqbc rows rows' && eqbc names names' && eqbc g g' && eqbc bnds bnds' then
              if eqbc cols cols' then 0 else if same_set cols cols' then 3 else 1
            else 1
        | _ => 1
        end
    end.
