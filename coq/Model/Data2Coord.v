(* Model of
     spatialpandas/utils.py:_data2coord
     spatialpandas/spatialindex/rtree.py:_distances_from_bounds
     spatialpandas/geometry/base.py:GeometryArray.hilbert_distance
     spatialpandas/geoseries.py:GeoSeries.hilbert_distance

   NUMBERS.  A float is a [num]: [Some z] is the finite value z * u for a unit
   u = 2^-s fixed per call by the harness (every finite input of the call is a
   multiple of 2u, so that bbox mid-points are multiples of u); [None] is a
   non-finite value.  The float 1.0 is the parameter [one] (= 2^s).

   EXACT-SCALING REGIME.  The code computes
        scaled = (vals - lo) * (n / x_width)          (binary64)
   The model computes the exact rational (vals - lo) * n / x_width.  The two
   agree when |x_width| is a power of two (n = 2^p, so n / x_width is a power of
   two and the multiplication is a pure exponent shift) and the operands are
   small enough for the sum, the halving and the two differences to be exact
   (|values| < 2^52 units).  [regime_*] below decide that; outside the regime
   (and for NaN mid-points, whose int64 conversion is platform-defined) the
   model answers [None] = "not modelled" for the row, and the harness checks
   only range / invariance there.

   No proofs in this file. *)
From Coq Require Import ZArith NArith List Bool String.
From SP Require Import Harness Model.Num Model.Bounds Model.Hilbert.
Import ListNotations.
Local Open Scope Z_scope.

(* ---- float operations on [num] (exact: regime) ------------------------- *)
Definition fsub (a b : num) : num :=
  match a, b with Some x, Some y => Some (x - y) | _, _ => None end.
Definition fadd (a b : num) : num :=
  match a, b with Some x, Some y => Some (x + y) | _, _ => None end.
(* x / 2.0 : exact in Z because the harness' unit makes sums of two inputs even *)
Definition fhalf (a : num) : num :=
  match a with Some x => Some (x / 2) | None => None end.
(* float ==  (NaN == NaN is False; [None] also stands for +-inf, for which the
   model is not used: see [tb_finite]) *)
Definition feq (a b : num) : bool :=
  match a, b with Some x, Some y => x =? y | _, _ => false end.

Definition is_pow2 (w : Z) : bool :=
  (0 <? w) && (w =? 2 ^ Z.log2 w).
Definition small (x : Z) : bool := Z.abs x <? 2 ^ 52.

(* ---- _data2coord(vals, val_range, n) -----------------------------------
     x_width = val_range[1] - val_range[0]
     if x_width == 0:
         res = np.zeros(len(vals), dtype=np.int64)
         res[vals > val_range[1]] = n - 1
         return res
     scaled = (vals - val_range[0]) * (n / x_width)
     scaled[scaled < 0] = 0
     scaled[scaled > n - 1] = n - 1
     res = scaled.astype(np.int64)
     res[res < 0] = 0
     res[res > n - 1] = n - 1
   [scaled] is the exact rational  snum / x_width  with snum = (v - lo) * n.  *)
Definition rat_lt0 (snum den : Z) : bool :=
  ((snum <? 0) && (0 <? den)) || ((0 <? snum) && (den <? 0)).
(* snum / den > m *)
Definition rat_gt (snum den m : Z) : bool :=
  if 0 <? den then m * den <? snum else snum <? m * den.

Definition data2coord1 (v lo x_width n : Z) : Z :=
  let snum := (v - lo) * n in
  (* float clip *)
  let '(snum, den) := if rat_lt0 snum x_width then (0, 1) else (snum, x_width) in
  let '(snum, den) := if rat_gt snum den (n - 1) then (n - 1, 1) else (snum, den) in
  (* astype(int64): truncation toward zero (the value is in [0, n-1] here) *)
  let res := Z.quot snum den in
  (* integer clip *)
  let res := if res <? 0 then 0 else res in
  let res := if n - 1 <? res then n - 1 else res in
  res.

(* a range without extent: values up to the single value of the range, and NaN (which fails the
   comparison), go to cell 0, values beyond it to cell n - 1.  (In exact arithmetic the
   zero-extent widening by [one] > 0 always gives a width, so [hd1] below never gets here: the
   branch is taken by the floats only where + 1.0 is absorbed, |coordinate| >= 2^53, outside the
   regime - see Model/FloatData2Coord.v.) *)
Definition data2coord0 (v : num) (hi n : Z) : Z :=
  match v with Some v => if hi <? v then n - 1 else 0 | None => 0 end.

(* one value: [None] (NaN) -> not modelled (x86-64: INT64_MIN, clipped to 0) *)
Definition data2coord (vals : list num) (lo hi : Z) (n : Z) : list (option Z) :=
  let x_width := hi - lo in
  if x_width =? 0 then map (fun v => Some (data2coord0 v hi n)) vals
  else
  map (fun v => match v with
                | Some v => Some (data2coord1 v lo x_width n)
                | None => None
                end) vals.

(* regime of one dimension's range and of one value *)
Definition regime_range (lo hi : Z) : bool :=
  small lo && small hi && is_pow2 (Z.abs (hi - lo)).
Definition regime_val (a b : num) : bool :=
  match a, b with
  | Some x, Some y => small x && small y && Z.even (x + y)
  | _, _ => false
  end.

(* ---- _distances_from_bounds(bounds, total_bounds, p) --------------------
     n = bounds.shape[1] // 2                                   (= 2)
     dim_ranges = [(total_bounds[d], total_bounds[d+n]) for d in range(n)]
     for d in range(n):
         if dim_ranges[d][0] == dim_ranges[d][1]:
             dim_ranges[d] = (dim_ranges[d][0], dim_ranges[d][1] + 1)
     dim_mids = [(bounds[:, d] + bounds[:, d+n]) / 2.0 for d in range(n)]
     side_length = 2 ** p
     coords[:, d] = _data2coord(dim_mids[d], dim_ranges[d], side_length)
     return distances_from_coordinates(p, coords)                          *)
Definition widen (one : Z) (r : Z * Z) : Z * Z :=
  let '(lo, hi) := r in if lo =? hi then (lo, hi + one) else (lo, hi).

Definition bx0 (b : bbox) : num := let '(x0, _, _, _) := b in x0.
Definition by0 (b : bbox) : num := let '(_, y0, _, _) := b in y0.
Definition bx1 (b : bbox) : num := let '(_, _, x1, _) := b in x1.
Definition by1 (b : bbox) : num := let '(_, _, _, y1) := b in y1.

(* the Hilbert distance of ONE row given the (finite) total bounds:
   [None] when a mid-point is NaN or the row/range is outside the exact regime *)
Definition hd1 (one : Z) (tb : Z * Z * Z * Z) (p : nat) (b : bbox) : option N :=
  let '(tx0, ty0, tx1, ty1) := tb in
  let '(xlo, xhi) := widen one (tx0, tx1) in
  let '(ylo, yhi) := widen one (ty0, ty1) in
  let side_length := 2 ^ Z.of_nat p in
  let xmid := fhalf (fadd (bx0 b) (bx1 b)) in
  let ymid := fhalf (fadd (by0 b) (by1 b)) in
  if regime_range xlo xhi && regime_range ylo yhi
     && regime_val (bx0 b) (bx1 b) && regime_val (by0 b) (by1 b) then
    match data2coord [xmid] xlo xhi side_length, data2coord [ymid] ylo yhi side_length with
    | [Some cx], [Some cy] => Some (distance_from_coordinate p [Z.to_N cx; Z.to_N cy])
    | _, _ => None
    end
  else None.

Definition distances_from_bounds (one : Z) (bounds : list bbox) (tb : Z * Z * Z * Z) (p : nat)
  : list (option N) :=
  map (hd1 one tb p) bounds.

(* ---- GeometryArray.hilbert_distance(self, total_bounds=None, p=10) ------
     if total_bounds is None: total_bounds = self.total_bounds
     total_bounds = [float(b) for b in total_bounds]
     if total_bounds[0] == total_bounds[2]: total_bounds[2] += 1.0
     if total_bounds[1] == total_bounds[3]: total_bounds[3] += 1.0
     total_bounds = tuple(total_bounds)
     return _distances_from_bounds(self.bounds, total_bounds, p)

   The caller's argument is a Python sequence; the model returns the result AND
   the caller's sequence as it is after the call. *)
Inductive pyval := PyInt (z : Z)        (* a Python / numpy integer (NOT in model units) *)
                 | PyFloat (x : num).   (* a float, in model units *)
Inductive seqkind := KList | KTuple | KNdarray.
Record pyseq := { sq_kind : seqkind; sq_items : list pyval }.

(* what the call sees of the array: self.bounds and self.total_bounds (C13) *)
Record arrview := { av_bounds : list bbox; av_total : bbox }.

Definition to_float (one : Z) (v : pyval) : num :=
  match v with PyInt z => Some (z * one) | PyFloat x => x end.

Inductive outcome := Returned (ds : list (option N)) | Raised (exc : string).

Definition bbox_seq (b : bbox) : pyseq :=
  {| sq_kind := KTuple;
     sq_items := [PyFloat (bx0 b); PyFloat (by0 b); PyFloat (bx1 b); PyFloat (by1 b)] |}.

Definition hilbert_distance (one : Z) (self : arrview) (total_bounds : option pyseq) (p : nat)
  : outcome * option pyseq :=
  let seq0 := match total_bounds with None => bbox_seq (av_total self) | Some s => s end in
  let tbf := map (to_float one) (sq_items seq0) in     (* a fresh list: the argument is not touched *)
  let res :=
    match tbf with
    | t0 :: t1 :: t2 :: t3 :: _ =>
        let t2 := if feq t0 t2 then fadd t2 (Some one) else t2 in
        let t3 := if feq t1 t3 then fadd t3 (Some one) else t3 in
        match t0, t1, t2, t3 with
        | Some a, Some b, Some c, Some d =>
            Returned (distances_from_bounds one (av_bounds self) (a, b, c, d) p)
        | _, _, _, _ =>
            (* a non-finite total bound: every scaled value is NaN / 0 / -0 and the
               result is platform-defined: not modelled *)
            Returned (map (fun _ => None) (av_bounds self))
        end
    | _ => Raised "IndexError"
    end in
  (res, total_bounds).

(* GeoSeries.hilbert_distance(total_bounds=None, p=15): the array's, as a Series *)
Definition geoseries_hilbert_distance (one : Z) (self : arrview) (total_bounds : option pyseq)
           (p : nat) := hilbert_distance one self total_bounds p.

(* ---- comparison glue for the correspondence check ---------------------- *)
#[export] Instance EqbC_pyval : EqbC pyval :=
  fun a b => match a, b with
             | PyInt x, PyInt y => Z.eqb x y
             | PyFloat x, PyFloat y => eqbc x y
             | _, _ => false
             end.
#[export] Instance EqbC_seqkind : EqbC seqkind :=
  fun a b => match a, b with
             | KList, KList | KTuple, KTuple | KNdarray, KNdarray => true
             | _, _ => false
             end.
#[export] Instance EqbC_pyseq : EqbC pyseq :=
  fun a b => eqbc (sq_kind a) (sq_kind b) && eqbc (sq_items a) (sq_items b).
#[export] Instance EqbC_outcome : EqbC outcome :=
  fun a b => match a, b with
             | Returned x, Returned y => eqbc x y
             | Raised x, Raised y => eqbc x y
             | _, _ => false
             end.
