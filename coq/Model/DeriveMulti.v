(* Derivations that bring SEVERAL source arrays together (C16, extension).

   pandas.concat of GeoSeries / frames holding geometry columns:
     pd.concat([S_k0[a0:b0:s0], S_k1[a1:b1:s1], ...])
   where S_k is (a Series around) source array k.  Two regimes, decided by
   pandas from the dtypes of the pieces (pandas/core/dtypes/concat.py
   concat_compat):
     * all dtypes equal      -> cls._concat_same_type(pieces)  (base.py)
     * otherwise             -> every piece is turned into an object ndarray of
                                its scalars (astype(object) -> iteration ->
                                __getitem__(int)) and numpy concatenates them.
   At the element level both are the concatenation of the pieces' element
   lists; what the library decides (the slice of each piece, the iteration of
   each piece in the object regime, the error of an empty list of pieces) is
   transcribed with the definitions of Model/Derive.v.  Which regime pandas
   chose is not predicted (the container is pandas' business); the elements are.

   Executable definitions only. *)
From Coq Require Import ZArith List Bool Arith.
From SP Require Import Model.Num Model.Arrow Model.Derive.
Import ListNotations.

(* a piece: source number, then start / stop / step of the slice taken of it *)
Definition piece : Type := (nat * option Z * option Z * option Z)%type.

Section Multi.
Context {X : Type}.
Variable na : X.

Definition piece_elems (srcs : list (list X)) (p : piece) : pyres (list X) :=
  let '(k, a, b, s) := p in getitem_slice na a b s (nth k srcs []).

(* same-dtype regime: cls._concat_same_type([S_k[a:b:s].array ...]) *)
Definition concat_pieces (srcs : list (list X)) (ps : list piece) : pyres (list X) :=
  pybind (collect (map (piece_elems srcs) ps)) concat_same_type.

(* object regime: np.concatenate([np.array(list(piece), dtype=object) ...]) *)
Definition concat_pieces_object (srcs : list (list X)) (ps : list piece)
  : pyres (list X) :=
  pybind (collect (map (fun p => pybind (piece_elems srcs p) (array_iter na)) ps))
         concat_same_type.

(* the concatenation, then a history of single-array steps on the result *)
Definition run_multi (srcs : list (list X)) (ps : list piece) (steps : list step)
  : pyres (list X) :=
  pybind (concat_pieces srcs ps) (run_steps na steps).

End Multi.

(* ------------------------------------------------------------------ *)
(** * what the correspondence check evaluates                           *)
(* ------------------------------------------------------------------ *)
(* what the implementation handed back: a geometry array (its exported
   buffers), or a container of scalars read one by one (object Series) *)
Inductive mres : Type :=
| MRepr (r : repr)
| MElems (l : list (option elem)).

Definition check_mres (m : mres) (l : list (option elem)) : Z :=
  match m with
  | MRepr r => check_repr r l
  | MElems l' => if list_eqb' oelem_eqb l' l then 0%Z else 4%Z
  end.

(* one observed multi-source history: for every source the elements it was
   built from and its exported buffers (verdict per source as [check_repr]);
   the pieces; the follow-up steps; what came back (or the exception class).
   Verdicts: one per source, then one for the result: 0 agree, 1 error class /
   error-vs-result differs, 2..5 as [check_repr]. *)
Definition multi_case : Type :=
  (list (list (option elem) * repr) * list piece * list step * pyres mres)%type.

Definition check_multi (c : multi_case) : list Z :=
  let '(srcs, ps, steps, r) := c in
  let m := run_multi None (map fst srcs) ps steps in
  map (fun '(l, rp) => check_repr rp l) srcs ++
  [match m, r with
   | Ok l, Ok res => check_mres res l
   | Ok _, _ => 1
   | _, Ok _ => 1
   | _, _ => if (pyres_code m =? pyres_code r)%Z then 0 else 1
   end%Z].

(* diagnostic *)
Definition multi_model (c : multi_case) : pyres (list (option elem)) :=
  let '(srcs, ps, steps, _) := c in run_multi None (map fst srcs) ps steps.
