(* binary64 transcription of the scalar numba kernels

     spatialpandas/geometry/_algorithms/orientation.py : triangle_orientation
     spatialpandas/geometry/_algorithms/intersection.py: segment_intersects_point,
        segments_intersect_1d, segments_intersect, point_intersects_polygon
     spatialpandas/geometry/_algorithms/measures.py    : compute_area

   over Coq's primitive floats (IEEE 754 binary64, round to nearest even: the
   arithmetic numba/LLVM emits for float64 operands without fastmath).  Branch for
   branch the Python: same comparison operators, same early exits.  NaN, +-inf,
   +-0.0, overflow and subnormals behave as IEEE prescribes because [ltb], [leb],
   [eqb], [sub], [mul], [add], [div] are the machine's.

   Python's  a > b  is written  b <? a ,  a >= b  is  b <=? a  (the same IEEE
   predicate with the operands exchanged: both are False when either is NaN).

   This model is defined on ALL float64 inputs.  Proofs/FloatExact.v proves that on
   images of integers |z| <= 2^25 it returns what the Z models of Model/PointKernels.v
   and Model/Intersect.v return (assumption A-FLOAT of DESIGN 3.1 as a theorem);
   harness/cfloat_util.py compares it with the real kernels on arbitrary float64
   inputs.  Executable only, no proofs. *)
From Coq Require Export PrimFloat.
From Coq Require Import ZArith List Bool Arith.
From Coq Require Uint63.
From SP Require Import Model.Num.
Import ListNotations.

(* numba lowers the builtins  min(a, b)  /  max(a, b)  on two floats as
   "b if b < a else a"  /  "b if b > a else a"  (numba/cpython/builtins.py:
   do_minmax with operator.lt / operator.gt applied to (value, accumulator)) *)
Definition fmin (a b : float) : float := if (b <? a)%float then b else a.
Definition fmax (a b : float) : float := if (a <? b)%float then b else a.

(* ---- triangle_orientation(ax, ay, bx, by, cx, cy): +1 ccw, 0 collinear, -1 cw ---- *)
Definition ftriangle_orientation (ax ay bx by_ cx cy : float) : Z :=
  let ab_x := (bx - ax)%float in let ab_y := (by_ - ay)%float in
  let ac_x := (cx - ax)%float in let ac_y := (cy - ay)%float in
  let ab_x_ac := ((ab_x * ac_y) - (ab_y * ac_x))%float in
  if (0 <? ab_x_ac)%float then 1%Z            (* ab_x_ac > 0 *)
  else if (ab_x_ac <? 0)%float then (-1)%Z    (* ab_x_ac < 0 *)
  else 0%Z.

(* ---- segment_intersects_point(ax0, ay0, ax1, ay1, bx, by) ---- *)
Definition fsegment_intersects_point (ax0 ay0 ax1 ay1 bx by_ : float) : bool :=
  if (bx <? fmin ax0 ax1)%float || (fmax ax0 ax1 <? bx)%float then false
  else if (by_ <? fmin ay0 ay1)%float || (fmax ay0 ay1 <? by_)%float then false
  else
    let sx := (ax1 - ax0)%float in let sy := (ay1 - ay0)%float in
    let px := (bx - ax0)%float in let py := (by_ - ay0)%float in
    let sxp := (sx * py - sy * px)%float in
    (sxp =? 0)%float.

(* ---- segments_intersect_1d(ax0, ax1, bx0, bx1) ---- *)
Definition fsegments_intersect_1d (ax0 ax1 bx0 bx1 : float) : bool :=
  let '(ax0, ax1) := if (ax1 <? ax0)%float then (ax1, ax0) else (ax0, ax1) in
  let '(bx0, bx1) := if (bx1 <? bx0)%float then (bx1, bx0) else (bx0, bx1) in
  (fmax ax0 bx0 <=? fmin ax1 bx1)%float.

(* ---- segments_intersect(ax0, ay0, ax1, ay1, bx0, by0, bx1, by1) ---- *)
Definition fsegments_intersect (ax0 ay0 ax1 ay1 bx0 by0 bx1 by1 : float) : bool :=
  if negb (fsegments_intersect_1d ax0 ax1 bx0 bx1) then false
  else if negb (fsegments_intersect_1d ay0 ay1 by0 by1) then false
  else
    let a_zero := (ax0 =? ax1)%float && (ay0 =? ay1)%float in
    let b_zero := (bx0 =? bx1)%float && (by0 =? by1)%float in
    if a_zero && negb b_zero &&
       (((ax0 =? bx0)%float && (ay0 =? by0)%float) || ((ax0 =? bx1)%float && (ay0 =? by1)%float))
    then true
    else if b_zero && negb a_zero &&
       (((bx0 =? ax0)%float && (by0 =? ay0)%float) || ((bx0 =? ax1)%float && (by0 =? ay1)%float))
    then true
    else if a_zero || b_zero then false
    else
      let b0_o := ftriangle_orientation ax0 ay0 ax1 ay1 bx0 by0 in
      let b1_o := ftriangle_orientation ax0 ay0 ax1 ay1 bx1 by1 in
      if (b0_o =? 0)%Z && (b1_o =? 0)%Z then true
      else if (b0_o =? b1_o)%Z then false
      else
        let a0_o := ftriangle_orientation bx0 by0 bx1 by1 ax0 ay0 in
        let a1_o := ftriangle_orientation bx0 by0 bx1 by1 ax1 ay1 in
        if (a0_o =? 0)%Z && (a1_o =? 0)%Z then true
        else if (a0_o =? a1_o)%Z then false
        else true.

(* ---- point_intersects_polygon(x, y, values, value_offsets) ---- *)
Definition fpt := (float * float)%type.

(* interleaved coordinates -> vertices *)
Fixpoint fpairs (vs : list float) : list fpt :=
  match vs with
  | x :: y :: t => (x, y) :: fpairs t
  | _ => []
  end.

(* consecutive vertex pairs: k = start, start+2, ... < stop-2 *)
Fixpoint fedges (ps : list fpt) : list (fpt * fpt) :=
  match ps with
  | a :: ((b :: _) as t) => (a, b) :: fedges t
  | _ => []
  end.

(* the body of the inner loop: contribution of the edge (x0,y0)-(x1,y1) to the
   winding number.  [ascending] is -1 or 1, hence truthy in
   [axb == 0 and ascending]. *)
Definition fpip_edge (x y : float) (e : fpt * fpt) : Z :=
  let '((x0, y0), (x1, y1)) := e in
  if (y1 =? y0)%float then 0%Z                                   (* skip horizontal edges *)
  else
    let '(ascending, x0, y0, x1, y1) :=
      if (y1 <? y0)%float then ((-1)%Z, x1, y1, x0, y0) else (1%Z, x0, y0, x1, y1) in
    (* y0 >= y or y1 < y or (x0 < x and x1 < x) *)
    if (y <=? y0)%float || (y1 <? y)%float || ((x0 <? x)%float && (x1 <? x)%float) then 0%Z
    (* x0 >= x and x1 >= x *)
    else if (x <=? x0)%float && (x <=? x1)%float then ascending
    else
      let ax := (x0 - x)%float in let ay := (y0 - y)%float in
      let bx := (x1 - x)%float in let by_ := (y1 - y)%float in
      let axb := (ax * by_ - ay * bx)%float in
      (* axb > 0 or (axb == 0 and ascending) *)
      if (0 <? axb)%float || (axb =? 0)%float then ascending else 0%Z.

Definition fpip_ring (x y : float) (ring : list float) : Z :=
  fold_left (fun acc e => (acc + fpip_edge x y e)%Z) (fedges (fpairs ring)) 0%Z.

(* rings delimited by consecutive offsets into values *)
Fixpoint frings_of (values : list float) (offs : list nat) : list (list float) :=
  match offs with
  | start :: ((stop :: _) as t) => slice start stop values :: frings_of values t
  | _ => []
  end.

Definition fwinding_number (x y : float) (values : list float) (offs : list nat) : Z :=
  fold_left (fun acc r => (acc + fpip_ring x y r)%Z) (frings_of values offs) 0%Z.

(* np.isfinite(v): neither NaN nor +-inf *)
Definition fisfinite (v : float) : bool := is_finite v.

Definition fpoint_intersects_polygon (x y : float) (values : list float) (offs : list nat) : bool :=
  (* if not (np.isfinite(x) or np.isfinite(y)): return False
     (a point without any finite coordinate is empty: it is inside no polygon) *)
  if negb (fisfinite x || fisfinite y) then false
  else negb (fwinding_number x y values offs =? 0)%Z.

(* ---- spatialpandas/geometry/point.py: Point._intersects_polygon(polygon) and, per point,
   PointArray._intersects_polygon(polygon, inds): the wrappers of the kernel.
   [values] = polygon.buffer_values, [offs] = polygon.buffer_inner_offsets.
     if not np.isfinite(polygon.buffer_values).any(): return False   (zeros for the array)
   (a polygon without any finite coordinate is empty: it holds no point) ---- *)
Definition fpolygon_intersects (x y : float) (values : list float) (offs : list nat) : bool :=
  if negb (existsb fisfinite values) then false
  else fpoint_intersects_polygon x y values offs.

(* ---- compute_area(values, value_offsets), float64 values ---- *)

(* unchecked read values[i] (the harness only reads in range) *)
Definition fget (vals : list float) (i : nat) : float := nth i vals nan.

(* len(range(a, b, 2)) *)
Definition frange2_count (a b : nat) : nat := (b - a + 1) / 2.

(* for k in range(start, stop - 4, 2): area += values[k+2] * (values[k+5] - values[k+1]) *)
Fixpoint farea_main (vals : list float) (n k : nat) (acc : float) : float :=
  match n with
  | O => acc
  | S n' =>
      let ix := fget vals (k + 2) in
      let jy := fget vals (k + 4 + 1) in
      let ky := fget vals (k + 1) in
      farea_main vals n' (k + 2) (acc + ix * (jy - ky))%float
  end.

Definition farea_ring (vals : list float) (start stop : nat) (acc : float) : float :=
  if Nat.ltb (stop - start) 6 then acc                      (* poly_length < 6: continue *)
  else
    let acc1 := farea_main vals (frange2_count start (stop - 4)) start acc in
    (* wrap-around term: firstx * (secondy - lasty) *)
    (acc1 + fget vals start * (fget vals (start + 3) - fget vals (stop - 3)))%float.

Fixpoint farea_loop (vals : list float) (offs : list nat) (acc : float) : float :=
  match offs with
  | start :: ((stop :: _) as t) => farea_loop vals t (farea_ring vals start stop acc)
  | _ => acc
  end.

(* area / 2.0 *)
Definition fcompute_area (vals : list float) (offs : list nat) : float :=
  (farea_loop vals offs 0 / 2)%float.

(* ---- injection of integers (executable): the float64 a Python float(z) is for
   |z| < 2^62 (of_uint63 rounds to nearest even like the int -> float64 conversion;
   exact for |z| <= 2^53, which is all Proofs/FloatExact.v uses) ---- *)
Definition Z2F (z : Z) : float :=
  match z with
  | Z0 => zero
  | Zpos _ => of_uint63 (Uint63.of_Z z)
  | Zneg p => opp (of_uint63 (Uint63.of_Z (Zpos p)))
  end.

(* ---- what the correspondence check evaluates ----
   a float result is compared through its classification into
   NaN / (sign, mantissa, exponent): [fkey] is injective up to NaN payload *)
Definition fkey (f : float) : Z * Z * Z :=
  if is_nan f then (2, 0, 0)%Z
  else
    let s := if get_sign f then 1%Z else 0%Z in
    if is_infinity f then (s, -1, 0)%Z
    else
      let '(m, e) := frshiftexp (abs f) in
      (s, Uint63.to_Z (normfr_mantissa m), Uint63.to_Z e).

Definition run_orient (l : list (float * float * float * float * float * float)) : list Z :=
  map (fun '(a, b, c, d, e, f) => ftriangle_orientation a b c d e f) l.
Definition run_sip (l : list (float * float * float * float * float * float)) : list bool :=
  map (fun '(a, b, c, d, e, f) => fsegment_intersects_point a b c d e f) l.
Definition run_si1d (l : list (float * float * float * float)) : list bool :=
  map (fun '(a, b, c, d) => fsegments_intersect_1d a b c d) l.
Definition run_si (l : list (float * float * float * float * float * float * float * float))
  : list bool :=
  map (fun '(a, b, c, d, e, f, g, h) => fsegments_intersect a b c d e f g h) l.
(* one polygon, many points *)
Definition run_pip (c : list float * list nat * list (float * float)) : list bool :=
  let '(vals, offs, pts) := c in
  map (fun '(x, y) => fpoint_intersects_polygon x y vals offs) pts.
(* one polygon through the wrapper, many points *)
Definition run_pipw (c : list float * list nat * list (float * float)) : list bool :=
  let '(vals, offs, pts) := c in
  map (fun '(x, y) => fpolygon_intersects x y vals offs) pts.
Definition run_area (l : list (list float * list nat)) : list (Z * Z * Z) :=
  map (fun '(vals, offs) => fkey (fcompute_area vals offs)) l.
