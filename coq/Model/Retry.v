(* The retry decorator (retrying.retry with the _retry_args) and a filesystem whose calls fail
   according to a fault schedule; pack_partitions_to_parquet over them ([packF]).
   Executable only; no proofs.

   Fault model.  The schedule is a list of [option fault]: the k-th filesystem call of the
   run (every top-level call of a filesystem method made by spatialpandas, pyarrow or dask
   during the call, counted as harness/fsrec.py counts them) gets the k-th entry; beyond
   the end of the list there are no faults.
     FRaise      the call raises OSError before any effect
     FNotFound   the call raises FileNotFoundError before any effect
     FAfter      makedirs / rm / open-for-write / mv perform their whole effect, then raise
     FPartial n  makedirs creates only the first missing directory; rm removes the subtree
                 of only the n-th child; a file opened for writing is created / truncated
                 and the first write fails; then the call raises
     FStale n    ls / find return the listing without its n-th entry
     FLie        exists / isfile / isdir return False although the path is there
                 (fsspec's `exists` swallows every error of `info`); info raises
   A fault kind that does not apply to the call at its position acts as FRaise.

   Which calls sit inside which retried function is read off the code: every filesystem
   call of the procedure except those of the final read_parquet_dask is inside exactly
   one of the eight used @retryit functions (ls_retry is defined but never called). *)
From Coq Require Import ZArith List Bool Arith.
From SP Require Import Harness Model.FS Model.PackFS.
Import ListNotations.

Inductive fault :=
| FRaise
| FNotFound
| FAfter
| FPartial (n : nat)
| FStale (n : nat)
| FLie.

Inductive opk :=
| KExists | KIsfile | KIsdir | KInfo | KLs | KFind | KMakedirs | KRm | KOpenW | KOpenR | KMove.

Definition opk_code (k : opk) : nat :=
  match k with
  | KExists => 0 | KIsfile => 1 | KIsdir => 2 | KInfo => 3 | KLs => 4 | KFind => 5
  | KMakedirs => 6 | KRm => 7 | KOpenW => 8 | KOpenR => 9 | KMove => 10
  end.

Definition traced := (opk * path * path)%type.

Record fstate := {
  st_fs : fs;
  st_sched : list (option fault);
  st_trace : list traced;       (* most recent call first *)
}.

Definition set_fs (s : fstate) (f : fs) : fstate :=
  {| st_fs := f; st_sched := st_sched s; st_trace := st_trace s |}.

(* one filesystem call: log it and take the scheduled fault, if any *)
Definition tick (k : opk) (p p2 : path) : M fstate (option fault) :=
  fun s =>
    let '(f, rest) := match st_sched s with [] => (None, []) | x :: t => (x, t) end in
    OK f {| st_fs := st_fs s; st_sched := rest; st_trace := (k, p, p2) :: st_trace s |}.

Definition get_fs : M fstate fs := fun s => OK (st_fs s) s.
Definition put_fs (f : fs) : M fstate unit := fun s => OK tt (set_fs s f).

Definition of_option {A} (o : option A) : M fstate A :=
  match o with Some a => ret a | None => fail end.

(* the listing without its n-th entry (index modulo the length) *)
Fixpoint remove_nth {A} (n : nat) (l : list A) : list A :=
  match l, n with
  | [], _ => []
  | _ :: t, 0 => t
  | x :: t, S n' => x :: remove_nth n' t
  end.
Definition drop_entry {A} (n : nat) (l : list A) : list A :=
  match l with [] => [] | _ => remove_nth (n mod List.length l) l end.

(* [lies = false]: the fault kind FLie is not part of the fault model (a lying stat call
   acts as a raising one); the theorems that exclude lying existence checks are stated
   about that instance *)
Definition f_stat (lies : bool) (k : opk) (q : fs -> path -> bool) (p : path) : M fstate bool :=
  ft <- tick k p [] ;;
  match ft with
  | None => f <- get_fs ;; ret (q f p)
  | Some FLie => if lies then ret false else fail
  | Some _ => fail
  end.

Definition f_info (p : path) : M fstate unit :=
  ft <- tick KInfo p [] ;;
  match ft with
  | None => f <- get_fs ;; if exists_b f p then ret tt else fail
  | Some _ => fail
  end.

Definition f_ls (p : path) : M fstate (list path) :=
  ft <- tick KLs p [] ;;
  match ft with
  | None => f <- get_fs ;; of_option (ls f p)
  | Some (FStale n) => f <- get_fs ;; l <- of_option (ls f p) ;; ret (drop_entry n l)
  | Some _ => fail
  end.

Definition f_find (p : path) : M fstate (list path) :=
  ft <- tick KFind p [] ;;
  match ft with
  | None => f <- get_fs ;; ret (find f p)
  | Some (FStale n) => f <- get_fs ;; ret (drop_entry n (find f p))
  | Some _ => fail
  end.

(* a mutation with its complete effect [eff] and its interrupted effect [part] *)
Definition f_mut (k : opk) (p p2 : path) (eff : fs -> option fs) (part : nat -> fs -> fs)
  : M fstate unit :=
  ft <- tick k p p2 ;;
  match ft with
  | None => f <- get_fs ;; f' <- of_option (eff f) ;; put_fs f'
  | Some FAfter => f <- get_fs ;; f' <- of_option (eff f) ;; put_fs f' ;;; fail
  | Some (FPartial n) => f <- get_fs ;; put_fs (part n f) ;;; fail
  | Some _ => fail
  end.

(* rm under `except FileNotFoundError: pass`: a missing path, or an injected
   FileNotFoundError, counts as done *)
Definition f_rm (p : path) : M fstate unit :=
  ft <- tick KRm p [] ;;
  match ft with
  | None => f <- get_fs ;; if exists_b f p then (f' <- of_option (rm f p) ;; put_fs f') else ret tt
  | Some FNotFound => ret tt
  | Some FAfter =>
      f <- get_fs ;;
      if exists_b f p then (f' <- of_option (rm f p) ;; put_fs f' ;;; fail) else ret tt
  | Some (FPartial n) => f <- get_fs ;; put_fs (rm_partial f p n) ;;; fail
  | Some _ => fail
  end.

Definition f_read (p : path) : M fstate content :=
  ft <- tick KOpenR p [] ;;
  match ft with
  | None => f <- get_fs ;; of_option (read f p)
  | Some _ => fail
  end.

Definition f_read_opt (p : path) : M fstate (option content) :=
  ft <- tick KOpenR p [] ;;
  match ft with
  | None => f <- get_fs ;; ret (read f p)
  | Some FNotFound => ret None
  | Some _ => fail
  end.

Definition faulty_prims (lies : bool) : prims fstate := {|
  p_exists := f_stat lies KExists exists_b;
  p_isfile := f_stat lies KIsfile isfile_b;
  p_isdir := f_stat lies KIsdir isdir_b;
  p_info := f_info;
  p_ls := f_ls;
  p_find := f_find;
  p_makedirs := fun p => f_mut KMakedirs p [] (fun f => makedirs f p) (fun _ f => makedirs_partial f p);
  p_rm := f_rm;
  p_write := fun p c =>
    f_mut KOpenW p [] (fun f => write f p c)
          (fun _ f => match write f p CPartial with Some f' => f' | None => f end);
  p_read := f_read;
  p_read_opt := f_read_opt;
  p_move := fun p1 p2 => f_mut KMove p1 p2 (fun f => move f p1 p2) (fun _ f => f);
|}.

(* retrying.retry(stop_max_attempt_number=K): call again after any exception, give up
   (re-raise) after the K-th failed attempt.  The state an attempt leaves is the state
   the next attempt starts from. *)
Fixpoint retry {St A} (K : nat) (m : M St A) : M St A :=
  fun s =>
    match K with
    | 0 => Err s
    | S K' => match m s with
              | OK a s' => OK a s'
              | Err s' => retry K' m s'
              end
    end.

Definition faulty_wrappers (lies : bool) (K : nat) : wrappers fstate :=
  let P := faulty_prims lies in {|
  w_rm := fun p => retry K (body_rm P p);
  w_mkdirs := fun p => retry K (body_mkdirs P p);
  w_write_partition := fun p c => retry K (body_write_partition P p c);
  w_read_parquet := fun t s o => retry K (body_read_parquet P t s o);
  w_write_concatted := fun o c => retry K (body_write_concatted P o c);
  w_move := fun p1 p2 => retry K (body_move P p1 p2);
  w_write_metadata := fun d ps => retry K (body_write_metadata P d ps);
  w_write_common := fun d ps => retry K (body_write_common P d ps);
  w_final_read := body_final_read P;      (* not retried *)
|}.

Definition packF_gen (lies : bool) (K : nat) (sched : list (option fault)) (f : fs) (cfg : config)
  (asg : assignment) : outcome fstate (list (list cell)) :=
  pack_proc (faulty_wrappers lies K) cfg asg {| st_fs := f; st_sched := sched; st_trace := [] |}.

(* the model the correspondence run evaluates: all six fault kinds *)
Definition packF := packF_gen true.

(* ------------------------------------------------------------------ harness glue *)
#[export] Instance EqbC_opk : EqbC opk := fun a b => Nat.eqb (opk_code a) (opk_code b).

Definition traced_eqb (a b : traced) : bool :=
  let '(k1, p1, q1) := a in
  let '(k2, p2, q2) := b in
  Nat.eqb (opk_code k1) (opk_code k2) && path_eqb p1 p2 && path_eqb q1 q2.

(* case = (compare trees?, compare traces?, K, schedule, prior tree, config, assignment,
           real final tree, real trace);
   result = (the model returns normally, final trees agree, traces agree) *)
Definition packF_check
  (case : bool * bool * nat * list (option fault) * fs * config * assignment * fs * list traced)
  : bool * bool * bool :=
  let '(cmp_tree, cmp_trace, K, sched, f0, cfg, asg, real_final, real_trace) := case in
  let chk (s : fstate) :=
    (negb cmp_tree || fs_eqb (st_fs s) real_final,
     negb cmp_trace || list_eqb traced_eqb (rev (st_trace s)) real_trace) in
  match packF K sched f0 cfg asg with
  | OK _ s => (true, fst (chk s), snd (chk s))
  | Err s => (false, fst (chk s), snd (chk s))
  end.

(* the trace of the model run, oldest call first (for messages) *)
Definition packF_trace (K : nat) (sched : list (option fault)) (f : fs) (cfg : config)
  (asg : assignment) : bool * list traced :=
  match packF K sched f cfg asg with
  | OK _ s => (true, rev (st_trace s))
  | Err s => (false, rev (st_trace s))
  end.
