(* spatialpandas/geometry/_algorithms/bounds.py and the bounds/total_bounds
   properties of GeometryListArray / GeometryFixedArray.  Executable only. *)
From Coq Require Import ZArith List Bool Arith.
From SP Require Import Model.Num Model.Arrow.
Import ListNotations.

(* (xmin, ymin, xmax, ymax); None = NaN *)
Definition bbox := (num * num * num * num)%type.

(* accumulators: None = still +inf (for a min) / -inf (for a max) *)
Fixpoint tbi_loop (vs : list num) (xmin xmax ymin ymax : option Z)
  : option Z * option Z * option Z * option Z :=
  match vs with
  | x :: y :: t =>
      let '(xmin', xmax') :=
        match x with Some v => (omin xmin v, omax xmax v) | None => (xmin, xmax) end in
      let '(ymin', ymax') :=
        match y with Some v => (omin ymin v, omax ymax v) | None => (ymin, ymax) end in
      tbi_loop t xmin' xmax' ymin' ymax'
  | _ => (xmin, xmax, ymin, ymax)
  end.

(* total_bounds_interleaved *)
Definition total_bounds_interleaved (vs : list num) : bbox :=
  let '(xmin, xmax, ymin, ymax) := tbi_loop vs None None None None in
  let '(xmin, xmax) := match xmin with None => (None, None) | _ => (xmin, xmax) end in
  let '(ymin, ymax) := match ymin with None => (None, None) | _ => (ymin, ymax) end in
  (xmin, ymin, xmax, ymax).

(* total_bounds_interleaved_1d (offset 0 = x, 1 = y) *)
Fixpoint tbi1_loop (vs : list num) (first : bool) (vmin vmax : option Z) :=
  match vs with
  | x :: y :: t =>
      match (if first then x else y) with
      | Some v => tbi1_loop t first (omin vmin v) (omax vmax v)
      | None => tbi1_loop t first vmin vmax
      end
  | _ => (vmin, vmax)
  end.

Definition total_bounds_interleaved_1d (vs : list num) (offset : nat) : num * num :=
  let '(vmin, vmax) := tbi1_loop vs (Nat.eqb offset 0) None None in
  match vmin with None => (None, None) | _ => (vmin, vmax) end.

(* bounds_interleaved(flat_values, flat_value_offsets) *)
Fixpoint bounds_interleaved (vals : list num) (offs : list nat) : list bbox :=
  match offs with
  | start :: ((stop :: _) as t) =>
      total_bounds_interleaved (slice start stop vals) :: bounds_interleaved vals t
  | _ => []
  end.

(* GeometryListArray *)
Definition la_bounds (a : listarr) : list bbox :=
  bounds_interleaved (buffer_values a) (buffer_outer_offsets a).
Definition la_total_bounds (a : listarr) : bbox := total_bounds_interleaved (flat_values a).
Definition la_total_bounds_x (a : listarr) := total_bounds_interleaved_1d (flat_values a) 0.
Definition la_total_bounds_y (a : listarr) := total_bounds_interleaved_1d (flat_values a) 1.

(* GeometryFixedArray (after the D1 repair): one row per slot from the
   interleaved kernel, then the rows of missing slots are set to NaN;
   total_bounds reads only the non-missing slots. *)
Definition nanbox : bbox := (None, None, None, None).

Fixpoint arange2 (n : nat) (start : nat) : list nat :=
  match n with O => [start] | S k => start :: arange2 k (start + 2) end.

Definition fa_bounds (a : fixarr) : list bbox :=
  let flat := fa_flat_values a in
  match flat with
  | [] => []
  | _ =>
      map (fun '(na, b) => if (na : bool) then nanbox else b)
          (combine (fa_isna a) (bounds_interleaved flat (arange2 (fa_len a) 0)))
  end.

Definition fa_valid_flat_values (a : fixarr) : list num :=
  concat (map (fun '(na, i) => if (na : bool) then []
                               else slice (2 * i) (2 * i + 2) (fa_flat_values a))
              (combine (fa_isna a) (seq 0 (fa_len a)))).

Definition fa_total_bounds (a : fixarr) : bbox :=
  total_bounds_interleaved (fa_valid_flat_values a).
Definition fa_total_bounds_x (a : fixarr) := total_bounds_interleaved_1d (fa_valid_flat_values a) 0.
Definition fa_total_bounds_y (a : fixarr) := total_bounds_interleaved_1d (fa_valid_flat_values a) 1.

(* what the correspondence check evaluates: every bounds quantity of one array *)
Definition la_all (a : listarr) :=
  (la_bounds a, la_total_bounds a, la_total_bounds_x a, la_total_bounds_y a).
Definition fa_all (a : fixarr) :=
  (fa_bounds a, fa_total_bounds a, fa_total_bounds_x a, fa_total_bounds_y a).
