(* Bit-exact binary64 model of
     spatialpandas/geometry/_algorithms/measures.py  (compute_line_length, compute_area)
     spatialpandas/geometry/baselist.py              (_geometry_map_nested1/2/3)
   over Coq's primitive floats (IEEE 754 binary64, round to nearest even: the
   arithmetic of the x86-64 SSE2 instructions the kernels are compiled to).
   Executable definitions only.

   What the compiled code does (read off the LLVM IR / assembly numba emits and
   validated bit for bit by harness/c14_float.py):
     * [(x1 - x0) ** 2] is ONE multiplication d*d (numba expands a constant integer
       power by repeated multiplication; there is no call to pow);
     * no fused multiply-add: numba emits no fast-math / contract flags, so LLVM keeps
       fmul and fadd separate (mulsd / addsd, no vfmadd);
     * [sqrt] is the sqrtsd instruction (correctly rounded, as [PrimFloat.sqrt]);
     * the accumulation is strictly left to right into one scalar, starting from +0.0
       (no reassociation, no vectorised reduction);
     * [area / 2.0] is compiled to a multiplication by 0.5, which yields the same
       binary64 as the division for every operand;
     * [np.float64(values[i])] of a float32 array is an exact widening (fpext): every
       subtraction / product / sum is then a binary64 operation.
   The offset arithmetic and the array-level maps are those of Model/Measures.v
   ([range2_count], [map_nested1/2/3], [sc_inner_offsets]), reused as they are. *)
From Coq Require Import PrimFloat Uint63 List ZArith Bool Arith.
From SP Require Import Harness Model.Num Model.Arrow Model.Measures.
Import ListNotations.

(* unchecked read np.float64(values[i]) *)
Definition fget (vals : list float) (i : nat) : float := nth i vals nan.

(* np.isfinite *)
Definition f_isfinite (x : float) : bool := negb (is_nan x) && negb (is_infinity x).

(* (x1 - x0) ** 2 + (y1 - y0) ** 2 *)
Definition f_sqdist (x0 y0 x1 y1 : float) : float :=
  let dx := PrimFloat.sub x1 x0 in
  let dy := PrimFloat.sub y1 y0 in
  PrimFloat.add (PrimFloat.mul dx dx) (PrimFloat.mul dy dy).

(* one segment of the inner loop: the value by which total_len grows *)
Definition f_seglen (x0 y0 x1 y1 : float) : float := PrimFloat.sqrt (f_sqdist x0 y0 x1 y1).

Definition f_finite4 (x0 y0 x1 y1 : float) : bool :=
  f_isfinite x0 && f_isfinite y0 && f_isfinite x1 && f_isfinite y1.

(* ------------------------------------------------------------------ *)
(* compute_line_length                                                  *)
(* ------------------------------------------------------------------ *)

(* the inner loop  for i in range(start + 2, stop, 2)  with n iterations left,
   (x0, y0) the previous vertex, acc = total_len *)
Fixpoint fll_inner (vals : list float) (n i : nat) (x0 y0 acc : float) : float :=
  match n with
  | O => acc
  | S n' =>
      let x1 := fget vals i in
      let y1 := fget vals (i + 1) in
      let acc' := if f_finite4 x0 y0 x1 y1
                  then PrimFloat.add acc (f_seglen x0 y0 x1 y1)   (* total_len += sqrt(...) *)
                  else acc in
      fll_inner vals n' (i + 2) x1 y1 acc'
  end.

(* the outer loop  for offset_ind in range(len(value_offsets) - 1) *)
Fixpoint fll_loop (vals : list float) (offs : list nat) (acc : float) : float :=
  match offs with
  | start :: ((stop :: _) as t) =>
      fll_loop vals t
        (if Nat.ltb (stop - start) 4 then acc       (* fewer than two vertices: continue *)
         else fll_inner vals (range2_count (start + 2) stop) (start + 2)
                        (fget vals start) (fget vals (start + 1)) acc)
  | _ => acc
  end.

Definition f_compute_line_length (vals : list float) (offs : list nat) : float :=
  fll_loop vals offs zero.

(* ------------------------------------------------------------------ *)
(* compute_area                                                         *)
(* ------------------------------------------------------------------ *)

(* ix * (jy - ky) *)
Definition f_aterm (ix jy ky : float) : float := PrimFloat.mul ix (PrimFloat.sub jy ky).

(* for k in range(start, stop - 4, 2): area += values[k+2] * (values[k+5] - values[k+1]) *)
Fixpoint farea_main (vals : list float) (n k : nat) (acc : float) : float :=
  match n with
  | O => acc
  | S n' =>
      let ix := fget vals (k + 2) in
      let jy := fget vals (k + 4 + 1) in
      let ky := fget vals (k + 1) in
      farea_main vals n' (k + 2) (PrimFloat.add acc (f_aterm ix jy ky))
  end.

Definition farea_ring (vals : list float) (start stop : nat) (acc : float) : float :=
  if Nat.ltb (stop - start) 6 then acc                      (* poly_length < 6: continue *)
  else
    let acc1 := farea_main vals (range2_count start (stop - 4)) start acc in
    (* wrap-around term: firstx * (secondy - lasty) *)
    PrimFloat.add acc1 (f_aterm (fget vals start) (fget vals (start + 3)) (fget vals (stop - 3))).

Fixpoint farea_loop (vals : list float) (offs : list nat) (acc : float) : float :=
  match offs with
  | start :: ((stop :: _) as t) => farea_loop vals t (farea_ring vals start stop acc)
  | _ => acc
  end.

(* the sum before the final halving *)
Definition f_area2 (vals : list float) (offs : list nat) : float := farea_loop vals offs zero.

(* compute_area(values, value_offsets):  area / 2.0 *)
Definition f_compute_area (vals : list float) (offs : list nat) : float :=
  PrimFloat.div (f_area2 vals offs) two.

(* ------------------------------------------------------------------ *)
(* array level: result = np.full(n, np.nan), written by _geometry_map_nested<d>
   for the rows that are not missing.  The map kernels of Model/Measures.v are
   reused unchanged; their (integer) values argument is not looked at by the
   float kernels, which read the float values buffer [fv] instead.       *)
(* ------------------------------------------------------------------ *)

Definition nan_fill (l : list (option float)) : list float :=
  map (fun o : option float => match o with Some r => r | None => nan end) l.

Definition f_map_nested (depth : nat) (fn : list float -> list nat -> float)
           (fv : list float) (offs : list (list nat)) (missing : list bool) : list float :=
  let g := fun (_ : list num) (o : list nat) => fn fv o in
  nan_fill (match depth with
            | 1 => map_nested1 g [] offs missing
            | 2 => map_nested2 g [] offs missing
            | _ => map_nested3 g [] offs missing
            end).

Definition kind_depth (k : kind) : nat :=
  match k with
  | KMultiPoint | KLine | KRing => 1
  | KMultiLine | KPolygon => 2
  | KMultiPolygon => 3
  end.

(* np.where(self.isna(), np.nan, 0.0) *)
Definition f_zeros_nan (missing : list bool) : list float :=
  nan_fill (zeros_nan zero missing).

(* <Kind>Array.length on an array whose offsets / validity are [a] (its la_vals is
   not used) and whose values buffer, widened to float64, is [fv] *)
Definition f_arr_length (k : kind) (a : listarr) (fv : list float) : list float :=
  match k with
  | KMultiPoint => f_zeros_nan (la_isna a)
  | _ => f_map_nested (kind_depth k) f_compute_line_length fv (buffer_offsets a) (la_isna a)
  end.

Definition f_arr_area (k : kind) (a : listarr) (fv : list float) : list float :=
  match k with
  | KPolygon | KMultiPolygon =>
      f_map_nested (kind_depth k) f_compute_area fv (buffer_offsets a) (la_isna a)
  | _ => f_zeros_nan (la_isna a)
  end.

(* the scalar classes: same kernels over buffer_inner_offsets of the scalar *)
Definition f_sc_length (k : kind) (s : listarr) (fv : list float) : float :=
  match k with
  | KMultiPoint => zero
  | _ => f_compute_line_length fv (sc_inner_offsets s)
  end.

Definition f_sc_area (k : kind) (s : listarr) (fv : list float) : float :=
  match k with
  | KPolygon | KMultiPolygon => f_compute_area fv (sc_inner_offsets s)
  | _ => zero
  end.

(* ------------------------------------------------------------------ *)
(* what the correspondence check evaluates                              *)
(* ------------------------------------------------------------------ *)

(* bit-level equality of two binary64 values, all NaNs identified:
   eqb identifies +0.0 and -0.0, so the sign is compared as well *)
Definition f_same (a b : float) : bool :=
  if is_nan a then is_nan b
  else PrimFloat.eqb a b && Bool.eqb (get_sign a) (get_sign b).

#[export] Instance EqbC_float : EqbC float := f_same.

(* the kernels on raw buffers *)
Definition f_kernels (vals : list float) (offs : list nat) : float * float :=
  (f_compute_line_length vals offs, f_compute_area vals offs).

(* the guard of Model/Arrow.v (offsets monotone, in range at every level, validity long
   enough) for an array of [n] values, and even ring offsets *)
Definition with_nvals (a : listarr) (n : nat) : listarr :=
  {| la_off := la_off a; la_len := la_len a; la_valid := la_valid a;
     la_offs := la_offs a; la_vals := repeat None n |}.

Definition f_wf (a : listarr) (fv : list float) : bool :=
  wf_listarr (with_nvals a (length fv)) && forallb Nat.even (last (la_offs a) []).

(* array form: (length, area); [None] when the exported buffers are not well formed *)
Definition f_arr_measures (k : kind) (a : listarr) (fv : list float)
  : option (list float * list float) :=
  if f_wf a fv then Some (f_arr_length k a fv, f_arr_area k a fv) else None.

Definition f_sc_measures (k : kind) (s : listarr) (fv : list float) : float * float :=
  (f_sc_length k s fv, f_sc_area k s fv).
