(* spatialpandas/geometry/base.py: the index logic of GeometryArray.__getitem__,
   take, _concat_same_type, copy, isna, __eq__, __len__, iteration -- at the
   element level.

   pyarrow's own slice / take / concat_arrays and numpy's arange / nonzero /
   basic slicing are NOT modelled operationally: the primitives the code calls
   are given their list meaning ([arrow_slice], [arrow_take], [np_arange],
   [np_nonzero], [np_basic_slice], [concat]) and everything the library itself
   decides (which branch, which check, which error, which index arithmetic) is
   transcribed branch for branch.  The representation side (buffers, offsets)
   is tied to the element level by [decode_nested] / [decode_point] below and
   by the theorems of Proofs/ArrowDecode.v, Proofs/DeriveProofs.v.

   Executable definitions only. *)
From Coq Require Import ZArith List Bool Arith.
From SP Require Import Model.Num Model.Arrow Model.Bounds Spec.BoundsSpec.
Import ListNotations.

(* ------------------------------------------------------------------ *)
(** * 0. results of a Python call                                       *)
(* ------------------------------------------------------------------ *)
(* The class of the exception raised (subclasses are reported as the listed
   base: pyarrow.lib.ArrowInvalid is a ValueError). *)
Inductive pyres (A : Type) : Type :=
| Ok (a : A)
| ValueError
| IndexError
| TypeError.
Arguments Ok {A} a.
Arguments ValueError {A}.
Arguments IndexError {A}.
Arguments TypeError {A}.

Definition pybind {A B} (r : pyres A) (f : A -> pyres B) : pyres B :=
  match r with
  | Ok a => f a
  | ValueError => ValueError
  | IndexError => IndexError
  | TypeError => TypeError
  end.

Definition pymap {A B} (f : A -> B) (r : pyres A) : pyres B :=
  pybind r (fun a => Ok (f a)).

(* ------------------------------------------------------------------ *)
(** * 1. elements and the nested decode                                 *)
(* ------------------------------------------------------------------ *)
(* What [arr.data.to_pylist()] / [arr[i].data.as_py()] hold: a point is two
   coordinates, the list kinds are nested lists of coordinates. *)
Inductive elem : Type :=
| EPoint (x y : num)                       (* point *)
| ECoords (c : list num)                   (* multipoint, line, ring *)
| EParts (p : list (list num))             (* multiline, polygon *)
| EPolys (p : list (list (list num))).     (* multipolygon *)

(* all coordinates of an element, in buffer order *)
Definition flat_elem (e : elem) : list num :=
  match e with
  | EPoint x y => [x; y]
  | ECoords c => c
  | EParts p => concat p
  | EPolys p => concat (map (@concat num) p)
  end.

(* children [s, e) of one list level, as pyarrow reads them: child j spans
   offs[j] .. offs[j+1] of the level below *)
Definition decode1 (vals : list num) (s e : nat) : list num := slice s e vals.

Definition decode2 (o1 : list nat) (vals : list num) (s e : nat) : list (list num) :=
  map (fun j => decode1 vals (getn o1 j) (getn o1 (S j))) (seq s (e - s)).

Definition decode3 (o1 o2 : list nat) (vals : list num) (s e : nat)
  : list (list (list num)) :=
  map (fun j => decode2 o2 vals (getn o1 j) (getn o1 (S j))) (seq s (e - s)).

(* element i (relative to the array offset) read through the raw, unsliced
   offsets buffers with absolute positions -- the way pyarrow itself does, not
   through the library's buffer_offsets / buffer_outer_offsets *)
Definition nested_at (a : listarr) (i : nat) : elem :=
  match la_offs a with
  | [o0] =>
      ECoords (decode1 (la_vals a) (getn o0 (la_off a + i)) (getn o0 (la_off a + i + 1)))
  | [o0; o1] =>
      EParts (decode2 o1 (la_vals a) (getn o0 (la_off a + i)) (getn o0 (la_off a + i + 1)))
  | [o0; o1; o2] =>
      EPolys (decode3 o1 o2 (la_vals a) (getn o0 (la_off a + i)) (getn o0 (la_off a + i + 1)))
  | _ => ECoords []
  end.

Definition decode_nested (a : listarr) : list (option elem) :=
  map (fun i => if isna_at (la_valid a) (la_off a) i then None
                else Some (nested_at a i))
      (seq 0 (la_len a)).

Definition decode_point (a : fixarr) : list (option elem) :=
  map (fun o => match o with
                | None => None
                | Some (x, y) => Some (EPoint x y)
                end) (fa_decode a).

(* ------------------------------------------------------------------ *)
(** * 2. the primitives the library calls                               *)
(* ------------------------------------------------------------------ *)
Section Generic.
(* X = what one slot of the array holds; [na] = the missing value.  The array
   level instantiates X := option elem, na := None; the derived quantities
   (bounds rows, isna flags, ...) instantiate X with their row type. *)
Context {X : Type}.
Variable na : X.

(* pyarrow Array.slice(offset, length) *)
Definition arrow_slice (offset length : nat) (l : list X) : list X :=
  firstn length (skipn offset l).

(* pyarrow Array.take(indices): a null index gives a null slot *)
Definition arrow_take (ix : list (option nat)) (l : list X) : list X :=
  map (fun o => match o with None => na | Some i => nth i l na end) ix.

End Generic.

(* np.arange(n) *)
Definition np_arange (n : nat) : list Z := map Z.of_nat (seq 0 n).

(* np.nonzero(mask)[0] *)
Fixpoint np_nonzero_from (m : list bool) (i : Z) : list Z :=
  match m with
  | [] => []
  | b :: t => if b then i :: np_nonzero_from t (i + 1) else np_nonzero_from t (i + 1)
  end.
Definition np_nonzero (m : list bool) : list Z := np_nonzero_from m 0.

(* slice.indices(length) -- CPython PySlice_Unpack + PySlice_AdjustIndices;
   ValueError "slice step cannot be zero" *)
Definition adjust_index (v : option Z) (len step : Z) (dflt_pos dflt_neg : Z) : Z :=
  match v with
  | None => if step <? 0 then dflt_neg else dflt_pos
  | Some s =>
      if s <? 0 then
        let s' := s + len in
        if s' <? 0 then (if step <? 0 then -1 else 0) else s'
      else if len <=? s then (if step <? 0 then len - 1 else len)
      else s
  end.

Definition slice_indices (start stop step : option Z) (len : Z) : pyres (Z * Z * Z) :=
  let st := match step with None => 1 | Some s => s end in
  if st =? 0 then ValueError
  else Ok (adjust_index start len st 0 (len - 1),
           adjust_index stop len st len (-1),
           st).

(* len(range(start, stop, step)) -- CPython PySlice_AdjustIndices' return value *)
Definition range_len (start stop step : Z) : Z :=
  if step <? 0 then
    (if stop <? start then (start - stop - 1) / (- step) + 1 else 0)
  else
    (if start <? stop then (stop - start - 1) / step + 1 else 0).

(* list(range(start, stop, step)) *)
Definition zrange (start stop step : Z) : list Z :=
  map (fun k => start + Z.of_nat k * step)
      (seq 0 (Z.to_nat (range_len start stop step))).

(* numpy basic slicing of a 1-d array with a slice object: v[start:stop:step] *)
Definition np_basic_slice (v : list Z) (start stop step : option Z) : pyres (list Z) :=
  pybind (slice_indices start stop step (Z.of_nat (length v)))
         (fun '(s, e, st) => Ok (map (fun i => nth (Z.to_nat i) v 0) (zrange s e st))).

(* ------------------------------------------------------------------ *)
(** * 3. requests: fill values, index arguments, derivation steps       *)
(* ------------------------------------------------------------------ *)
(* what was passed as fill_value *)
Inductive fillv : Type :=
| FillNone       (* None (the default) *)
| FillNaN        (* a scalar NaN: np.nan, float('nan') *)
| FillOther      (* anything else that np.isnan accepts or that is not a
                    numpy scalar: 0, pd.NA, a geometry object *)
| FillStr.       (* a str: np.isscalar is true and np.isnan raises TypeError *)

Inductive index : Type :=
| IInt (i : Z)                          (* numbers.Integral (also numpy ints, bool) *)
| ISlice (start stop step : option Z)   (* slice; None = omitted *)
| IBool (m : list (option bool))        (* iterable of dtype kind 'b': numpy bool array,
                                           list of bools, pandas BooleanArray; None = NA *)
| IInts (ix : list (option Z))          (* iterable of dtype kind 'i'/'u': list / numpy /
                                           pandas Int64; None = NA *)
| IArrOther (n : nat)                   (* iterable of any other dtype kind (floats,
                                           strings, objects), n = its length *)
| INotIndex.                            (* neither Integral, slice nor Iterable:
                                           Ellipsis, None, a float *)

(* the argument of arr[...]: 2-tuples with an Ellipsis are unwrapped once *)
Inductive item : Type :=
| Plain (i : index)
| EllipsisThen (i : index)              (* arr[..., i] *)
| ThenEllipsis (i : index).             (* arr[i, ...] *)

Inductive step : Type :=
| SGet (it : item)
    (* arr[item]; for an integer item the scalar is put back into a
       one-element array (cls._from_sequence([arr[i]], dtype)) *)
| STake (ix : list Z) (allow_fill : bool) (fv : fillv)
| SConcat (pieces : list (option Z * option Z))
    (* cls._concat_same_type([arr[a:b] for (a, b) in pieces]) *)
| SCopy.
    (* arr.copy(); also what the model says of the operations that must not
       change the elements: pickle round trip, wrapping in a GeoSeries /
       GeoDataFrame and reading .values / .array back *)

Section Generic2.
Context {X : Type}.
Variable na : X.

(* ---- GeometryArray.take ---- *)
Definition take (ix : list Z) (allow_fill : bool) (fv : fillv) (l : list X)
  : pyres (list X) :=
  let n := Z.of_nat (length l) in
  (* "cannot do a non-empty take from an empty axes" *)
  if (n =? 0) && (0 <? Z.of_nat (length ix))
     && (negb allow_fill || existsb (fun i => 0 <=? i) ix) then IndexError
  else
  (* fill value *)
  pybind (if allow_fill then
            match fv with
            | FillNone | FillNaN => Ok tt
            | FillOther => ValueError
            | FillStr => TypeError
            end
          else Ok tt)
  (fun _ =>
  (* bounds *)
  if existsb (fun i => (n <=? i) || (negb allow_fill && (i <? - n))) ix then IndexError
  else if allow_fill then
    if existsb (fun i => i <? -1) ix then ValueError
    else Ok (arrow_take na
               (map (fun i => if i <? 0 then None else Some (Z.to_nat i)) ix) l)
  else
    Ok (arrow_take na
          (map (fun i => Some (Z.to_nat (if i <? 0 then i + n else i))) ix) l)).

(* ------------------------------------------------------------------ *)
(** * 4. GeometryArray.__getitem__                                      *)
(* ------------------------------------------------------------------ *)
Inductive getres : Type :=
| GElem (x : X)                         (* a scalar (or None) *)
| GArr (l : list X).                    (* a new array *)

(* the slice branch *)
Definition getitem_slice (start stop step : option Z) (l : list X) : pyres (list X) :=
  let n := Z.of_nat (length l) in
  match step with
  | None | Some 1 =>
      (* self.data[item]: pyarrow normalises with slice.indices and calls
         Array.slice(start, max(stop - start, 0)) *)
      pybind (slice_indices start stop step n)
             (fun '(s, e, _) =>
                Ok (arrow_slice (Z.to_nat s) (Z.to_nat (Z.max (e - s) 0)) l))
  | _ =>
      (* selected_indices = np.arange(len(self))[item]; take(..., allow_fill=False) *)
      pybind (np_basic_slice (np_arange (length l)) start stop step)
             (fun sel => take sel false FillNone l)
  end.

Definition is_na {A} (o : option A) : bool :=
  match o with None => true | Some _ => false end.

Definition getitem_index (it : index) (l : list X) : pyres getres :=
  let n := Z.of_nat (length l) in
  match it with
  | IInt i =>
      if (i <? - n) || (n <=? i) then IndexError
      else Ok (GElem (nth (Z.to_nat (if i <? 0 then i + n else i)) l na))
  | ISlice start stop step => pymap GArr (getitem_slice start stop step l)
  | IBool m =>
      if Nat.eqb (length m) 0 then pymap GArr (take [] false FillNone l)
      else if negb (Nat.eqb (length m) (length l)) then IndexError
      else if existsb is_na m then ValueError
      else
        let indices :=
          np_nonzero (map (fun o => match o with Some b => b | None => false end) m) in
        match indices with
        | _ :: _ => pymap GArr (take indices false FillNone l)
        | [] => pymap GArr (getitem_slice None (Some 0) None l)     (* self[:0] *)
        end
  | IInts ix =>
      if Nat.eqb (length ix) 0 then pymap GArr (take [] false FillNone l)
      else if existsb is_na ix then ValueError
      else pymap GArr
             (take (map (fun o => match o with Some i => i | None => 0 end) ix)
                   false FillNone l)
  | IArrOther k =>
      if Nat.eqb k 0 then pymap GArr (take [] false FillNone l)
      else IndexError
  | INotIndex => IndexError
  end.

Definition getitem (it : item) (l : list X) : pyres getres :=
  match it with
  | Plain i | EllipsisThen i | ThenEllipsis i => getitem_index i l
  end.

(* arr[i] for an integer *)
Definition getitem_int (i : Z) (l : list X) : pyres X :=
  match getitem_index (IInt i) l with
  | Ok (GElem x) => Ok x
  | Ok (GArr _) => TypeError   (* unreachable *)
  | ValueError => ValueError
  | IndexError => IndexError
  | TypeError => TypeError
  end.

(* ------------------------------------------------------------------ *)
(** * 5. _concat_same_type, copy, __len__, iteration                    *)
(* ------------------------------------------------------------------ *)
(* pa.concat_arrays([]) raises ArrowInvalid (a ValueError) *)
Definition concat_same_type (ls : list (list X)) : pyres (list X) :=
  match ls with
  | [] => ValueError
  | _ => Ok (concat ls)
  end.

Definition copy (l : list X) : list X := l.

Definition array_len (l : list X) : Z := Z.of_nat (length l).

(* ExtensionArray.__iter__: for i in range(len(self)): yield self[i] *)
Fixpoint collect {A} (rs : list (pyres A)) : pyres (list A) :=
  match rs with
  | [] => Ok []
  | r :: t => pybind r (fun a => pybind (collect t) (fun t' => Ok (a :: t')))
  end.

Definition array_iter (l : list X) : pyres (list X) :=
  collect (map (fun i => getitem_int (Z.of_nat i) l) (seq 0 (length l))).

(* ------------------------------------------------------------------ *)
(** * 6. running derivation steps                                       *)
(* ------------------------------------------------------------------ *)
Definition run_step (s : step) (l : list X) : pyres (list X) :=
  match s with
  | SGet it =>
      pybind (getitem it l)
             (fun r => match r with GElem x => Ok [x] | GArr l' => Ok l' end)
  | STake ix allow_fill fv => take ix allow_fill fv l
  | SConcat pieces =>
      pybind (collect (map (fun '(a, b) => getitem_slice a b None l) pieces))
             concat_same_type
  | SCopy => Ok (copy l)
  end.

(* a history: the first error ends it *)
Definition run_steps (steps : list step) (l : list X) : pyres (list X) :=
  fold_left (fun r s => pybind r (run_step s)) steps (Ok l).

End Generic2.

Arguments getres : clear implicits.

(* the step names of DESIGN.md §4 *)
Definition GetSlice (start stop stp : option Z) : step := SGet (Plain (ISlice start stop stp)).
Definition GetInt (i : Z) : step := SGet (Plain (IInt i)).
Definition Mask (m : list bool) : step := SGet (Plain (IBool (map Some m))).
Definition TakeIdx (ix : list Z) (allow_fill : bool) : step := STake ix allow_fill FillNone.
Definition Reverse : step := GetSlice None None (Some (-1)).
Definition Rotate (k : Z) : step := SConcat [(Some k, None); (None, Some k)].
Definition Copy : step := SCopy.

(* ------------------------------------------------------------------ *)
(** * 7. isna, __eq__ at the element level                              *)
(* ------------------------------------------------------------------ *)
Definition isna {A} (l : list (option A)) : list bool := map is_na l.

Definition num_eqb (a b : num) : bool :=
  match a, b with
  | Some x, Some y => Z.eqb x y
  | None, None => true
  | _, _ => false
  end.

Fixpoint list_eqb' {A} (e : A -> A -> bool) (l1 l2 : list A) : bool :=
  match l1, l2 with
  | [], [] => true
  | x :: t1, y :: t2 => e x y && list_eqb' e t1 t2
  | _, _ => false
  end.

Definition elem_eqb (a b : elem) : bool :=
  match a, b with
  | EPoint x y, EPoint x' y' => num_eqb x x' && num_eqb y y'
  | ECoords c, ECoords c' => list_eqb' num_eqb c c'
  | EParts p, EParts p' => list_eqb' (list_eqb' num_eqb) p p'
  | EPolys p, EPolys p' => list_eqb' (list_eqb' (list_eqb' num_eqb)) p p'
  | _, _ => false
  end.

Definition oelem_eqb (a b : option elem) : bool :=
  match a, b with
  | Some x, Some y => elem_eqb x y
  | None, None => true          (* self[i] == other[i] with both None *)
  | _, _ => false
  end.

(* GeometryArray.__eq__ with another array of the same type (finite
   coordinates only: NaN never compares equal in the implementation) *)
Definition array_eq (l1 l2 : list (option elem)) : pyres (list bool) :=
  if negb (Nat.eqb (length l1) (length l2)) then ValueError
  else Ok (map (fun '(a, b) => oelem_eqb a b) (combine l1 l2)).

(* ------------------------------------------------------------------ *)
(** * 8. what the correspondence check evaluates                        *)
(* ------------------------------------------------------------------ *)
Inductive repr : Type :=
| RList (a : listarr)
| RFix (a : fixarr).

Definition pyres_code {A} (r : pyres A) : Z :=
  match r with Ok _ => 0 | ValueError => 1 | IndexError => 2 | TypeError => 3 end.

(* verdict on one exported array against the element list the model holds:
   0 agree, 2 not well-formed, 4 decode differs, 5 isna differs, 3 everything
   agrees but a missing slot spans values (a premise of the representation
   independence theorems, not an observable: the harness counts it) *)
Definition check_repr (r : repr) (l : list (option elem)) : Z :=
  match r with
  | RList a =>
      if negb (wf_listarr a) then 2
      else if negb (list_eqb' oelem_eqb (decode_nested a) l) then 4
      else if negb (list_eqb' Bool.eqb (la_isna a) (isna l)) then 5
      else if negb (nulls_empty a) then 3
      else 0
  | RFix a =>
      if negb (wf_fixarr a) then 2
      else if negb (list_eqb' oelem_eqb (decode_point a) l) then 4
      else if negb (list_eqb' Bool.eqb (fa_isna a) (isna l)) then 5
      else 0
  end%Z.

(* integer probes arr[i] made on the array a step produced *)
Definition check_probes (probes : list (Z * pyres (option elem))) (l : list (option elem))
  : bool :=
  forallb (fun '(i, r) =>
             match getitem_int None i l, r with
             | Ok x, Ok y => oelem_eqb x y
             | a, b => negb (pyres_code a =? 0)%Z && (pyres_code a =? pyres_code b)%Z
             end) probes.

(* one observed history: the source elements, then for every step what the
   implementation did (the exported result or the exception class) and the
   integer probes made on the array current after the step.  A step that
   raised leaves the array unchanged.  Verdict per step: 0 agree; 1 error
   class / error-vs-result differs; 2..5 see [check_repr]; 8 a probe differs *)
Definition obs : Type := (step * pyres repr * list (Z * pyres (option elem)))%type.

Fixpoint check_history (l : list (option elem)) (h : list obs) : list Z :=
  match h with
  | [] => []
  | (s, r, probes) :: t =>
      let m := run_step None s l in
      let '(code, l') :=
        match m, r with
        | Ok l', Ok rp => (check_repr rp l', l')
        | Ok l', _ => (1, l')
        | _, Ok _ => (1, l)
        | _, _ => ((if pyres_code m =? pyres_code r then 0 else 1), l)
        end%Z in
      (if (code =? 0)%Z && negb (check_probes probes l') then 8 else code)%Z
      :: check_history l' t
  end.

(* the source array itself is checked first *)
Definition check_case (c : list (option elem) * repr * list obs) : list Z :=
  let '(l, r0, h) := c in check_repr r0 l :: check_history l h.

(* diagnostic: the element list the model holds after every step *)
Fixpoint model_states (l : list (option elem)) (steps : list (step))
  : list (pyres (list (option elem))) :=
  match steps with
  | [] => []
  | s :: t =>
      let m := run_step None s l in
      m :: model_states (match m with Ok l' => l' | _ => l end) t
  end.
