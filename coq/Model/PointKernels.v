(* spatialpandas/geometry/_algorithms/intersection.py:
   segment_intersects_point, point_intersects_polygon
   and orientation.py: triangle_orientation.
   Coordinates are exact integers (finite coordinates whose products and
   differences are exact in float64, scaled by a power of two; DESIGN 3.1).
   Executable only. *)
From Coq Require Import ZArith List Bool.
From SP Require Import Model.Num.
Import ListNotations.
Open Scope Z_scope.

Definition pt := (Z * Z)%type.

(* interleaved coordinates -> vertices *)
Fixpoint zpairs (vs : list Z) : list pt :=
  match vs with
  | x :: y :: t => (x, y) :: zpairs t
  | _ => []
  end.

(* consecutive vertex pairs: k = start, start+2, ... < stop-2 *)
Fixpoint edges (ps : list pt) : list (pt * pt) :=
  match ps with
  | a :: ((b :: _) as t) => (a, b) :: edges t
  | _ => []
  end.

(* triangle_orientation: +1 ccw, 0 collinear, -1 cw *)
Definition triangle_orientation (ax ay bx by_ cx cy : Z) : Z :=
  let ab_x := bx - ax in let ab_y := by_ - ay in
  let ac_x := cx - ax in let ac_y := cy - ay in
  let c := ab_x * ac_y - ab_y * ac_x in
  if 0 <? c then 1 else if c <? 0 then -1 else 0.

(* segment_intersects_point(ax0, ay0, ax1, ay1, bx, by) *)
Definition segment_intersects_point (ax0 ay0 ax1 ay1 bx by_ : Z) : bool :=
  if (bx <? Z.min ax0 ax1) || (Z.max ax0 ax1 <? bx) then false
  else if (by_ <? Z.min ay0 ay1) || (Z.max ay0 ay1 <? by_) then false
  else
    let sx := ax1 - ax0 in let sy := ay1 - ay0 in
    let px := bx - ax0 in let py := by_ - ay0 in
    (sx * py - sy * px) =? 0.

(* contribution of one edge (x0,y0)-(x1,y1) to the winding number of (x,y):
   the body of the inner loop of point_intersects_polygon.  [ascending] is -1 or
   1, hence always truthy in [axb == 0 and ascending]. *)
Definition pip_edge (x y : Z) (e : pt * pt) : Z :=
  let '((x0, y0), (x1, y1)) := e in
  if y1 =? y0 then 0
  else
    let '(ascending, x0, y0, x1, y1) :=
      if y1 <? y0 then (-1, x1, y1, x0, y0) else (1, x0, y0, x1, y1) in
    if (y <=? y0) || (y1 <? y) || ((x0 <? x) && (x1 <? x)) then 0
    else if (x <=? x0) && (x <=? x1) then ascending
    else
      let ax := x0 - x in let ay := y0 - y in
      let bx := x1 - x in let by_ := y1 - y in
      let axb := ax * by_ - ay * bx in
      if (0 <? axb) || (axb =? 0) then ascending else 0.

Definition pip_ring (x y : Z) (ring : list Z) : Z :=
  fold_left (fun acc e => acc + pip_edge x y e) (edges (zpairs ring)) 0.

(* rings delimited by consecutive offsets into values *)
Fixpoint rings_of (values : list Z) (offs : list nat) : list (list Z) :=
  match offs with
  | start :: ((stop :: _) as t) => slice start stop values :: rings_of values t
  | _ => []
  end.

Definition winding_number (x y : Z) (values : list Z) (offs : list nat) : Z :=
  fold_left (fun acc r => acc + pip_ring x y r) (rings_of values offs) 0.

(* point_intersects_polygon(x, y, values, value_offsets) *)
Definition point_intersects_polygon (x y : Z) (values : list Z) (offs : list nat) : bool :=
  negb (winding_number x y values offs =? 0).

(* exported buffers hold [num]; the intersection kernels are modelled on
   finite coordinates only: a non-finite value makes the conversion fail *)
Fixpoint finite_vals (vs : list num) : option (list Z) :=
  match vs with
  | [] => Some []
  | Some v :: t => match finite_vals t with Some r => Some (v :: r) | None => None end
  | None :: _ => None
  end.
