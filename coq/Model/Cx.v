(* spatialpandas/geometry/base.py: GeometryArray.__init__ (the _sindex field),
   sindex / build_sindex, cx, _BaseCoordinateIndexer._get_bounds / __getitem__,
   _CoordinateIndexer._perform_get_item; spatialpandas/geoseries.py and
   geodataframe.py: cx, build_sindex (both hand the active geometry *array* and
   themselves as [parent] to the same indexer).

   Built on the models of the code that .cx calls:
     Model/Intersect.v  the per-class intersects_bounds(bounds, inds)      (C01)
     Model/Rtree.v      HilbertRtree build / covers_overlaps / total_bounds (C03)
     Model/Bounds.v     bounds / total_bounds of the array classes          (C13)

   Executable only, no proofs.

   Conventions
   * coordinates and slice ends are exact integers (the harness scales the half
     grid by 2, data and keys alike); [None : num] is NaN.
   * what pandas does with the selected positions ([parent.iloc[positions]],
     [parent[mask]]) is not spatialpandas code: it is the oracle contract
     "the rows at those positions, in that order, unchanged" ([take_rows],
     [mask_rows] below), validated on the real pandas by harness/c04.py on every
     run.
   * result of the indexer: [inr positions] = the row positions handed to
     iloc / the positions of the True entries of the boolean mask;
     [inl 0] = ValueError (slice step); [inl 1] = outside the modelled domain
     (never produced on the inputs of the correspondence check). *)
From Coq Require Import ZArith List Bool Arith.
From SP Require Import Model.Num Model.Arrow Model.Bounds Model.PointKernels
     Model.Intersect Model.Rtree.
Import ListNotations.

(* ------------------------------------------------------------------ arrays *)

(* the geometry array classes, with the buffers they hold.  RingArray inherits
   bounds / total_bounds / intersects_bounds from LineArray: [GLine]. *)
Inductive garr :=
| GPoint (a : fixarr)
| GMultiPoint (a : listarr)
| GLine (a : listarr)
| GMultiLine (a : listarr)
| GPolygon (a : listarr)
| GMultiPolygon (a : listarr).

(* len(self) *)
Definition g_len (g : garr) : nat :=
  match g with
  | GPoint a => fa_len a
  | GMultiPoint a | GLine a | GMultiLine a | GPolygon a | GMultiPolygon a => la_len a
  end.

(* self.bounds *)
Definition g_bounds (g : garr) : list bbox :=
  match g with
  | GPoint a => fa_bounds a
  | GMultiPoint a | GLine a | GMultiLine a | GPolygon a | GMultiPolygon a => la_bounds a
  end.

(* self.total_bounds *)
Definition g_total_bounds (g : garr) : bbox :=
  match g with
  | GPoint a => fa_total_bounds a
  | GMultiPoint a | GLine a | GMultiLine a | GPolygon a | GMultiPolygon a => la_total_bounds a
  end.

(* self.intersects_bounds(bounds, inds) *)
Definition g_intersects_bounds (g : garr) (b : box) (inds : option (list nat))
  : option (list bool) :=
  match g with
  | GPoint a => point_array a b inds
  | GMultiPoint a => multipoint_array a b inds
  | GLine a => line_array a b inds
  | GMultiLine a => multiline_array a b inds
  | GPolygon a => polygon_array a b inds
  | GMultiPolygon a => multipolygon_array a b inds
  end.

(* ------------------------------------------------- the _sindex state field *)

(* a row of the (n, 4) bounds array *)
Definition row_of_bbox (b : bbox) : row :=
  let '(b0, b1, b2, b3) := b in [b0; b1; b2; b3].

(* HilbertRtree(self.bounds, kwargs).  [keys] stands for
   argsort(hilbert distances), the only place where [p] enters (Model/Rtree.v). *)
Definition sindex_build (g : garr) (keys : list nat) (page_size : nat) : rtree :=
  build 2 (map row_of_bbox (g_bounds g)) keys page_size.

(* a GeometryArray object: its buffers and its lazily built index *)
Record gobj := mk_gobj {
  go_data : garr;
  go_sindex : option rtree          (* self._sindex ; None = not built *)
}.

(* GeometryArray.__init__: self._sindex = None *)
Definition new_obj (g : garr) : gobj := mk_gobj g None.

(* build_sindex(kwargs): if self._sindex is None: self._sindex = HilbertRtree(...)
   -- a second call, whatever its arguments, keeps the first index.
   GeoSeries.build_sindex / GeoDataFrame.build_sindex call it on the (active)
   geometry array. *)
Definition build_sindex (o : gobj) (keys : list nat) (page_size : nat) : gobj :=
  match go_sindex o with
  | None => mk_gobj (go_data o) (Some (sindex_build (go_data o) keys page_size))
  | Some _ => o
  end.

(* __getitem__ (slice, boolean mask, integer array), take, copy: each ends in
   self.__class__(<new pyarrow array>, dtype=...), i.e. a fresh object whose
   __init__ resets _sindex.  pyarrow's slice / take are not modelled
   operationally (DESIGN 3.1): [g'] is whatever buffers pyarrow produced. *)
Definition derived_obj (o : gobj) (g' : garr) : gobj := new_obj g'.

(* ------------------------------------------------------------ _get_bounds *)

(* one component of the key: a scalar, or slice(start, stop, step) *)
Inductive axis_key :=
| KScalar (v : Z)
| KSlice (start stop step : option Z).

(* if type(xs) is not slice: xs = slice(xs, xs) *)
Definition as_slice (k : axis_key) : option Z * option Z * option Z :=
  match k with
  | KScalar v => (Some v, Some v, None)
  | KSlice start stop step => (start, stop, step)
  end.

(* xmin, ymin, xmax, ymax = self._sindex.total_bounds *)
Definition unpack4 (r : row) : num * num * num * num :=
  (col 0 r, col 1 r, col 2 r, col 3 r).

(* xs.start if xs.start is not None else xmin *)
Definition or_default (v : option Z) (dflt : num) : num :=
  match v with Some z => Some z | None => dflt end.

(* returns (x0, x1, y0, y1); None = ValueError("Slice step not supported ...") *)
Definition get_bounds (o : gobj) (xs ys : axis_key) : option (num * num * num * num) :=
  let '(xstart, xstop, xstep) := as_slice xs in
  let '(ystart, ystop, ystep) := as_slice ys in
  match xstep, ystep with
  | None, None =>
      let '(xmin, ymin, xmax, ymax) :=
        match go_sindex o with
        | Some T => unpack4 (total_bounds T)          (* if self._sindex: *)
        | None => g_total_bounds (go_data o)          (* self._obj.total_bounds *)
        end in
      let x0 := or_default xstart xmin in
      let y0 := or_default ystart ymin in
      let x1 := or_default xstop xmax in
      let y1 := or_default ystop ymax in
      (* Handle inverted bounds (IEEE <: False on NaN) *)
      let '(x0, x1) := if nlt x1 x0 then (x1, x0) else (x0, x1) in
      let '(y0, y1) := if nlt y1 y0 then (y1, y0) else (y0, y1) in
      Some (x0, x1, y0, y1)
  | _, _ => None
  end.

(* ------------------------------------------- __getitem__ / _perform_get_item *)

(* overlaps_inds[overlaps_inds_mask] *)
Definition masked {A} (l : list A) (mask : list bool) : list A :=
  map fst (filter snd (combine l mask)).

(* the positions a boolean mask selects (GeometryArray.__getitem__:
   np.nonzero(item)[0]; pandas boolean indexing) *)
Definition mask_positions (mask : list bool) : list nat :=
  masked (seq 0 (length mask)) mask.

(* every row of self.bounds is NaN: no element has a coordinate *)
Definition bbox_isnan (b : bbox) : bool :=
  let '(b0, b1, b2, b3) := b in isnan b0 && isnan b1 && isnan b2 && isnan b3.

Definition CX_VALUE_ERROR : nat := 0.
Definition CX_UNMODELLED : nat := 1.

Definition cx_positions (o : gobj) (xs ys : axis_key) : nat + list nat :=
  match get_bounds o xs ys with
  | None => inl CX_VALUE_ERROR
  | Some (x0, x1, y0, y1) =>
      match go_sindex o with
      | Some T =>
          (* covers_inds, overlaps_inds = self._sindex.covers_overlaps((x0, y0, x1, y1)) *)
          match x0, y0, x1, y1 with
          | Some a, Some b, Some c, Some d =>
              let '(covers_inds, overlaps_inds) := covers_overlaps T [a; b; c; d] in
              match g_intersects_bounds (go_data o) (a, b, c, d) (Some overlaps_inds) with
              | Some overlaps_inds_mask =>
                  (* np.sort(np.concatenate([covers_inds, overlaps_inds[mask]])) *)
                  inr (sort_nat (covers_inds ++ masked overlaps_inds overlaps_inds_mask))
              | None => inl CX_UNMODELLED
              end
          | _, _, _, _ =>
              (* a NaN end.  With finite keys it can only be an omitted end filled
                 from a NaN root box (zero rows, or no row with a box).  Queries of
                 Model/Rtree.v are finite; but with a NaN root the root node is
                 [outside] for every query (isnan(node_bounds[0])), and an index over
                 zero rows answers ([], []): nothing is covered, nothing overlaps,
                 intersects_bounds runs on no rows, and the selection is empty.
                 (CxProofs.covers_overlaps_nan_root proves the model's side of this
                 for every finite query; the NaN query itself is exercised on the
                 real code by the harness.) *)
              if isnan (col 0 (total_bounds T)) then inr [] else inl CX_UNMODELLED
          end
      | None =>
          match x0, y0, x1, y1 with
          | Some a, Some b, Some c, Some d =>
              (* mask = self._obj.intersects_bounds((x0, y0, x1, y1), None);
                 parent[mask] / self._obj[mask] *)
              match g_intersects_bounds (go_data o) (a, b, c, d) None with
              | Some mask => inr (mask_positions mask)
              | None => inl CX_UNMODELLED
              end
          | _, _, _, _ =>
              (* a NaN end: an omitted end filled from a NaN total_bounds.  The box of
                 Model/Intersect.v is finite; with finite coordinates a NaN total
                 extent means that no element has any coordinate (every bounds row is
                 NaN), and then every kernel answers False whatever the box (no
                 vertex, no edge, no ring; a missing point is isnan): the mask is all
                 False.  Checked on the real code by the harness. *)
              if forallb bbox_isnan (g_bounds (go_data o)) then inr [] else inl CX_UNMODELLED
          end
      end
  end.

(* --------------------------------------------- the pandas oracle contracts *)

(* parent.iloc[positions] / self._obj[positions]: the rows at those positions,
   in that order *)
Definition take_rows {A} (rows : list A) (positions : list nat) : list A :=
  flat_map (fun i => match nth_error rows i with Some r => [r] | None => [] end) positions.

(* parent[mask] / self._obj[mask]: the rows whose mask entry is True, in order *)
Definition mask_rows {A} (rows : list A) (mask : list bool) : list A := masked rows mask.

(* what .cx returns for a container whose rows (label, payload, geometry) are
   [rows], aligned with the geometry array of [o]:
   - len(parent) == 0: the parent itself;
   - otherwise the selected rows.  None = an exception. *)
Definition cx_rows {A} (o : gobj) (rows : list A) (xs ys : axis_key) : option (list A) :=
  match cx_positions o xs ys with
  | inr positions =>
      match rows with
      | [] => Some rows
      | _ => Some (take_rows rows positions)
      end
  | inl _ => None
  end.

(* --------------------------------- what the correspondence check evaluates *)

(* one case: one array, one index state (None = never built / lost by slicing;
   Some (keys, page_size) = built with these), a batch of keys *)
Definition cx_case (c : garr * option (list nat * nat) * list (axis_key * axis_key))
  : list (nat + list nat) :=
  let '(g, idx, keys) := c in
  let o := match idx with
           | None => new_obj g
           | Some (ks, ps) => build_sindex (new_obj g) ks ps
           end in
  map (fun '(xs, ys) => cx_positions o xs ys) keys.

(* the box _get_bounds computes, for the harness's direct comparison *)
Definition bounds_case (c : garr * option (list nat * nat) * list (axis_key * axis_key))
  : list (option (num * num * num * num)) :=
  let '(g, idx, keys) := c in
  let o := match idx with
           | None => new_obj g
           | Some (ks, ps) => build_sindex (new_obj g) ks ps
           end in
  map (fun '(xs, ys) => get_bounds o xs ys) keys.
