(* Well-formedness of the buffers of a scalar shape (what pyarrow guarantees for
   the scalars GeometryArray.__getitem__ builds) and "every ring is closed", as
   executable predicates: the C05 correspondence check evaluates them inside
   the kernel on every exported right geometry; the theorems of
   Proofs/SjoinBBox.v carry them as guards.  No proofs here. *)
From Coq Require Import ZArith List Bool Arith.
From SP Require Import Model.Num Model.Arrow Model.PointKernels Model.PointShape.
Import ListNotations.

(* the (start, stop) range of the values buffer that flat_values reads *)
Definition sb_flat_range (b : sbuf) : nat * nat :=
  match sb_buffer_offsets b with
  | [] => (0%nat, 0%nat)
  | o0 :: rest => chase o0 rest
  end.

(* buffer_inner_offsets is non-decreasing, even (whole (x, y) pairs), starts and
   ends where flat_values starts and ends, inside the values buffer *)
Definition rings_wf (b : sbuf) : bool :=
  let offs := sb_inner_offsets b in
  let '(s, e) := sb_flat_range b in
  mono offs && forallb Nat.even offs && Nat.eqb (hd s offs) s && Nat.eqb (last offs e) e
  && Nat.leb s e && Nat.leb e (List.length (sb_buffer_values b)).

(* first vertex = last vertex (a ring without vertex is closed) *)
Definition ring_closed (ring : list Z) : bool :=
  match zpairs ring with
  | [] => true
  | p :: t => let q := last t p in Z.eqb (fst p) (fst q) && Z.eqb (snd p) (snd q)
  end.

Definition rings_closed (b : sbuf) : bool :=
  match finite_vals (sb_buffer_values b) with
  | None => true
  | Some sv => forallb ring_closed (rings_of sv (sb_inner_offsets b))
  end.

Definition shape_buffers_wf (s : shape) : bool :=
  match s with
  | ShPoint _ _ | ShMultiPoint _ => true
  | ShLine b | ShMultiLine b | ShPolygon b | ShMultiPolygon b => rings_wf b
  end.

Definition shape_rings_closed (s : shape) : bool :=
  match s with
  | ShPolygon b | ShMultiPolygon b => rings_closed b
  | _ => true
  end.

(* what the correspondence check evaluates per right frame *)
Definition shapes_wf_case (rg : list (option shape)) : list (bool * bool) :=
  map (fun s => match s with
                | None => (true, true)
                | Some sh => (shape_buffers_wf sh, shape_rings_closed sh)
                end) rg.

(* every present right geometry has well-formed buffers and closed rings *)
Definition right_wf (rg : list (option shape)) : bool :=
  forallb (fun s => match s with
                    | None => true
                    | Some sh => shape_buffers_wf sh && shape_rings_closed sh
                    end) rg.
