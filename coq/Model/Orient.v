(* spatialpandas/geometry/_algorithms/orientation.py  (orient_polygons),
   PolygonArray.oriented (polygon.py), MultiPolygonArray.oriented (multipolygon.py).
   Executable definitions only.

   Coordinates are [num]; here [None] stands for NaN only (the correspondence
   check feeds no infinities to oriented()): a ring whose area computation reads
   a NaN has area NaN, and for NaN  (areas > 0) = False, (areas != 0) = True. *)
From Coq Require Import ZArith List Bool Arith.
From SP Require Import Model.Num Model.Arrow Model.Measures.
Import ListNotations.

(* a[i] = v on a numpy array; the only use below writes indices < len(a) *)
Fixpoint set_nth {A} (i : nat) (v : A) (l : list A) : list A :=
  match l, i with
  | [], _ => []
  | _ :: t, O => v :: t
  | x :: t, S j => x :: set_nth j v t
  end.

(* expected_ccw = np.zeros(len(ring_offsets) - 1, bool)
   first_rings = polygon_offsets[:-1]
   expected_ccw[first_rings[first_rings < num_rings]] = True *)
Definition expected_ccw (poly_offs ring_offs : list nat) : list bool :=
  let num_rings := length ring_offs - 1 in
  fold_left (fun e p => set_nth p true e)
            (filter (fun p => Nat.ltb p num_rings) (removelast poly_offs))
            (repeat false num_rings).

(* areas[i] = compute_area(values, ring_offsets[i:i+2])   (doubled; sign and
   zero-ness are those of the halved float) *)
Definition ring_areas (vals : list num) (ring_offs : list nat) : list num :=
  map (fun i => compute_area vals (slice i (i + 2) ring_offs))
      (seq 0 (length ring_offs - 1)).

(* ((areas > 0) != expected_ccw) & (areas != 0) *)
Definition flip_test (area : num) (ccw : bool) : bool :=
  match area with
  | Some z => negb (Bool.eqb (0 <? z)%Z ccw) && negb (z =? 0)%Z
  | None => negb (Bool.eqb false ccw) && true
  end.

(* l[0::2] and l[1::2] *)
Fixpoint evens {A} (l : list A) : list A :=
  match l with
  | x :: _ :: t => x :: evens t
  | [x] => [x]
  | [] => []
  end.
Fixpoint odds {A} (l : list A) : list A :=
  match l with
  | _ :: y :: t => y :: odds t
  | _ => []
  end.
Fixpoint interleave {A} (xs ys : list A) : list A :=
  match xs with
  | [] => []
  | x :: xt =>
      x :: match ys with
           | [] => []
           | y :: yt => y :: interleave xt yt
           end
  end.

(* xs = values[a:b:2]; ys = values[a+1:b:2];
   values[a:b:2] = xs[::-1]; values[a+1:b:2] = ys[::-1]     (slices clip) *)
Definition flip_ring (vals : list num) (a b : nat) : list num :=
  let seg := slice a b vals in
  firstn a vals ++ interleave (rev (evens seg)) (rev (odds seg)) ++ skipn (a + length seg) vals.

(* orient_polygons(values, polygon_offsets, ring_offsets): the mutated values *)
Definition orient_polygons (vals : list num) (poly_offs ring_offs : list nat) : list num :=
  let num_rings := length ring_offs - 1 in
  let ccw := expected_ccw poly_offs ring_offs in
  let areas := ring_areas vals ring_offs in
  (* flip_inds = np.nonzero(...) : increasing ring indices *)
  let flip_inds :=
    filter (fun i => flip_test (nth i areas None) (nth i ccw false)) (seq 0 num_rings) in
  fold_left (fun v i => flip_ring v (getn ring_offs i) (getn ring_offs (i + 1)))
            flip_inds vals.

(* PolygonArray.oriented:
     missing = concatenate([isna, [False]]); buffer_values = self.buffer_values.copy()
     poly_offsets, ring_offsets = self.buffer_offsets
     orient_polygons(buffer_values, poly_offsets, ring_offsets)
     rings = ListArray.from_arrays(ring_offsets, buffer_values)
     polys = ListArray.from_arrays(pa.array(poly_offsets, mask=missing), rings) *)
Definition polygon_oriented (a : listarr) : listarr :=
  match buffer_offsets a with
  | [po; ro] =>
      {| la_off := 0; la_len := la_len a;
         la_valid := Some (map negb (la_isna a));
         la_offs := [po; ro];
         la_vals := orient_polygons (buffer_values a) po ro |}
  | _ => a
  end.

(* MultiPolygonArray.oriented: orient_polygons gets the WHOLE second and third
   level offsets; the first level (sliced) is only re-wrapped *)
Definition multipolygon_oriented (a : listarr) : listarr :=
  match buffer_offsets a with
  | [mo; po; ro] =>
      {| la_off := 0; la_len := la_len a;
         la_valid := Some (map negb (la_isna a));
         la_offs := [mo; po; ro];
         la_vals := orient_polygons (buffer_values a) po ro |}
  | _ => a
  end.

Definition oriented (k : kind) (a : listarr) : listarr :=
  match k with
  | KPolygon => polygon_oriented a
  | KMultiPolygon => multipolygon_oriented a
  | _ => a
  end.

(* what the correspondence check evaluates: the result of oriented() and of
   oriented().oriented(), as the library sees them *)
Definition oriented_views (k : kind) (a : listarr) :=
  (la_view (oriented k a), la_view (oriented k (oriented k a))).
