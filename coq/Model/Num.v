(* Numbers as the kernels see them.
   A coordinate is [Some z] (a finite value; the harness scales dyadic inputs to
   integers) or [None] (non-finite on input: NaN, +inf, -inf are not
   distinguished because the code only ever asks [isfinite]; NaN on output). *)
From Coq Require Import ZArith List Bool.
Import ListNotations.

Definition num := option Z.

(* numpy basic slicing [l[start:stop]] for 0 <= start, stop (clipped to the length) *)
Definition slice {A} (start stop : nat) (l : list A) : list A :=
  firstn (stop - start) (skipn start l).

(* unchecked read [l[i]] (numba does not bounds-check): a default is returned
   out of range; every theorem that depends on a read states the guard [wf]
   under which it is in range, and the harness asserts that guard on every real
   array it meets. *)
Definition getn (l : list nat) (i : nat) : nat := nth i l 0%nat.

Definition omin (a : option Z) (x : Z) : option Z :=
  match a with None => Some x | Some m => Some (Z.min m x) end.
Definition omax (a : option Z) (x : Z) : option Z :=
  match a with None => Some x | Some m => Some (Z.max m x) end.
