(* A filesystem as fsspec's LocalFileSystem presents it (fsspec/implementations/local.py on
   top of os / shutil), as far as spatialpandas/dask.py:pack_partitions_to_parquet uses it.
   Executable only; no proofs.

   A path is the list of its components below a fixed scratch root ([] = the root, which
   always exists and is a directory).  Component names are structured: the harness parses
   a real component string into a [name] with an injective parser
     "part.<n>.parquet" -> NPart n     "part<i>.parquet" -> NSub i     "t<n>" -> NTmp n
     "_metadata" -> NMeta              "_common_metadata" -> NCommon   anything else -> NStr s
   (decimal numbers without leading zeros), so that equality of names is equality of the
   strings.  The semantics below never looks inside a name except to compare it. *)
From Coq Require Import ZArith List Bool Arith String.
From SP Require Import Harness.
Import ListNotations.

Inductive name :=
| NPart (n : nat)
| NSub (i : nat)
| NTmp (n : nat)
| NMeta
| NCommon
| NStr (s : string).

Definition name_eqb (a b : name) : bool :=
  match a, b with
  | NPart x, NPart y => Nat.eqb x y
  | NSub x, NSub y => Nat.eqb x y
  | NTmp x, NTmp y => Nat.eqb x y
  | NMeta, NMeta => true
  | NCommon, NCommon => true
  | NStr s, NStr t => String.eqb s t
  | _, _ => false
  end.

Definition path := list name.

Fixpoint path_eqb (p q : path) : bool :=
  match p, q with
  | [], [] => true
  | a :: p', b :: q' => name_eqb a b && path_eqb p' q'
  | _, _ => false
  end.

(* [strip_prefix p q] = Some r when q = p ++ r *)
Fixpoint strip_prefix (p q : path) : option path :=
  match p, q with
  | [], _ => Some q
  | a :: p', b :: q' => if name_eqb a b then strip_prefix p' q' else None
  | _ :: _, [] => None
  end.

(* q is p or lies below p *)
Definition is_prefix (p q : path) : bool :=
  match strip_prefix p q with Some _ => true | None => false end.

(* q is a direct child of p *)
Definition is_child (p q : path) : bool :=
  match strip_prefix p q with Some [_] => true | _ => false end.

(* a cell (i, N): the rows of input partition i assigned to output partition N *)
Definition cell := (nat * nat)%type.

(* what a file holds, as far as the property can tell files apart *)
Inductive content :=
| CRows (cells : list cell)           (* a readable parquet data file holding exactly the rows of these cells *)
| CMeta (parts : list (list cell))    (* _metadata: the row groups of these parts, in this order *)
| CCommon (parts : list (list cell))  (* _common_metadata: schema + one partition_bounds row per part *)
| COpaque (id : Z)                    (* any other complete file (prior data, payload of the FS stream) *)
| CPartial.                           (* a created / truncated file whose writer failed *)

Inductive node := File (c : content) | Dir.

Definition fs := list (path * node).

Fixpoint assoc (f : fs) (p : path) : option node :=
  match f with
  | [] => None
  | (q, n) :: t => if path_eqb q p then Some n else assoc t p
  end.

Definition node_at (f : fs) (p : path) : option node :=
  match p with [] => Some Dir | _ => assoc f p end.

(* os.path.exists / isfile / isdir *)
Definition exists_b (f : fs) (p : path) : bool :=
  match node_at f p with Some _ => true | None => false end.
Definition isfile_b (f : fs) (p : path) : bool :=
  match node_at f p with Some (File _) => true | _ => false end.
Definition isdir_b (f : fs) (p : path) : bool :=
  match node_at f p with Some Dir => true | _ => false end.

Fixpoint upsert (f : fs) (p : path) (n : node) : fs :=
  match f with
  | [] => [(p, n)]
  | (q, m) :: t => if path_eqb q p then (q, n) :: t else (q, m) :: upsert t p n
  end.

Definition parent (p : path) : path := removelast p.

(* the non-empty prefixes of p, shortest first *)
Fixpoint prefixes_from (acc p : path) : list path :=
  match p with
  | [] => []
  | a :: t => (acc ++ [a]) :: prefixes_from (acc ++ [a]) t
  end.
Definition prefixes (p : path) : list path := prefixes_from [] p.

(* LocalFileSystem.makedirs(path, exist_ok=True) = os.makedirs(path, exist_ok=True):
   every missing directory on the way is created; an existing directory is fine; a file on
   the way (or at the leaf) raises (NotADirectoryError / FileExistsError) and, because
   os.makedirs first walks up to the deepest existing ancestor, nothing has been created
   by then. *)
Fixpoint mk_all (f : fs) (qs : list path) : option fs :=
  match qs with
  | [] => Some f
  | q :: t =>
      match node_at f q with
      | None => mk_all (upsert f q Dir) t
      | Some Dir => mk_all f t
      | Some (File _) => None
      end
  end.
Definition makedirs (f : fs) (p : path) : option fs := mk_all f (prefixes p).

(* an interrupted makedirs: only the first missing directory got created *)
Fixpoint mk_first (f : fs) (qs : list path) : fs :=
  match qs with
  | [] => f
  | q :: t =>
      match node_at f q with
      | None => upsert f q Dir
      | Some Dir => mk_first f t
      | Some (File _) => f
      end
  end.
Definition makedirs_partial (f : fs) (p : path) : fs := mk_first f (prefixes p).

(* LocalFileSystem.rm(path, recursive=True): shutil.rmtree of a directory, os.remove of
   a file; a missing path raises FileNotFoundError *)
Definition rm_tree (f : fs) (p : path) : fs :=
  filter (fun e => negb (is_prefix p (fst e))) f.
Definition rm (f : fs) (p : path) : option fs :=
  match p with
  | [] => None
  | _ => match node_at f p with None => None | Some _ => Some (rm_tree f p) end
  end.

(* an interrupted rm: the subtree of the n-th child (modulo the number of children) of the
   directory is gone, the directory itself and the other children are still there *)
Definition children (f : fs) (p : path) : list path :=
  map fst (filter (fun e => is_child p (fst e)) f).
Definition rm_partial (f : fs) (p : path) (n : nat) : fs :=
  if isdir_b f p then
    match children f p with
    | [] => f
    | c0 :: cs => rm_tree f (nth (n mod (S (List.length cs))) (c0 :: cs) c0)
    end
  else f.

(* filesystem.open(path, 'wb') + write + close: creates or truncates the file; the parent
   must be an existing directory (FileNotFoundError / NotADirectoryError otherwise) and
   the path must not be a directory (IsADirectoryError) *)
Definition write (f : fs) (p : path) (c : content) : option fs :=
  match p with
  | [] => None
  | _ =>
      if isdir_b f (parent p) then
        match node_at f p with
        | Some Dir => None
        | _ => Some (upsert f p (File c))
        end
      else None
  end.

(* filesystem.open(path, 'rb') + read *)
Definition read (f : fs) (p : path) : option content :=
  match node_at f p with Some (File c) => Some c | _ => None end.

(* LocalFileSystem.ls(path, detail=False): the children of a directory (full paths),
   [path] for a file, FileNotFoundError for a missing path *)
Definition ls (f : fs) (p : path) : option (list path) :=
  match node_at f p with
  | None => None
  | Some (File _) => Some [p]
  | Some Dir => Some (children f p)
  end.

(* AbstractFileSystem.find(path): every file at or below path (no directories); a missing
   path gives the empty list *)
Definition find (f : fs) (p : path) : list path :=
  map fst (filter (fun e => is_prefix p (fst e) && match snd e with File _ => true | Dir => false end) f).

(* LocalFileSystem.mv(p1, p2) = shutil.move(p1, p2):
     real_dst = p2/basename(p1) if p2 is an existing directory (error if that exists;
                the same-path case is a no-op rename), else p2;
     os.rename(p1, real_dst): a file may replace a file; the parent of real_dst must be a
     directory; a directory cannot replace a file nor be moved below itself.
   (The destination lying above the source cannot succeed in a real tree -- an existing
   ancestor is a directory and the move-into-it target then is the source itself or one of
   its existing ancestors; the model refuses it outright.) *)
Definition rename_entry (p1 dst : path) (e : path * node) : path * node :=
  match strip_prefix p1 (fst e) with
  | Some r => (dst ++ r, snd e)
  | None => e
  end.

(* whatever was at the destination is replaced (in a real tree the destination is absent
   or a file, so there is nothing below it) *)
Definition do_rename (f : fs) (p1 dst : path) : fs :=
  map (rename_entry p1 dst)
      (filter (fun e => negb (is_prefix dst (fst e))) f).

Definition move (f : fs) (p1 p2 : path) : option fs :=
  match p1, node_at f p1 with
  | [], _ => None
  | _, None => None
  | _, Some src =>
      if isdir_b f p2 then
        if path_eqb p1 p2 then Some f
        else
          let dst := p2 ++ [last p1 NMeta] in
          if exists_b f dst then None
          else if is_prefix p1 dst || is_prefix dst p1 then None
          else Some (do_rename f p1 dst)
      else
        match p2 with
        | [] => None
        | _ =>
            if negb (isdir_b f (parent p2)) then
              (* os.rename fails; shutil falls back to copy + delete: for a directory
                 source copytree creates the missing parents of the destination, for a
                 file source copy2 fails *)
              match src with
              | Dir => if is_prefix p1 p2 || is_prefix p2 p1 then None
                       else match makedirs f (parent p2) with
                            | Some f' => Some (do_rename f' p1 p2)
                            | None => None
                            end
              | File _ => None
              end
            else if path_eqb p1 p2 then Some f
            else if is_prefix p1 p2 || is_prefix p2 p1 then None
            else match src, node_at f p2 with
                 | Dir, Some _ => None
                 | _, _ => Some (do_rename f p1 p2)
                 end
        end
  end.

(* every entry has a non-root path, no path occurs twice, and the parent of every entry is
   a directory entry (or the root) -- what a real tree always satisfies *)
Fixpoint nodup_keys (f : fs) : bool :=
  match f with
  | [] => true
  | (p, _) :: t => match assoc t p with None => nodup_keys t | Some _ => false end
  end.
Definition wf_fs_b (f : fs) : bool :=
  nodup_keys f &&
  forallb (fun e => match fst e with [] => false | _ => isdir_b f (parent (fst e)) end) f.

(* ---------------------------------------------------------------- comparison glue *)
Definition cell_eqb (a b : cell) : bool := Nat.eqb (fst a) (fst b) && Nat.eqb (snd a) (snd b).

Fixpoint count_cell (c : cell) (l : list cell) : nat :=
  match l with [] => 0 | x :: t => (if cell_eqb c x then 1 else 0) + count_cell c t end.

(* equality of cell lists as multisets (a data file is a bag of rows) *)
Definition cells_eqb (a b : list cell) : bool :=
  Nat.eqb (List.length a) (List.length b) &&
  forallb (fun c => Nat.eqb (count_cell c a) (count_cell c b)) a.

Definition content_eqb (a b : content) : bool :=
  match a, b with
  | CRows x, CRows y => cells_eqb x y
  | CMeta x, CMeta y => list_eqb cells_eqb x y
  | CCommon x, CCommon y => list_eqb cells_eqb x y
  | COpaque x, COpaque y => Z.eqb x y
  | CPartial, CPartial => true
  | _, _ => false
  end.

Definition node_eqb (a b : node) : bool :=
  match a, b with
  | Dir, Dir => true
  | File x, File y => content_eqb x y
  | _, _ => false
  end.

Definition onode_eqb (a b : option node) : bool :=
  match a, b with
  | None, None => true
  | Some x, Some y => node_eqb x y
  | _, _ => false
  end.

(* two trees with the same entries, in any order *)
Definition fs_eqb (a b : fs) : bool :=
  forallb (fun e => onode_eqb (assoc b (fst e)) (Some (snd e))) a &&
  forallb (fun e => onode_eqb (assoc a (fst e)) (Some (snd e))) b.

Fixpoint count_path (p : path) (l : list path) : nat :=
  match l with [] => 0 | x :: t => (if path_eqb p x then 1 else 0) + count_path p t end.

(* equality of listings as multisets: [sorted(a) == sorted(b)] in the code *)
Definition paths_perm_eqb (a b : list path) : bool :=
  Nat.eqb (List.length a) (List.length b) &&
  forallb (fun p => Nat.eqb (count_path p a) (count_path p b)) a.

#[export] Instance EqbC_name : EqbC name := name_eqb.
#[export] Instance EqbC_content : EqbC content := content_eqb.
#[export] Instance EqbC_node : EqbC node := node_eqb.

(* ---------------------------------------------------------------- the FS correspondence stream *)
Inductive fsop :=
| OpMakedirs (p : path)
| OpRm (p : path)
| OpWrite (p : path) (c : content)
| OpRead (p : path)
| OpMove (p1 p2 : path)
| OpLs (p : path)
| OpFind (p : path)
| OpExists (p : path)
| OpIsfile (p : path)
| OpIsdir (p : path).

Inductive fsobs :=
| ObDone            (* a mutation that returned normally *)
| ObRaised          (* the call raised *)
| ObBool (b : bool)
| ObList (l : list path)
| ObContent (c : content).

Definition fsobs_eqb (a b : fsobs) : bool :=
  match a, b with
  | ObDone, ObDone => true
  | ObRaised, ObRaised => true
  | ObBool x, ObBool y => Bool.eqb x y
  | ObList x, ObList y => paths_perm_eqb x y
  | ObContent x, ObContent y => content_eqb x y
  | _, _ => false
  end.
#[export] Instance EqbC_fsobs : EqbC fsobs := fsobs_eqb.

Definition step_op (f : fs) (o : fsop) : fsobs * fs :=
  let mut (r : option fs) := match r with Some f' => (ObDone, f') | None => (ObRaised, f) end in
  match o with
  | OpMakedirs p => mut (makedirs f p)
  | OpRm p => mut (rm f p)
  | OpWrite p c => mut (write f p c)
  | OpMove p1 p2 => mut (move f p1 p2)
  | OpRead p => (match read f p with Some c => ObContent c | None => ObRaised end, f)
  | OpLs p => (match ls f p with Some l => ObList l | None => ObRaised end, f)
  | OpFind p => (ObList (find f p), f)
  | OpExists p => (ObBool (exists_b f p), f)
  | OpIsfile p => (ObBool (isfile_b f p), f)
  | OpIsdir p => (ObBool (isdir_b f p), f)
  end.

Fixpoint run_ops (f : fs) (ops : list fsop) : list fsobs * fs :=
  match ops with
  | [] => ([], f)
  | o :: t =>
      let '(ob, f1) := step_op f o in
      let '(obs, f2) := run_ops f1 t in
      (ob :: obs, f2)
  end.

(* what the harness compares: the observations of every op, whether the real final tree
   (given as a list of entries) equals the model's, and the model's well-formedness *)
Definition run_ops_check (case : fs * list fsop * fs) : list fsobs * bool * bool :=
  let '(f0, ops, real_final) := case in
  let '(obs, f1) := run_ops f0 ops in
  (obs, fs_eqb f1 real_final, wf_fs_b f1).
