(* spatialpandas/io/parquet.py:read_parquet -- which columns are read when
   columns= is given, the index-name repair -- and the dtype-name codec of
   spatialpandas/geometry/base.py (GeometryDtype.__str__, construct_from_string,
   _parse_subtype) through which a geometry column finds its way back to its
   extension dtype (pandas stores str(dtype) in the parquet pandas metadata and
   looks the string up in its registry of extension dtypes on read).
   Executable definitions only. *)
From Coq Require Import NArith List Bool Ascii String.
Import ListNotations.

(* ---- read_parquet(columns=...) ---- *)

(* one entry of metadata['index_columns'] *)
Inductive idxdesc :=
| IdxStr (name : string)              (* a stored column, by field name *)
| IdxDict (name : option string)      (* a dict (RangeIndex descriptor); .get('name', None) *)
| IdxOther.                           (* anything else *)

Definition idx_name (d : idxdesc) : option string :=
  match d with
  | IdxStr n => Some n
  | IdxDict n => n
  | IdxOther => None
  end.

Definition mem (s : string) (l : list string) : bool := existsb (String.eqb s) l.

(* one entry of metadata['columns']: its 'field_name' key (None = key absent)
   and its pandas 'name' (None for an unnamed index level) *)
Definition mdcol := (option string * option string)%type.

(* all_columns = set(column.get('field_name', column['name']) for column in ...):
   an unnamed index level is stored under its field name (__index_level_0__) *)
Definition all_columns_of (cols : list mdcol) : list (option string) :=
  map (fun '(field_name, name) => match field_name with Some f => Some f | None => name end) cols.

Definition mem_opt (s : string) (l : list (option string)) : bool :=
  existsb (fun o => match o with Some t => String.eqb s t | None => false end) l.

(*  for idx_metadata in index_col_metadata:
        ...
        if name is not None and name not in columns and name in all_columns:
            extra_index_columns.append(name)                                  *)
Definition extra_index_columns (mdcols : list mdcol) (index_cols : list idxdesc)
           (columns : list string) : list string :=
  let all_columns := all_columns_of mdcols in
  flat_map (fun d => match idx_name d with
                     | Some n => if negb (mem n columns) && mem_opt n all_columns then [n] else []
                     | None => []
                     end) index_cols.

(* the [columns] argument of dataset.read; None = read everything *)
Definition read_columns (mdcols : list mdcol) (index_cols : list idxdesc)
           (columns : option (list string)) : option (list string) :=
  match columns with
  | None => None
  | Some cs => Some (extra_index_columns mdcols index_cols cs ++ cs)
  end.

(*  if df.index.name == "__null_dask_index__": df.index.name = None  *)
Definition restore_index_name (n : option string) : option string :=
  match n with
  | Some s => if String.eqb s "__null_dask_index__" then None else Some s
  | None => None
  end.

(* _perform_read_parquet_dask: the columns handed to Dask's own reader for the
   meta frame (code as of a257a80):
     pandas_metadata = datasets[0].schema.pandas_metadata or {}
     index_names = {name for name in pandas_metadata.get("index_columns", []) if isinstance(name, str)}
     if not pandas_metadata: index_names = {"hilbert_distance"}
     cols_no_index = [col for col in columns if col not in index_names]
   has_md = the first dataset carries pandas metadata.  A column that merely is
   NAMED hilbert_distance is an ordinary column of a dataset with metadata.    *)
Definition index_names (has_md : bool) (index_cols : list idxdesc) : list string :=
  if has_md
  then flat_map (fun d => match d with IdxStr n => [n] | _ => [] end) index_cols
  else ["hilbert_distance"%string].

Definition cols_no_index (has_md : bool) (index_cols : list idxdesc)
  (columns : option (list string)) : option (list string) :=
  option_map (filter (fun c => negb (mem c (index_names has_md index_cols)))) columns.

(* ---- dtype names ---- *)

Inductive kind := KMultiLine | KPolygon | KMultiPolygon | KLine | KMultiPoint | KRing | KPoint.

(* in the order the classes are registered with pandas
   (spatialpandas/geometry/__init__.py import order) *)
Definition kinds : list kind :=
  [KMultiLine; KPolygon; KMultiPolygon; KLine; KMultiPoint; KRing; KPoint].

(* _geometry_name *)
Definition kind_name (k : kind) : string :=
  match k with
  | KMultiLine => "multiline" | KPolygon => "polygon" | KMultiPolygon => "multipolygon"
  | KLine => "line" | KMultiPoint => "multipoint" | KRing => "ring" | KPoint => "point"
  end.

(* __str__: f"{self._geometry_name}[{self.subtype.name!s}]" *)
Definition dtype_to_string (k : kind) (subtype : string) : string :=
  (kind_name k ++ "[" ++ subtype ++ "]")%string.

(* str.lower (ASCII) *)
Definition lower_ascii (c : ascii) : ascii :=
  let n := N_of_ascii c in
  if (N.leb 65 n && N.leb n 90)%bool then ascii_of_N (n + 32) else c.

Fixpoint lower (s : string) : string :=
  match s with
  | EmptyString => EmptyString
  | String c t => String (lower_ascii c) (lower t)
  end.

(* \w (ASCII): [a-zA-Z0-9_] *)
Definition is_word (c : ascii) : bool :=
  let n := N_of_ascii c in
  ((N.leb 48 n && N.leb n 57) || (N.leb 65 n && N.leb n 90) ||
   (N.leb 97 n && N.leb n 122) || N.eqb n 95)%bool.

(* string.startswith(p), returning the remainder *)
Fixpoint strip_prefix (p s : string) : option string :=
  match p with
  | EmptyString => Some s
  | String a p' =>
      match s with
      | String b s' => if Ascii.eqb a b then strip_prefix p' s' else None
      | EmptyString => None
      end
  end.

(* the tail "(\w+)\]$" of the regular expression: the longest run of word
   characters, then "]", then the end of the string ("$" also matches before
   one final newline); the empty run is rejected by the caller *)
Fixpoint word_then_close (s : string) : option string :=
  match s with
  | EmptyString => None
  | String c t =>
      if is_word c then option_map (String c) (word_then_close t)
      else if (Ascii.eqb c "]" &&
               match t with
               | EmptyString => true
               | String n EmptyString => Ascii.eqb n "010"
               | _ => false
               end)%bool
           then Some EmptyString
           else None
  end.

(* cls.construct_from_string on the lower-cased string, up to the subtype
   *name* (the name is then handed to numpy.dtype, which is numpy's business):
   None = TypeError *)
Definition parse_kind (k : kind) (s : string) : option string :=
  match strip_prefix (kind_name k) s with
  | None => None                                   (* not startswith *)
  | Some EmptyString => Some "float64"%string      (* bare name: default subtype *)
  | Some (String c r) =>
      if Ascii.eqb c "["
      then match word_then_close r with
           | Some (String a w) => Some (String a w)
           | _ => None
           end
      else None
  end.

(* pandas' registry: the first registered class that does not raise *)
Fixpoint find_first (ks : list kind) (s : string) : option (kind * string) :=
  match ks with
  | [] => None
  | k :: t => match parse_kind k s with
              | Some sub => Some (k, sub)
              | None => find_first t s
              end
  end.

Definition parse_dtype (s : string) : option (kind * string) := find_first kinds (lower s).

(* for the correspondence check: kinds as small numbers (index in [kinds]) *)
Definition kind_index (k : kind) : N :=
  match k with
  | KMultiLine => 0 | KPolygon => 1 | KMultiPolygon => 2 | KLine => 3
  | KMultiPoint => 4 | KRing => 5 | KPoint => 6
  end%N.

Definition parse_dtype_n (s : string) : option (N * string) :=
  option_map (fun '(k, sub) => (kind_index k, sub)) (parse_dtype s).

Definition to_string_n (i : N) (sub : string) : string :=
  dtype_to_string (nth (N.to_nat i) kinds KPoint) sub.
