(* C06 — a Dask geo frame as the list of its partitions.  Transcribes
     spatialpandas/dask.py        DaskGeoSeries.{bounds, total_bounds, partition_bounds, area,
                                  length, partition_sindex, cx, cx_partitions, intersects_bounds},
                                  DaskGeoDataFrame.{partition_sindex, cx, cx_partitions},
                                  _DaskCoordinateIndexer._perform_get_item,
                                  _DaskPartitionCoordinateIndexer._perform_get_item
     spatialpandas/geometry/base.py   _BaseCoordinateIndexer.{_get_bounds, __getitem__}
     spatialpandas/tools/sjoin.py     _sjoin_dask_pandas (and the pair selection of
                                      _sjoin_pandas_pandas that it calls per partition)

   What the repo computes itself is transcribed: which numbers are combined into
   total_bounds, which box is built from a cx key, which partitions are selected
   from the partition-level R-tree answer (set union, sorted), what is done with
   every selected partition, which right rows each partition is joined with, when
   a partition is skipped.  The partition-level R-tree is the C03 model
   (Model/Rtree.v) built over the partition bounds.

   What the repo only *calls* is a parameter with a stated contract (Spec/DaskSpec.v),
   checked on the real pandas / Dask by harness/c06.py on every run:
     - a Dask collection is the list of its partitions; map_partitions f is map f;
       partitions[inds] is the sub-list; from_delayed is the list; compute is concat;
     - per-row geometry answers (bounds row, intersects_bounds, area, length,
       intersects) are oracles [rbox], [hits], [geo_int]: properties C01, C02, C13, C14
       are about them;
     - pandas' cx of one partition with explicit ends keeps, in order, the rows
       whose intersects_bounds is true (property C04).
   No proofs in this file. *)
From Coq Require Import ZArith List Bool Arith.
From Coq Require String.
From SP Require Import Model.Num Model.Bounds Model.Rtree.
Import ListNotations.

(* ------------------------------------------------------------------ *)
(* np.nanmin / np.nanmax of a column of numbers (NaN when all are NaN)  *)
(* ------------------------------------------------------------------ *)
Definition nanmin2 (a b : num) : num :=
  match a, b with
  | None, m => m
  | Some x, None => Some x
  | Some x, Some m => Some (Z.min x m)
  end.
Definition nanmax2 (a b : num) : num :=
  match a, b with
  | None, m => m
  | Some x, None => Some x
  | Some x, Some m => Some (Z.max x m)
  end.
Definition nanmin_l (l : list num) : num := fold_right nanmin2 None l.
Definition nanmax_l (l : list num) : num := fold_right nanmax2 None l.

Definition bx0 (b : bbox) : num := let '(a, _, _, _) := b in a.
Definition by0 (b : bbox) : num := let '(_, a, _, _) := b in a.
Definition bx1 (b : bbox) : num := let '(_, _, a, _) := b in a.
Definition by1 (b : bbox) : num := let '(_, _, _, a) := b in a.

(* (np.nanmin(pb['x0']), np.nanmin(pb['y0']), np.nanmax(pb['x1']), np.nanmax(pb['y1'])) *)
Definition box_total (bs : list bbox) : bbox :=
  (nanmin_l (map bx0 bs), nanmin_l (map by0 bs), nanmax_l (map bx1 bs), nanmax_l (map by1 bs)).

(* a bounds row as the R-tree sees it: [x0; y0; x1; y1] *)
Definition box_row (b : bbox) : row := [bx0 b; by0 b; bx1 b; by1 b].

(* ------------------------------------------------------------------ *)
(* _BaseCoordinateIndexer._get_bounds                                   *)
(* ------------------------------------------------------------------ *)
(* a cx key [xs.start : xs.stop, ys.start : ys.stop]; None = omitted end *)
Definition cxkey := (option Z * option Z * option Z * option Z)%type.

(*  xmin, ymin, xmax, ymax = self._sindex.total_bounds
    x0, y0, x1, y1 = (xs.start if xs.start is not None else xmin, ...)
    if x1 < x0: x0, x1 = x1, x0
    if y1 < y0: y0, y1 = y1, y0
   result in the order the R-tree query takes: (x0, y0, x1, y1) *)
Definition get_bounds (tb : row) (k : cxkey) : num * num * num * num :=
  let '(xs0, xs1, ys0, ys1) := k in
  let x0 := match xs0 with Some v => Some v | None => col 0 tb end in
  let y0 := match ys0 with Some v => Some v | None => col 1 tb end in
  let x1 := match xs1 with Some v => Some v | None => col 2 tb end in
  let y1 := match ys1 with Some v => Some v | None => col 3 tb end in
  let '(x0, x1) := if nlt x1 x0 then (x1, x0) else (x0, x1) in
  let '(y0, y1) := if nlt y1 y0 then (y1, y0) else (y0, y1) in
  (x0, y0, x1, y1).

(* the query when all four ends are numbers.  An end can only be NaN when it was
   omitted and the index' total_bounds is NaN, i.e. when the root of the tree is
   NaN: _maybe_intersects_ranges then leaves the root as [outside] whatever the
   other ends are, and nothing is selected.  ([None] below.) *)
Definition finite_query (b : num * num * num * num) : option (list Z) :=
  match b with
  | (Some x0, Some y0, Some x1, Some y1) => Some [x0; y0; x1; y1]
  | _ => None
  end.

(* ------------------------------------------------------------------ *)
(* partition selection                                                  *)
(* ------------------------------------------------------------------ *)
(* sorted(set(covers_inds).union(set(overlaps_inds))) *)
Fixpoint dedup_sorted (l : list nat) : list nat :=
  match l with
  | a :: ((b :: _) as t) => if Nat.eqb a b then dedup_sorted t else a :: dedup_sorted t
  | _ => l
  end.

Definition all_partition_inds (T : rtree) (q : list Z) : list nat :=
  let (cv, ov) := covers_overlaps T q in dedup_sorted (sort_nat (cv ++ ov)).

(* DaskGeoSeries.partition_sindex: HilbertRtree(self.partition_bounds.values),
   default page_size 512.  [keys] = argsort of the Hilbert distances (an input, as
   in Model/Rtree.v). *)
Definition partition_sindex (pbs : list bbox) (keys : list nat) : rtree :=
  build 2 (map box_row pbs) keys 512.

Section Frame.
  (* a row of the frame: whatever identifies it (payload, index label, both
     geometry values) *)
  Variable R : Type.
  (* its row of [geometry.bounds] for the active geometry column *)
  Variable rbox : R -> bbox.
  (* [geometry.intersects_bounds((x0, y0, x1, y1))] at this row *)
  Variable hits : R -> list Z -> bool.

  (* s.total_bounds of one partition.  C13 proves that total_bounds is the tight
     extent of the coordinates of the non-missing elements and every bounds row
     the tight extent of its element; DaskProofs.tbi_concat shows on the kernel that
     this is the nan-combination below. *)
  Definition part_bounds (p : list R) : bbox := box_total (map rbox p).

  (* DaskGeoSeries.partition_bounds (one row per partition) *)
  Definition partition_bounds (parts : list (list R)) : list bbox := map part_bounds parts.

  (* DaskGeoSeries.total_bounds *)
  Definition dask_total_bounds (parts : list (list R)) : bbox :=
    box_total (partition_bounds parts).

  (* GeoSeries.total_bounds of the pandas frame *)
  Definition pandas_total_bounds (rows : list R) : bbox := box_total (map rbox rows).

  (* df.cx[x0:x1, y0:y1] on a pandas frame with all ends given (property C04):
     the rows whose geometry intersects the box, in frame order *)
  Definition pandas_cx (rows : list R) (q : list Z) : list R :=
    filter (fun r => hits r q) rows.

  (* _DaskPartitionCoordinateIndexer._perform_get_item; the result is a Dask frame =
     list of partitions.  [dd.from_pandas(meta, npartitions=1)] = one empty partition *)
  Definition perform_cx_partitions (parts : list (list R)) (T : rtree) (q : list Z)
    : list (list R) :=
    match all_partition_inds T q with
    | [] => [[]]
    | inds => map (fun i => nth i parts []) inds
    end.

  (* _DaskCoordinateIndexer._perform_get_item: every selected partition is filtered *)
  Definition perform_cx (parts : list (list R)) (T : rtree) (q : list Z) : list (list R) :=
    match all_partition_inds T q with
    | [] => [[]]
    | inds => map (fun i => pandas_cx (nth i parts []) q) inds
    end.

  (* ddf.cx_partitions[key] / ddf.cx[key] from the frame *)
  Definition dask_cx_partitions (parts : list (list R)) (keys : list nat) (k : cxkey)
    : list (list R) :=
    let T := partition_sindex (partition_bounds parts) keys in
    match finite_query (get_bounds (total_bounds T) k) with
    | Some q => perform_cx_partitions parts T q
    | None => [[]]
    end.

  Definition dask_cx (parts : list (list R)) (keys : list nat) (k : cxkey) : list (list R) :=
    let T := partition_sindex (partition_bounds parts) keys in
    match finite_query (get_bounds (total_bounds T) k) with
    | Some q => perform_cx parts T q
    | None => [[]]
    end.

  (* GeoDataFrame.cx[key] of the pandas frame: _get_bounds with the frame's own
     total bounds (its spatial index' when built, the array's otherwise: the same
     numbers, C03/C13), then the filter.  A NaN end (omitted, every row without
     coordinates) selects nothing. *)
  Definition pandas_frame_cx (rows : list R) (k : cxkey) : list R :=
    match finite_query (get_bounds (box_row (pandas_total_bounds rows)) k) with
    | Some q => pandas_cx rows q
    | None => []
    end.

  (* map_partitions(lambda s: s.f) for an elementwise f (bounds, area, length,
     intersects_bounds(box)) *)
  Definition dask_map {B} (f : R -> B) (parts : list (list R)) : list (list B) :=
    map (map f) parts.
  Definition pandas_map {B} (f : R -> B) (rows : list R) : list B := map f rows.
End Frame.

(* ------------------------------------------------------------------ *)
(* the caches of DaskGeoDataFrame                                       *)
(* ------------------------------------------------------------------ *)
(* _partition_bounds / _partition_sindex: dicts  geometry column name -> per-partition
   bounds (the index is built from them, so one dict stands for both: an entry of
   _partition_sindex is only ever made together with the entry of _partition_bounds) *)
Definition pcache := list (String.string * list bbox).

Fixpoint cache_get (c : pcache) (name : String.string) : option (list bbox) :=
  match c with
  | [] => None
  | (n, b) :: t => if String.eqb n name then Some b else cache_get t name
  end.

(* DaskGeoDataFrame.partition_sindex for the active geometry [name]:
     if geometry_name not in self._partition_sindex:
         geometry = self.geometry
         if geometry_name in self._partition_bounds:
             geometry._partition_bounds = self._partition_bounds[geometry_name]
         self._partition_sindex[name] = geometry.partition_sindex
         self._partition_bounds[name] = geometry.partition_bounds
   -> the bounds the index is built from, and the cache afterwards.
   [computed] = what map_partitions(total_bounds) gives on the partitions now. *)
Definition frame_partition_bounds (c : pcache) (name : String.string) (computed : list bbox)
  : list bbox * pcache :=
  match cache_get c name with
  | Some b => (b, c)
  | None => (computed, (name, computed) :: c)
  end.

(* DaskGeoDataFrame.__getitem__(key): what the result inherits.
     scalar / str / tuple key -> a series: its _partition_bounds is the entry of its name
     ndarray / list key       -> a frame with the same rows: the whole dicts
     anything else (a boolean series: row filtering) -> nothing *)
Inductive getkey := KName (name : String.string) | KList | KOther.

Definition getitem_frame_cache (c : pcache) (k : getkey) : pcache :=
  match k with KList => c | _ => [] end.
Definition getitem_series_cache (c : pcache) (k : getkey) : option (list bbox) :=
  match k with KName n => cache_get c n | _ => None end.

(* ------------------------------------------------------------------ *)
(* sjoin                                                                *)
(* ------------------------------------------------------------------ *)
(* one row of an index answer with IEEE comparisons (false on NaN): the row [r] of a
   bounds array is reported for the query box [q] iff it is not NaN and no side
   lies strictly beyond the query.  For a finite query this is
   [negb (row_outside 2 q r)] of Model/Rtree.v; with a NaN query (a partition
   without coordinates, an empty right geometry) every comparison is false, the root
   counts as inside and every non-NaN row is returned. *)
Definition box_hit (q r : bbox) : bool :=
  negb (isnan (bx0 r)
        || nlt (bx1 r) (bx0 q) || ngt (bx0 r) (bx1 q)
        || nlt (by1 r) (by0 q) || ngt (by0 r) (by1 q)).

Inductive how_t := HInner | HLeft.

Section SJoin.
  Variable L Rr : Type.
  Variable lbox : L -> bbox.          (* left geometry.bounds row *)
  Variable rrbox : Rr -> bbox.        (* right geometry.bounds row *)
  Variable rmissing : Rr -> bool.     (* right_geom[i] is None *)
  Variable geo_int : L -> Rr -> bool. (* left_geom.intersects(right_shape) at this left row *)
  (* right_df.iloc[right_sindex.intersects(bounds)]: the right rows whose box the
     index reports for [bounds], in the index' order (contract: a permutation of
     [filter (fun r => box_hit bounds (rrbox r))]) *)
  Variable rsel : bbox -> list Rr -> list Rr.

  (* _sjoin_pandas_pandas, the (left row, right row) pairs it keeps:
       for i in range(len(right_df)):
           if right_geom[i] is None: continue
           candidate_inds = sindex.intersects(right_bounds[i])     (left index)
           intersecting = left_geom.intersects(right_shape, inds=candidate_inds)
     then the merges: inner keeps the pairs, left also keeps every left row without
     a pair (right columns NaN).  Row order of the merges is pandas' (not modelled:
     the property compares multisets); here pairs are listed left row by left row. *)
  Definition pair_ok (l : L) (r : Rr) : bool :=
    negb (rmissing r) && box_hit (rrbox r) (lbox l) && geo_int l r.

  Definition pandas_sjoin (how : how_t) (ls : list L) (rs : list Rr) : list (L * option Rr) :=
    flat_map (fun l =>
                match how, filter (pair_ok l) rs with
                | HLeft, [] => [(l, None)]
                | _, ms => map (fun r => (l, Some r)) ms
                end) ls.

  (* _sjoin_dask_pandas:
       for df, bounds in zip(dfs, partition_bounds.iterrows()):
           right_inds = right_sindex.intersects(bounds.values)
           if how == "left" or len(right_inds) > 0:
               joined_dfs.append(sjoin_pandas(df, right_df.iloc[right_inds], how=how))
       if not joined_dfs: from_pandas(meta, npartitions=1) else from_delayed(joined_dfs) *)
  Definition dask_sjoin_parts (how : how_t) (parts : list (list L)) (rs : list Rr)
    : list (list (L * option Rr)) :=
    flat_map (fun p =>
                let cand := rsel (part_bounds L lbox p) rs in
                match how, cand with
                | HInner, [] => []
                | _, _ => [pandas_sjoin how p cand]
                end) parts.

  Definition dask_sjoin (how : how_t) (parts : list (list L)) (rs : list Rr)
    : list (list (L * option Rr)) :=
    match dask_sjoin_parts how parts rs with
    | [] => [[]]
    | js => js
    end.
End SJoin.

(* ------------------------------------------------------------------ *)
(* what the correspondence check evaluates                              *)
(* ------------------------------------------------------------------ *)
(* a row as the check exports it: (row id, bounds row, answers of the real
   intersects_bounds of this row for the k-th key of the case) *)
Definition hrow := (nat * bbox * list bool)%type.
Definition hrow_id (r : hrow) : nat := fst (fst r).
Definition hrow_box (r : hrow) : bbox := snd (fst r).
Definition hrow_hits (k : nat) (r : hrow) (_ : list Z) : bool := nth k (snd r) false.

(* one case: the partitions of a real Dask frame, the _keys of its partition index,
   a batch of cx keys.  Result: partition_bounds, DaskGeoSeries.total_bounds, the
   index' total_bounds, and per key the row ids of every partition of
   cx_partitions[key] and of cx[key], and the row ids of pandas' cx[key] on the
   concatenated frame. *)
Definition c06_case (c : list (list hrow) * list nat * list cxkey)
  : list bbox * bbox * row * list (list (list nat) * list (list nat) * list nat) :=
  let '(parts, keys, ks) := c in
  let pbs := partition_bounds hrow hrow_box parts in
  (pbs, dask_total_bounds hrow hrow_box parts,
   total_bounds (partition_sindex pbs keys),
   map (fun '(i, k) =>
          (map (map hrow_id) (dask_cx_partitions hrow hrow_box parts keys k),
           map (map hrow_id) (dask_cx hrow hrow_box (hrow_hits i) parts keys k),
           map hrow_id (pandas_frame_cx hrow hrow_box (hrow_hits i) (concat parts) k)))
       (combine (seq 0 (length ks)) ks)).

(* sjoin case: left partitions of (row id, bounds row); right rows (row id, bounds
   row, missing); the (left id, right id) pairs for which the real
   left_geom.intersects(right_shape) holds.  The right index answer is taken in
   frame order.  Result: per output partition the sorted codes
   [left id * 64 + (0 for no partner | right id + 1)]. *)
Definition lrow := (nat * bbox)%type.
Definition rrow := (nat * bbox * bool)%type.

Definition pair_in (tbl : list (nat * nat)) (l : lrow) (r : rrow) : bool :=
  existsb (fun '(a, b) => Nat.eqb a (fst l) && Nat.eqb b (fst (fst r))) tbl.

Definition code_pair (x : lrow * option rrow) : nat :=
  fst (fst x) * 64 + match snd x with None => 0 | Some r => S (fst (fst r)) end.

Definition c06_sjoin_case (c : bool * list (list lrow) * list rrow * list (nat * nat))
  : list (list nat) * list nat :=
  let '(isleft, parts, rs, tbl) := c in
  let how := if (isleft : bool) then HLeft else HInner in
  let rsel := fun q (l : list rrow) => filter (fun r => box_hit q (snd (fst r))) l in
  (map (fun p => sort_nat (map code_pair p))
       (dask_sjoin lrow rrow snd (fun r => snd (fst r)) snd (pair_in tbl) rsel how parts rs),
   sort_nat (map code_pair
               (pandas_sjoin lrow rrow snd (fun r => snd (fst r)) snd (pair_in tbl) how
                             (concat parts) rs))).
