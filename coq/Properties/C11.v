(* C11: parquet round trips are lossless -- the part that is this repository's
   logic: piece ordering, column projection / index restoration, dtype-name
   codec.  pyarrow's byte-level write/read fidelity has no model: it is
   validated differentially by harness/c11.py (partial). *)
From Coq Require Import ZArith NArith Arith List Bool Ascii String Permutation.
From SP Require Import Model.Num Model.Arrow Model.Bounds Spec.BoundsSpec Model.NatSort
                       Model.ParquetCols Proofs.NatSortProofs Proofs.ParquetColsProofs
                       Proofs.ParquetDecodeProofs.
Import ListNotations.
Local Open Scope nat_scope.

(* ---- piece ordering ---- *)

(* part.N.parquet sorts before part.M.parquet iff N < M, for all N, M and every
   directory: ten or more partitions keep their numeric order *)
Theorem natsort_parts_numeric : forall dir n m,
  path_ltb_opt (part_path dir n) (part_path dir m) = Some (N.ltb n m).
Proof. exact parts_numeric. Qed.
Print Assumptions natsort_parts_numeric.

(* the same for any two names that differ in one number only *)
Theorem natsort_numbered_numeric : forall p n m,
  path_ltb_opt (p ++ "." ++ dec n ++ ".parquet") (p ++ "." ++ dec m ++ ".parquet")
  = Some (N.ltb n m).
Proof. exact numbered_numeric. Qed.
Print Assumptions natsort_numbered_numeric.

(* comparing two keys never raises TypeError (str and int never meet) *)
Theorem natsort_never_typeerror : forall p q, path_ltb_opt p q <> None.
Proof. exact never_typeerror. Qed.
Print Assumptions natsort_never_typeerror.

(* a directory listing of part.0 .. part.(n-1) in any order is loaded in
   numeric order *)
Theorem natsort_listing_sorted : forall dir l n,
  Permutation l (seq 0 n) ->
  sort_pieces (map (fun i => part_path dir (N.of_nat i)) l) =
  map (fun i => part_path dir (N.of_nat i)) (seq 0 n).
Proof. exact sort_parts. Qed.
Print Assumptions natsort_listing_sorted.

(* ---- columns= ---- *)

Theorem C11_projection : forall md ix cs,
  exists extra,
    read_columns md ix (Some cs) = Some (extra ++ cs) /\
    (forall n, In n extra <-> index_level ix n /\ ~ In n cs /\ stored md n) /\
    (forall n, index_level ix n -> stored md n -> In n (extra ++ cs)) /\
    (forall n, In n (extra ++ cs) -> ~ In n cs -> index_level ix n).
Proof. exact projection. Qed.
Print Assumptions C11_projection.

Theorem C11_projection_none : forall md ix, read_columns md ix None = None.
Proof. exact read_all. Qed.
Print Assumptions C11_projection_none.

(* the Dask path: the meta frame's columns are the request without the index
   levels, in the requested order.  For a dataset with pandas metadata (every
   dataset a pandas / Dask / spatialpandas writer produces) nothing but index
   levels is taken out: a column merely NAMED hilbert_distance is kept *)
Theorem C11_projection_dask_meta : forall ix cs,
  cols_no_index true ix (Some cs) =
  Some (filter (fun c => negb (mem c (index_names true ix))) cs) /\
  forall c, In c (filter (fun c => negb (mem c (index_names true ix))) cs) <->
            In c cs /\ ~ In (IdxStr c) ix.
Proof. exact meta_columns. Qed.
Print Assumptions C11_projection_dask_meta.

(* a dataset WITHOUT pandas metadata has no index description; there, and only
   there, the conventional index name of a packed dataset is taken out *)
Theorem C11_projection_dask_meta_nomd : forall ix cs,
  cols_no_index false ix (Some cs) =
  Some (filter (fun c => negb (String.eqb c "hilbert_distance")) cs) /\
  forall c, In c (filter (fun c => negb (String.eqb c "hilbert_distance")) cs) <->
            In c cs /\ c <> "hilbert_distance"%string.
Proof. exact meta_columns_nomd. Qed.
Print Assumptions C11_projection_dask_meta_nomd.

Theorem C11_projection_dask_keeps_hilbert_named_column : forall ix cs,
  In "hilbert_distance"%string cs -> ~ In (IdxStr "hilbert_distance") ix ->
  exists kept, cols_no_index true ix (Some cs) = Some kept /\ In "hilbert_distance"%string kept.
Proof. exact meta_keeps_hilbert_named_column. Qed.
Print Assumptions C11_projection_dask_keeps_hilbert_named_column.

(* Dask's placeholder name of an unnamed index is undone, nothing else is touched *)
Theorem C11_index_name : forall n,
  n <> Some "__null_dask_index__"%string -> restore_index_name n = n.
Proof. exact restore_name_other. Qed.
Print Assumptions C11_index_name.

(* ---- dtype names ---- *)

Theorem dtype_name_roundtrip : forall k sub,
  sub <> EmptyString -> all_word sub = true -> lower sub = sub ->
  parse_dtype (dtype_to_string k sub) = Some (k, sub).
Proof. exact dtype_roundtrip. Qed.
Print Assumptions dtype_name_roundtrip.

Theorem dtype_name_anycase : forall s k sub,
  sub <> EmptyString -> all_word sub = true -> lower sub = sub ->
  lower s = dtype_to_string k sub -> parse_dtype s = Some (k, sub).
Proof. exact dtype_roundtrip_anycase. Qed.
Print Assumptions dtype_name_anycase.

Theorem dtype_name_bare : forall k, parse_dtype (kind_name k) = Some (k, "float64"%string).
Proof. exact dtype_bare. Qed.
Print Assumptions dtype_name_bare.

Theorem dtype_name_subtypes : forall sub,
  In sub ["float64"; "float32"; "int64"; "int32"; "int16"]%string ->
  sub <> EmptyString /\ all_word sub = true /\ lower sub = sub.
Proof. exact subtype_names_ok. Qed.
Print Assumptions dtype_name_subtypes.

Theorem dtype_name_kinds_disjoint : forall k k' sub sub',
  dtype_to_string k sub = dtype_to_string k' sub' -> k = k'.
Proof. exact dtype_names_disjoint. Qed.
Print Assumptions dtype_name_kinds_disjoint.

(* ---- representation independence ----
   The array written and the array read back are two buffer representations
   (other offsets, padding, placeholder bytes under null slots).  The harness
   checks on every round trip that both are well formed and decode to the same
   elements; then they agree on everything derived from them. *)
Theorem C11_same_decode_equal : forall a b,
  wf_listarr a = true -> wf_listarr b = true ->
  nulls_empty a = true -> nulls_empty b = true ->
  decode_flat a = decode_flat b ->
  la_len a = la_len b /\ la_isna a = la_isna b /\
  la_bounds a = la_bounds b /\ la_total_bounds a = la_total_bounds b /\
  la_total_bounds_x a = la_total_bounds_x b /\ la_total_bounds_y a = la_total_bounds_y b.
Proof. exact same_decode_equal. Qed.
Print Assumptions C11_same_decode_equal.

Theorem C11_same_decode_equal_point : forall a b,
  wf_fixarr a = true -> wf_fixarr b = true ->
  fa_decode a = fa_decode b ->
  fa_len a = fa_len b /\ fa_isna a = fa_isna b /\ fa_bounds a = fa_bounds b.
Proof. exact fa_same_decode_equal. Qed.
Print Assumptions C11_same_decode_equal_point.

(* ---- non-vacuity ---- *)
Local Open Scope string_scope.

Example ex_key : natural_sort_key "/tmp/a1/part.007.parquet" =
  [inl "/tmp/a"; inr 1%N; inl "/part."; inr 7%N; inl ".parquet"].
Proof. vm_compute; reflexivity. Qed.

Example ex_textual_order_wrong :
  String.ltb (part_path "d" 10) (part_path "d" 2) = true /\
  path_ltb (part_path "d" 10) (part_path "d" 2) = false.
Proof. exact textual_order_wrong. Qed.

Example ex_sort : sort_pieces (map (part_path "/t/d1") [10; 2; 1; 0; 11; 3]%N) =
  map (part_path "/t/d1") [0; 1; 2; 3; 10; 11]%N.
Proof. vm_compute; reflexivity. Qed.

(* named index k not requested: prepended; unnamed level stored as
   __index_level_1__: prepended; a RangeIndex descriptor: nothing to read *)
Example ex_projection :
  read_columns [(Some "g", Some "g"); (Some "v", Some "v"); (Some "k", Some "k");
                (Some "__index_level_1__", None)]
               [IdxStr "k"; IdxStr "__index_level_1__"; IdxDict None] (Some ["v"; "g"])
  = Some ["k"; "__index_level_1__"; "v"; "g"].
Proof. vm_compute; reflexivity. Qed.

(* requested explicitly: not prepended a second time *)
Example ex_projection_explicit :
  read_columns [(Some "g", Some "g"); (Some "k", Some "k")] [IdxStr "k"] (Some ["g"; "k"])
  = Some ["g"; "k"].
Proof. vm_compute; reflexivity. Qed.

(* dataset with pandas metadata: the index level k is taken out, an ordinary column
   named hilbert_distance stays; packed dataset (hilbert_distance IS the index): taken
   out; no pandas metadata: the conventional name is taken out *)
Example ex_meta_cols :
  cols_no_index true [IdxStr "k"] (Some ["v"; "k"; "hilbert_distance"; "g"])
  = Some ["v"; "hilbert_distance"; "g"].
Proof. vm_compute; reflexivity. Qed.

Example ex_meta_cols_packed :
  cols_no_index true [IdxStr "hilbert_distance"] (Some ["v"; "hilbert_distance"; "g"]) = Some ["v"; "g"].
Proof. vm_compute; reflexivity. Qed.

Example ex_meta_cols_nomd :
  cols_no_index false [] (Some ["v"; "k"; "hilbert_distance"; "g"]) = Some ["v"; "k"; "g"].
Proof. vm_compute; reflexivity. Qed.

(* names that look reserved are ordinary index names *)
Example ex_index_names_kept :
  map restore_index_name [Some "index"; Some "level_0"; Some ""; Some "None"; Some "__null_dask_index";
                          Some "hilbert_distance"; None; Some "__null_dask_index__"]
  = [Some "index"; Some "level_0"; Some ""; Some "None"; Some "__null_dask_index";
     Some "hilbert_distance"; None; None].
Proof. vm_compute; reflexivity. Qed.

(* two representations of [Some [1,2,3,4]; None; Some []]: the second one sliced out of a
   longer buffer, with junk before and after *)
Definition ex_a : listarr :=
  {| la_off := 0; la_len := 3; la_valid := Some [true; false; true];
     la_offs := [[0; 4; 4; 4]%nat];
     la_vals := [Some 1%Z; Some 2%Z; Some 3%Z; Some 4%Z] |}.
Definition ex_b : listarr :=
  {| la_off := 1; la_len := 3; la_valid := Some [true; true; false; true; true];
     la_offs := [[0; 2; 6; 6; 6; 8]%nat];
     la_vals := [Some 9%Z; Some 9%Z; Some 1%Z; Some 2%Z; Some 3%Z; Some 4%Z; Some 7%Z; Some 7%Z] |}.
Example ex_same_decode :
  (wf_listarr ex_a, wf_listarr ex_b, nulls_empty ex_a, nulls_empty ex_b) = (true, true, true, true)
  /\ decode_flat ex_a = decode_flat ex_b
  /\ decode_flat ex_a = [Some [Some 1%Z; Some 2%Z; Some 3%Z; Some 4%Z]; None; Some []].
Proof. vm_compute; auto. Qed.

Example ex_dtype :
  map parse_dtype ["Line[Float64]"; "line"; "line[]"; "line[float64]x"; "multiline[uint8]";
                   "point [f]"; "polygons[float64]"] =
  [Some (KLine, "float64"); Some (KLine, "float64"); None; None; Some (KMultiLine, "uint8");
   None; None].
Proof. vm_compute; reflexivity. Qed.
