(* C02: point-versus-shape `intersects` is exact.
   Model: Model/PointKernels.v, Model/PointShape.v (faithful transcription of
   spatialpandas/geometry/point.py and _algorithms/intersection.py).
   Spec: Spec/PointShapeSpec.v (point sets in the real plane), Spec/Winding.v. *)
From Coq Require Import ZArith List Bool Arith Reals.
From SP Require Import Model.Num Model.Arrow Model.PointKernels Model.PointShape
                       Spec.PointShapeSpec
                       Proofs.PointShapeSeg Proofs.PointShapeLine Proofs.PointShapeForms.
Import ListNotations.

(* ---- (a) point and multipoint: equality with some vertex ---- *)

Theorem C02_point_point : forall x y px py,
  exists b, point_intersects x y (ShPoint (Some px) (Some py)) = Some (Value b) /\
            (b = true <-> (x, y) = (px, py)).
Proof. exact point_point_correct. Qed.
Print Assumptions C02_point_point.

Theorem C02_point_multipoint : forall x y b sf,
  finite_vals (sb_flat_values b) = Some sf ->
  exists r, point_intersects x y (ShMultiPoint b) = Some (Value r) /\
            (r = true <-> points_set (zpairs sf) (IZR x, IZR y)).
Proof. exact point_multipoint_correct. Qed.
Print Assumptions C02_point_multipoint.

(* ---- (b) segments, lines, multilines ---- *)

(* on_seg A B P := exists t, 0 <= t <= 1 /\ P = A + t (B - A); both directions,
   zero-length segments and points collinear beyond the end included *)
Theorem C02_sip_correct : forall ax0 ay0 ax1 ay1 bx by_ : Z,
  segment_intersects_point ax0 ay0 ax1 ay1 bx by_ = true <->
  on_seg (IZR ax0, IZR ay0) (IZR ax1, IZR ay1) (IZR bx, IZR by_).
Proof. exact sip_correct. Qed.
Print Assumptions C02_sip_correct.

(* [rings_of sv (sb_inner_offsets b)] are the slices of the values buffer the
   code iterates over; [even_len]: every slice holds whole (x, y) pairs, which
   the array constructors enforce.  An empty sub-line contributes nothing. *)
Theorem C02_point_line : forall x y b sv,
  finite_vals (sb_buffer_values b) = Some sv ->
  Forall even_len (rings_of sv (sb_inner_offsets b)) ->
  exists r, point_intersects x y (ShLine b) = Some (Value r) /\
            (r = true <-> multiline_set (rings_of sv (sb_inner_offsets b)) (IZR x, IZR y)).
Proof. exact point_line_correct. Qed.
Print Assumptions C02_point_line.

Theorem C02_point_multiline : forall x y b sv,
  finite_vals (sb_buffer_values b) = Some sv ->
  Forall even_len (rings_of sv (sb_inner_offsets b)) ->
  exists r, point_intersects x y (ShMultiLine b) = Some (Value r) /\
            (r = true <-> multiline_set (rings_of sv (sb_inner_offsets b)) (IZR x, IZR y)).
Proof. exact point_multiline_correct. Qed.
Print Assumptions C02_point_multiline.

(* the array kernel's per-point body decides the same set *)
Theorem C02_array_line_body : forall x y lines, Forall even_len lines ->
  exists b, ar_lines x y lines false = Value b /\
            (b = true <-> multiline_set lines (IZR x, IZR y)).
Proof. exact ar_lines_correct. Qed.
Print Assumptions C02_array_line_body.

(* ---- (c) scalar form = array form = array form at positions; missing -> False ---- *)

(* for every well-formed point array (any offset, any validity bitmap, any
   placeholder bytes in null slots), every shape (boundary points included) and
   every list of existing positions: PointArray.intersects(shape, inds) is the
   selection of PointArray.intersects(shape), whose entry i is what
   Point.intersects(shape) answers for element i *)
Theorem C02_forms_agree : forall a s r,
  wf_fixarr a = true ->
  array_intersects a s None = Some (Value r) ->
  length r = fa_len a /\
  (forall inds, inds_ok (fa_len a) inds = true ->
     array_intersects a s (Some inds) = Some (Value (map (fun j => nth j r false) inds))) /\
  (forall i, (i < fa_len a)%nat ->
     element_intersects a s i =
     Some (if isna_at (fa_valid a) (fa_off a) i then None else Some (Value (nth i r false)))) /\
  (forall i, (i < fa_len a)%nat -> isna_at (fa_valid a) (fa_off a) i = true -> nth i r false = false).
Proof. exact forms_agree. Qed.
Print Assumptions C02_forms_agree.

Theorem C02_missing_false : forall a s r i,
  wf_fixarr a = true -> array_intersects a s None = Some (Value r) ->
  (i < fa_len a)%nat -> isna_at (fa_valid a) (fa_off a) i = true ->
  nth i r false = false.
Proof. exact missing_false. Qed.
Print Assumptions C02_missing_false.

(* ---- non-vacuity ---- *)

(* collinear with the segment (0,0)-(2,2) but beyond its end *)
Example ex_beyond_end : segment_intersects_point 0 0 2 2 3 3 = false.
Proof. vm_compute; reflexivity. Qed.
(* zero-length segment *)
Example ex_zero_length : segment_intersects_point 2 2 2 2 2 2 = true.
Proof. vm_compute; reflexivity. Qed.
(* a multiline with an empty sub-line, point in the middle of the second line *)
Example ex_multiline :
  sc_lines 3 3 [[0; 0; 0; 4]%Z; []; [2; 2; 4; 4]%Z] = Value true.
Proof. vm_compute; reflexivity. Qed.
(* a missing slot whose placeholder bytes are (0,0), inside the square around the origin *)
Example ex_missing :
  array_intersects (Build_fixarr 0 2 (Some [false; true]) [Some 0; Some 0; Some 0; Some 0]%Z)
                   (ShPolygon (BList (Build_listarr 0 1 None [[0; 10]%nat]
                      (map Some [-1; -1; 1; -1; 1; 1; -1; 1; -1; -1]%Z)))) None
  = Some (Value [false; true]).
Proof. vm_compute; reflexivity. Qed.
