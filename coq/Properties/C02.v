(* C02: point-versus-shape `intersects` is exact.
   Model: Model/PointKernels.v, Model/PointShape.v (faithful transcription of
   spatialpandas/geometry/point.py and _algorithms/intersection.py).
   Spec: Spec/PointShapeSpec.v (point sets in the real plane), Spec/Winding.v. *)
From Coq Require Import ZArith List Bool Arith Reals.
From SP Require Import Model.Num Model.Arrow Model.PointKernels Model.PointShape
                       Spec.PointShapeSpec Spec.Winding
                       Proofs.PointShapeSeg Proofs.PointShapeLine Proofs.PointShapeForms Proofs.WindingRefine Proofs.WindingLaws Proofs.WindingRect.
Import ListNotations.

(* ---- (a) point and multipoint: equality with some vertex ---- *)

Theorem C02_point_point : forall x y px py,
  exists b, point_intersects x y (ShPoint (Some px) (Some py)) = Some (Value b) /\
            (b = true <-> (x, y) = (px, py)).
Proof. exact point_point_correct. Qed.
Print Assumptions C02_point_point.

Theorem C02_point_multipoint : forall x y b sf,
  finite_vals (sb_flat_values b) = Some sf ->
  exists r, point_intersects x y (ShMultiPoint b) = Some (Value r) /\
            (r = true <-> points_set (zpairs sf) (IZR x, IZR y)).
Proof. exact point_multipoint_correct. Qed.
Print Assumptions C02_point_multipoint.

(* ---- (b) segments, lines, multilines ---- *)

(* on_seg A B P := exists t, 0 <= t <= 1 /\ P = A + t (B - A); both directions,
   zero-length segments and points collinear beyond the end included *)
Theorem C02_sip_correct : forall ax0 ay0 ax1 ay1 bx by_ : Z,
  segment_intersects_point ax0 ay0 ax1 ay1 bx by_ = true <->
  on_seg (IZR ax0, IZR ay0) (IZR ax1, IZR ay1) (IZR bx, IZR by_).
Proof. exact sip_correct. Qed.
Print Assumptions C02_sip_correct.

(* [rings_of sv (sb_inner_offsets b)] are the slices of the values buffer the
   code iterates over; [even_len]: every slice holds whole (x, y) pairs, which
   the array constructors enforce.  An empty sub-line contributes nothing. *)
Theorem C02_point_line : forall x y b sv,
  finite_vals (sb_buffer_values b) = Some sv ->
  Forall even_len (rings_of sv (sb_inner_offsets b)) ->
  exists r, point_intersects x y (ShLine b) = Some (Value r) /\
            (r = true <-> multiline_set (rings_of sv (sb_inner_offsets b)) (IZR x, IZR y)).
Proof. exact point_line_correct. Qed.
Print Assumptions C02_point_line.

Theorem C02_point_multiline : forall x y b sv,
  finite_vals (sb_buffer_values b) = Some sv ->
  Forall even_len (rings_of sv (sb_inner_offsets b)) ->
  exists r, point_intersects x y (ShMultiLine b) = Some (Value r) /\
            (r = true <-> multiline_set (rings_of sv (sb_inner_offsets b)) (IZR x, IZR y)).
Proof. exact point_multiline_correct. Qed.
Print Assumptions C02_point_multiline.

(* the array kernel's per-point body decides the same set *)
Theorem C02_array_line_body : forall x y lines, Forall even_len lines ->
  exists b, ar_lines x y lines false = Value b /\
            (b = true <-> multiline_set lines (IZR x, IZR y)).
Proof. exact ar_lines_correct. Qed.
Print Assumptions C02_array_line_body.

(* ---- (c) scalar form = array form = array form at positions; missing -> False ---- *)

(* for every well-formed point array (any offset, any validity bitmap, any
   placeholder bytes in null slots), every shape (boundary points included) and
   every list of existing positions: PointArray.intersects(shape, inds) is the
   selection of PointArray.intersects(shape), whose entry i is what
   Point.intersects(shape) answers for element i *)
Theorem C02_forms_agree : forall a s r,
  wf_fixarr a = true ->
  array_intersects a s None = Some (Value r) ->
  length r = fa_len a /\
  (forall inds, inds_ok (fa_len a) inds = true ->
     array_intersects a s (Some inds) = Some (Value (map (fun j => nth j r false) inds))) /\
  (forall i, (i < fa_len a)%nat ->
     element_intersects a s i =
     Some (if isna_at (fa_valid a) (fa_off a) i then None else Some (Value (nth i r false)))) /\
  (forall i, (i < fa_len a)%nat -> isna_at (fa_valid a) (fa_off a) i = true -> nth i r false = false).
Proof. exact forms_agree. Qed.
Print Assumptions C02_forms_agree.

Theorem C02_missing_false : forall a s r i,
  wf_fixarr a = true -> array_intersects a s None = Some (Value r) ->
  (i < fa_len a)%nat -> isna_at (fa_valid a) (fa_off a) i = true ->
  nth i r false = false.
Proof. exact missing_false. Qed.
Print Assumptions C02_missing_false.

(* ---- (d) polygons: the code's edge rule is the declarative half-open ray-crossing rule ---- *)

Theorem C02_pip_edge_refines : forall x y (A B : pt),
  pip_edge x y (A, B) = wn_edge (IZR x, IZR y) (inj A) (inj B).
Proof. exact pip_edge_refines. Qed.
Print Assumptions C02_pip_edge_refines.

(* for every ring list (no validity assumption): the test answers "winding number <> 0" *)
Theorem C02_pip_refines_wn : forall x y values offs,
  point_intersects_polygon x y values offs =
  negb (wn (IZR x, IZR y) (map ring_of (rings_of values offs)) =? 0)%Z.
Proof. exact pip_refines_wn. Qed.
Print Assumptions C02_pip_refines_wn.

(* ---- (e) laws of the winding number (no Jordan curve theorem) ---- *)

(* exact even when P lies on the edge *)
Theorem C02_wn_edge_antisym : forall P A B, (wn_edge P A B + wn_edge P B A = 0)%Z.
Proof. exact wn_edge_antisym. Qed.
Print Assumptions C02_wn_edge_antisym.

(* "either way round": reversing every ring negates the number, so the answer is unchanged *)
Theorem C02_wn_rev : forall P rings, wn P (map (@rev rpt) rings) = (- wn P rings)%Z.
Proof. exact wn_rev. Qed.
Print Assumptions C02_wn_rev.

(* rings add: shell + holes, parts of a multipolygon *)
Theorem C02_wn_app : forall P r1 r2, wn P (r1 ++ r2) = (wn P r1 + wn P r2)%Z.
Proof. exact wn_app. Qed.
Print Assumptions C02_wn_app.

Theorem C02_wn_translate : forall d P rings,
  wn (tr d P) (map (map (tr d)) rings) = wn P rings.
Proof. exact wn_translate. Qed.
Print Assumptions C02_wn_translate.

(* closed rings, P strictly left of / right of / below / above every vertex *)
Theorem C02_wn_outside_bbox : forall P rings,
  Forall closed rings -> outside_bbox P (all_vertices rings) -> wn P rings = 0%Z.
Proof. exact wn_outside_bbox. Qed.
Print Assumptions C02_wn_outside_bbox.

(* every axis-aligned rectangle ring, any start vertex, both directions *)
Theorem C02_wn_rectangle : forall r k ccw P, rect_ok r ->
  (strictly_in r P -> wn_ring P (rect_ring r k ccw) = if ccw then 1%Z else (-1)%Z) /\
  (strictly_out r P -> wn_ring P (rect_ring r k ccw) = 0%Z).
Proof. exact wn_rectangle. Qed.
Print Assumptions C02_wn_rectangle.

(* the property's statement, proved for rectangles with rectangular holes wound
   opposite: True strictly inside the shell and outside every hole; False
   strictly outside the shell; False strictly inside a hole *)
Theorem C02_polygon_rect_with_rect_holes : forall x y values offs shell ks ccw holes,
  map ring_of (rings_of values offs) = rect_polygon shell ks ccw holes ->
  rect_ok shell -> holes_ok holes ->
  let P := (IZR x, IZR y) in
  (strictly_in shell P -> out_of_all holes P ->
     point_intersects_polygon x y values offs = true) /\
  (strictly_out shell P -> out_of_all holes P ->
     point_intersects_polygon x y values offs = false) /\
  (forall h1 h h2, holes = h1 ++ h :: h2 -> strictly_in shell P -> strictly_in (fst h) P ->
     out_of_all h1 P -> out_of_all h2 P ->
     point_intersects_polygon x y values offs = false).
Proof. exact polygon_rect_with_rect_holes. Qed.
Print Assumptions C02_polygon_rect_with_rect_holes.

(* PARTIAL.  For every ring list: the answer is "winding number <> 0" under the
   declarative half-open rule, it is independent of the orientation convention,
   and closed rings answer False strictly outside their bounding box.  Not a
   theorem: "for a valid polygon, winding number <> 0 iff strictly inside the
   shell and in no hole" (polygonal Jordan curve theorem); proved above for
   rectangles with rectangular holes, validated for all enumerated simple
   polygons by the correspondence run's exact oracle (harness/c02.py). *)
Theorem C02_polygon_partial : forall x y values offs,
  let rings := map ring_of (rings_of values offs) in
  let P := (IZR x, IZR y) in
  point_intersects_polygon x y values offs = negb (wn P rings =? 0)%Z /\
  negb (wn P (map (@rev rpt) rings) =? 0)%Z = negb (wn P rings =? 0)%Z /\
  (Forall closed rings -> outside_bbox P (all_vertices rings) ->
     point_intersects_polygon x y values offs = false).
Proof. exact polygon_partial. Qed.
Print Assumptions C02_polygon_partial.

(* ---- non-vacuity ---- *)

(* collinear with the segment (0,0)-(2,2) but beyond its end *)
Example ex_beyond_end : segment_intersects_point 0 0 2 2 3 3 = false.
Proof. vm_compute; reflexivity. Qed.
(* zero-length segment *)
Example ex_zero_length : segment_intersects_point 2 2 2 2 2 2 = true.
Proof. vm_compute; reflexivity. Qed.
(* a multiline with an empty sub-line, point in the middle of the second line *)
Example ex_multiline :
  sc_lines 3 3 [[0; 0; 0; 4]%Z; []; [2; 2; 4; 4]%Z] = Value true.
Proof. vm_compute; reflexivity. Qed.
(* a missing slot whose placeholder bytes are (0,0), inside the square around the origin *)
Example ex_missing :
  array_intersects (Build_fixarr 0 2 (Some [false; true]) [Some 0; Some 0; Some 0; Some 0]%Z)
                   (ShPolygon (BList (Build_listarr 0 1 None [[0; 10]%nat]
                      (map Some [-1; -1; 1; -1; 1; 1; -1; 1; -1; -1]%Z)))) None
  = Some (Value [false; true]).
Proof. vm_compute; reflexivity. Qed.
(* the hypothesis of C02_polygon_rect_with_rect_holes is satisfiable: a 4x4 square
   (start vertex 1, clockwise) with a 1x1 hole (counter-clockwise) *)
Example ex_rect_polygon :
  map ring_of (rings_of [4; 0; 0; 0; 0; 4; 4; 4; 4; 0;  1; 1; 2; 1; 2; 2; 1; 2; 1; 1]%Z [0; 10; 20]%nat)
  = rect_polygon {| xa := 0; yb := 0; xc := 4; yd := 4 |} 1 false
                 [({| xa := 1; yb := 1; xc := 2; yd := 2 |}, 0%nat)].
Proof. reflexivity. Qed.
(* ray through the vertex (2,2) of the triangle (0,0),(4,0),(2,2): inside at height... the
   point (1,1) lies on the edge; (2,1) is inside, its ray passes below the apex; (1,2) and
   (-1,2) have the apex on their ray and are outside *)
Example ex_ray_through_vertex :
  map (fun p => point_intersects_polygon (fst p) (snd p) [0; 0; 4; 0; 2; 2; 0; 0]%Z [0; 8]%nat)
      [(2, 1); (1, 2); (-1, 2); (3, 2); (-1, 0); (5, 0)]%Z
  = [true; false; false; false; false; false].
Proof. vm_compute; reflexivity. Qed.
(* OUT OF SCOPE, recorded: a 0-level scalar (Line, MultiPoint) built *directly* from a
   pyarrow scalar of a sliced array keeps listarray.offset <> 0, which buffer_values /
   buffer_offsets ignore: the model (like the code) reads the buffer from its start.  Here
   the line is (5,5)-(6,6)-(7,7) (offset 4, length 6) but (6,6) is not found.  The library
   itself never builds scalars this way (__getitem__ goes through as_py). *)
Example ex_line_from_arrow_scalar_offset_ignored :
  point_intersects 6 6 (ShLine (BPlain 4 6 (map Some [0; 0; 1; 1; 5; 5; 6; 6; 7; 7]%Z)))
  = Some (Value false).
Proof. vm_compute; reflexivity. Qed.
