(* C02: point-versus-shape `intersects` is exact.
   Model: Model/PointKernels.v, Model/PointShape.v (faithful transcription of
   spatialpandas/geometry/point.py and _algorithms/intersection.py).
   Spec: Spec/PointShapeSpec.v (point sets in the real plane), Spec/Winding.v. *)
From Coq Require Import ZArith List Bool Arith Reals.
From SP Require Import Model.Num Model.Arrow Model.PointKernels Model.PointShape
                       Spec.PointShapeSpec Spec.Winding
                       Proofs.PointShapeSeg Proofs.PointShapeLine Proofs.PointShapeForms Proofs.WindingRefine Proofs.WindingLaws Proofs.WindingRect.
Import ListNotations.

(* ---- (a) point and multipoint: equality with some vertex ---- *)

Theorem C02_point_point : forall x y px py,
  exists b, point_intersects x y (ShPoint (Some px) (Some py)) = Some (Value b) /\
            (b = true <-> (x, y) = (px, py)).
Proof. exact point_point_correct. Qed.
Print Assumptions C02_point_point.

Theorem C02_point_multipoint : forall x y b sf,
  finite_vals (sb_flat_values b) = Some sf ->
  exists r, point_intersects x y (ShMultiPoint b) = Some (Value r) /\
            (r = true <-> points_set (zpairs sf) (IZR x, IZR y)).
Proof. exact point_multipoint_correct. Qed.
Print Assumptions C02_point_multipoint.

(* ---- (b) segments, lines, multilines ---- *)

(* on_seg A B P := exists t, 0 <= t <= 1 /\ P = A + t (B - A); both directions,
   zero-length segments and points collinear beyond the end included *)
Theorem C02_sip_correct : forall ax0 ay0 ax1 ay1 bx by_ : Z,
  segment_intersects_point ax0 ay0 ax1 ay1 bx by_ = true <->
  on_seg (IZR ax0, IZR ay0) (IZR ax1, IZR ay1) (IZR bx, IZR by_).
Proof. exact sip_correct. Qed.
Print Assumptions C02_sip_correct.

(* [rings_of sv (sb_inner_offsets b)] are the slices of the values buffer the
   code iterates over; [even_len]: every slice holds whole (x, y) pairs, which
   the array constructors enforce.  An empty sub-line contributes nothing. *)
Theorem C02_point_line : forall x y b sv,
  finite_vals (sb_buffer_values b) = Some sv ->
  Forall even_len (rings_of sv (sb_inner_offsets b)) ->
  exists r, point_intersects x y (ShLine b) = Some (Value r) /\
            (r = true <-> multiline_set (rings_of sv (sb_inner_offsets b)) (IZR x, IZR y)).
Proof. exact point_line_correct. Qed.
Print Assumptions C02_point_line.

Theorem C02_point_multiline : forall x y b sv,
  finite_vals (sb_buffer_values b) = Some sv ->
  Forall even_len (rings_of sv (sb_inner_offsets b)) ->
  exists r, point_intersects x y (ShMultiLine b) = Some (Value r) /\
            (r = true <-> multiline_set (rings_of sv (sb_inner_offsets b)) (IZR x, IZR y)).
Proof. exact point_multiline_correct. Qed.
Print Assumptions C02_point_multiline.

(* the array kernel's per-point body decides the same set *)
Theorem C02_array_line_body : forall x y lines, Forall even_len lines ->
  exists b, ar_lines x y lines false = Value b /\
            (b = true <-> multiline_set lines (IZR x, IZR y)).
Proof. exact ar_lines_correct. Qed.
Print Assumptions C02_array_line_body.

(* ---- (c) scalar form = array form = array form at positions; missing -> False ---- *)

(* for every well-formed point array (any offset, any validity bitmap, any
   placeholder bytes in null slots), every shape (boundary points included) and
   every list of existing positions: PointArray.intersects(shape, inds) is the
   selection of PointArray.intersects(shape), whose entry i is what
   Point.intersects(shape) answers for element i *)
Theorem C02_forms_agree : forall a s r,
  wf_fixarr a = true ->
  array_intersects a s None = Some (Value r) ->
  length r = fa_len a /\
  (forall inds, inds_ok (fa_len a) inds = true ->
     array_intersects a s (Some inds) = Some (Value (map (fun j => nth j r false) inds))) /\
  (forall i, (i < fa_len a)%nat ->
     element_intersects a s i =
     Some (if isna_at (fa_valid a) (fa_off a) i then None else Some (Value (nth i r false)))) /\
  (forall i, (i < fa_len a)%nat -> isna_at (fa_valid a) (fa_off a) i = true -> nth i r false = false).
Proof. exact forms_agree. Qed.
Print Assumptions C02_forms_agree.

Theorem C02_missing_false : forall a s r i,
  wf_fixarr a = true -> array_intersects a s None = Some (Value r) ->
  (i < fa_len a)%nat -> isna_at (fa_valid a) (fa_off a) i = true ->
  nth i r false = false.
Proof. exact missing_false. Qed.
Print Assumptions C02_missing_false.

(* ---- (d) polygons: the code's edge rule is the declarative half-open ray-crossing rule ---- *)

Theorem C02_pip_edge_refines : forall x y (A B : pt),
  pip_edge x y (A, B) = wn_edge (IZR x, IZR y) (inj A) (inj B).
Proof. exact pip_edge_refines. Qed.
Print Assumptions C02_pip_edge_refines.

(* for every ring list (no validity assumption): the test answers "winding number <> 0" *)
Theorem C02_pip_refines_wn : forall x y values offs,
  point_intersects_polygon x y values offs =
  negb (wn (IZR x, IZR y) (map ring_of (rings_of values offs)) =? 0)%Z.
Proof. exact pip_refines_wn. Qed.
Print Assumptions C02_pip_refines_wn.

(* ---- (e) laws of the winding number (no Jordan curve theorem) ---- *)

(* exact even when P lies on the edge *)
Theorem C02_wn_edge_antisym : forall P A B, (wn_edge P A B + wn_edge P B A = 0)%Z.
Proof. exact wn_edge_antisym. Qed.
Print Assumptions C02_wn_edge_antisym.

(* "either way round": reversing every ring negates the number, so the answer is unchanged *)
Theorem C02_wn_rev : forall P rings, wn P (map (@rev rpt) rings) = (- wn P rings)%Z.
Proof. exact wn_rev. Qed.
Print Assumptions C02_wn_rev.

(* rings add: shell + holes, parts of a multipolygon *)
Theorem C02_wn_app : forall P r1 r2, wn P (r1 ++ r2) = (wn P r1 + wn P r2)%Z.
Proof. exact wn_app. Qed.
Print Assumptions C02_wn_app.

Theorem C02_wn_translate : forall d P rings,
  wn (tr d P) (map (map (tr d)) rings) = wn P rings.
Proof. exact wn_translate. Qed.
Print Assumptions C02_wn_translate.

(* closed rings, P strictly left of / right of / below / above every vertex *)
Theorem C02_wn_outside_bbox : forall P rings,
  Forall closed rings -> outside_bbox P (all_vertices rings) -> wn P rings = 0%Z.
Proof. exact wn_outside_bbox. Qed.
Print Assumptions C02_wn_outside_bbox.

(* every axis-aligned rectangle ring, any start vertex, both directions *)
Theorem C02_wn_rectangle : forall r k ccw P, rect_ok r ->
  (strictly_in r P -> wn_ring P (rect_ring r k ccw) = if ccw then 1%Z else (-1)%Z) /\
  (strictly_out r P -> wn_ring P (rect_ring r k ccw) = 0%Z).
Proof. exact wn_rectangle. Qed.
Print Assumptions C02_wn_rectangle.

(* the property's statement, proved for rectangles with rectangular holes wound
   opposite: True strictly inside the shell and outside every hole; False
   strictly outside the shell; False strictly inside a hole *)
Theorem C02_polygon_rect_with_rect_holes : forall x y values offs shell ks ccw holes,
  map ring_of (rings_of values offs) = rect_polygon shell ks ccw holes ->
  rect_ok shell -> holes_ok holes ->
  let P := (IZR x, IZR y) in
  (strictly_in shell P -> out_of_all holes P ->
     point_intersects_polygon x y values offs = true) /\
  (strictly_out shell P -> out_of_all holes P ->
     point_intersects_polygon x y values offs = false) /\
  (forall h1 h h2, holes = h1 ++ h :: h2 -> strictly_in shell P -> strictly_in (fst h) P ->
     out_of_all h1 P -> out_of_all h2 P ->
     point_intersects_polygon x y values offs = false).
Proof. exact polygon_rect_with_rect_holes. Qed.
Print Assumptions C02_polygon_rect_with_rect_holes.

(* PARTIAL.  For every ring list: the answer is "winding number <> 0" under the
   declarative half-open rule, it is independent of the orientation convention,
   and closed rings answer False strictly outside their bounding box.  Not a
   theorem: "for a valid polygon, winding number <> 0 iff strictly inside the
   shell and in no hole" (polygonal Jordan curve theorem); proved above for
   rectangles with rectangular holes, validated for all enumerated simple
   polygons by the correspondence run's exact oracle (harness/c02.py). *)
Theorem C02_polygon_partial : forall x y values offs,
  let rings := map ring_of (rings_of values offs) in
  let P := (IZR x, IZR y) in
  point_intersects_polygon x y values offs = negb (wn P rings =? 0)%Z /\
  negb (wn P (map (@rev rpt) rings) =? 0)%Z = negb (wn P rings =? 0)%Z /\
  (Forall closed rings -> outside_bbox P (all_vertices rings) ->
     point_intersects_polygon x y values offs = false).
Proof. exact polygon_partial. Qed.
Print Assumptions C02_polygon_partial.

(* ---- non-vacuity ---- *)

(* collinear with the segment (0,0)-(2,2) but beyond its end *)
Example ex_beyond_end : segment_intersects_point 0 0 2 2 3 3 = false.
Proof. vm_compute; reflexivity. Qed.
(* zero-length segment *)
Example ex_zero_length : segment_intersects_point 2 2 2 2 2 2 = true.
Proof. vm_compute; reflexivity. Qed.
(* a multiline with an empty sub-line, point in the middle of the second line *)
Example ex_multiline :
  sc_lines 3 3 [[0; 0; 0; 4]%Z; []; [2; 2; 4; 4]%Z] = Value true.
Proof. vm_compute; reflexivity. Qed.
(* a missing slot whose placeholder bytes are (0,0), inside the square around the origin *)
Example ex_missing :
  array_intersects (Build_fixarr 0 2 (Some [false; true]) [Some 0; Some 0; Some 0; Some 0]%Z)
                   (ShPolygon (BList (Build_listarr 0 1 None [[0; 10]%nat]
                      (map Some [-1; -1; 1; -1; 1; 1; -1; 1; -1; -1]%Z)))) None
  = Some (Value [false; true]).
Proof. vm_compute; reflexivity. Qed.
(* the hypothesis of C02_polygon_rect_with_rect_holes is satisfiable: a 4x4 square
   (start vertex 1, clockwise) with a 1x1 hole (counter-clockwise) *)
Example ex_rect_polygon :
  map ring_of (rings_of [4; 0; 0; 0; 0; 4; 4; 4; 4; 0;  1; 1; 2; 1; 2; 2; 1; 2; 1; 1]%Z [0; 10; 20]%nat)
  = rect_polygon {| xa := 0; yb := 0; xc := 4; yd := 4 |} 1 false
                 [({| xa := 1; yb := 1; xc := 2; yd := 2 |}, 0%nat)].
Proof. reflexivity. Qed.
(* ray through the vertex (2,2) of the triangle (0,0),(4,0),(2,2): inside at height... the
   point (1,1) lies on the edge; (2,1) is inside, its ray passes below the apex; (1,2) and
   (-1,2) have the apex on their ray and are outside *)
Example ex_ray_through_vertex :
  map (fun p => point_intersects_polygon (fst p) (snd p) [0; 0; 4; 0; 2; 2; 0; 0]%Z [0; 8]%nat)
      [(2, 1); (1, 2); (-1, 2); (3, 2); (-1, 0); (5, 0)]%Z
  = [true; false; false; false; false; false].
Proof. vm_compute; reflexivity. Qed.
(* OUT OF SCOPE, recorded: a 0-level scalar (Line, MultiPoint) built *directly* from a
   pyarrow scalar of a sliced array keeps listarray.offset <> 0, which buffer_values /
   buffer_offsets ignore: the model (like the code) reads the buffer from its start.  Here
   the line is (5,5)-(6,6)-(7,7) (offset 4, length 6) but (6,6) is not found.  The library
   itself never builds scalars this way (__getitem__ goes through as_py). *)
Example ex_line_from_arrow_scalar_offset_ignored :
  point_intersects 6 6 (ShLine (BPlain 4 6 (map Some [0; 0; 1; 1; 5; 5; 6; 6; 7; 7]%Z)))
  = Some (Value false).
Proof. vm_compute; reflexivity. Qed.

(* ---- A-FLOAT (DESIGN 3.1) as a theorem: float64 evaluation = evaluation in Z ----
   Model/FloatKernels.v transcribes the numba kernels over IEEE binary64 (Coq's
   primitive floats; tied to the real kernels on arbitrary float64 inputs by
   harness/cfloat_util.py).  On the images [Z2F z] of integers |z| <= 2^25 (proved to
   be the finite binary64 of value z: C01_Z2F_is_the_integer) the float kernels
   return exactly what the integer models used by every theorem above return
   (Proofs/FloatExact.v). *)
From SP Require Model.FloatKernels Proofs.FloatExact.

Theorem C02_segment_intersects_point_float_exact : forall ax0 ay0 ax1 ay1 bx by_ : Z,
  (Z.abs ax0 <= 2 ^ 25)%Z -> (Z.abs ay0 <= 2 ^ 25)%Z ->
  (Z.abs ax1 <= 2 ^ 25)%Z -> (Z.abs ay1 <= 2 ^ 25)%Z ->
  (Z.abs bx <= 2 ^ 25)%Z -> (Z.abs by_ <= 2 ^ 25)%Z ->
  FloatKernels.fsegment_intersects_point
    (FloatKernels.Z2F ax0) (FloatKernels.Z2F ay0) (FloatKernels.Z2F ax1) (FloatKernels.Z2F ay1)
    (FloatKernels.Z2F bx) (FloatKernels.Z2F by_) =
  segment_intersects_point ax0 ay0 ax1 ay1 bx by_.
Proof. exact FloatExact.segment_intersects_point_float_exact. Qed.
Print Assumptions C02_segment_intersects_point_float_exact.

Theorem C02_point_intersects_polygon_float_exact :
  forall (x y : Z) (values : list Z) (offs : list nat),
  (Z.abs x <= 2 ^ 25)%Z -> (Z.abs y <= 2 ^ 25)%Z ->
  Forall (fun z => (Z.abs z <= 2 ^ 25)%Z) values ->
  FloatKernels.fpoint_intersects_polygon
    (FloatKernels.Z2F x) (FloatKernels.Z2F y) (map FloatKernels.Z2F values) offs =
  point_intersects_polygon x y values offs.
Proof. exact FloatExact.point_intersects_polygon_float_exact. Qed.
Print Assumptions C02_point_intersects_polygon_float_exact.

(* the same for ANY finite floats whose values are those integers (e.g. -0.0 for 0):
   [FloatExact.FintS f z] := f is finite, its real value is IZR z, and |z| <= 2^25 *)
Theorem C02_point_intersects_polygon_float_exact_rel :
  forall x y zx zy fs zs offs,
  FloatExact.FintS x zx -> FloatExact.FintS y zy -> Forall2 FloatExact.FintS fs zs ->
  FloatKernels.fpoint_intersects_polygon x y fs offs = point_intersects_polygon zx zy zs offs.
Proof. exact FloatExact.point_intersects_polygon_float_exact_rel. Qed.
Print Assumptions C02_point_intersects_polygon_float_exact_rel.

(* non-vacuity: the float kernel run by the Coq kernel; the point on the edge of the
   triangle, inside it, and the two rays through the apex *)
Example ex_float_polygon :
  map (fun p => FloatKernels.fpoint_intersects_polygon
                  (FloatKernels.Z2F (fst p)) (FloatKernels.Z2F (snd p))
                  (map FloatKernels.Z2F [0; 0; 4; 0; 2; 2; 0; 0]%Z) [0; 8]%nat)
      [(1, 1); (2, 1); (1, 2); (-1, 2); (3, 2); (-1, 0); (5, 0)]%Z
  = map (fun p => point_intersects_polygon (fst p) (snd p) [0; 0; 4; 0; 2; 2; 0; 0]%Z [0; 8]%nat)
      [(1, 1); (2, 1); (1, 2); (-1, 2); (3, 2); (-1, 0); (5, 0)]%Z.
Proof. vm_compute; reflexivity. Qed.
(* ---- (f) triangles, convex rings, convex shells with convex holes (no Jordan theorem) ----
   Spec: Spec/ConvexSpec.v.  Proofs: Proofs/ConvexArith.v, ConvexWinding.v, ConvexPolygon.v,
   ConvexSubdivide.v, ConvexGlue.v, ConvexExamples.v.  Required without Import (only the Spec
   is imported) so that no short name of those proof files shadows anything in this file. *)
From SP Require Proofs.ConvexArith Proofs.ConvexWinding Proofs.ConvexPolygon Proofs.ConvexSubdivide
                Proofs.ConvexGlue Proofs.ConvexExamples.
From SP Require Import Spec.ConvexSpec.

(* every triangle A B C A, either orientation, no general-position assumption (rays through
   vertices and along horizontal edges included): strictly on the same side of the three edge
   lines => +1 (counter-clockwise) / -1 (clockwise); strictly on the outer side of one edge
   line => 0 *)
Theorem C02_wn_triangle : forall A B C P,
  (strictly_inside_triangle A B C P ->
     wn_ring P [A; B; C; A] = if Rlt_dec 0 (orient A B C) then 1%Z else (-1)%Z) /\
  (strictly_outside_triangle A B C P -> wn_ring P [A; B; C; A] = 0%Z).
Proof. exact ConvexPolygon.wn_triangle. Qed.
Print Assumptions C02_wn_triangle.

(* wn_additive for the fan of a ring from its first vertex: a v1 ... vk a is the sum of the
   triangles a vi vi+1 a, for EVERY ring and EVERY point (also a point on a diagonal: the two
   directed copies of a diagonal cancel exactly, C02_wn_edge_antisym) *)
Theorem C02_wn_fan : forall P a l b,
  wn_ring P (a :: b :: l ++ [a]) =
  zsum (map (fun e => wn_ring P [a; fst e; snd e; a]) (consec (b :: l))).
Proof. exact ConvexWinding.wn_fan. Qed.
Print Assumptions C02_wn_fan.

(* fan-triangulated rings (star-shaped from their first vertex, not necessarily convex): P
   strictly inside one fan triangle and separated by a line from each of the others (e.g.
   strictly outside it); points ON an internal diagonal are not covered by this statement
   (for convex rings C02_wn_convex covers them) *)
Theorem C02_wn_fan_triangulated : forall P a b l t1 B C t2,
  consec (b :: l) = t1 ++ (B, C) :: t2 ->
  Forall (fun e => separated [a; fst e; snd e] P) (t1 ++ t2) ->
  (strictly_inside_triangle a B C P ->
     wn_ring P (a :: b :: l ++ [a]) = if Rlt_dec 0 (orient a B C) then 1%Z else (-1)%Z) /\
  (separated [a; B; C] P -> wn_ring P (a :: b :: l ++ [a]) = 0%Z).
Proof. exact ConvexPolygon.wn_fan_triangulated. Qed.
Print Assumptions C02_wn_fan_triangulated.

(* [convex_ring ccw vs]: at least 3 vertices and EVERY three vertices taken in ring order turn
   the same way (strictly).  "Every consecutive triple" would not do: ex_pentagram below. *)
Theorem C02_wn_convex : forall ccw vs P, convex_ring ccw vs ->
  (strictly_inside_convex ccw vs P ->
     wn_ring P (close_ring vs) = if ccw then 1%Z else (-1)%Z) /\
  (strictly_outside_convex ccw vs P -> wn_ring P (close_ring vs) = 0%Z).
Proof. exact ConvexPolygon.wn_convex. Qed.
Print Assumptions C02_wn_convex.

(* in a convex ring every vertex other than an edge's own ends is strictly on the inner side
   of that edge's line (the definition by triples implies the definition by edges) *)
Theorem C02_convex_vertex_inner_side : forall ccw vs A B V,
  convex_ring ccw vs -> In (A, B) (consec (close_ring vs)) -> In V vs ->
  V = A \/ V = B \/ turn ccw A B V.
Proof. exact ConvexPolygon.convex_vertex_inner_side. Qed.
Print Assumptions C02_convex_vertex_inner_side.

(* ANY closed ring (convex or not, simple or not): 0 at every point that some line separates
   from all its vertices, i.e. outside its convex hull; generalises C02_wn_outside_bbox *)
Theorem C02_wn_separated : forall P ring, closed ring -> separated ring P -> wn_ring P ring = 0%Z.
Proof. exact ConvexWinding.wn_separated. Qed.
Print Assumptions C02_wn_separated.

(* the property's statement for every triangle handed to the code *)
Theorem C02_polygon_triangle : forall x y values offs (A B C : pt),
  rings_of values offs = [[fst A; snd A; fst B; snd B; fst C; snd C; fst A; snd A]%Z] ->
  let P := (IZR x, IZR y) in
  (strictly_inside_triangle (inj A) (inj B) (inj C) P ->
     point_intersects_polygon x y values offs = true) /\
  (strictly_outside_triangle (inj A) (inj B) (inj C) P ->
     point_intersects_polygon x y values offs = false).
Proof. exact ConvexPolygon.polygon_triangle. Qed.
Print Assumptions C02_polygon_triangle.

(* the property's statement, proved for convex shells (either orientation) with convex holes
   wound opposite: True strictly inside the shell and strictly outside every hole; False
   strictly outside the shell (holes in the closed shell); False strictly inside a hole *)
Theorem C02_polygon_convex_with_convex_holes : forall x y values offs ccw shell holes,
  map ring_of (rings_of values offs) = convex_polygon shell holes ->
  convex_ring ccw shell -> Forall (convex_ring (negb ccw)) holes ->
  let P := (IZR x, IZR y) in
  (strictly_inside_convex ccw shell P -> outside_holes (negb ccw) holes P ->
     point_intersects_polygon x y values offs = true) /\
  (strictly_outside_convex ccw shell P -> Forall (ring_inside_convex ccw shell) holes ->
     point_intersects_polygon x y values offs = false) /\
  (forall h1 h h2, holes = h1 ++ h :: h2 ->
     strictly_inside_convex ccw shell P -> strictly_inside_convex (negb ccw) h P ->
     outside_holes (negb ccw) h1 P -> outside_holes (negb ccw) h2 P ->
     point_intersects_polygon x y values offs = false).
Proof. exact ConvexPolygon.polygon_convex_with_convex_holes. Qed.
Print Assumptions C02_polygon_convex_with_convex_holes.

(* wn_subdivide: a vertex inserted anywhere on the closed segment of an edge -- in particular
   exactly at the height of the point, which turns a plain crossing into a "ray through a
   vertex" -- changes nothing, for every ring and every point *)
Theorem C02_wn_edge_subdivide : forall P A B M, on_seg A B M ->
  (wn_edge P A M + wn_edge P M B = wn_edge P A B)%Z.
Proof. exact ConvexSubdivide.wn_edge_subdivide. Qed.
Print Assumptions C02_wn_edge_subdivide.

Theorem C02_wn_subdivide : forall P l1 A M B l2, on_seg A B M ->
  wn_ring P (l1 ++ A :: M :: B :: l2) = wn_ring P (l1 ++ A :: B :: l2).
Proof. exact ConvexSubdivide.wn_subdivide. Qed.
Print Assumptions C02_wn_subdivide.

(* hence the same statement for weakly convex rings: the rings handed to the code may carry
   any number of extra (collinear or repeated) vertices on the edges of the convex rings *)
Theorem C02_polygon_convex_refined : forall x y values offs ccw shell holes,
  Forall2 refines (map ring_of (rings_of values offs)) (convex_polygon shell holes) ->
  convex_ring ccw shell -> Forall (convex_ring (negb ccw)) holes ->
  let P := (IZR x, IZR y) in
  (strictly_inside_convex ccw shell P -> outside_holes (negb ccw) holes P ->
     point_intersects_polygon x y values offs = true) /\
  (strictly_outside_convex ccw shell P -> Forall (ring_inside_convex ccw shell) holes ->
     point_intersects_polygon x y values offs = false) /\
  (forall h1 h h2, holes = h1 ++ h :: h2 ->
     strictly_inside_convex ccw shell P -> strictly_inside_convex (negb ccw) h P ->
     outside_holes (negb ccw) h1 P -> outside_holes (negb ccw) h2 P ->
     point_intersects_polygon x y values offs = false).
Proof. exact ConvexSubdivide.polygon_convex_refined. Qed.
Print Assumptions C02_polygon_convex_refined.

(* "strictly outside => False" for ANY closed rings (no validity assumption) at a point outside
   the convex hull of each ring; contains the bounding-box clause of C02_polygon_partial *)
Theorem C02_polygon_separated_false : forall x y values offs,
  let rings := map ring_of (rings_of values offs) in
  let P := (IZR x, IZR y) in
  Forall closed rings -> Forall (fun ring => separated ring P) rings ->
  point_intersects_polygon x y values offs = false.
Proof. exact ConvexSubdivide.polygon_separated_false. Qed.
Print Assumptions C02_polygon_separated_false.

(* wn_additive: a ring cut into pieces along diagonals, recursively ([decomposes]: every
   triangulation of a simple polygon is of this form), has the sum of the pieces' winding
   numbers at EVERY point -- on a diagonal too (C02_wn_edge_antisym) *)
Theorem C02_wn_additive : forall P R pieces, decomposes R pieces -> wn_ring P R = wn P pieces.
Proof. exact ConvexGlue.wn_additive. Qed.
Print Assumptions C02_wn_additive.

(* NON-CONVEX rings given with a decomposition into counter-clockwise convex pieces (e.g. a
   triangulation): 1 strictly inside a piece; 1 ALSO on an open diagonal shared by two pieces
   (the half-open rule gives such a point to exactly one of the two); 0 outside every piece.
   An interior point of a triangulated simple polygon is always in one of the first two
   situations (a triangulation by diagonals has no interior vertex) -- that remark, and the
   existence of a triangulation, are not formalised: the decomposition and the location of
   the point are hypotheses, decidable by exact arithmetic for any concrete input *)
Theorem C02_wn_decomposed : forall P R pieces,
  decomposes R (map close_ring pieces) -> Forall (convex_ring true) pieces ->
  (forall q1 vs q2, pieces = q1 ++ vs :: q2 ->
     strictly_inside_convex true vs P -> away P (q1 ++ q2) -> wn_ring P R = 1%Z) /\
  (forall q1 vs q2 ws q3 A B, pieces = q1 ++ vs :: q2 ++ ws :: q3 ->
     on_edge_of_convex vs A B P -> on_edge_of_convex ws B A P ->
     away P (q1 ++ q2 ++ q3) -> wn_ring P R = 1%Z) /\
  (away P pieces -> wn_ring P R = 0%Z).
Proof. exact ConvexGlue.wn_decomposed. Qed.
Print Assumptions C02_wn_decomposed.

(* the same about the code: the first ring (wound either way) is cut into convex pieces, the
   other rings (holes) are closed and each separated from the point by a line *)
Theorem C02_polygon_decomposed : forall x y values offs R others pieces,
  map ring_of (rings_of values offs) = R :: others ->
  decomposes R (map close_ring pieces) \/ decomposes (rev R) (map close_ring pieces) ->
  Forall (convex_ring true) pieces ->
  let P := (IZR x, IZR y) in
  Forall closed others -> Forall (fun r => separated r P) others ->
  (forall q1 vs q2, pieces = q1 ++ vs :: q2 ->
     strictly_inside_convex true vs P -> away P (q1 ++ q2) ->
     point_intersects_polygon x y values offs = true) /\
  (forall q1 vs q2 ws q3 A B, pieces = q1 ++ vs :: q2 ++ ws :: q3 ->
     on_edge_of_convex vs A B P -> on_edge_of_convex ws B A P ->
     away P (q1 ++ q2 ++ q3) ->
     point_intersects_polygon x y values offs = true) /\
  (away P pieces -> point_intersects_polygon x y values offs = false).
Proof. exact ConvexGlue.polygon_decomposed. Qed.
Print Assumptions C02_polygon_decomposed.

(* non-vacuity: the convex pentagon (0,0) (6,0) (8,4) (4,8) (-2,4) with the clockwise
   triangular hole (2,2) (3,5) (5,2) satisfies every hypothesis of the theorem above, and
   its three conclusions give the code's answers at
     (1,4)  inside the shell, outside the hole; the ray crosses the hole and then runs
            exactly through the shell vertex (8,4); the vertex (-2,4) is level with it;
     (1,5)  inside; the ray runs exactly through the apex (3,5) of the hole;
     (3,4)  inside the hole; the ray runs exactly through the shell vertex (8,4);
     (-3,4) outside; the ray runs through (-2,4), the hole and (8,4) *)
Example ex_convex_pentagon_with_hole :
  let values := [0; 0; 6; 0; 8; 4; 4; 8; -2; 4; 0; 0;   2; 2; 3; 5; 5; 2; 2; 2]%Z in
  let offs := [0; 12; 20]%nat in
  let shell := map inj [(0, 0); (6, 0); (8, 4); (4, 8); (-2, 4)]%Z in
  let hole := map inj [(2, 2); (3, 5); (5, 2)]%Z in
  map ring_of (rings_of values offs) = convex_polygon shell [hole] /\
  convex_ring true shell /\ Forall (convex_ring (negb true)) [hole] /\
  Forall (ring_inside_convex true shell) [hole] /\
  (strictly_inside_convex true shell (IZR 1, IZR 4) /\
   outside_holes false [hole] (IZR 1, IZR 4) /\
   point_intersects_polygon 1 4 values offs = true) /\
  (strictly_inside_convex true shell (IZR 1, IZR 5) /\
   outside_holes false [hole] (IZR 1, IZR 5) /\
   point_intersects_polygon 1 5 values offs = true) /\
  (strictly_inside_convex false hole (IZR 3, IZR 4) /\
   point_intersects_polygon 3 4 values offs = false) /\
  (strictly_outside_convex true shell (IZR (-3), IZR 4) /\
   point_intersects_polygon (-3) 4 values offs = false).
Proof. exact ConvexExamples.convex_pentagon_with_hole. Qed.
Example ex_convex_pentagon_computed :
  map (fun p => point_intersects_polygon (fst p) (snd p)
                 [0; 0; 6; 0; 8; 4; 4; 8; -2; 4; 0; 0;   2; 2; 3; 5; 5; 2; 2; 2]%Z [0; 12; 20]%nat)
      [(1, 4); (1, 5); (3, 4); (-3, 4)]%Z = [true; true; false; false].
Proof. vm_compute; reflexivity. Qed.

(* why [convex_ring] asks for all ordered triples: the pentagram through five points in convex
   position turns left at every vertex, the origin is strictly left of all five edge lines,
   and the winding number there is 2 (the code still answers True) *)
Example ex_pentagram :
  let v0 := inj (3, 0)%Z in let v2 := inj (-2, 2)%Z in let v4 := inj (1, -3)%Z in
  let v1 := inj (1, 3)%Z in let v3 := inj (-2, -2)%Z in
  let ring := [v0; v2; v4; v1; v3; v0] in
  let O := (IZR 0, IZR 0) in
  Forall (fun e => turn true (fst e) (snd e) O) (consec ring) /\
  (turn true v0 v2 v4 /\ turn true v2 v4 v1 /\ turn true v4 v1 v3 /\
   turn true v1 v3 v0 /\ turn true v3 v0 v2) /\
  wn_ring O ring = 2%Z /\
  point_intersects_polygon 0 0 [3; 0; -2; 2; 1; -3; 1; 3; -2; -2; 3; 0]%Z [0; 12]%nat = true.
Proof. exact ConvexPolygon.pentagram_wn2. Qed.

(* the square (0,0) (4,0) (4,4) (0,4) with the extra vertex (4,2) on its right-hand edge: the
   ray from (1,2) runs exactly through the inserted vertex *)
Example ex_square_extra_vertex :
  let values := [0; 0; 4; 0; 4; 2; 4; 4; 0; 4; 0; 0]%Z in
  let offs := [0; 12]%nat in
  let shell := map inj [(0, 0); (4, 0); (4, 4); (0, 4)]%Z in
  Forall2 refines (map ring_of (rings_of values offs)) (convex_polygon shell []) /\
  convex_ring true shell /\
  strictly_inside_convex true shell (IZR 1, IZR 2) /\
  point_intersects_polygon 1 2 values offs = true.
Proof. exact ConvexExamples.square_with_extra_vertex. Qed.

(* a non-convex ring: the "L" (0,0) (4,0) (5,1) (4,2) (2,2) (2,4) (0,4), reflex at (2,2), cut
   along the diagonal (0,0)-(2,2) into a convex pentagon and a convex quadrilateral.
     (1,1) lies ON the diagonal; its ray runs exactly through the vertex (5,1);
     (1,2) lies strictly inside the quadrilateral; its ray runs exactly through the reflex
           vertex (2,2) and then along the horizontal edge (2,2)-(4,2) *)
Example ex_ell_shape :
  let values := [0; 0; 4; 0; 5; 1; 4; 2; 2; 2; 2; 4; 0; 4; 0; 0]%Z in
  let offs := [0; 16]%nat in
  let q1 := map inj [(0, 0); (4, 0); (5, 1); (4, 2); (2, 2)]%Z in
  let q2 := map inj [(2, 2); (2, 4); (0, 4); (0, 0)]%Z in
  map ring_of (rings_of values offs) = [ring_of values] /\
  decomposes (ring_of values) (map close_ring [q1; q2]) /\
  Forall (convex_ring true) [q1; q2] /\
  (on_edge_of_convex q1 (inj (2, 2)%Z) (inj (0, 0)%Z) (IZR 1, IZR 1) /\
   on_edge_of_convex q2 (inj (0, 0)%Z) (inj (2, 2)%Z) (IZR 1, IZR 1) /\
   point_intersects_polygon 1 1 values offs = true) /\
  (strictly_inside_convex true q2 (IZR 1, IZR 2) /\ away (IZR 1, IZR 2) [q1] /\
   point_intersects_polygon 1 2 values offs = true).
Proof. exact ConvexExamples.ell_shape. Qed.
