(* C06: a Dask geo frame answers exactly like the pandas frame it represents. *)
From Coq Require Import ZArith List Bool Arith Permutation.
From SP Require Import Model.Num Model.Arrow Model.Bounds Model.Rtree Model.DaskModel
                       Spec.BoundsSpec Spec.DaskSpec
                       Proofs.DaskProofs Proofs.DaskMapProofs Proofs.DaskCxProofs
                       Proofs.DaskSjoinProofs Proofs.DaskCacheProofs Proofs.DaskRtreeBridge.
Import ListNotations.
Local Open Scope nat_scope.

(* ---- total_bounds ---- *)

(* on the C13 kernel: the kernel's answer on a concatenation of coordinate lists
   (each holding whole (x, y) pairs) is the nan-combination of its answers on the
   pieces — pieces = partitions of a frame, or elements of one partition *)
Theorem total_bounds_concat_kernel : forall ls,
  Forall (fun l => Nat.even (length l) = true) ls ->
  total_bounds_interleaved (concat ls) = box_total (map total_bounds_interleaved ls).
Proof. exact tbi_concat. Qed.
Print Assumptions total_bounds_concat_kernel.

(* DaskGeoSeries.total_bounds (nanmin / nanmax over partition_bounds) = total_bounds of
   the concatenated frame, for every list of partitions *)
Theorem total_bounds_concat : forall (R : Type) (rbox : R -> bbox) (parts : list (list R)),
  dask_total_bounds R rbox parts = pandas_total_bounds R rbox (concat parts).
Proof. exact total_bounds_concat_rows. Qed.
Print Assumptions total_bounds_concat.

(* the row-level model's [part_bounds] is what the arrays of C13 compute:
   total_bounds = nan-combination of the bounds rows *)
Theorem partition_bounds_is_total_bounds_list : forall a,
  wf_listarr a = true -> even_outer a = true ->
  la_total_bounds a = box_total (la_bounds a).
Proof. exact la_total_is_box_total. Qed.
Print Assumptions partition_bounds_is_total_bounds_list.

Theorem partition_bounds_is_total_bounds_point : forall a,
  wf_fixarr a = true -> fa_total_bounds a = box_total (fa_bounds a).
Proof. exact fa_total_is_box_total. Qed.
Print Assumptions partition_bounds_is_total_bounds_point.

(* ---- elementwise operations ---- *)
Theorem map_ops_concat : forall (R B : Type) (f : R -> B) (parts : list (list R)),
  concat (dask_map R f parts) = pandas_map R f (concat parts).
Proof. exact map_ops_concat_lemma. Qed.
Print Assumptions map_ops_concat.

(* ---- cx_partitions ---- *)
Theorem C06_cx_partitions_whole :
  forall (R : Type) (rbox : R -> bbox),
    rtree_select_contract ->
    forall (parts : list (list R)) (keys : list nat),
      (forall r, In r (concat parts) -> wf_bbox (rbox r)) ->
      Permutation keys (seq 0 (length parts)) ->
      forall k,
        dask_cx_partitions R rbox parts keys k = [[]] \/
        exists inds, sasc inds /\ (forall i, In i inds -> i < length parts) /\
                     dask_cx_partitions R rbox parts keys k = map (fun i => nth i parts []) inds.
Proof. exact cx_partitions_whole. Qed.
Print Assumptions C06_cx_partitions_whole.

Theorem C06_cx_partitions_superset :
  forall (R : Type) (rbox : R -> bbox) (hits : R -> list Z -> bool),
    rtree_select_contract -> rtree_total_contract -> hits_contract rbox hits ->
    forall (parts : list (list R)) (keys : list nat),
      (forall r, In r (concat parts) -> wf_bbox (rbox r)) ->
      Permutation keys (seq 0 (length parts)) ->
      forall k q r,
        finite_query (get_bounds (box_row (pandas_total_bounds R rbox (concat parts))) k) = Some q ->
        In r (concat parts) -> hits r q = true ->
        In r (concat (dask_cx_partitions R rbox parts keys k)).
Proof. exact cx_partitions_superset. Qed.
Print Assumptions C06_cx_partitions_superset.

(* ---- cx ---- *)
Theorem C06_cx :
  forall (R : Type) (rbox : R -> bbox) (hits : R -> list Z -> bool),
    rtree_select_contract -> rtree_total_contract -> hits_contract rbox hits ->
    forall (parts : list (list R)) (keys : list nat),
      (forall r, In r (concat parts) -> wf_bbox (rbox r)) ->
      Permutation keys (seq 0 (length parts)) ->
      forall k,
        concat (dask_cx R rbox hits parts keys k) =
        pandas_frame_cx R rbox hits (concat parts) k.
Proof. exact cx_concat. Qed.
Print Assumptions C06_cx.

(* ---- the same with the two contracts on the partition-level index discharged by the
   C03 theorems (Proofs/RtreeProofs.v: C03_split, C03_intersects_In,
   overlapsb_row_outside, C03_total_bounds_box) ---- *)
Theorem C06_rtree_select_contract_holds : rtree_select_contract.
Proof. exact rtree_select_holds. Qed.
Print Assumptions C06_rtree_select_contract_holds.

Theorem C06_rtree_total_contract_holds : rtree_total_contract.
Proof. exact rtree_total_holds. Qed.
Print Assumptions C06_rtree_total_contract_holds.

Theorem C06_cx_closed :
  forall (R : Type) (rbox : R -> bbox) (hits : R -> list Z -> bool),
    hits_contract rbox hits ->
    forall (parts : list (list R)) (keys : list nat),
      (forall r, In r (concat parts) -> wf_bbox (rbox r)) ->
      Permutation keys (seq 0 (length parts)) ->
      forall k,
        concat (dask_cx R rbox hits parts keys k) =
        pandas_frame_cx R rbox hits (concat parts) k.
Proof. exact cx_concat_closed. Qed.
Print Assumptions C06_cx_closed.

Theorem C06_cx_partitions_superset_closed :
  forall (R : Type) (rbox : R -> bbox) (hits : R -> list Z -> bool),
    hits_contract rbox hits ->
    forall (parts : list (list R)) (keys : list nat),
      (forall r, In r (concat parts) -> wf_bbox (rbox r)) ->
      Permutation keys (seq 0 (length parts)) ->
      forall k q r,
        finite_query (get_bounds (box_row (pandas_total_bounds R rbox (concat parts))) k) = Some q ->
        In r (concat parts) -> hits r q = true ->
        In r (concat (dask_cx_partitions R rbox parts keys k)).
Proof. exact cx_partitions_superset_closed. Qed.
Print Assumptions C06_cx_partitions_superset_closed.

(* ---- sjoin ---- *)
Theorem C06_sjoin :
  forall (L Rr : Type) (lbox : L -> bbox) (rrbox : Rr -> bbox) (rmissing : Rr -> bool)
         (geo_int : L -> Rr -> bool) (rsel : bbox -> list Rr -> list Rr),
    geo_int_contract lbox rrbox geo_int -> rsel_contract rrbox rsel ->
    forall (how : how_t) (parts : list (list L)) (rs : list Rr),
      (forall l, In l (concat parts) -> wf_bbox (lbox l)) ->
      Permutation (concat (dask_sjoin L Rr lbox rrbox rmissing geo_int rsel how parts rs))
                  (pandas_sjoin L Rr lbox rrbox rmissing geo_int how (concat parts) rs).
Proof. exact sjoin_concat. Qed.
Print Assumptions C06_sjoin.

(* ---- the partition-bounds cache (keyed by geometry name) ---- *)
(* with a coherent cache the partition index is built from the real partition bounds and
   the cache stays coherent *)
Theorem C06_cache_partition_sindex : forall c f name,
  cache_coherent c f ->
  fst (frame_partition_bounds c name (f name)) = f name /\
  cache_coherent (snd (frame_partition_bounds c name (f name))) f.
Proof. exact frame_partition_bounds_coherent. Qed.
Print Assumptions C06_cache_partition_sindex.

(* __getitem__ propagation keeps the cache coherent: a column list keeps the rows; every
   other frame-valued key (row filtering) inherits nothing *)
Theorem C06_cache_getitem : forall c f f' k,
  cache_coherent c f -> (k = KList -> forall n, f' n = f n) ->
  cache_coherent (getitem_frame_cache c k) f'.
Proof. exact getitem_frame_cache_coherent. Qed.
Print Assumptions C06_cache_getitem.

(* ---- non-vacuity: the model on a concrete frame.  Three partitions: an
   all-missing one, one inside the box, one outside; keys in index order.  Row 1
   has a bounds row inside the box but does not intersect it (its answer is false):
   it is dropped although its partition is covered. ---- *)
Local Notation zb a b c d := ((Some a%Z, Some b%Z, Some c%Z, Some d%Z) : bbox).

Example ex_parts : list (list hrow) :=
  [ [(0, nanbox, [false])];
    [(1, zb 2 2 3 3, [false]); (2, zb 3 3 4 4, [true])];
    [(3, zb 8 8 9 9, [false])] ].
Example ex_cx :
  c06_case (ex_parts, [0; 1; 2], [(Some 1%Z, Some 5%Z, Some 1%Z, Some 5%Z)]) =
  ([nanbox; zb 2 2 4 4; zb 8 8 9 9], zb 2 2 9 9,
   [Some 2%Z; Some 2%Z; Some 9%Z; Some 9%Z],
   [([[1; 2]], [[2]], [2])]).
Proof. vm_compute. reflexivity. Qed.

(* omitted ends on a frame without coordinates: nothing is selected *)
Example ex_cx_all_missing :
  c06_case ([[(0, nanbox, [false])]; []], [0; 1], [(None, None, None, None)]) =
  ([nanbox; nanbox], nanbox, [None; None; None; None], [([[]], [[]], [])]).
Proof. vm_compute. reflexivity. Qed.

(* sjoin, how = left: the partition without candidates is kept *)
Example ex_sjoin_left :
  c06_sjoin_case (true, [[(0, zb 1 1 1 1)]; [(1, zb 7 7 7 7)]],
                  [(0, zb 0 0 2 2, false)], [(0, 0)]) =
  ([[1]; [64]], [1; 64]).
Proof. vm_compute. reflexivity. Qed.
Example ex_sjoin_inner :
  c06_sjoin_case (false, [[(0, zb 1 1 1 1)]; [(1, zb 7 7 7 7)]],
                  [(0, zb 0 0 2 2, false)], [(0, 0)]) =
  ([[1]], [1]).
Proof. vm_compute. reflexivity. Qed.

(* ---- histories: several collections alive in one process (Model/DaskRegistry.v) ---- *)
From SP Require Import Model.DaskRegistry Proofs.DaskRegistryProofs.

(* dask-expr returns the expression alive under the NAME of a frame's token.  For every
   history of from_pandas calls and garbage collections, every returned collection holds
   the frame it was made from, provided the token separates the frames passed in (which
   the run checks on the real tokeniser with families of frames that differ only in the
   slice offset of a shared geometry buffer, in one coordinate, in which row is missing,
   in the active geometry) *)
Theorem C06_registry_sound : forall (F T : Type) (tok : F -> T)
    (T_eq_dec : forall a b : T, {a = b} + {a <> b}) (h : list (op F T)),
  (forall a b, In (FromPandas a) h -> In (FromPandas b) h -> tok a = tok b -> a = b) ->
  Forall (fun p => snd p = fst p) (run F T tok T_eq_dec [] h).
Proof. exact registry_sound. Qed.
Print Assumptions C06_registry_sound.

(* the premise cannot be dropped: with one token for two frames the second collection
   holds the rows of the first frame while that one is alive ... *)
Theorem C06_registry_collision : forall (F T : Type) (tok : F -> T)
    (T_eq_dec : forall a b : T, {a = b} + {a <> b}) (f g : F),
  tok f = tok g ->
  run F T tok T_eq_dec [] [FromPandas f; FromPandas g] = [(f, f); (g, f)].
Proof. exact registry_collision. Qed.
Print Assumptions C06_registry_collision.

(* ... and its own rows once the first one has been collected: the failure needs the
   history, which is why the run keeps every member of a family referenced *)
Theorem C06_registry_collision_after_drop : forall (F T : Type) (tok : F -> T)
    (T_eq_dec : forall a b : T, {a = b} + {a <> b}) (f g : F),
  run F T tok T_eq_dec [] [FromPandas f; Drop (tok f); FromPandas g] = [(f, f); (g, g)].
Proof. exact registry_collision_after_drop. Qed.
Print Assumptions C06_registry_collision_after_drop.

(* coordinates that are not small integers: the model's numbers are integers under ANY
   common power-of-two scale, e.g. 0.1 + 0.2 = 10808639105689192 / 2^55 next to 0.3 =
   10808639105689190 / 2^55: a partition box stored as 0.3 no longer meets the query that
   starts at the true extreme, and the row would be lost; with the true box it is found *)
Example ex_sliver :
  let lo := 3602879701896397%Z in           (* 0.1 * 2^55 *)
  let hi := 10808639105689192%Z in          (* (0.1 + 0.2) * 2^55 *)
  let one := 36028797018963968%Z in         (* 1.0 * 2^55 *)
  let q := (Some hi, Some one, Some 0%Z, Some one) in
  c06_case ([[(0, zb lo lo lo lo, [false]); (1, zb hi hi hi hi, [true])]], [0], [q]) =
  ([zb lo lo hi hi], zb lo lo hi hi, [Some lo; Some lo; Some hi; Some hi],
   [([[0; 1]], [[1]], [1])]).
Proof. vm_compute. reflexivity. Qed.

(* ------------------------------------------------------------------ *)
(* Binary64 (Model/PackFloat.v, Proofs/FloatBoundsCombine.v): total_bounds_concat for
   float64 values.  DaskGeoSeries.total_bounds (np.nanmin / np.nanmax over partition_bounds,
   each row the total bounds of one partition) against the total bounds of the concatenated
   frame: per column bitwise equal, or both zeros (+0.0 and -0.0 compare equal; which one is
   kept depends on the order in which the values are met), or both NaN.                  *)
(* ------------------------------------------------------------------ *)
From Coq Require Import PrimFloat SpecFloat FloatOps.
From SP Require Import Model.FloatData2Coord Model.PackFloat Proofs.FloatBoundsCombine.

Theorem C06_f_total_bounds_concat : forall parts : list (list frow),
  frow_eq_mod_zero (f_dask_total_bounds parts) (f_total_bounds (concat parts)).
Proof. exact f_total_bounds_partition_independent. Qed.
Print Assumptions C06_f_total_bounds_concat.

(* two Dask frames with the same rows in any order, split in any two ways *)
Theorem C06_f_total_bounds_permutation : forall parts parts' : list (list frow),
  Permutation (concat parts) (concat parts') ->
  frow_eq_mod_zero (f_dask_total_bounds parts) (f_dask_total_bounds parts').
Proof. exact f_dask_total_bounds_permutation_independent. Qed.
Print Assumptions C06_f_total_bounds_permutation.

(* non-vacuity: partitions [[a]; [b; c]] / [[b]; [a; c]] of the rows (+0.0, 1), (-0.0, 2),
   (4, 8): x0 = +0.0 / -0.0; a partition of missing rows only and an empty one *)
Example ex_f_total_bounds_zero_sign : ex_f_zero_sign_depends_on_order_stmt.
Proof. exact ex_f_zero_sign_depends_on_order_holds. Qed.
Example ex_f_total_bounds_all_nan_partition : ex_f_all_nan_partition_stmt.
Proof. exact ex_f_all_nan_partition_holds. Qed.
