(* C04: .cx[x0:x1, y0:y1] selects exactly the intersecting rows, with or without
   a spatial index.

   "Intersects" is the C01 notion (entry i of the array's own intersects_bounds,
   Model/Intersect.v); the index side is C03 (Proofs/RtreeProofs.v); [g_modelled]
   (Spec/CxSpec.v) is the domain: well-formed buffers, finite coordinates, parts
   on (x, y) pair boundaries -- asserted by the harness on every exported array. *)
From Coq Require Import ZArith List Bool Arith Lia Permutation.
From SP Require Import Model.Num Model.Arrow Model.Bounds Model.PointKernels Model.Intersect
     Model.Rtree Model.Cx Spec.Boxes Spec.IntersectSpec Spec.CxSpec
     Spec.BoundsSpec
     Proofs.CxLists Proofs.CxProofs Proofs.CxKinds Proofs.CxBounds Proofs.CxExtent
     Proofs.CxRtreeBridge.
Import ListNotations.
Local Open Scope nat_scope.

(* ---- per class, read off the code path of intersects_bounds ---- *)

(* a row whose finite bounding box lies inside a box of positive width and
   height is reported as intersecting (so the index may return it unexamined) *)
Theorem covered_implies_intersects : forall g x0 y0 x1 y1 (i : nat),
  g_modelled g -> (x0 < x1)%Z -> (y0 < y1)%Z -> i < g_len g ->
  coveredb 2 (row_of_bbox (bb g i)) [x0; y0; x1; y1] = true ->
  row_hits g (x0, y0, x1, y1) i = true.
Proof. exact CxKinds.covered_implies_intersects. Qed.
Print Assumptions covered_implies_intersects.

(* bbox reject: a row reported as intersecting has a bounding box overlapping the
   box (so the index loses nothing by dropping the other rows) *)
Theorem intersects_implies_bbox_overlaps : forall g x0 y0 x1 y1 (i : nat),
  g_modelled g -> (x0 <= x1)%Z -> (y0 <= y1)%Z -> i < g_len g ->
  row_hits g (x0, y0, x1, y1) i = true ->
  overlapsb 2 (row_of_bbox (bb g i)) [x0; y0; x1; y1] = true.
Proof. exact CxKinds.intersects_implies_bbox_overlaps. Qed.
Print Assumptions intersects_implies_bbox_overlaps.

(* finite coordinates are needed: [(1, NaN), (NaN, 2)] has a finite bounding box
   and no finite point (outside C04's scope; see C13) *)
Theorem covered_nonfinite_refuted :
  exists vs : list num,
    total_bounds_interleaved vs = (Some 1, Some 2, Some 1, Some 2)%Z /\
    forall p, In p (pairs vs) -> ~ (exists x y, p = (Some x, Some y)).
Proof. exact CxKinds.covered_nonfinite_refuted. Qed.
Print Assumptions covered_nonfinite_refuted.

Theorem C04_kinds_ok : forall g, g_modelled g -> kind_ok g.
Proof. exact kinds_ok. Qed.
Print Assumptions C04_kinds_ok.

(* ---- the box a key denotes ---- *)

(* an omitted end is the data extent on that side (the index's root box when an
   index exists, else total_bounds: [extent_of]); reversed ends are swapped; a
   scalar is a degenerate interval *)
Theorem C04_open_ends : forall o xs ys ex0 ey0 ex1 ey1,
  key_has_step xs = false -> key_has_step ys = false ->
  extent_of o = (Some ex0, Some ey0, Some ex1, Some ey1) ->
  get_bounds o xs ys =
  let '(x0, y0, x1, y1) := spec_box xs ys (ex0, ey0, ex1, ey1) in
  Some (Some x0, Some x1, Some y0, Some y1).
Proof. exact get_bounds_spec. Qed.
Print Assumptions C04_open_ends.

Theorem C04_explicit_ends : forall o xs ys a b c d,
  key_has_step xs = false -> key_has_step ys = false ->
  key_ends xs = (Some a, Some c) -> key_ends ys = (Some b, Some d) ->
  get_bounds o xs ys =
  Some (Some (Z.min a c), Some (Z.max a c), Some (Z.min b d), Some (Z.max b d)).
Proof. exact get_bounds_explicit. Qed.
Print Assumptions C04_explicit_ends.

Theorem C04_reversed : forall o xs ys,
  get_bounds o (reverse_key xs) ys = get_bounds o xs ys /\
  get_bounds o xs (reverse_key ys) = get_bounds o xs ys.
Proof. exact get_bounds_reversed. Qed.
Print Assumptions C04_reversed.

Theorem C04_step_rejected : forall o xs ys,
  get_bounds o xs ys = None <-> key_has_step xs || key_has_step ys = true.
Proof. exact get_bounds_step. Qed.
Print Assumptions C04_step_rejected.

(* ---- the selection ---- *)

(* without an index: exactly the rows i, increasing, with intersects_bounds = True *)
Theorem C04_selects_exact : forall g xs ys ex0 ey0 ex1 ey1,
  g_modelled g ->
  key_has_step xs = false -> key_has_step ys = false ->
  g_total_bounds g = (Some ex0, Some ey0, Some ex1, Some ey1) ->
  cx_positions (new_obj g) xs ys = inr (cx_spec g (spec_box xs ys (ex0, ey0, ex1, ey1))).
Proof. exact selects_exact_noindex_key. Qed.
Print Assumptions C04_selects_exact.

(* with an index built with any page size and any Hilbert order (any permutation
   [keys]), box of positive width and height: the same *)
Theorem C04_selects_exact_index : forall g keys ps xs ys ex0 ey0 ex1 ey1,
  g_modelled g ->
  Permutation keys (seq 0 (g_len g)) ->
  key_has_step xs = false -> key_has_step ys = false ->
  extent_of (build_sindex (new_obj g) keys ps) = (Some ex0, Some ey0, Some ex1, Some ey1) ->
  positive_box (spec_box xs ys (ex0, ey0, ex1, ey1)) ->
  cx_positions (build_sindex (new_obj g) keys ps) xs ys
  = inr (cx_spec g (spec_box xs ys (ex0, ey0, ex1, ey1))).
Proof. exact selects_exact_index_key. Qed.
Print Assumptions C04_selects_exact_index.

(* the same statements on the box _get_bounds returned *)
Theorem C04_selects_exact_box : forall g xs ys x0 x1 y0 y1,
  kind_ok g ->
  get_bounds (new_obj g) xs ys = Some (Some x0, Some x1, Some y0, Some y1) ->
  cx_positions (new_obj g) xs ys = inr (cx_spec g (x0, y0, x1, y1)).
Proof. exact selects_exact_noindex. Qed.
Print Assumptions C04_selects_exact_box.

Theorem C04_selects_exact_index_box : forall g keys ps xs ys x0 x1 y0 y1,
  kind_ok g ->
  Permutation keys (seq 0 (g_len g)) ->
  get_bounds (build_sindex (new_obj g) keys ps) xs ys
    = Some (Some x0, Some x1, Some y0, Some y1) ->
  (x0 < x1)%Z -> (y0 < y1)%Z ->
  cx_positions (build_sindex (new_obj g) keys ps) xs ys = inr (cx_spec g (x0, y0, x1, y1)).
Proof. exact selects_exact_index. Qed.
Print Assumptions C04_selects_exact_index_box.

(* ---- with index = without index, for every (keys, page_size) ---- *)

(* all four ends given (in any order) *)
Theorem C04_index_irrelevant : forall g keys ps xs ys a b c d,
  g_modelled g ->
  Permutation keys (seq 0 (g_len g)) ->
  key_has_step xs = false -> key_has_step ys = false ->
  key_ends xs = (Some a, Some c) -> key_ends ys = (Some b, Some d) ->
  a <> c -> b <> d ->
  cx_positions (build_sindex (new_obj g) keys ps) xs ys = cx_positions (new_obj g) xs ys.
Proof. exact index_irrelevant_explicit. Qed.
Print Assumptions C04_index_irrelevant.

(* for EVERY key (boxes of zero extent and NaN ends included) the answer does not
   depend on the index configuration: the correspondence check may therefore run the
   model with the identity permutation instead of the index's private key array *)
Theorem C04_index_config_irrelevant : forall g keys ps keys' ps' xs ys,
  kind_ok g ->
  Permutation keys (seq 0 (g_len g)) -> Permutation keys' (seq 0 (g_len g)) ->
  cx_positions (build_sindex (new_obj g) keys ps) xs ys
  = cx_positions (build_sindex (new_obj g) keys' ps') xs ys.
Proof. exact index_config_irrelevant. Qed.
Print Assumptions C04_index_config_irrelevant.

(* the root box of the index is total_bounds (finite coordinates: every bounds
   row is all-finite or all-NaN; [g_even_outer]: elements span whole (x, y) pairs) *)
Theorem C04_root_is_extent : forall g keys ps,
  g_modelled g -> g_even_outer g ->
  Permutation keys (seq 0 (g_len g)) ->
  extent_of (build_sindex (new_obj g) keys ps) = g_total_bounds g.
Proof. exact root_is_extent. Qed.
Print Assumptions C04_root_is_extent.

(* hence, omitted ends included *)
Theorem C04_index_irrelevant_open_ends : forall g keys ps xs ys ex0 ey0 ex1 ey1,
  g_modelled g -> g_even_outer g ->
  Permutation keys (seq 0 (g_len g)) ->
  key_has_step xs = false -> key_has_step ys = false ->
  g_total_bounds g = (Some ex0, Some ey0, Some ex1, Some ey1) ->
  positive_box (spec_box xs ys (ex0, ey0, ex1, ey1)) ->
  cx_positions (build_sindex (new_obj g) keys ps) xs ys = cx_positions (new_obj g) xs ys.
Proof. exact index_irrelevant_open_ends. Qed.
Print Assumptions C04_index_irrelevant_open_ends.

(* a NaN root box (zero rows, or no row with a box): nothing is covered, nothing
   overlaps, whatever the query *)
Theorem C04_nan_root_answers_nothing : forall T q,
  isnan (col 0 (total_bounds T)) = true -> t_tree T <> [] -> covers_overlaps T q = ([], []).
Proof. exact covers_overlaps_nan_root. Qed.
Print Assumptions C04_nan_root_answers_nothing.

(* data without an extent (every bounds row NaN) intersects no box: the model's
   answer "nothing" for an omitted end without index is the specified one *)
Theorem C04_no_extent_selects_nothing : forall g x0 y0 x1 y1,
  kind_ok g -> forallb bbox_isnan (g_bounds g) = true ->
  (x0 <= x1)%Z -> (y0 <= y1)%Z ->
  cx_spec g (x0, y0, x1, y1) = [].
Proof. exact no_extent_selects_nothing. Qed.
Print Assumptions C04_no_extent_selects_nothing.

(* ---- containers and index state ---- *)

(* labels / payload / order: under the pandas oracle contract the rows handed
   back are the intersecting rows of the container in their original order *)
Theorem C04_rows_travel : forall A g (o : gobj) (rows : list A) xs ys b,
  length rows = g_len g ->
  cx_positions o xs ys = inr (cx_spec g b) ->
  cx_rows o rows xs ys = Some (rows_spec g b rows).
Proof. exact rows_travel. Qed.
Print Assumptions C04_rows_travel.

Theorem C04_mask_rows_travel : forall A g (rows : list A) b r,
  length rows = g_len g ->
  g_intersects_bounds g b None = Some r -> length r = g_len g ->
  mask_rows rows r = rows_spec g b rows.
Proof. exact mask_rows_travel. Qed.
Print Assumptions C04_mask_rows_travel.

(* the statement of C04 in one piece *)
Theorem C04_cx : forall A g (rows : list A) keys ps xs ys ex0 ey0 ex1 ey1,
  g_modelled g -> g_even_outer g ->
  length rows = g_len g ->
  Permutation keys (seq 0 (g_len g)) ->
  key_has_step xs = false -> key_has_step ys = false ->
  g_total_bounds g = (Some ex0, Some ey0, Some ex1, Some ey1) ->
  positive_box (spec_box xs ys (ex0, ey0, ex1, ey1)) ->
  cx_rows (new_obj g) rows xs ys = Some (rows_spec g (spec_box xs ys (ex0, ey0, ex1, ey1)) rows) /\
  cx_rows (build_sindex (new_obj g) keys ps) rows xs ys
  = Some (rows_spec g (spec_box xs ys (ex0, ey0, ex1, ey1)) rows).
Proof. exact cx_headline. Qed.
Print Assumptions C04_cx.

(* ---- closed through the R-tree model, data without an extent included ---- *)

(* [build_sindex (new_obj g) keys ps] holds the tree of Model/Rtree.v built over the
   array's own bounds rows (HilbertRtree(self.bounds)), for any key permutation and any page
   size.  The theorems above ask for data with an extent; the ones below do not. *)

(* a modelled array has a finite extent, or none: then every bounds row is NaN
   (total_bounds is the NaN-ignoring union of the rows, via C03_total_bounds_box) *)
Theorem C04_extent_cases : forall g, g_modelled g -> g_even_outer g ->
  (exists ex0 ey0 ex1 ey1 : Z, g_total_bounds g = (Some ex0, Some ey0, Some ex1, Some ey1)) \/
  (g_total_bounds g = nanbox /\ forallb bbox_isnan (g_bounds g) = true).
Proof. exact extent_cases. Qed.
Print Assumptions C04_extent_cases.

(* for EVERY key, the box _get_bounds fills from the tree's root box is the box it fills
   from total_bounds (extent or not) *)
Theorem C04_box_from_root : forall g keys ps xs ys,
  g_modelled g -> g_even_outer g -> Permutation keys (seq 0 (g_len g)) ->
  get_bounds (build_sindex (new_obj g) keys ps) xs ys = get_bounds (new_obj g) xs ys.
Proof. exact get_bounds_same. Qed.
Print Assumptions C04_box_from_root.

(* data without extent, a key with an omitted end: nothing is selected on both paths *)
Theorem C04_no_extent_open_end : forall g keys ps xs ys,
  g_modelled g -> g_even_outer g -> Permutation keys (seq 0 (g_len g)) ->
  key_has_step xs = false -> key_has_step ys = false ->
  g_total_bounds g = nanbox -> open_end xs ys = true ->
  cx_positions (build_sindex (new_obj g) keys ps) xs ys = inr [] /\
  cx_positions (new_obj g) xs ys = inr [].
Proof. exact cx_noextent_open. Qed.
Print Assumptions C04_no_extent_open_end.

(* ... and nothing is the specified answer: such data intersects no box, and the tree built
   over it answers nothing to every finite query, whatever keys and page size *)
Theorem C04_no_extent_nothing : forall g,
  g_modelled g -> g_even_outer g -> g_total_bounds g = nanbox ->
  (forall x0 y0 x1 y1, (x0 <= x1)%Z -> (y0 <= y1)%Z -> cx_spec g (x0, y0, x1, y1) = []) /\
  (forall keys ps q, Permutation keys (seq 0 (g_len g)) -> length q = 4 ->
     covers_overlaps (sindex_build g keys ps) q = ([], []) /\
     intersects (sindex_build g keys ps) q = []).
Proof. exact no_extent_nothing. Qed.
Print Assumptions C04_no_extent_nothing.

(* C04 in one piece, without "the data has an extent": [cx_box g xs ys] is the box the key
   denotes (omitted ends = the data extent; on data without extent only four explicit ends
   denote a box), [cx_answer] the increasing positions of the rows intersecting it (none
   when there is no box).  For every modelled array, every key permutation, every page size,
   every step-free key whose box -- if any -- has positive width and height: the box taken
   from the tree's root is the box taken from total_bounds, and .cx through the R-tree =
   .cx without index = the specified rows. *)
Theorem C04_cx_rtree_closed : forall g keys ps xs ys,
  g_modelled g -> g_even_outer g ->
  Permutation keys (seq 0 (g_len g)) ->
  key_has_step xs = false -> key_has_step ys = false ->
  (forall b, cx_box g xs ys = Some b -> positive_box b) ->
  get_bounds (build_sindex (new_obj g) keys ps) xs ys = get_bounds (new_obj g) xs ys /\
  cx_positions (build_sindex (new_obj g) keys ps) xs ys = inr (cx_answer g xs ys) /\
  cx_positions (new_obj g) xs ys = inr (cx_answer g xs ys).
Proof. exact cx_rtree_closed. Qed.
Print Assumptions C04_cx_rtree_closed.

(* the same for the rows of a container aligned with the array (pandas oracle contract) *)
Theorem C04_cx_rows_rtree_closed : forall A g (rows : list A) keys ps xs ys,
  g_modelled g -> g_even_outer g ->
  length rows = g_len g ->
  Permutation keys (seq 0 (g_len g)) ->
  key_has_step xs = false -> key_has_step ys = false ->
  (forall b, cx_box g xs ys = Some b -> positive_box b) ->
  cx_rows (build_sindex (new_obj g) keys ps) rows xs ys = Some (rows_answer g xs ys rows) /\
  cx_rows (new_obj g) rows xs ys = Some (rows_answer g xs ys rows).
Proof. exact cx_rows_rtree_closed. Qed.
Print Assumptions C04_cx_rows_rtree_closed.

(* the index state: a second build_sindex keeps the first index; slicing /
   taking / copying yields an object without index *)
Theorem C04_second_build_keeps_first : forall o keys ps keys' ps',
  build_sindex (build_sindex o keys ps) keys' ps' = build_sindex o keys ps.
Proof. exact second_build_keeps_first. Qed.
Print Assumptions C04_second_build_keeps_first.

Theorem C04_derived_has_no_index : forall o g', go_sindex (derived_obj o g') = None.
Proof. exact derived_has_no_index. Qed.
Print Assumptions C04_derived_has_no_index.

(* ---- non-vacuity: three lines (one missing), the index built with page size 1 ---- *)
Definition ex_lines : garr :=
  GLine (Build_listarr 0 4 (Some [true; true; false; true]) [[0; 4; 8; 8; 12]]
                       [Some 0; Some 0; Some 2; Some 2; Some 6; Some 6; Some 8; Some 8;
                        Some 0; Some 8; Some 8; Some 0]%Z).

Example ex_cx_noindex :
  cx_case (ex_lines, None,
           [(KSlice (Some 0) (Some 3) None, KSlice (Some 0) (Some 3) None);
            (KSlice None None None, KSlice None None None);
            (KSlice (Some 5) None None, KSlice None (Some 4) None);
            (KSlice (Some 9) (Some 5) None, KSlice (Some 5) (Some 9) None);
            (KSlice (Some 0) (Some 3) (Some 1), KSlice None None None);
            (KScalar 1, KScalar 1)]%Z)
  = [inr [0]; inr [0; 1; 3]; inr [3]; inr [1]; inl 0; inr []].
Proof. vm_compute. reflexivity. Qed.

Example ex_cx_index :
  cx_case (ex_lines, Some ([3; 0; 2; 1], 1),
           [(KSlice (Some 0) (Some 3) None, KSlice (Some 0) (Some 3) None);
            (KSlice None None None, KSlice None None None);
            (KSlice (Some 5) None None, KSlice None (Some 4) None);
            (KSlice (Some 9) (Some 5) None, KSlice (Some 5) (Some 9) None);
            (KSlice (Some 0) (Some 3) (Some 1), KSlice None None None);
            (KScalar 1, KScalar 1)]%Z)
  = [inr [0]; inr [0; 1; 3]; inr [3]; inr [1]; inl 0; inr []].
Proof. vm_compute. reflexivity. Qed.

(* outside the statement (a box of zero extent): LineArray([[0,0,1,0]]).cx[:, :]
   selects nothing without an index (zero-extent early return of
   lines_intersect_bounds) and the row with one (covered rows skip the exact test) *)
Example C04_zero_extent_index_relevant :
  let g := GLine (Build_listarr 0 1 None [[0; 4]] [Some 0; Some 0; Some 2; Some 0]%Z) in
  let k := (KSlice None None None, KSlice None None None) in
  cx_case (g, None, [k]) = [inr []] /\ cx_case (g, Some ([0], 512), [k]) = [inr [0]].
Proof. vm_compute. split; reflexivity. Qed.

(* the hypotheses of the theorems are satisfiable: the example above and a
   two-polygon multipolygon (with a hole) are inside the modelled domain *)
Example ex_lines_modelled : g_modelled ex_lines /\ g_even_outer ex_lines /\
  g_total_bounds ex_lines = (Some 0, Some 0, Some 8, Some 8)%Z.
Proof.
  split; [|split; reflexivity]. split; [reflexivity|]. eexists. reflexivity.
Qed.

Definition ex_mpoly : garr :=
  GMultiPolygon (Build_listarr 0 2 None [[0; 2; 2]; [0; 2; 3]; [0; 10; 20; 28]]
    [Some 0; Some 0; Some 8; Some 0; Some 8; Some 8; Some 0; Some 8; Some 0; Some 0;
     Some 2; Some 2; Some 2; Some 6; Some 6; Some 6; Some 6; Some 2; Some 2; Some 2;
     Some 10; Some 10; Some 12; Some 10; Some 12; Some 12; Some 10; Some 10]%Z).

Example ex_mpoly_modelled : g_modelled ex_mpoly /\ g_even_outer ex_mpoly.
Proof.
  split; [|reflexivity]. split; [split; [reflexivity | eexists; reflexivity]|].
  do 3 eexists. split; reflexivity.
Qed.

(* box inside the hole (nothing), box inside the material, everything, box around the
   second polygon only; with and without index *)
Example ex_mpoly_cx :
  let ks := [(KSlice (Some 3) (Some 5) None, KSlice (Some 3) (Some 5) None);
             (KSlice (Some 0) (Some 1) None, KSlice (Some 0) (Some 1) None);
             (KSlice None None None, KSlice None None None);
             (KSlice (Some 9) None None, KSlice (Some 9) None None)]%Z in
  cx_case (ex_mpoly, None, ks) = [inr []; inr [0]; inr [0]; inr [0]] /\
  cx_case (ex_mpoly, Some ([0; 1], 1), ks) = [inr []; inr [0]; inr [0]; inr [0]].
Proof. vm_compute. split; reflexivity. Qed.

(* ---- non-vacuity of the closed statement ---- *)

(* data with an extent: the hypotheses of C04_cx_rtree_closed hold for ex_lines with the
   index of ex_cx_index (keys [3;0;2;1], page size 1) and a key with two omitted ends;
   the answer is computed through the tree *)
Example ex_closed_extent :
  let xs := KSlice (Some 5%Z) None None in let ys := KSlice None (Some 4%Z) None in
  cx_box ex_lines xs ys = Some (5, 0, 8, 4)%Z /\
  positive_box (5, 0, 8, 4)%Z /\
  Permutation [3; 0; 2; 1] (seq 0 (g_len ex_lines)) /\
  cx_answer ex_lines xs ys = [3] /\
  cx_positions (build_sindex (new_obj ex_lines) [3; 0; 2; 1] 1) xs ys = inr [3].
Proof.
  cbv zeta. split; [vm_compute; reflexivity|]. split; [cbn; lia|]. split; [|split; vm_compute; reflexivity].
  cbn. apply perm_trans with (3 :: [0; 1; 2]).
  - apply perm_skip, perm_skip. apply perm_swap.
  - change (Permutation ([3] ++ [0; 1; 2]) ([0; 1; 2] ++ [3])). apply Permutation_app_comm.
Qed.

(* data without extent: three lines, one missing and two empty; tree with page size 2 *)
Definition ex_noextent : garr :=
  GLine (Build_listarr 0 3 (Some [true; false; true]) [[0; 0; 0; 0]] []).

Example ex_noextent_modelled :
  g_modelled ex_noextent /\ g_even_outer ex_noextent /\ g_total_bounds ex_noextent = nanbox /\
  g_bounds ex_noextent = [nanbox; nanbox; nanbox] /\
  t_tree (sindex_build ex_noextent [2; 0; 1] 2) = repeat [None; None; None; None] 3.
Proof.
  split; [|repeat split; reflexivity]. split; [reflexivity|]. eexists. reflexivity.
Qed.

Example ex_noextent_cx :
  let ks := [(KSlice None None None, KSlice None None None);
             (KSlice (Some 0) None None, KSlice (Some 0) (Some 3) None);
             (KSlice (Some 0) (Some 3) None, KSlice (Some 0) (Some 3) None)]%Z in
  map (fun k => cx_box ex_noextent (fst k) (snd k)) ks = [None; None; Some (0, 0, 3, 3)%Z] /\
  cx_case (ex_noextent, None, ks) = [inr []; inr []; inr []] /\
  cx_case (ex_noextent, Some ([2; 0; 1], 2), ks) = [inr []; inr []; inr []].
Proof. vm_compute. repeat split; reflexivity. Qed.
