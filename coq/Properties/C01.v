(* C01: the box-intersection test (intersects_bounds) is geometrically exact. *)
From Coq Require Import ZArith List Bool Arith Lia Reals.
From SP Require Import Model.Num Model.Arrow Model.Bounds Model.PointKernels Model.Intersect
                       Spec.BoundsSpec Spec.IntersectSpec Spec.Plane
                       Proofs.IntersectBase Proofs.IntersectPoints Proofs.IntersectSeg
                       Proofs.IntersectPlane Proofs.IntersectLine Proofs.IntersectWinding
                       Proofs.IntersectPolygon Proofs.IntersectPolygonC Proofs.IntersectWnConst
                       Proofs.IntersectPolyArrays Proofs.IntersectScalars.
Import ListNotations.
Local Open Scope Z_scope.

(* ---- (a) points and multipoints: exact for every box, degenerate ones and
        either corner order included; missing -> false ---- *)

Theorem C01_point_test : forall b p,
  point_test b p = true <-> exists q, p = Some q /\ zbox_has b q.
Proof. exact point_test_spec. Qed.
Print Assumptions C01_point_test.

Theorem C01_point : forall a b r,
  point_array a b None = Some r ->
  length r = fa_len a /\
  forall i, (i < fa_len a)%nat ->
    (nth i r false = true <->
     exists x y, point_slot a i = Some (Some (x, y)) /\ zbox_has b (x, y)).
Proof. exact point_array_correct. Qed.
Print Assumptions C01_point.

Theorem C01_point_missing : forall a b r i,
  point_array a b None = Some r -> (i < fa_len a)%nat ->
  isna_at (fa_valid a) (fa_off a) i = true -> nth i r false = false.
Proof. exact point_array_missing. Qed.
Print Assumptions C01_point_missing.

(* the slot the model reads is the element Model/Arrow.v decodes *)
Theorem C01_point_slot_decode : forall a i, wf_fixarr a = true -> (i < fa_len a)%nat ->
  forall x y, point_slot a i = Some (Some (x, y)) <->
              nth i (fa_decode a) None = Some (Some x, Some y).
Proof. exact point_slot_decode. Qed.
Print Assumptions C01_point_slot_decode.

Theorem C01_multipoint : forall a b r,
  multipoint_array a b None = Some r ->
  exists vals, finite_vals (buffer_values a) = Some vals /\
  length r = la_len a /\
  forall i, (i < la_len a)%nat ->
    (nth i r false = true <->
     exists p, In p (zpairs (elem_coords a vals i)) /\ zbox_has b p).
Proof. exact multipoint_array_correct. Qed.
Print Assumptions C01_multipoint.

Theorem C01_multipoint_empty : forall a b r vals i,
  multipoint_array a b None = Some r ->
  finite_vals (buffer_values a) = Some vals -> (i < la_len a)%nat ->
  elem_coords a vals i = [] -> nth i r false = false.
Proof. exact multipoint_array_empty. Qed.
Print Assumptions C01_multipoint_empty.

Theorem C01_multipoint_missing : forall a b r i,
  multipoint_array a b None = Some r -> nulls_empty a = true -> (i < la_len a)%nat ->
  isna_at (la_valid a) (la_off a) i = true -> nth i r false = false.
Proof. exact multipoint_array_missing. Qed.
Print Assumptions C01_multipoint_missing.

(* ---- (b) the calling forms agree; the corner order is irrelevant ---- *)

Theorem C01_forms_agree :
  forms_agree point_array /\ forms_agree multipoint_array /\ forms_agree line_array /\
  forms_agree multiline_array /\ forms_agree polygon_array /\ forms_agree multipolygon_array.
Proof. exact forms_agree_all. Qed.
Print Assumptions C01_forms_agree.

Theorem C01_corner_order :
  corner_order_irrelevant point_array /\ corner_order_irrelevant multipoint_array /\
  corner_order_irrelevant line_array /\ corner_order_irrelevant multiline_array /\
  corner_order_irrelevant polygon_array /\ corner_order_irrelevant multipolygon_array.
Proof. exact corner_order_all. Qed.
Print Assumptions C01_corner_order.

(* ---- (c) segments_intersect decides "the two closed segments share a point" ---- *)

Theorem segments_intersect_correct : forall a0 a1 b0 b1 : pt, a0 <> a1 -> b0 <> b1 ->
  (segments_intersect (fst a0) (snd a0) (fst a1) (snd a1)
                      (fst b0) (snd b0) (fst b1) (snd b1) = true
   <-> segs_meet (zp a0) (zp a1) (zp b0) (zp b1)).
Proof. exact IntersectSeg.segments_intersect_correct. Qed.
Print Assumptions segments_intersect_correct.

(* a zero-length argument is reported only when it equals an endpoint of the
   other (non-degenerate) segment -- not when it lies in its interior -- and two
   zero-length arguments never: this is why the line test checks vertices first *)
Theorem segments_intersect_zero : forall a b0 b1 : pt,
  (b0 <> b1 ->
   (segments_intersect (fst a) (snd a) (fst a) (snd a) (fst b0) (snd b0) (fst b1) (snd b1) = true
    <-> (a = b0 \/ a = b1)) /\
   (segments_intersect (fst b0) (snd b0) (fst b1) (snd b1) (fst a) (snd a) (fst a) (snd a) = true
    <-> (a = b0 \/ a = b1))) /\
  segments_intersect (fst a) (snd a) (fst a) (snd a) (fst b0) (snd b0) (fst b0) (snd b0) = false.
Proof. exact IntersectSeg.segments_intersect_zero. Qed.
Print Assumptions segments_intersect_zero.

Example ex_segments :
  (* crossing, touching at an endpoint, collinear overlapping, collinear disjoint,
     zero-length in the interior of the other *)
  segments_intersect 0 0 4 4 0 4 4 0 = true /\
  segments_intersect 0 0 4 4 4 4 6 0 = true /\
  segments_intersect 0 0 4 4 2 2 6 6 = true /\
  segments_intersect 0 0 2 2 3 3 6 6 = false /\
  segments_intersect 2 2 2 2 0 0 4 4 = false.
Proof. vm_compute. repeat split. Qed.

(* ---- (d) lines, rings, multilines: exact for boxes of positive width and height ---- *)

(* a segment from outside a positive box to a point inside meets one of the four
   closed edges *)
Theorem C01_box_boundary_crossing : forall x0 y0 x1 y1 A P, (x0 < x1)%R -> (y0 < y1)%R ->
  ~ in_box x0 y0 x1 y1 A -> in_box x0 y0 x1 y1 P ->
  exists Q, on_seg A P Q /\ on_box_edges x0 y0 x1 y1 Q.
Proof. exact box_boundary_crossing. Qed.
Print Assumptions C01_box_boundary_crossing.

(* soundness of the projection shortcut *)
Theorem C01_polyline_straddle : forall vs x0 y0 x1 y1, y0 <= y1 ->
  (forall v, In v vs -> x0 <= fst v <= x1) ->
  (exists v, In v vs /\ snd v <= y1) -> (exists v, In v vs /\ y0 <= snd v) ->
  exists P, in_zbox x0 y0 x1 y1 P /\ line_set vs P.
Proof. exact polyline_straddle_x. Qed.
Print Assumptions C01_polyline_straddle.

(* the kernel, on any slice of any values buffer *)
Theorem C01_line_kernel : forall x0 y0 x1 y1 vals start stop, x0 < x1 -> y0 < y1 ->
  (perform_line x0 y0 x1 y1 vals start stop = true <->
   exists P, in_zbox x0 y0 x1 y1 P /\ line_set (zpairs (slice start stop vals)) P).
Proof. exact perform_line_correct. Qed.
Print Assumptions C01_line_kernel.

(* LineArray / RingArray.intersects_bounds, box corners in any order *)
Theorem C01_line : forall a bx0 by0 bx1 by1 r,
  line_array a (bx0, by0, bx1, by1) None = Some r ->
  exists vals, finite_vals (buffer_values a) = Some vals /\
  length r = la_len a /\
  (bx0 <> bx1 -> by0 <> by1 -> forall i, (i < la_len a)%nat ->
     (nth i r false = true <->
      exists P, in_zbox (Z.min bx0 bx1) (Z.min by0 by1) (Z.max bx0 bx1) (Z.max by0 by1) P /\
                line_set (zpairs (elem_coords a vals i)) P)) /\
  ((bx0 = bx1 \/ by0 = by1) -> forall i, nth i r false = false).
Proof. exact line_array_correct. Qed.
Print Assumptions C01_line.

Theorem C01_line_empty : forall a b r vals i,
  line_array a b None = Some r -> finite_vals (buffer_values a) = Some vals ->
  (i < la_len a)%nat -> zpairs (elem_coords a vals i) = [] -> nth i r false = false.
Proof. exact line_array_empty. Qed.
Print Assumptions C01_line_empty.

Theorem C01_multiline_kernel : forall x0 y0 x1 y1 vals offsets1 start0 stop0,
  x0 < x1 -> y0 < y1 ->
  (perform_multiline x0 y0 x1 y1 vals offsets1 start0 stop0 = true <->
   exists P, in_zbox x0 y0 x1 y1 P /\
             lines_set (lines_of vals (slice start0 (stop0 + 1) offsets1)) P).
Proof. exact perform_multiline_correct. Qed.
Print Assumptions C01_multiline_kernel.

Theorem C01_multiline : forall a bx0 by0 bx1 by1 r,
  multiline_array a (bx0, by0, bx1, by1) None = Some r ->
  exists vals o0 o1, finite_vals (buffer_values a) = Some vals /\
  buffer_offsets a = [o0; o1] /\ length r = la_len a /\
  (bx0 <> bx1 -> by0 <> by1 -> forall i, (i < la_len a)%nat ->
     (nth i r false = true <->
      exists P, in_zbox (Z.min bx0 bx1) (Z.min by0 by1) (Z.max bx0 bx1) (Z.max by0 by1) P /\
                lines_set (lines_of vals (slice (getn o0 i) (getn o0 (S i) + 1) o1)) P)) /\
  ((bx0 = bx1 \/ by0 = by1) -> forall i, nth i r false = false).
Proof. exact multiline_array_correct. Qed.
Print Assumptions C01_multiline.

(* a line collinear with a box edge; a line passing between two box corners;
   a line missing the box although its bounding box overlaps it; reversed corners;
   a zero-extent box *)
Definition ex_lines : listarr :=
  Build_listarr 0 4 (Some [true; true; false; true]) [[0; 4; 8; 8; 8]%nat]
                [Some 0; Some 3; Some 6; Some 3; Some 0; Some 5; Some 5; Some 0].
Example ex_lines_run :
  wf_listarr ex_lines = true /\
  line_array ex_lines (1, 1, 4, 3) None = Some [true; true; false; false] /\
  line_array ex_lines (4, 3, 1, 1) None = Some [true; true; false; false] /\
  line_array ex_lines (2, 2, 3, 3) None = Some [true; true; false; false] /\
  line_array ex_lines (0, 0, 2, 2) None = Some [false; false; false; false] /\
  line_array ex_lines (0, 3, 6, 3) None = Some [false; false; false; false].
Proof. vm_compute. repeat split. Qed.

(* ---- (e) polygons and multipolygons ---- *)

(* point_intersects_polygon at an integer point computes the declarative winding
   number (half-open crossing rule) of Spec/Plane.v *)
Theorem C01_pip_refines_wn : forall x y vals offs,
  point_intersects_polygon x y vals offs = true <->
  wn (map zpairs (rings_of vals offs)) (IZR x, IZR y) <> 0.
Proof. exact pip_refines_wn. Qed.
Print Assumptions C01_pip_refines_wn.

(* on well-formed ring offsets the vertices the kernel scans are those of the rings *)
Theorem C01_polygon_vertices : forall vals offsets1 start0 stop0,
  wf_ring_offsets vals offsets1 start0 stop0 ->
  zpairs (slice (getn offsets1 start0) (getn offsets1 stop0) vals) =
  concat (map zpairs (rings_of vals (slice start0 (stop0 + 1) offsets1))).
Proof. exact polygon_vertices_concat. Qed.
Print Assumptions C01_polygon_vertices.

(* soundness: True is reported only when the closed box and the closed region
   (all ring boundaries + the points of non-zero winding number) share a point *)
Theorem C01_polygon_sound : forall x0 y0 x1 y1 vals offsets1 start0 stop0,
  x0 < x1 -> y0 < y1 -> wf_ring_offsets vals offsets1 start0 stop0 ->
  holes_in_shell_bbox (rings_at vals offsets1 start0 stop0) ->
  perform_polygon x0 y0 x1 y1 vals offsets1 start0 stop0 = true ->
  exists P, in_zbox x0 y0 x1 y1 P /\ poly_region (rings_at vals offsets1 start0 stop0) P.
Proof. exact perform_polygon_sound_wf. Qed.
Print Assumptions C01_polygon_sound.

Theorem C01_multipolygon_sound : forall x0 y0 x1 y1 vals offsets1 offsets2 start0 stop0,
  x0 < x1 -> y0 < y1 ->
  (forall s e, In (s, e) (opairs (slice start0 (stop0 + 1) offsets1)) ->
     wf_ring_offsets vals offsets2 s e /\ holes_in_shell_bbox (rings_at vals offsets2 s e)) ->
  perform_multipolygon x0 y0 x1 y1 vals offsets1 offsets2 start0 stop0 = true ->
  exists P, in_zbox x0 y0 x1 y1 P /\
            multipoly_region (parts_at vals offsets1 offsets2 start0 stop0) P.
Proof. exact perform_multipolygon_sound. Qed.
Print Assumptions C01_multipolygon_sound.

(* the hypothesis holes_in_shell_bbox cannot be dropped: for a "hole" outside its
   shell the projection shortcut answers True with no common point *)
Theorem C01_shortcut_needs_bbox_refuted :
  exists vals offsets1 start0 stop0 x0 y0 x1 y1,
    x0 < x1 /\ y0 < y1 /\ wf_ring_offsets vals offsets1 start0 stop0 /\
    perform_polygon x0 y0 x1 y1 vals offsets1 start0 stop0 = true /\
    ~ exists P, in_zbox x0 y0 x1 y1 P /\
                poly_region (map zpairs (rings_of vals (slice start0 (stop0 + 1) offsets1))) P.
Proof. exact shortcut_needs_bbox_refuted. Qed.
Print Assumptions C01_shortcut_needs_bbox_refuted.

(* outside the bounding box of closed rings the winding number is 0 *)
Theorem C01_wn_outside_bbox : forall rings P a b c d,
  (forall r, In r rings -> ring_closed r) ->
  (forall q, In q (concat rings) -> (a <= fst q <= c /\ b <= snd q <= d)) ->
  (fst P < IZR a \/ IZR c < fst P \/ snd P < IZR b \/ IZR d < snd P)%R ->
  wn rings P = 0.
Proof. exact wn_outside_bbox. Qed.
Print Assumptions C01_wn_outside_bbox.

(* the winding number is the same at all points of a box that no ring boundary
   enters (closed rings; no simplicity, orientation or nesting assumption) *)
Theorem C01_wn_const_on_boundary_free_box : forall rings X0 Y0 X1 Y1,
  (forall r, In r rings -> ring_closed r) ->
  (forall Q, in_box X0 Y0 X1 Y1 Q -> ~ boundary rings Q) ->
  forall P Q, in_box X0 Y0 X1 Y1 P -> in_box X0 Y0 X1 Y1 Q -> wn rings P = wn rings Q.
Proof. exact wn_const_on_boundary_free_box. Qed.
Print Assumptions C01_wn_const_on_boundary_free_box.

(* the polygon kernel, both directions: closed rings, every ring inside the
   shell's bounding box, a box of positive width and height *)
Theorem C01_polygon_kernel : forall x0 y0 x1 y1 vals offsets1 start0 stop0,
  x0 < x1 -> y0 < y1 -> wf_ring_offsets vals offsets1 start0 stop0 ->
  holes_in_shell_bbox (rings_at vals offsets1 start0 stop0) ->
  (forall r, In r (rings_at vals offsets1 start0 stop0) -> ring_closed r) ->
  (perform_polygon x0 y0 x1 y1 vals offsets1 start0 stop0 = true <->
   exists P, in_zbox x0 y0 x1 y1 P /\ poly_region (rings_at vals offsets1 start0 stop0) P).
Proof. exact perform_polygon_correct. Qed.
Print Assumptions C01_polygon_kernel.

Theorem C01_multipolygon_kernel : forall x0 y0 x1 y1 vals offsets1 offsets2 start0 stop0,
  x0 < x1 -> y0 < y1 ->
  (forall s e, In (s, e) (opairs (slice start0 (stop0 + 1) offsets1)) ->
     wf_ring_offsets vals offsets2 s e /\ holes_in_shell_bbox (rings_at vals offsets2 s e) /\
     forall r, In r (rings_at vals offsets2 s e) -> ring_closed r) ->
  (perform_multipolygon x0 y0 x1 y1 vals offsets1 offsets2 start0 stop0 = true <->
   exists P, in_zbox x0 y0 x1 y1 P /\
             multipoly_region (parts_at vals offsets1 offsets2 start0 stop0) P).
Proof. exact perform_multipolygon_correct. Qed.
Print Assumptions C01_multipolygon_kernel.

(* PolygonArray / MultiPolygonArray.intersects_bounds, box corners in any order *)
Theorem C01_polygon : forall a bx0 by0 bx1 by1 r,
  polygon_array a (bx0, by0, bx1, by1) None = Some r ->
  exists vals o0 o1, finite_vals (buffer_values a) = Some vals /\
  buffer_offsets a = [o0; o1] /\ length r = la_len a /\
  forall i, (i < la_len a)%nat -> bx0 <> bx1 -> by0 <> by1 ->
    let rings := rings_at vals o1 (getn o0 i) (getn o0 (S i)) in
    wf_ring_offsets vals o1 (getn o0 i) (getn o0 (S i)) ->
    holes_in_shell_bbox rings -> (forall ring, In ring rings -> ring_closed ring) ->
    (nth i r false = true <->
     exists P, in_zbox (Z.min bx0 bx1) (Z.min by0 by1) (Z.max bx0 bx1) (Z.max by0 by1) P /\
               poly_region rings P).
Proof. exact polygon_array_correct. Qed.
Print Assumptions C01_polygon.

Theorem C01_multipolygon : forall a bx0 by0 bx1 by1 r,
  multipolygon_array a (bx0, by0, bx1, by1) None = Some r ->
  exists vals o0 o1 o2, finite_vals (buffer_values a) = Some vals /\
  buffer_offsets a = [o0; o1; o2] /\ length r = la_len a /\
  forall i, (i < la_len a)%nat -> bx0 <> bx1 -> by0 <> by1 ->
    (forall s e, In (s, e) (opairs (slice (getn o0 i) (getn o0 (S i) + 1) o1)) ->
       wf_ring_offsets vals o2 s e /\ holes_in_shell_bbox (rings_at vals o2 s e) /\
       forall ring, In ring (rings_at vals o2 s e) -> ring_closed ring) ->
    (nth i r false = true <->
     exists P, in_zbox (Z.min bx0 bx1) (Z.min by0 by1) (Z.max bx0 bx1) (Z.max by0 by1) P /\
               multipoly_region (parts_at vals o1 o2 (getn o0 i) (getn o0 (S i))) P).
Proof. exact multipolygon_array_correct. Qed.
Print Assumptions C01_multipolygon.

Theorem C01_polygon_array_empty : forall a bx0 by0 bx1 by1 r vals o0 o1 i,
  polygon_array a (bx0, by0, bx1, by1) None = Some r ->
  finite_vals (buffer_values a) = Some vals -> buffer_offsets a = [o0; o1] ->
  (i < la_len a)%nat ->
  zpairs (slice (getn o1 (getn o0 i)) (getn o1 (getn o0 (S i))) vals) = [] ->
  nth i r false = false.
Proof. exact polygon_array_empty. Qed.
Print Assumptions C01_polygon_array_empty.

Theorem C01_polygon_empty : forall x0 y0 x1 y1 vals offsets1 start0 stop0,
  zpairs (slice (getn offsets1 start0) (getn offsets1 stop0) vals) = [] ->
  perform_polygon x0 y0 x1 y1 vals offsets1 start0 stop0 = false.
Proof. exact perform_polygon_empty. Qed.
Print Assumptions C01_polygon_empty.

(* a square with a square hole: box inside the hole (False), box inside the
   material (True through a corner's winding number), box touching the hole's
   boundary (True), box containing everything (True), missing / empty elements *)
Definition ex_polygons : listarr :=
  Build_listarr 0 3 (Some [true; false; true]) [[0; 2; 2; 2]%nat; [0; 10; 20]%nat]
                [Some 0; Some 0; Some 8; Some 0; Some 8; Some 8; Some 0; Some 8; Some 0; Some 0;
                 Some 2; Some 2; Some 2; Some 6; Some 6; Some 6; Some 6; Some 2; Some 2; Some 2].
Example ex_polygons_run :
  wf_listarr ex_polygons = true /\
  polygon_array ex_polygons (3, 3, 5, 5) None = Some [false; false; false] /\
  polygon_array ex_polygons (1, 3, 1, 5) None = Some [true; false; false] /\
  polygon_array ex_polygons (5, 5, 3, 1) None = Some [true; false; false] /\
  polygon_array ex_polygons (-1, -1, 9, 9) None = Some [true; false; false] /\
  polygon_array ex_polygons (9, 9, 10, 10) (Some [0; 0; 2]%nat) = Some [false; false; false].
Proof. vm_compute. repeat split. Qed.

Example ex_polygons_hyps :
  let rings := rings_at [0; 0; 8; 0; 8; 8; 0; 8; 0; 0; 2; 2; 2; 6; 6; 6; 6; 2; 2; 2] [0; 10; 20]%nat 0 2 in
  rings = [[(0, 0); (8, 0); (8, 8); (0, 8); (0, 0)]; [(2, 2); (2, 6); (6, 6); (6, 2); (2, 2)]] /\
  (forall ring, In ring rings -> ring_closed ring) /\ holes_in_shell_bbox rings.
Proof.
  vm_compute rings_at. split; [reflexivity|]. split.
  - intros ring [<-|[<-|[]]]; reflexivity.
  - simpl. intros v Hv.
    exists (0, 0), (8, 0), (0, 0), (8, 8). simpl.
    repeat (split; [tauto|]).
    repeat (destruct Hv as [<-|Hv]; [simpl; lia|]). destruct Hv.
Qed.

Example ex_polygons_wf :
  wf_ring_offsets [0; 0; 8; 0; 8; 8; 0; 8; 0; 0; 2; 2; 2; 6; 6; 6; 6; 2; 2; 2] [0; 10; 20]%nat 0 2.
Proof. vm_compute. repeat split; lia. Qed.

(* ---- (f) the scalar wrappers, over the scalar's own listarray buffers
        (nbuf = len(listarray.buffers()): 1 = empty element, 2 = primitive array, >= 3 = list array) ---- *)

Theorem C01_scalar_empty : forall a b,
  (forall r, line_scalar 1 a b = Some r -> r = false) /\
  (forall r, multipoint_scalar 1 a b = Some r -> r = false) /\
  (forall r, multiline_scalar 1 a b = Some r -> r = false) /\
  (forall r, multipolygon_scalar 1 a b = Some r -> r = false).
Proof. exact scalar_empty_false. Qed.
Print Assumptions C01_scalar_empty.

Theorem C01_line_scalar : forall a bx0 by0 bx1 by1 r,
  line_scalar 2 a (bx0, by0, bx1, by1) = Some r ->
  exists vals, finite_vals (la_vals a) = Some vals /\
  (bx0 <> bx1 -> by0 <> by1 ->
   (r = true <->
    exists P, in_zbox (Z.min bx0 bx1) (Z.min by0 by1) (Z.max bx0 bx1) (Z.max by0 by1) P /\
              line_set (zpairs (slice 0 (la_len a) vals)) P)) /\
  ((bx0 = bx1 \/ by0 = by1) -> r = false).
Proof. exact line_scalar_correct. Qed.
Print Assumptions C01_line_scalar.

Theorem C01_multipoint_scalar : forall a b r,
  multipoint_scalar 2 a b = Some r ->
  exists vals, finite_vals (la_vals a) = Some vals /\
  (r = true <-> exists p, In p (zpairs (slice 0 (la_len a) vals)) /\ zbox_has b p).
Proof. exact multipoint_scalar_correct. Qed.
Print Assumptions C01_multipoint_scalar.

Theorem C01_multiline_scalar : forall nbuf a bx0 by0 bx1 by1 r, (3 <= nbuf)%nat ->
  multiline_scalar nbuf a (bx0, by0, bx1, by1) = Some r ->
  exists vals, finite_vals (buffer_values a) = Some vals /\
  let offs := outer_offsets_of (buffer_offsets a) in
  (bx0 <> bx1 -> by0 <> by1 ->
   (r = true <->
    exists P, in_zbox (Z.min bx0 bx1) (Z.min by0 by1) (Z.max bx0 bx1) (Z.max by0 by1) P /\
              lines_set (lines_of vals offs) P)) /\
  ((bx0 = bx1 \/ by0 = by1) -> r = false).
Proof. exact multiline_scalar_correct. Qed.
Print Assumptions C01_multiline_scalar.

(* Polygon / MultiPolygon scalars run the kernels of (e) over all rings / parts of
   their own buffers: C01_polygon_kernel / C01_multipolygon_kernel then give the meaning *)
Theorem C01_polygon_scalar : forall nbuf a bx0 by0 bx1 by1 r, (3 <= nbuf)%nat ->
  polygon_scalar nbuf a (bx0, by0, bx1, by1) = Some r ->
  exists vals, finite_vals (buffer_values a) = Some vals /\
  let offsets1 := inner_offsets_of (buffer_offsets a) in
  r = perform_polygon (Z.min bx0 bx1) (Z.min by0 by1) (Z.max bx0 bx1) (Z.max by0 by1)
                      vals offsets1 0 (length offsets1 - 1).
Proof. exact polygon_scalar_kernel. Qed.
Print Assumptions C01_polygon_scalar.

Theorem C01_multipolygon_scalar : forall nbuf a bx0 by0 bx1 by1 r offsets1 offsets2,
  (3 <= nbuf)%nat -> buffer_offsets a = [offsets1; offsets2] ->
  multipolygon_scalar nbuf a (bx0, by0, bx1, by1) = Some r ->
  exists vals, finite_vals (buffer_values a) = Some vals /\
  r = perform_multipolygon (Z.min bx0 bx1) (Z.min by0 by1) (Z.max bx0 bx1) (Z.max by0 by1)
                           vals offsets1 offsets2 0 (length offsets1 - 1).
Proof. exact multipolygon_scalar_kernel. Qed.
Print Assumptions C01_multipolygon_scalar.

Example ex_scalars :
  (* the empty multipolygon (repaired by aea1afe), a two-vertex line, a polygon with a hole *)
  multipolygon_scalar 1 (Build_listarr 0 0 None [] []) (0, 0, 3, 3) = Some false /\
  line_scalar 2 (Build_listarr 0 4 None [] [Some 0; Some 3; Some 6; Some 3]) (1, 1, 4, 3) = Some true /\
  polygon_scalar 3 (Build_listarr 0 2 None [[0; 10; 20]%nat]
     [Some 0; Some 0; Some 8; Some 0; Some 8; Some 8; Some 0; Some 8; Some 0; Some 0;
      Some 2; Some 2; Some 2; Some 6; Some 6; Some 6; Some 6; Some 2; Some 2; Some 2])
     (3, 3, 5, 5) = Some false.
Proof. vm_compute. repeat split. Qed.

(* ---- non-vacuity ---- *)
Definition ex_points : fixarr :=
  Build_fixarr 1 3 (Some [true; true; false; true])
               [Some 9; Some 9; Some 2; Some 4; Some 0; Some 0; Some 6; Some 2].
Example ex_points_run :
  point_array ex_points (6, 4, 2, 2) None = Some [true; false; true] /\
  point_array ex_points (2, 2, 6, 4) (Some [2; 0; 0; 1]%nat) = Some [true; true; true; false] /\
  point_array ex_points (3, 3, 3, 3) None = Some [false; false; false].
Proof. vm_compute. repeat split. Qed.

Definition ex_multipoints : listarr :=
  Build_listarr 1 3 (Some [true; true; false; true]) [[0; 2; 6; 6; 8]%nat]
                [Some 7; Some 7; Some 0; Some 0; Some 4; Some 2; Some 2; Some 2].
Example ex_multipoints_run :
  wf_listarr ex_multipoints = true /\ nulls_empty ex_multipoints = true /\
  multipoint_array ex_multipoints (4, 2, 4, 2) None = Some [true; false; false] /\
  multipoint_array ex_multipoints (3, 3, 1, 1) (Some [2; 2; 0]%nat) = Some [true; true; false].
Proof. vm_compute. repeat split. Qed.

(* ---- A-FLOAT (DESIGN 3.1) as a theorem: float64 evaluation = evaluation in Z ----
   Model/FloatKernels.v transcribes the numba kernels over IEEE binary64 (Coq's
   primitive floats; tied to the real kernels on arbitrary float64 inputs by
   harness/cfloat_util.py).  On the images [Z2F z] of integers |z| <= 2^25 the float
   kernels return exactly what the integer models used by every theorem above
   return: every -, * and comparison is exact (Proofs/FloatExact.v, through Flocq's
   Bminus_correct / Bmult_correct and the standard library's FloatAxioms). *)
From SP Require Model.FloatKernels Proofs.FloatExact.

(* the injection is what it says: a finite binary64 whose real value is z *)
Theorem C01_Z2F_is_the_integer : forall z : Z, (Z.abs z <= 2 ^ 53)%Z ->
  Flocq.IEEE754.BinarySingleNaN.is_finite (Flocq.IEEE754.PrimFloat.Prim2B (FloatKernels.Z2F z)) = true /\
  Flocq.IEEE754.BinarySingleNaN.B2R (Flocq.IEEE754.PrimFloat.Prim2B (FloatKernels.Z2F z)) = IZR z.
Proof. exact FloatExact.Z2F_Fint. Qed.
Print Assumptions C01_Z2F_is_the_integer.

Theorem C01_triangle_orientation_float_exact : forall ax ay bx by_ cx cy : Z,
  (Z.abs ax <= 2 ^ 25)%Z -> (Z.abs ay <= 2 ^ 25)%Z -> (Z.abs bx <= 2 ^ 25)%Z ->
  (Z.abs by_ <= 2 ^ 25)%Z -> (Z.abs cx <= 2 ^ 25)%Z -> (Z.abs cy <= 2 ^ 25)%Z ->
  FloatKernels.ftriangle_orientation
    (FloatKernels.Z2F ax) (FloatKernels.Z2F ay) (FloatKernels.Z2F bx)
    (FloatKernels.Z2F by_) (FloatKernels.Z2F cx) (FloatKernels.Z2F cy) =
  triangle_orientation ax ay bx by_ cx cy.
Proof. exact FloatExact.triangle_orientation_float_exact. Qed.
Print Assumptions C01_triangle_orientation_float_exact.

Theorem C01_segments_intersect_1d_float_exact : forall ax0 ax1 bx0 bx1 : Z,
  (Z.abs ax0 <= 2 ^ 25)%Z -> (Z.abs ax1 <= 2 ^ 25)%Z ->
  (Z.abs bx0 <= 2 ^ 25)%Z -> (Z.abs bx1 <= 2 ^ 25)%Z ->
  FloatKernels.fsegments_intersect_1d
    (FloatKernels.Z2F ax0) (FloatKernels.Z2F ax1) (FloatKernels.Z2F bx0) (FloatKernels.Z2F bx1) =
  segments_intersect_1d ax0 ax1 bx0 bx1.
Proof. exact FloatExact.segments_intersect_1d_float_exact. Qed.
Print Assumptions C01_segments_intersect_1d_float_exact.

Theorem C01_segments_intersect_float_exact : forall ax0 ay0 ax1 ay1 bx0 by0 bx1 by1 : Z,
  (Z.abs ax0 <= 2 ^ 25)%Z -> (Z.abs ay0 <= 2 ^ 25)%Z ->
  (Z.abs ax1 <= 2 ^ 25)%Z -> (Z.abs ay1 <= 2 ^ 25)%Z ->
  (Z.abs bx0 <= 2 ^ 25)%Z -> (Z.abs by0 <= 2 ^ 25)%Z ->
  (Z.abs bx1 <= 2 ^ 25)%Z -> (Z.abs by1 <= 2 ^ 25)%Z ->
  FloatKernels.fsegments_intersect
    (FloatKernels.Z2F ax0) (FloatKernels.Z2F ay0) (FloatKernels.Z2F ax1) (FloatKernels.Z2F ay1)
    (FloatKernels.Z2F bx0) (FloatKernels.Z2F by0) (FloatKernels.Z2F bx1) (FloatKernels.Z2F by1) =
  segments_intersect ax0 ay0 ax1 ay1 bx0 by0 bx1 by1.
Proof. exact FloatExact.segments_intersect_float_exact. Qed.
Print Assumptions C01_segments_intersect_float_exact.

(* the same for ANY finite floats whose values are those integers (e.g. -0.0 for 0):
   [FloatExact.FintS f z] := f is finite, its real value is IZR z, and |z| <= 2^25 *)
Theorem C01_segments_intersect_float_exact_rel :
  forall ax0 ay0 ax1 ay1 bx0 by0 bx1 by1 zax0 zay0 zax1 zay1 zbx0 zby0 zbx1 zby1,
  FloatExact.FintS ax0 zax0 -> FloatExact.FintS ay0 zay0 ->
  FloatExact.FintS ax1 zax1 -> FloatExact.FintS ay1 zay1 ->
  FloatExact.FintS bx0 zbx0 -> FloatExact.FintS by0 zby0 ->
  FloatExact.FintS bx1 zbx1 -> FloatExact.FintS by1 zby1 ->
  FloatKernels.fsegments_intersect ax0 ay0 ax1 ay1 bx0 by0 bx1 by1 =
  segments_intersect zax0 zay0 zax1 zay1 zbx0 zby0 zbx1 zby1.
Proof. exact FloatExact.segments_intersect_float_exact_rel. Qed.
Print Assumptions C01_segments_intersect_float_exact_rel.

(* non-vacuity: the float kernel run by the Coq kernel on a touching pair, a crossing
   pair and a near miss at the edge of the exact range *)
Example ex_float_segments :
  FloatKernels.fsegments_intersect (FloatKernels.Z2F 0) (FloatKernels.Z2F 0)
     (FloatKernels.Z2F 33554432) (FloatKernels.Z2F 33554432)
     (FloatKernels.Z2F (-33554432)) (FloatKernels.Z2F 33554432)
     (FloatKernels.Z2F 33554431) (FloatKernels.Z2F 33554431) = true /\
  FloatKernels.fsegments_intersect (FloatKernels.Z2F 0) (FloatKernels.Z2F 0)
     (FloatKernels.Z2F 33554432) (FloatKernels.Z2F 33554432)
     (FloatKernels.Z2F (-33554432)) (FloatKernels.Z2F 33554432)
     (FloatKernels.Z2F 33554431) (FloatKernels.Z2F 33554432) = false.
Proof. vm_compute. split; reflexivity. Qed.
