(* C03: Hilbert R-tree queries return exactly the intersecting / covered boxes. *)
From Coq Require Import ZArith List Bool Arith Lia Permutation.
From SP Require Import Model.Num Model.Rtree Spec.Boxes.
Import ListNotations.
Local Open Scope nat_scope.

(* ---- non-vacuity: the model computes on a concrete index ----
   rows (scaled x2): [0,1]x[0,1], a NaN row, [2,3]x[2,3], a partially NaN row;
   page_size 2, the keys the real code produced for p = 2 *)
Definition ex_rows : list row :=
  [[Some 0; Some 0; Some 2; Some 2]; [None; None; None; None];
   [Some 4; Some 4; Some 6; Some 6]; [None; Some 2; Some 4; Some 4]]%Z.
Definition ex_tree := build 2 ex_rows [0; 1; 3; 2] 2.

Example ex_tree_bounds :
  t_tree ex_tree = [[Some 0; Some 0; Some 6; Some 6]; [Some 0; Some 0; Some 2; Some 2];
                    [Some 4; Some 4; Some 6; Some 6]]%Z.
Proof. vm_compute. reflexivity. Qed.
Example ex_intersects : intersects ex_tree [0; 0; 10; 10]%Z = [0; 2].
Proof. vm_compute. reflexivity. Qed.
Example ex_covers_overlaps : covers_overlaps ex_tree [0; 0; 5; 5]%Z = ([0], [2]).
Proof. vm_compute. reflexivity. Qed.
Example ex_spec_overlaps :
  filter (fun i => overlapsb 2 (nth i ex_rows []) [0; 0; 5; 5]%Z) (seq 0 4) = [0; 2].
Proof. vm_compute. reflexivity. Qed.
