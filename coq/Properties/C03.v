(* C03: Hilbert R-tree queries return exactly the intersecting / covered boxes. *)
From Coq Require Import ZArith List Bool Arith Lia Permutation.
From SP Require Import Model.Num Model.Rtree Spec.Boxes.
Import ListNotations.
Local Open Scope nat_scope.

(* ---- non-vacuity: the model computes on a concrete index ----
   rows (scaled x2): [0,1]x[0,1], a NaN row, [2,3]x[2,3], a partially NaN row;
   page_size 2, the keys the real code produced for p = 2 *)
Definition ex_rows : list row :=
  [[Some 0; Some 0; Some 2; Some 2]; [None; None; None; None];
   [Some 4; Some 4; Some 6; Some 6]; [None; Some 2; Some 4; Some 4]]%Z.
Definition ex_tree := build 2 ex_rows [0; 1; 3; 2] 2.

Example ex_tree_bounds :
  t_tree ex_tree = [[Some 0; Some 0; Some 6; Some 6]; [Some 0; Some 0; Some 2; Some 2];
                    [Some 4; Some 4; Some 6; Some 6]]%Z.
Proof. vm_compute. reflexivity. Qed.
Example ex_intersects : intersects ex_tree [0; 0; 10; 10]%Z = [0; 2].
Proof. vm_compute. reflexivity. Qed.
Example ex_covers_overlaps : covers_overlaps ex_tree [0; 0; 5; 5]%Z = ([0], [2]).
Proof. vm_compute. reflexivity. Qed.
Example ex_spec_overlaps :
  filter (fun i => overlapsb 2 (nth i ex_rows []) [0; 0; 5; 5]%Z) (seq 0 4) = [0; 2].
Proof. vm_compute. reflexivity. Qed.

From SP Require Import Proofs.RtreeProofs.

(* ---- intersects: each overlapping row exactly once, no other ----
   for every dimension d >= 1, every list of boxes (rows with a NaN allowed),
   every permutation [keys] (hence every curve order p), every page size
   (0 is coerced to 1 as the constructor does), every query *)
Theorem C03_intersects : forall d rows keys ps q,
  1 <= d -> Forall (wf_box d) rows -> Permutation keys (seq 0 (length rows)) ->
  length q = 2 * d ->
  Permutation (intersects (build d rows keys ps) q)
              (filter (fun i => overlapsb d (nth i rows []) q) (seq 0 (length rows))).
Proof. exact RtreeProofs.C03_intersects. Qed.
Print Assumptions C03_intersects.

Theorem C03_intersects_In : forall d rows keys ps q i,
  1 <= d -> Forall (wf_box d) rows -> Permutation keys (seq 0 (length rows)) ->
  length q = 2 * d ->
  (In i (intersects (build d rows keys ps) q) <->
   i < length rows /\ overlapsb d (nth i rows []) q = true).
Proof. exact RtreeProofs.C03_intersects_In. Qed.
Print Assumptions C03_intersects_In.

Theorem C03_intersects_NoDup : forall d rows keys ps q,
  1 <= d -> Forall (wf_box d) rows -> Permutation keys (seq 0 (length rows)) ->
  length q = 2 * d ->
  NoDup (intersects (build d rows keys ps) q).
Proof. exact RtreeProofs.C03_intersects_NoDup. Qed.
Print Assumptions C03_intersects_NoDup.

(* ---- covers_overlaps: the covered rows / the overlapping rows that are not covered ---- *)
Theorem C03_covers_overlaps : forall d rows keys ps q,
  1 <= d -> Forall (wf_box d) rows -> Permutation keys (seq 0 (length rows)) ->
  length q = 2 * d ->
  Permutation (fst (covers_overlaps (build d rows keys ps) q))
              (filter (fun i => coveredb d (nth i rows []) q) (seq 0 (length rows))) /\
  Permutation (snd (covers_overlaps (build d rows keys ps) q))
              (filter (fun i => overlapsb d (nth i rows []) q && negb (coveredb d (nth i rows []) q))
                      (seq 0 (length rows))).
Proof. exact RtreeProofs.C03_covers_overlaps. Qed.
Print Assumptions C03_covers_overlaps.

Theorem C03_covers_In : forall d rows keys ps q i,
  1 <= d -> Forall (wf_box d) rows -> Permutation keys (seq 0 (length rows)) ->
  length q = 2 * d ->
  (In i (fst (covers_overlaps (build d rows keys ps) q)) <->
   i < length rows /\ coveredb d (nth i rows []) q = true).
Proof. exact RtreeProofs.C03_covers_In. Qed.
Print Assumptions C03_covers_In.

Theorem C03_overlaps_In : forall d rows keys ps q i,
  1 <= d -> Forall (wf_box d) rows -> Permutation keys (seq 0 (length rows)) ->
  length q = 2 * d ->
  (In i (snd (covers_overlaps (build d rows keys ps) q)) <->
   i < length rows /\ overlapsb d (nth i rows []) q = true /\ coveredb d (nth i rows []) q = false).
Proof. exact RtreeProofs.C03_overlaps_In. Qed.
Print Assumptions C03_overlaps_In.

Theorem C03_covers_overlaps_NoDup : forall d rows keys ps q,
  1 <= d -> Forall (wf_box d) rows -> Permutation keys (seq 0 (length rows)) ->
  length q = 2 * d ->
  NoDup (fst (covers_overlaps (build d rows keys ps) q) ++
         snd (covers_overlaps (build d rows keys ps) q)).
Proof. exact RtreeProofs.C03_covers_overlaps_NoDup. Qed.
Print Assumptions C03_covers_overlaps_NoDup.

(* covers_overlaps splits exactly the set intersects returns *)
Theorem C03_split : forall d rows keys ps q,
  1 <= d -> Forall (wf_box d) rows -> Permutation keys (seq 0 (length rows)) ->
  length q = 2 * d ->
  Permutation (fst (covers_overlaps (build d rows keys ps) q) ++
               snd (covers_overlaps (build d rows keys ps) q))
              (intersects (build d rows keys ps) q).
Proof. exact RtreeProofs.C03_split. Qed.
Print Assumptions C03_split.

(* ---- independence of the curve order (any permutation) and of the page size ---- *)
Theorem C03_independent : forall d rows keys keys' ps ps' q,
  1 <= d -> Forall (wf_box d) rows ->
  Permutation keys (seq 0 (length rows)) -> Permutation keys' (seq 0 (length rows)) ->
  length q = 2 * d ->
  Permutation (intersects (build d rows keys ps) q) (intersects (build d rows keys' ps') q) /\
  Permutation (fst (covers_overlaps (build d rows keys ps) q))
              (fst (covers_overlaps (build d rows keys' ps') q)) /\
  Permutation (snd (covers_overlaps (build d rows keys ps) q))
              (snd (covers_overlaps (build d rows keys' ps') q)).
Proof. exact RtreeProofs.C03_independent. Qed.
Print Assumptions C03_independent.

(* ---- (a) the brute-force part: masks over a range of the sorted rows ---- *)
Theorem C03_leaf_scan : forall d rows keys ps q s e,
  1 <= d -> Forall (fun r => length r = 2 * d) rows ->
  Permutation keys (seq 0 (length rows)) -> length q = 2 * d ->
  let T := build d rows keys ps in
  scan_slice T (fun r => negb (row_outside d q r)) (s, e) =
    filter (fun i => overlapsb d (nth i rows []) q) (slice s e keys) /\
  scan_slice T (fun r => row_covers d q r) (s, e) =
    filter (fun i => coveredb d (nth i rows []) q) (slice s e keys) /\
  scan_slice T (fun r => negb (row_outside d q r || row_covers d q r)) (s, e) =
    filter (fun i => overlapsb d (nth i rows []) q && negb (coveredb d (nth i rows []) q))
           (slice s e keys).
Proof. exact RtreeProofs.C03_leaf_scan. Qed.
Print Assumptions C03_leaf_scan.

(* ---- (b) array-heap arithmetic: node -> [start_index, stop_index) ---- *)
Theorem C03_tree_node_range : forall d rows keys ps,
  1 <= d -> Forall (fun r => length r = 2 * d) rows ->
  Permutation keys (seq 0 (length rows)) -> rows <> [] ->
  let T := build d rows keys ps in
  tree_len T = 2 ^ Nat.log2_up (num_pages_of (length rows) (Nat.max 1 ps)) * 2 - 1 /\
  leaf_start_of T = 2 ^ Nat.log2_up (num_pages_of (length rows) (Nat.max 1 ps)) - 1 /\
  (forall v, right_child v < tree_len T ->
     start_index T (left_child v) = start_index T v /\
     stop_index T (right_child v) = stop_index T v /\
     stop_index T (left_child v) = start_index T (right_child v) /\
     start_index T v < stop_index T (left_child v) < stop_index T v) /\
  (forall v, v < tree_len T -> tree_len T <= left_child v ->
     leaf_start_of T <= v /\
     start_index T v = (v - leaf_start_of T) * t_page_size T /\
     stop_index T v = start_index T v + t_page_size T) /\
  (start_index T 0 = 0 /\ length rows <= stop_index T 0).
Proof. exact RtreeProofs.tree_node_range. Qed.
Print Assumptions C03_tree_node_range.

(* ---- (c) the box of a node: exact union of the boxes in its range; NaN iff none ---- *)
Theorem C03_tree_node_bounds : forall d rows keys ps v,
  1 <= d -> Forall (fun r => length r = 2 * d) rows ->
  Permutation keys (seq 0 (length rows)) ->
  let T := build d rows keys ps in
  v < tree_len T ->
  let R := slice (start_index T v) (stop_index T v) (t_bounds T) in
  getrow v (t_tree T) = page_box d R /\
  union_box d R (getrow v (t_tree T)) /\
  (isnan (col 0 (getrow v (t_tree T))) = true <-> forall r, In r R -> row_finite r = false).
Proof. exact RtreeProofs.tree_node_bounds. Qed.
Print Assumptions C03_tree_node_bounds.

(* ---- total_bounds: union of the boxes of the rows that have one ---- *)
Theorem C03_total_bounds : forall d rows keys ps,
  1 <= d -> Forall (fun r => length r = 2 * d) rows ->
  Permutation keys (seq 0 (length rows)) ->
  union_box d rows (total_bounds (build d rows keys ps)).
Proof. exact RtreeProofs.C03_total_bounds. Qed.
Print Assumptions C03_total_bounds.

Theorem C03_total_bounds_box : forall d rows keys ps,
  1 <= d -> Forall (fun r => length r = 2 * d) rows ->
  Permutation keys (seq 0 (length rows)) ->
  total_bounds (build d rows keys ps) = page_box d (map norm_row rows).
Proof. exact RtreeProofs.C03_total_bounds_box. Qed.
Print Assumptions C03_total_bounds_box.

(* ---- NaN rows are inert ---- *)
Theorem C03_nan_never_reported : forall d rows keys ps q i,
  1 <= d -> Forall (wf_box d) rows -> Permutation keys (seq 0 (length rows)) ->
  length q = 2 * d ->
  row_finite (nth i rows []) = false ->
  ~ In i (intersects (build d rows keys ps) q) /\
  ~ In i (fst (covers_overlaps (build d rows keys ps) q)) /\
  ~ In i (snd (covers_overlaps (build d rows keys ps) q)).
Proof. exact RtreeProofs.C03_nan_never_reported. Qed.
Print Assumptions C03_nan_never_reported.

(* removing the NaN rows and renumbering the others ([old] maps new numbers to
   old ones) changes neither the answers nor total_bounds, whatever the curve
   order and page size of the two indexes *)
Theorem C03_nan_inert : forall d rows keys ps keys' ps' q,
  1 <= d -> Forall (wf_box d) rows -> Permutation keys (seq 0 (length rows)) ->
  Permutation keys' (seq 0 (length (finite_rows rows))) ->
  length q = 2 * d ->
  let T := build d rows keys ps in
  let T' := build d (finite_rows rows) keys' ps' in
  let old := fun j => nth j (finite_idx rows) 0 in
  Permutation (map old (intersects T' q)) (intersects T q) /\
  Permutation (map old (fst (covers_overlaps T' q))) (fst (covers_overlaps T q)) /\
  Permutation (map old (snd (covers_overlaps T' q))) (snd (covers_overlaps T q)) /\
  total_bounds T' = total_bounds T.
Proof. exact RtreeProofs.C03_nan_inert. Qed.
Print Assumptions C03_nan_inert.

(* ---- the explicit fuel of the model's loops is enough: the while-loops of
   _start_index / _stop_index / _maybe_intersects_ranges terminate within
   tree-length iterations, and more fuel changes nothing ---- *)
Theorem C03_fuel_suffices : forall d rows keys ps q,
  1 <= d -> Forall (wf_box d) rows -> Permutation keys (seq 0 (length rows)) ->
  length q = 2 * d -> rows <> [] ->
  let T := build d rows keys ps in
  (forall v fuel, v < tree_len T -> tree_len T <= fuel ->
     start_index_f T fuel v = start_index T v /\ stop_index_f T fuel v = stop_index T v) /\
  (forall fuel, tree_len T <= fuel ->
     ranges_loop T fuel q [0] [] [] = maybe_intersects_ranges T q).
Proof. exact RtreeProofs.C03_fuel_suffices. Qed.
Print Assumptions C03_fuel_suffices.

(* ---- the hypothesis min <= max is needed: a reversed "box" is reported by
   intersects although it does not satisfy the overlap inequalities ---- *)
Example ex_reversed_row_needed :
  let rows := [[Some 20; Some 2]; [Some 2; Some 6]]%Z in
  intersects (build 1 rows [0; 1] 2) [0; 10]%Z = [0; 1] /\
  filter (fun i => overlapsb 1 (nth i rows []) [0; 10]%Z) (seq 0 2) = [1].
Proof. vm_compute. split; reflexivity. Qed.

(* ==== the answers depend only on the ORDER of the coordinates (session 4) ====
   The correspondence check also runs builds whose coordinates are arbitrary
   doubles (huge, tiny, many-digit decimals, one ulp apart) and whose rows and
   query boxes have sides at -inf / +inf.  The model is evaluated on the RANKS
   of the distinct values (-inf the least, +inf the greatest).  C03_monotone
   justifies the renaming for the model; C03_unbounded_query says that a query
   side beyond every coordinate of the data acts as an absent constraint
   (what -inf / +inf mean); C03_everything_query is the query
   (-inf, .., +inf, ..): every row that has a box, all covered. *)
From SP Require Import Proofs.RtreeMonotone.

Theorem C03_monotone : forall f d rows keys ps q,
  (forall x y, (x < y)%Z -> (f x < f y)%Z) ->
  1 <= d -> Forall (wf_box d) rows -> Permutation keys (seq 0 (length rows)) ->
  length q = 2 * d ->
  let T := build d rows keys ps in
  let T' := build d (map (map (option_map f)) rows) keys ps in
  Permutation (intersects T' (map f q)) (intersects T q) /\
  Permutation (fst (covers_overlaps T' (map f q))) (fst (covers_overlaps T q)) /\
  Permutation (snd (covers_overlaps T' (map f q))) (snd (covers_overlaps T q)) /\
  total_bounds T' = map (option_map f) (total_bounds T).
Proof. exact RtreeMonotone.C03_monotone. Qed.
Print Assumptions C03_monotone.

Theorem C03_unbounded_query : forall d rows keys ps q q',
  1 <= d -> Forall (wf_box d) rows -> Permutation keys (seq 0 (length rows)) ->
  length q = 2 * d -> length q' = 2 * d ->
  (forall k, k < d ->
    (nth k q 0%Z = nth k q' 0%Z \/
     ((forall r x, In r rows -> In (Some x) r -> (nth k q 0 <= x)%Z) /\
      (forall r x, In r rows -> In (Some x) r -> (nth k q' 0 <= x)%Z))) /\
    (nth (d + k) q 0%Z = nth (d + k) q' 0%Z \/
     ((forall r x, In r rows -> In (Some x) r -> (x <= nth (d + k) q 0)%Z) /\
      (forall r x, In r rows -> In (Some x) r -> (x <= nth (d + k) q' 0)%Z)))) ->
  let T := build d rows keys ps in
  Permutation (intersects T q) (intersects T q') /\
  Permutation (fst (covers_overlaps T q)) (fst (covers_overlaps T q')) /\
  Permutation (snd (covers_overlaps T q)) (snd (covers_overlaps T q')).
Proof. exact RtreeMonotone.C03_unbounded_query. Qed.
Print Assumptions C03_unbounded_query.

Theorem C03_everything_query : forall d rows keys ps q,
  1 <= d -> Forall (wf_box d) rows -> Permutation keys (seq 0 (length rows)) ->
  length q = 2 * d ->
  (forall k, k < d ->
     (forall r x, In r rows -> In (Some x) r -> (nth k q 0 <= x)%Z) /\
     (forall r x, In r rows -> In (Some x) r -> (x <= nth (d + k) q 0)%Z)) ->
  let T := build d rows keys ps in
  Permutation (intersects T q) (filter (fun i => row_finite (nth i rows [])) (seq 0 (length rows))) /\
  Permutation (fst (covers_overlaps T q)) (intersects T q) /\
  snd (covers_overlaps T q) = [].
Proof. exact RtreeMonotone.C03_everything_query. Qed.
Print Assumptions C03_everything_query.

(* non-vacuity: ranks 0..5 of (-inf, 0, 1, 2, 3, +inf); the row [-inf, 1] and
   the half-line query [2, +inf] *)
Example ex_unbounded :
  let rows := [[Some 0; Some 2]; [Some 3; Some 4]; [None; None]]%Z in
  intersects (build 1 rows [0; 1; 2] 2) [3; 5]%Z = [1] /\
  covers_overlaps (build 1 rows [0; 1; 2] 2) [0; 5]%Z = ([0; 1], []).
Proof. vm_compute. split; reflexivity. Qed.
