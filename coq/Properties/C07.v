(* C07 — the Hilbert curve mapping is a locality-preserving bijection.
   Theorems about Model/Hilbert.v (the loop-for-loop transcription of
   spatialpandas/spatialindex/hilbert_curve.py).
   [hilbert_guard p n] = 1 <= p, 1 <= n, n*p <= 62 (the int64 guard).
   Proved for EVERY order p and EVERY dimension n (no bound other than the guard):
     * round trip (both ways), ranges, bijection, refinement, endpoints;
     * C07_adjacent: consecutive distances are grid neighbours (differ by one in exactly one
       coordinate).  Bit-level proof in Proofs/HilbertClassicalN.v: a step of the undo-excess
       loop at level k acts on every bit vector below k as a signed coordinate permutation
       (flip coordinate 0 / exchange coordinates 0 and i); the Gray-decoded transposes of h and
       h+1 are the Gray codes of h and h+1 and differ in one bit (level J, coordinate a0);
       level J sends the lower bit vectors of the two runs to vectors that agree except at a0,
       where each holds the complement of its own bit J ([glue], symbolic in n); the higher
       levels, common to both runs, preserve this configuration; such a coordinate holds two
       numbers that differ by one.
   Proved for EVERY order p:
     * n = 2:   the mapping IS the classical Hilbert curve [hilbert_ref] (C07_classical; hence
                also C07_adjacent_n2) -- Proofs/HilbertClassical.v: each level applies one of
                four symmetries of the square to all lower bit pairs, and this top-down recursion
                coincides with the quadrant recursion of the classical curve up to the carry of
                the Gray code;
     * n = 1:   the mapping is the identity (C07_identity_n1).
   The `_upto` theorems (kernel evaluation over Spec.Curve.C07_scope) and C07_adjacent_partial
   are kept; they are now special cases of the above. *)
From Coq Require Import NArith List.
From SP Require Import Model.Hilbert Spec.Curve Proofs.HilbertUpto Proofs.HilbertRoundtrip
     Proofs.HilbertEnds Proofs.HilbertRefine Proofs.HilbertCurveRef Proofs.HilbertClassical
     Proofs.HilbertClassicalN.
Import ListNotations.
Local Open Scope N_scope.

(* ---- every p, every n ---------------------------------------------------- *)
Theorem C07_roundtrip_d : forall p n h, hilbert_guard p n -> distance p n h ->
    distance_from_coordinate p (coordinate_from_distance p n h) = h.
Proof. exact roundtrip_d. Qed.
Print Assumptions C07_roundtrip_d.

Theorem C07_roundtrip_c : forall p n c, hilbert_guard p n -> cell p n c ->
    coordinate_from_distance p n (distance_from_coordinate p c) = c.
Proof. exact roundtrip_c. Qed.
Print Assumptions C07_roundtrip_c.

Theorem C07_range : forall p n, hilbert_guard p n ->
    (forall h, cell p n (coordinate_from_distance p n h)) /\
    (forall c, length c = n -> distance p n (distance_from_coordinate p c)).
Proof. exact (fun p n H => conj (fun h => cfd_range p n h H) (fun c => dfc_range p n c H)). Qed.
Print Assumptions C07_range.

(* every cell of the grid is visited exactly once by the distances 0 .. 2^(np)-1 *)
Theorem C07_bijection : forall p n c, hilbert_guard p n -> cell p n c ->
    exists! h, distance p n h /\ coordinate_from_distance p n h = c.
Proof. exact bijection. Qed.
Print Assumptions C07_bijection.

(* the curves of successive orders refine each other: dropping the last n bits of the
   order-(p+1) distance of a cell gives the order-p distance of its parent cell *)
Theorem C07_refinement : forall p n c, hilbert_guard (S p) n -> (1 <= p)%nat -> length c = n ->
    N.shiftr (distance_from_coordinate (S p) c) (N.of_nat n)
    = distance_from_coordinate p (map (fun x => N.shiftr x 1) c).
Proof. exact refinement. Qed.
Print Assumptions C07_refinement.

(* the curve runs from the origin to (2^p - 1, 0, ..., 0) *)
Theorem C07_endpoints : forall p n, hilbert_guard p n ->
    coordinate_from_distance p n 0 = repeat 0 n /\
    coordinate_from_distance p n (2 ^ N.of_nat (n * p) - 1) =
    match n with O => [] | S m => (2 ^ N.of_nat p - 1) :: repeat 0 m end.
Proof. exact (fun p n H => conj (cfd_origin p n H) (cfd_far_end p n H)). Qed.
Print Assumptions C07_endpoints.

(* consecutive distances are grid neighbours: they differ by exactly one in exactly one
   coordinate (every order p, every dimension n) *)
Theorem C07_adjacent : forall p n h, hilbert_guard p n -> distance p n (h + 1) ->
    neighbours (coordinate_from_distance p n h) (coordinate_from_distance p n (h + 1)).
Proof. exact adjacent_all. Qed.
Print Assumptions C07_adjacent.

(* the same from the side of distance_from_coordinate (the function hilbert_distance uses):
   two cells with consecutive distances are grid neighbours *)
Theorem C07_adjacent_cells : forall p n c c', hilbert_guard p n -> cell p n c -> cell p n c' ->
    distance_from_coordinate p c' = distance_from_coordinate p c + 1 -> neighbours c c'.
Proof. exact adjacent_cells. Qed.
Print Assumptions C07_adjacent_cells.

(* the vectorised entry points are the scalar ones applied row by row *)
Theorem C07_vectorised : forall p n hs cs,
    coordinates_from_distances p n hs = map (coordinate_from_distance p n) hs /\
    distances_from_coordinates p cs = map (distance_from_coordinate p) cs.
Proof. exact (fun p n hs cs => conj eq_refl eq_refl). Qed.
Print Assumptions C07_vectorised.

(* ---- kernel-evaluated over C07_scope ------------------------------------ *)
(* consecutive distances are grid neighbours *)
Theorem C07_adjacent_upto : forall p n h, In (p, n) C07_scope -> distance p n (h + 1) ->
    neighbours (coordinate_from_distance p n h) (coordinate_from_distance p n (h + 1)).
Proof. exact adjacent_upto. Qed.
Print Assumptions C07_adjacent_upto.

(* n = 2: the mapping is the classical Hilbert curve (quadrant recursion of Spec/Curve.v) *)
Theorem C07_classical_upto : forall p h, In (p, 2%nat) C07_scope -> distance p 2 h ->
    coordinate_from_distance p 2 h = [fst (hilbert_ref p h); snd (hilbert_ref p h)].
Proof. exact classical_upto. Qed.
Print Assumptions C07_classical_upto.

(* the classical curve itself, for EVERY order: stays in the grid, runs from (0,0) to
   (2^p - 1, 0), consecutive points are grid neighbours *)
Theorem C07_classical_curve : forall p,
    (forall d, d < 4 ^ N.of_nat p ->
               fst (hilbert_ref p d) < 2 ^ N.of_nat p /\ snd (hilbert_ref p d) < 2 ^ N.of_nat p) /\
    hilbert_ref p 0 = (0, 0) /\ hilbert_ref p (4 ^ N.of_nat p - 1) = (2 ^ N.of_nat p - 1, 0) /\
    (forall d, d + 1 < 4 ^ N.of_nat p ->
               neighbours [fst (hilbert_ref p d); snd (hilbert_ref p d)]
                          [fst (hilbert_ref p (d + 1)); snd (hilbert_ref p (d + 1))]).
Proof.
  exact (fun p => conj (hilbert_ref_range p)
                       (conj (proj1 (hilbert_ref_ends p))
                             (conj (proj2 (hilbert_ref_ends p)) (hilbert_ref_adjacent p)))).
Qed.
Print Assumptions C07_classical_curve.

(* ---- n = 2, EVERY order p ----------------------------------------------- *)
(* the mapping is the classical Hilbert curve (quadrant recursion of Spec/Curve.v) *)
Theorem C07_classical : forall p h, hilbert_guard p 2 -> distance p 2 h ->
    coordinate_from_distance p 2 h = [fst (hilbert_ref p h); snd (hilbert_ref p h)].
Proof. exact classical_all. Qed.
Print Assumptions C07_classical.

(* ... and distance_from_coordinate inverts it *)
Theorem C07_classical_inverse : forall p h, hilbert_guard p 2 -> distance p 2 h ->
    distance_from_coordinate p [fst (hilbert_ref p h); snd (hilbert_ref p h)] = h.
Proof. exact classical_inverse. Qed.
Print Assumptions C07_classical_inverse.

(* consecutive distances are grid neighbours *)
Theorem C07_adjacent_n2 : forall p h, hilbert_guard p 2 -> distance p 2 (h + 1) ->
    neighbours (coordinate_from_distance p 2 h) (coordinate_from_distance p 2 (h + 1)).
Proof. exact adjacent_n2. Qed.
Print Assumptions C07_adjacent_n2.

(* ---- n = 1, EVERY order p: the mapping is the identity ------------------- *)
Theorem C07_identity_n1 : forall p h, hilbert_guard p 1 -> distance p 1 h ->
    coordinate_from_distance p 1 h = [h].
Proof. exact identity_n1. Qed.
Print Assumptions C07_identity_n1.

Theorem C07_adjacent_n1 : forall p h, hilbert_guard p 1 -> distance p 1 (h + 1) ->
    neighbours (coordinate_from_distance p 1 h) (coordinate_from_distance p 1 (h + 1)).
Proof. exact adjacent_n1. Qed.
Print Assumptions C07_adjacent_n1.

(* (kept; superseded by C07_classical + C07_adjacent_n2, which discharge its hypothesis for
   every p) adjacency at an arbitrary order p, n = 2, follows from the identity with the
   classical curve at that order. *)
Theorem C07_adjacent_partial : forall p,
    (forall h, distance p 2 h ->
               coordinate_from_distance p 2 h = [fst (hilbert_ref p h); snd (hilbert_ref p h)]) ->
    forall h, distance p 2 (h + 1) ->
              neighbours (coordinate_from_distance p 2 h) (coordinate_from_distance p 2 (h + 1)).
Proof. exact adjacent_if_classical. Qed.
Print Assumptions C07_adjacent_partial.

(* non-vacuity *)
Example C07_scope_nonempty : In (7%nat, 2%nat) C07_scope /\ In (4%nat, 3%nat) C07_scope.
Proof. vm_compute. intuition. Qed.
Example C07_guard_nonempty : hilbert_guard 31 2 /\ hilbert_guard 20 3 /\ hilbert_guard 62 1.
Proof. unfold hilbert_guard. repeat split; repeat constructor. Qed.
Example C07_ex1 : coordinate_from_distance 3 2 37 = [4; 7] /\ distance_from_coordinate 3 [4; 7] = 37.
Proof. vm_compute. split; reflexivity. Qed.
Example C07_ex2 : coordinate_from_distance 31 2 (2 ^ 62 - 1) = [2 ^ 31 - 1; 0].
Proof. vm_compute. reflexivity. Qed.
(* instances of the every-p theorems far outside the kernel-evaluated scope *)
Example C07_ex3 : neighbours (coordinate_from_distance 20 3 (2 ^ 40 - 1))
                             (coordinate_from_distance 20 3 (2 ^ 40 - 1 + 1)).
Proof.
  apply C07_adjacent.
  - unfold hilbert_guard. repeat split; repeat constructor.
  - vm_compute. reflexivity.
Qed.
Example C07_ex4 : coordinate_from_distance 31 2 (2 ^ 61) = [2 ^ 30; 2 ^ 30]
                  /\ hilbert_ref 31 (2 ^ 61) = (2 ^ 30, 2 ^ 30).
Proof. vm_compute. split; reflexivity. Qed.
