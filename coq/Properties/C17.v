(* C17: missing and empty geometries are inert.
   Part (a): inert rows answer NaN / false / unselected; part (b): the other rows
   are unaffected.  Statements proved outright are over the buffer-level models
   of C13 (bounds), C14 (measures), C01 / C02 (predicates), C03 (R-tree); the
   frame-level statements (cx, sjoin, Dask) are instances of the generic lemma
   [exact_filter_inert_invariant] under the exactness theorem of the operation. *)
From Coq Require Import ZArith List Bool Arith Lia Permutation.
From SP Require Import Model.Num Model.Arrow Model.Bounds Model.Rtree Model.Inert
                       Spec.BoundsSpec Spec.Boxes Spec.InertSpec
                       Proofs.InertProofs Proofs.InertRtree.
Import ListNotations.
Local Open Scope nat_scope.

(* ---- the generic lemma ---- *)

(* an operation that returns *exactly* the rows satisfying a predicate that is
   false on inert rows: inserting inert rows at any positions changes nothing for
   the others (the answer is the order-preservingly renumbered old answer) and
   no inert row is ever returned *)
Theorem C17_exact_filter_inert_invariant :
  forall (A : Type) (inert P : A -> bool),
    (forall x, inert x = true -> P x = false) ->
    forall sel : list A -> list nat, selects_exactly sel P ->
    forall l l', insert_inert inert l l' ->
      Permutation (sel l') (map (renumber (map inert l')) (sel l)) /\
      (forall i d, In i (sel l') -> i < length l' /\ inert (nth i l' d) = false).
Proof. exact exact_filter_inert_invariant. Qed.
Print Assumptions C17_exact_filter_inert_invariant.

(* the same for operations on labelled rows (frames): same labels selected *)
Theorem C17_exact_labels_inert_invariant :
  forall (A : Type) (inert P : A -> bool),
    (forall x, inert x = true -> P x = false) ->
    forall (L : Type) (sel : list (L * A) -> list L), selects_labels_exactly sel P ->
    forall l l', insert_inert (fun r => inert (snd r)) l l' ->
      Permutation (sel l') (sel l).
Proof. exact exact_labels_inert_invariant. Qed.
Print Assumptions C17_exact_labels_inert_invariant.

(* per-row operations: removing the inert rows from the answer gives the answer
   on the array without them *)
Theorem C17_rowwise_inert_invariant :
  forall (A B : Type) (inert : A -> bool) (op : list A -> list B) (f : A -> B),
    rowwise op f -> forall l l', insert_inert inert l l' ->
    keep (map inert l') (op l') = op l.
Proof. exact rowwise_inert_invariant. Qed.
Print Assumptions C17_rowwise_inert_invariant.

(* the renumbering is the list of positions of the rows that stay *)
Theorem C17_renumber_positions : forall (A : Type) (inert : A -> bool) l,
  kept_positions (map inert l) = positions (fun x => negb (inert x)) l.
Proof. exact kept_positions_map. Qed.
Print Assumptions C17_renumber_positions.

(* ---- (a) bounds rows of inert elements are NaN x 4 (from C13) ---- *)

Theorem C17_bounds_nan : forall a i,
  wf_listarr a = true -> nulls_empty a = true -> i < la_len a ->
  inert_flat (nth i (decode_flat a) None) = true ->
  nth i (la_bounds a) nanbox = nanbox.
Proof. exact la_inert_row_nan. Qed.
Print Assumptions C17_bounds_nan.

(* a non-missing element without finite coordinate: no [nulls_empty] needed *)
Theorem C17_bounds_nan_empty : forall a i,
  wf_listarr a = true -> i < la_len a ->
  forallb nonfinite (elem_flat a i) = true ->
  nth i (la_bounds a) nanbox = nanbox.
Proof. exact la_empty_row_nan. Qed.
Print Assumptions C17_bounds_nan_empty.

Theorem C17_bounds_nan_point : forall a i,
  wf_fixarr a = true -> i < fa_len a ->
  inert_pt (nth i (fa_decode a) None) = true ->
  nth i (fa_bounds a) nanbox = nanbox.
Proof. exact fa_inert_row_nan. Qed.
Print Assumptions C17_bounds_nan_point.

(* ---- (a) total_bounds is unchanged by inserting inert elements ---- *)

(* element-list level: any list l' that is l with inert elements inserted *)
Theorem C17_total_of_ignores : forall l l',
  all_even l' -> insert_inert inert_flat l l' -> total_of l' = total_of l.
Proof. exact total_of_ignores_inert. Qed.
Print Assumptions C17_total_of_ignores.

(* buffer level: the total_bounds of every representation is the total over the
   non-inert elements it represents ... *)
Theorem C17_total_bounds_represents : forall a l,
  la_represents a l -> la_total_bounds a = total_of l.
Proof. exact la_total_of_represents. Qed.
Print Assumptions C17_total_bounds_represents.

(* ... hence equal for any two representations of the same non-inert elements *)
Theorem C17_total_bounds_ignores : forall a a' l,
  la_represents a l -> la_represents a' l -> la_total_bounds a' = la_total_bounds a.
Proof. exact la_total_ignores_inert. Qed.
Print Assumptions C17_total_bounds_ignores.

Theorem C17_total_bounds_represents_point : forall a l,
  fa_represents a l -> fa_total_bounds a = pt_total_of l.
Proof. exact fa_total_of_represents. Qed.
Print Assumptions C17_total_bounds_represents_point.

Theorem C17_total_bounds_ignores_point : forall a a' l,
  fa_represents a l -> fa_represents a' l -> fa_total_bounds a' = fa_total_bounds a.
Proof. exact fa_total_ignores_inert. Qed.
Print Assumptions C17_total_bounds_ignores_point.

(* ---- the Hilbert R-tree with NaN rows (proved outright, from C03's exactness
   theorems C03_intersects / C03_covers_overlaps) ---- *)

(* (a) a row whose bounds hold a NaN is never returned *)
Theorem C17_rtree_never_returned : forall d rows keys ps q,
  1 <= d -> Forall (wf_box d) rows -> Permutation keys (seq 0 (length rows)) ->
  length q = 2 * d ->
  forall i,
    (In i (intersects (build d rows keys ps) q) \/
     In i (fst (covers_overlaps (build d rows keys ps) q)) \/
     In i (snd (covers_overlaps (build d rows keys ps) q))) ->
    i < length rows /\ nan_row (nth i rows []) = false.
Proof. exact rtree_never_returned. Qed.
Print Assumptions C17_rtree_never_returned.

(* (b) removing the NaN rows and renumbering order-preservingly gives the same
   answers for the remaining rows: any two curve orders, any two page sizes *)
Theorem C17_rtree_others_unchanged : forall d rows' keys' keys ps' ps q,
  1 <= d -> Forall (wf_box d) rows' -> Permutation keys' (seq 0 (length rows')) ->
  Permutation keys (seq 0 (length (filter (fun r => negb (nan_row r)) rows'))) ->
  length q = 2 * d ->
  Permutation (intersects (build d rows' keys' ps') q)
              (map (renumber (map nan_row rows'))
                   (intersects (build d (filter (fun r => negb (nan_row r)) rows') keys ps) q)).
Proof. exact rtree_intersects_others_unchanged. Qed.
Print Assumptions C17_rtree_others_unchanged.

Theorem C17_rtree_covers_unchanged : forall d rows' keys' keys ps' ps q,
  1 <= d -> Forall (wf_box d) rows' -> Permutation keys' (seq 0 (length rows')) ->
  Permutation keys (seq 0 (length (filter (fun r => negb (nan_row r)) rows'))) ->
  length q = 2 * d ->
  Permutation (fst (covers_overlaps (build d rows' keys' ps') q))
              (map (renumber (map nan_row rows'))
                   (fst (covers_overlaps
                           (build d (filter (fun r => negb (nan_row r)) rows') keys ps) q))).
Proof. exact rtree_covers_others_unchanged. Qed.
Print Assumptions C17_rtree_covers_unchanged.

Theorem C17_rtree_overlaps_unchanged : forall d rows' keys' keys ps' ps q,
  1 <= d -> Forall (wf_box d) rows' -> Permutation keys' (seq 0 (length rows')) ->
  Permutation keys (seq 0 (length (filter (fun r => negb (nan_row r)) rows'))) ->
  length q = 2 * d ->
  Permutation (snd (covers_overlaps (build d rows' keys' ps') q))
              (map (renumber (map nan_row rows'))
                   (snd (covers_overlaps
                           (build d (filter (fun r => negb (nan_row r)) rows') keys ps) q))).
Proof. exact rtree_overlaps_others_unchanged. Qed.
Print Assumptions C17_rtree_overlaps_unchanged.

(* ---- non-vacuity ---- *)

(* a polygon-like array (2 levels) sliced at offset 1: slot 0 holds a ring, slot 1
   is missing, slot 2 is the empty element [], slot 3 is [[]], slot 4 holds only
   NaN, slot 5 a second ring; and the same two rings alone *)
Definition ex_full : listarr :=
  {| la_off := 1; la_len := 6;
     la_valid := Some [true; true; false; true; true; true; true];
     la_offs := [[0; 1; 2; 2; 2; 3; 4; 5]; [0; 2; 6; 6; 8; 12]];
     la_vals := [Some 9; Some 9;
                 Some 1; Some 5; Some 4; Some (-3);
                 None; None;
                 Some 7; Some 0; Some (-2); Some 9]%Z |}.
Definition ex_base : listarr :=
  {| la_off := 0; la_len := 2; la_valid := None;
     la_offs := [[0; 1; 2]; [0; 4; 8]];
     la_vals := [Some 1; Some 5; Some 4; Some (-3); Some 7; Some 0; Some (-2); Some 9]%Z |}.
Definition ex_elems : list (option (list num)) :=
  [Some [Some 1; Some 5; Some 4; Some (-3)]; Some [Some 7; Some 0; Some (-2); Some 9]]%Z.

Example ex_full_inert : la_inert ex_full = [false; true; true; true; true; false].
Proof. vm_compute. reflexivity. Qed.

Example ex_full_represents : la_represents ex_full ex_elems.
Proof. unfold la_represents, insert_inert. repeat split; vm_compute; reflexivity. Qed.

Example ex_base_represents : la_represents ex_base ex_elems.
Proof. unfold la_represents, insert_inert. repeat split; vm_compute; reflexivity. Qed.

Example ex_case :
  c17_la_case (ex_full, ex_base) =
  Some ([false; true; true; true; true; false],
        [(Some 1, Some (-3), Some 4, Some 5); nanbox; nanbox; nanbox; nanbox;
         (Some (-2), Some 0, Some 7, Some 9)],
        (Some (-2), Some (-3), Some 7, Some 9), (true, true))%Z.
Proof. vm_compute. reflexivity. Qed.

Example ex_renumber :
  map (renumber (la_inert ex_full)) [0; 1] = [0; 5].
Proof. vm_compute. reflexivity. Qed.

(* a point array: slot 1 missing (placeholder 0, 0), slot 2 NaN-only *)
Definition ex_pts : fixarr :=
  {| fa_off := 0; fa_len := 4; fa_valid := Some [true; false; true; true];
     fa_vals := [Some 3; Some 4; Some 0; Some 0; None; None; Some (-1); Some 2]%Z |}.
Example ex_pts_case :
  (fa_inert ex_pts, fa_bounds ex_pts, fa_total_bounds ex_pts) =
  ([false; true; true; false],
   [(Some 3, Some 4, Some 3, Some 4); nanbox; nanbox; (Some (-1), Some 2, Some (-1), Some 2)],
   (Some (-1), Some 2, Some 3, Some 4))%Z.
Proof. vm_compute. reflexivity. Qed.

(* an index over four rows, two of them NaN (one only partially), page size 2, and
   the index over the other two rows: the answers correspond through the
   renumbering 0 -> 0, 1 -> 2 *)
Example ex_rtree :
  c17_rtree_case
    (2, [[Some 0; Some 0; Some 2; Some 2]; [None; None; None; None];
         [Some 4; Some 4; Some 6; Some 6]; [None; Some 2; Some 4; Some 4]]%Z,
     [0; 1; 3; 2], [0; 1], 2, [[0; 0; 10; 10]; [0; 0; 5; 5]; [7; 7; 9; 9]]%Z) =
  ([([0; 2], [0; 2], []); ([0; 2], [0], [2]); ([], [], [])], true).
Proof. vm_compute. reflexivity. Qed.
