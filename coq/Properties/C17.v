(* C17: missing and empty geometries are inert.
   Part (a): inert rows answer NaN / false / unselected; part (b): the other rows
   are unaffected.  Statements proved outright are over the buffer-level models
   of C13 (bounds), C14 (measures), C01 / C02 (predicates), C03 (R-tree); the
   frame-level statements (cx, sjoin, Dask) are instances of the generic lemma
   [exact_filter_inert_invariant] under the exactness theorem of the operation. *)
From Coq Require Import ZArith List Bool Arith Lia Permutation.
From SP Require Import Model.Num Model.Arrow Model.Bounds Model.Rtree Model.Inert
                       Spec.BoundsSpec Spec.Boxes Spec.InertSpec
                       Proofs.InertProofs Proofs.InertRtree.
From SP Require Import Model.Measures Spec.MeasuresSpec Proofs.MeasuresArrayProofs
                       Proofs.InertMeasures.
From SP Require Import Model.PointKernels Model.PointShape Model.Intersect Proofs.InertPredicates.
From SP Require Import Proofs.InertArrayBounds Proofs.InertSjoin.
From SP Require Import Model.DaskModel Model.Sjoin Spec.DaskSpec Spec.SjoinSpec Proofs.InertFrames.
Import ListNotations.
Local Open Scope nat_scope.

(* ---- the generic lemma ---- *)

(* an operation that returns *exactly* the rows satisfying a predicate that is
   false on inert rows: inserting inert rows at any positions changes nothing for
   the others (the answer is the order-preservingly renumbered old answer) and
   no inert row is ever returned *)
Theorem C17_exact_filter_inert_invariant :
  forall (A : Type) (inert P : A -> bool),
    (forall x, inert x = true -> P x = false) ->
    forall sel : list A -> list nat, selects_exactly sel P ->
    forall l l', insert_inert inert l l' ->
      Permutation (sel l') (map (renumber (map inert l')) (sel l)) /\
      (forall i d, In i (sel l') -> i < length l' /\ inert (nth i l' d) = false).
Proof. exact exact_filter_inert_invariant. Qed.
Print Assumptions C17_exact_filter_inert_invariant.

(* the same for operations on labelled rows (frames): same labels selected *)
Theorem C17_exact_labels_inert_invariant :
  forall (A : Type) (inert P : A -> bool),
    (forall x, inert x = true -> P x = false) ->
    forall (L : Type) (sel : list (L * A) -> list L), selects_labels_exactly sel P ->
    forall l l', insert_inert (fun r => inert (snd r)) l l' ->
      Permutation (sel l') (sel l).
Proof. exact exact_labels_inert_invariant. Qed.
Print Assumptions C17_exact_labels_inert_invariant.

(* per-row operations: removing the inert rows from the answer gives the answer
   on the array without them *)
Theorem C17_rowwise_inert_invariant :
  forall (A B : Type) (inert : A -> bool) (op : list A -> list B) (f : A -> B),
    rowwise op f -> forall l l', insert_inert inert l l' ->
    keep (map inert l') (op l') = op l.
Proof. exact rowwise_inert_invariant. Qed.
Print Assumptions C17_rowwise_inert_invariant.

(* the renumbering is the list of positions of the rows that stay *)
Theorem C17_renumber_positions : forall (A : Type) (inert : A -> bool) l,
  kept_positions (map inert l) = positions (fun x => negb (inert x)) l.
Proof. exact kept_positions_map. Qed.
Print Assumptions C17_renumber_positions.

(* ---- (a) bounds rows of inert elements are NaN x 4 (from C13) ---- *)

Theorem C17_bounds_nan : forall a i,
  wf_listarr a = true -> nulls_empty a = true -> i < la_len a ->
  inert_flat (nth i (decode_flat a) None) = true ->
  nth i (la_bounds a) nanbox = nanbox.
Proof. exact la_inert_row_nan. Qed.
Print Assumptions C17_bounds_nan.

(* a non-missing element without finite coordinate: no [nulls_empty] needed *)
Theorem C17_bounds_nan_empty : forall a i,
  wf_listarr a = true -> i < la_len a ->
  forallb nonfinite (elem_flat a i) = true ->
  nth i (la_bounds a) nanbox = nanbox.
Proof. exact la_empty_row_nan. Qed.
Print Assumptions C17_bounds_nan_empty.

Theorem C17_bounds_nan_point : forall a i,
  wf_fixarr a = true -> i < fa_len a ->
  inert_pt (nth i (fa_decode a) None) = true ->
  nth i (fa_bounds a) nanbox = nanbox.
Proof. exact fa_inert_row_nan. Qed.
Print Assumptions C17_bounds_nan_point.

(* ---- (a) total_bounds is unchanged by inserting inert elements ---- *)

(* element-list level: any list l' that is l with inert elements inserted *)
Theorem C17_total_of_ignores : forall l l',
  all_even l' -> insert_inert inert_flat l l' -> total_of l' = total_of l.
Proof. exact total_of_ignores_inert. Qed.
Print Assumptions C17_total_of_ignores.

(* buffer level: the total_bounds of every representation is the total over the
   non-inert elements it represents ... *)
Theorem C17_total_bounds_represents : forall a l,
  la_represents a l -> la_total_bounds a = total_of l.
Proof. exact la_total_of_represents. Qed.
Print Assumptions C17_total_bounds_represents.

(* ... hence equal for any two representations of the same non-inert elements *)
Theorem C17_total_bounds_ignores : forall a a' l,
  la_represents a l -> la_represents a' l -> la_total_bounds a' = la_total_bounds a.
Proof. exact la_total_ignores_inert. Qed.
Print Assumptions C17_total_bounds_ignores.

Theorem C17_total_bounds_represents_point : forall a l,
  fa_represents a l -> fa_total_bounds a = pt_total_of l.
Proof. exact fa_total_of_represents. Qed.
Print Assumptions C17_total_bounds_represents_point.

Theorem C17_total_bounds_ignores_point : forall a a' l,
  fa_represents a l -> fa_represents a' l -> fa_total_bounds a' = fa_total_bounds a.
Proof. exact fa_total_ignores_inert. Qed.
Print Assumptions C17_total_bounds_ignores_point.

(* ---- (a) predicates ---- *)

(* PointArray.intersects(shape) (C02 model, any shape kind): the slot of a missing
   point answers False whatever placeholder bytes it holds; whole-array form and
   the form restricted to positions *)
Theorem C17_intersects_false : forall a s r i,
  array_intersects a s None = Some (Value r) ->
  i < fa_len a -> i < length r ->
  isna_at (fa_valid a) (fa_off a) i = true ->
  nth i r true = false.
Proof. exact array_intersects_missing_false. Qed.
Print Assumptions C17_intersects_false.

Theorem C17_intersects_inds_false : forall a s l r k,
  array_intersects a s (Some l) = Some (Value r) ->
  k < length l -> k < length r -> nth k l 0 < fa_len a ->
  isna_at (fa_valid a) (fa_off a) (nth k l 0) = true ->
  nth k r true = false.
Proof. exact array_intersects_inds_missing_false. Qed.
Print Assumptions C17_intersects_inds_false.

(* intersects_bounds kernels (C01 model): an element that spans no coordinates
   (missing with an empty range, [], [[]], ...) intersects no box *)
Theorem C17_intersects_bounds_false_multipoint : forall x0 y0 x1 y1 vals s e,
  slice s e vals = [] -> perform_multipoint x0 y0 x1 y1 vals s e = false.
Proof. exact perform_multipoint_empty. Qed.
Print Assumptions C17_intersects_bounds_false_multipoint.

Theorem C17_intersects_bounds_false_line : forall x0 y0 x1 y1 vals s e,
  slice s e vals = [] -> perform_line x0 y0 x1 y1 vals s e = false.
Proof. exact perform_line_empty. Qed.
Print Assumptions C17_intersects_bounds_false_line.

Theorem C17_intersects_bounds_false_polygon : forall x0 y0 x1 y1 vals offsets1 s0 e0,
  slice (getn offsets1 s0) (getn offsets1 e0) vals = [] ->
  perform_polygon x0 y0 x1 y1 vals offsets1 s0 e0 = false.
Proof. exact perform_polygon_empty. Qed.
Print Assumptions C17_intersects_bounds_false_polygon.

Theorem C17_intersects_bounds_false_multiline : forall x0 y0 x1 y1 vals offsets1 s0 e0,
  (forall s e, In (s, e) (opairs (slice s0 (e0 + 1) offsets1)) -> slice s e vals = []) ->
  perform_multiline x0 y0 x1 y1 vals offsets1 s0 e0 = false.
Proof. exact perform_multiline_empty. Qed.
Print Assumptions C17_intersects_bounds_false_multiline.

Theorem C17_intersects_bounds_false_multipolygon :
  forall x0 y0 x1 y1 vals offsets1 offsets2 s0 e0,
  (forall s e, In (s, e) (opairs (slice s0 (e0 + 1) offsets1)) ->
               slice (getn offsets2 s) (getn offsets2 e) vals = []) ->
  perform_multipolygon x0 y0 x1 y1 vals offsets1 offsets2 s0 e0 = false.
Proof. exact perform_multipolygon_empty. Qed.
Print Assumptions C17_intersects_bounds_false_multipolygon.

(* the premise of the two multi-level kernels follows from the offsets: when the
   element's first and last inner offsets are equal, every sub-range is (v, v) *)
Theorem C17_subranges_empty : forall offs s0 e0 s e,
  mono offs = true -> s0 <= e0 -> e0 < length offs ->
  getn offs s0 = getn offs e0 ->
  In (s, e) (opairs (slice s0 (e0 + 1) offs)) -> s = getn offs s0 /\ e = getn offs s0.
Proof. exact opairs_slice_flat. Qed.
Print Assumptions C17_subranges_empty.

Theorem C17_intersects_bounds_false_point : forall b, point_test b None = false.
Proof. exact point_test_missing. Qed.
Print Assumptions C17_intersects_bounds_false_point.

(* the array classes' intersects_bounds (C01 model, whole-array form), every
   list-backed kind: the row of an element that spans no coordinates — its outer
   offsets are equal: a missing element under [nulls_empty], [], [[]], [[], []], ... —
   is False for every box *)
Theorem C17_intersects_bounds_false : forall a b r i,
  (multipoint_array a b None = Some r \/ line_array a b None = Some r \/
   multiline_array a b None = Some r \/ polygon_array a b None = Some r \/
   multipolygon_array a b None = Some r) ->
  i < la_len a ->
  getn (buffer_outer_offsets a) i = getn (buffer_outer_offsets a) (S i) ->
  nth i r true = false.
Proof. exact list_array_empty_false. Qed.
Print Assumptions C17_intersects_bounds_false.

(* the premise "spans no coordinates" of C17_intersects_bounds_false holds for a
   missing element (under [nulls_empty]) and for every element whose coordinate
   list is empty *)
Theorem C17_missing_spans_nothing : forall a i,
  nulls_empty a = true -> i < la_len a ->
  isna_at (la_valid a) (la_off a) i = true ->
  getn (buffer_outer_offsets a) i = getn (buffer_outer_offsets a) (S i).
Proof. exact missing_spans_nothing. Qed.
Print Assumptions C17_missing_spans_nothing.

Theorem C17_empty_spans_nothing : forall a i,
  wf_listarr a = true -> i < la_len a -> elem_flat a i = [] ->
  getn (buffer_outer_offsets a) i = getn (buffer_outer_offsets a) (S i).
Proof. exact empty_spans_nothing. Qed.
Print Assumptions C17_empty_spans_nothing.

(* PointArray.intersects_bounds: a missing point is in no box *)
Theorem C17_intersects_bounds_false_point_array : forall a b r i,
  point_array a b None = Some r -> i < fa_len a ->
  isna_at (fa_valid a) (fa_off a) i = true ->
  nth i r true = false.
Proof. exact point_array_missing_false. Qed.
Print Assumptions C17_intersects_bounds_false_point_array.

(* ---- (a) measures of a missing element are NaN (from C14's array_is_map;
   [even_inner], the guard of that theorem, is asserted by the C14 run) ---- *)

Theorem C17_measures_nan : forall k a i dl,
  length (la_offs a) = depth k -> wf_listarr a = true -> even_inner a = true ->
  i < la_len a -> isna_at (la_valid a) (la_off a) i = true ->
  nth i (arr_area k a) (Some 0%Z) = None /\
  nth i (arr_length k a) (Some dl) = None.
Proof. exact measures_missing_nan. Qed.
Print Assumptions C17_measures_nan.

Theorem C17_measures_nan_point : forall a i dl,
  i < fa_len a -> isna_at (fa_valid a) (fa_off a) i = true ->
  nth i (pt_area a) (Some 0%Z) = None /\ nth i (pt_length a) (Some dl) = None.
Proof. exact pt_measures_missing_nan. Qed.
Print Assumptions C17_measures_nan_point.

(* ---- the Hilbert R-tree with NaN rows (proved outright, from C03's exactness
   theorems C03_intersects / C03_covers_overlaps) ---- *)

(* (a) a row whose bounds hold a NaN is never returned *)
Theorem C17_rtree_never_returned : forall d rows keys ps q,
  1 <= d -> Forall (wf_box d) rows -> Permutation keys (seq 0 (length rows)) ->
  length q = 2 * d ->
  forall i,
    (In i (intersects (build d rows keys ps) q) \/
     In i (fst (covers_overlaps (build d rows keys ps) q)) \/
     In i (snd (covers_overlaps (build d rows keys ps) q))) ->
    i < length rows /\ nan_row (nth i rows []) = false.
Proof. exact rtree_never_returned. Qed.
Print Assumptions C17_rtree_never_returned.

(* (b) removing the NaN rows and renumbering order-preservingly gives the same
   answers for the remaining rows: any two curve orders, any two page sizes *)
Theorem C17_rtree_others_unchanged : forall d rows' keys' keys ps' ps q,
  1 <= d -> Forall (wf_box d) rows' -> Permutation keys' (seq 0 (length rows')) ->
  Permutation keys (seq 0 (length (filter (fun r => negb (nan_row r)) rows'))) ->
  length q = 2 * d ->
  Permutation (intersects (build d rows' keys' ps') q)
              (map (renumber (map nan_row rows'))
                   (intersects (build d (filter (fun r => negb (nan_row r)) rows') keys ps) q)).
Proof. exact rtree_intersects_others_unchanged. Qed.
Print Assumptions C17_rtree_others_unchanged.

Theorem C17_rtree_covers_unchanged : forall d rows' keys' keys ps' ps q,
  1 <= d -> Forall (wf_box d) rows' -> Permutation keys' (seq 0 (length rows')) ->
  Permutation keys (seq 0 (length (filter (fun r => negb (nan_row r)) rows'))) ->
  length q = 2 * d ->
  Permutation (fst (covers_overlaps (build d rows' keys' ps') q))
              (map (renumber (map nan_row rows'))
                   (fst (covers_overlaps
                           (build d (filter (fun r => negb (nan_row r)) rows') keys ps) q))).
Proof. exact rtree_covers_others_unchanged. Qed.
Print Assumptions C17_rtree_covers_unchanged.

Theorem C17_rtree_overlaps_unchanged : forall d rows' keys' keys ps' ps q,
  1 <= d -> Forall (wf_box d) rows' -> Permutation keys' (seq 0 (length rows')) ->
  Permutation keys (seq 0 (length (filter (fun r => negb (nan_row r)) rows'))) ->
  length q = 2 * d ->
  Permutation (snd (covers_overlaps (build d rows' keys' ps') q))
              (map (renumber (map nan_row rows'))
                   (snd (covers_overlaps
                           (build d (filter (fun r => negb (nan_row r)) rows') keys ps) q))).
Proof. exact rtree_overlaps_others_unchanged. Qed.
Print Assumptions C17_rtree_overlaps_unchanged.

(* ---- frames: instances of the generic lemma.  [rbox], [hits] are the per-row
   answers (bounds row, intersects_bounds) of the frame's geometry column; the two
   premises about inert rows are what C17_bounds_nan* and
   C17_intersects_bounds_false_* establish for the array models ---- *)

(* Dask total_bounds: entire partitions of inert rows, and inert rows anywhere,
   are ignored (proved outright on the C06 model, from C06's total_bounds_concat) *)
Theorem C17_total_bounds_dask :
  forall (R : Type) (rbox : R -> bbox) (inert : R -> bool),
    (forall r, inert r = true -> rbox r = nanbox) ->
    forall parts,
      dask_total_bounds R rbox parts =
      pandas_total_bounds R rbox (filter (fun r => negb (inert r)) (concat parts)).
Proof. exact dask_total_ignores_inert. Qed.
Print Assumptions C17_total_bounds_dask.

Theorem C17_total_bounds_dask_same :
  forall (R : Type) (rbox : R -> bbox) (inert : R -> bool),
    (forall r, inert r = true -> rbox r = nanbox) ->
    forall parts parts',
      filter (fun r => negb (inert r)) (concat parts') =
      filter (fun r => negb (inert r)) (concat parts) ->
      dask_total_bounds R rbox parts' = dask_total_bounds R rbox parts.
Proof. exact dask_total_same. Qed.
Print Assumptions C17_total_bounds_dask_same.

(* cx on a pandas frame = exactly the rows whose geometry intersects the box, in
   frame order (the statement of C04, here the definition [pandas_cx]): the
   selection with inert rows present is the selection without them, and no inert
   row is selected; also with omitted ends, which are filled from total_bounds *)
Theorem C17_cx_unchanged :
  forall (R : Type) (hits : R -> list Z -> bool) (inert : R -> bool),
    (forall r q, inert r = true -> hits r q = false) ->
    forall rows q,
      pandas_cx R hits rows q = pandas_cx R hits (filter (fun r => negb (inert r)) rows) q.
Proof. exact pandas_cx_ignores_inert. Qed.
Print Assumptions C17_cx_unchanged.

Theorem C17_cx_never_selected :
  forall (R : Type) (hits : R -> list Z -> bool) (inert : R -> bool),
    (forall r q, inert r = true -> hits r q = false) ->
    forall rows q r, In r (pandas_cx R hits rows q) -> inert r = false.
Proof. exact pandas_cx_never_inert. Qed.
Print Assumptions C17_cx_never_selected.

Theorem C17_cx_open_ends_unchanged :
  forall (R : Type) (rbox : R -> bbox) (hits : R -> list Z -> bool) (inert : R -> bool),
    (forall r, inert r = true -> rbox r = nanbox) ->
    (forall r q, inert r = true -> hits r q = false) ->
    forall rows k,
      pandas_frame_cx R rbox hits rows k =
      pandas_frame_cx R rbox hits (filter (fun r => negb (inert r)) rows) k.
Proof. exact pandas_frame_cx_ignores_inert. Qed.
Print Assumptions C17_cx_open_ends_unchanged.

(* Dask cx: corollary of contract C06_cx (theorem cx_concat of property C06, itself
   under the C03 / C01 contracts rtree_select_contract, rtree_total_contract,
   hits_contract): what the Dask frame returns is the pandas selection over the
   non-inert rows, whatever partitions the inert rows fill *)
Theorem C17_cx_dask_unchanged :
  forall (R : Type) (rbox : R -> bbox) (hits : R -> list Z -> bool) (inert : R -> bool),
    (forall r, inert r = true -> rbox r = nanbox) ->
    (forall r q, inert r = true -> hits r q = false) ->
    rtree_select_contract -> rtree_total_contract -> hits_contract rbox hits ->
    forall (parts : list (list R)) (keys : list nat),
      (forall r, In r (concat parts) -> wf_bbox (rbox r)) ->
      Permutation keys (seq 0 (length parts)) ->
      forall k,
        concat (dask_cx R rbox hits parts keys k) =
        pandas_frame_cx R rbox hits (filter (fun r => negb (inert r)) (concat parts)) k.
Proof. exact dask_cx_ignores_inert. Qed.
Print Assumptions C17_cx_dask_unchanged.

(* sjoin: corollary of contract C05_pairs_exact (property C05), whose conclusion
   [pair_enum] is the premise here: no pair of the join involves a missing left
   point or a missing right shape; such rows are exactly "unmatched" rows of the
   outer joins (C05_left / C05_right list them once, without partner) *)
Theorem C17_sjoin_unmatched : forall a rgeoms ps l r,
  pair_enum a rgeoms ps -> In (l, r) ps ->
  isna_at (fa_valid a) (fa_off a) l = false /\ nth_error rgeoms r <> Some None /\
  nth_error rgeoms r <> None.
Proof. exact sjoin_pairs_never_missing. Qed.
Print Assumptions C17_sjoin_unmatched.

Theorem C17_sjoin_missing_left_kept : forall a rgeoms ps l,
  pair_enum a rgeoms ps -> l < fa_len a ->
  isna_at (fa_valid a) (fa_off a) l = true ->
  In l (unmatched_left (fa_len a) ps).
Proof. exact sjoin_missing_left_unmatched. Qed.
Print Assumptions C17_sjoin_missing_left_kept.

Theorem C17_sjoin_missing_right_kept : forall a rgeoms ps r,
  pair_enum a rgeoms ps -> nth_error rgeoms r = Some None ->
  In r (unmatched_right (length rgeoms) ps).
Proof. exact sjoin_missing_right_unmatched. Qed.
Print Assumptions C17_sjoin_missing_right_kept.

(* (b) for sjoin: with inert rows inserted anywhere on either side (left: missing
   or non-finite points; right: missing shapes), the pair table is exactly the
   order-preservingly renumbered pair table of the frames without them.  Premises:
   both tables enumerate the intersecting pairs ([pair_enum] = the conclusion of
   contract C05_pairs_exact of property C05) *)
Theorem C17_sjoin_others_unchanged :
  forall (a a' : fixarr) (rgeoms rgeoms' : list (option shape)) (ps ps' : list (nat * nat)),
    insert_inert inert_pt (fa_decode a) (fa_decode a') ->
    insert_inert rmissing rgeoms rgeoms' ->
    pair_enum a rgeoms ps -> pair_enum a' rgeoms' ps' ->
    forall l' r',
      In (l', r') ps' <->
      (exists l r, In (l, r) ps /\
                   l' = renumber (map inert_pt (fa_decode a')) l /\
                   r' = renumber (map rmissing rgeoms') r).
Proof. exact sjoin_pairs_renumbered. Qed.
Print Assumptions C17_sjoin_others_unchanged.

(* the renumbering is a bijection from the rows of the short list onto the rows
   that stay in the long list, and it preserves the elements *)
Theorem C17_renumber_nth : forall (A : Type) (inert : A -> bool) l i d,
  i < length (filter (fun x => negb (inert x)) l) ->
  renumber (map inert l) i < length l /\
  nth (renumber (map inert l) i) l d = nth i (filter (fun x => negb (inert x)) l) d.
Proof. exact renumber_nth. Qed.
Print Assumptions C17_renumber_nth.

Theorem C17_renumber_onto : forall (A : Type) (inert : A -> bool) l j d,
  j < length l -> inert (nth j l d) = false ->
  exists i, i < length (filter (fun x => negb (inert x)) l) /\
            renumber (map inert l) i = j.
Proof. exact renumber_onto. Qed.
Print Assumptions C17_renumber_onto.

(* the executable guard the correspondence run evaluates on every exported array
   is the conjunction of the two guards the theorems carry *)
Theorem C17_guards : forall a, la_guards a = nulls_empty a && even_outer a.
Proof. exact la_guards_spec. Qed.
Print Assumptions C17_guards.

(* ---- non-vacuity ---- *)

(* a polygon-like array (2 levels) sliced at offset 1: slot 0 holds a ring, slot 1
   is missing, slot 2 is the empty element [], slot 3 is [[]], slot 4 holds only
   NaN, slot 5 a second ring; and the same two rings alone *)
Definition ex_full : listarr :=
  {| la_off := 1; la_len := 6;
     la_valid := Some [true; true; false; true; true; true; true];
     la_offs := [[0; 1; 2; 2; 2; 3; 4; 5]; [0; 2; 6; 6; 8; 12]];
     la_vals := [Some 9; Some 9;
                 Some 1; Some 5; Some 4; Some (-3);
                 None; None;
                 Some 7; Some 0; Some (-2); Some 9]%Z |}.
Definition ex_base : listarr :=
  {| la_off := 0; la_len := 2; la_valid := None;
     la_offs := [[0; 1; 2]; [0; 4; 8]];
     la_vals := [Some 1; Some 5; Some 4; Some (-3); Some 7; Some 0; Some (-2); Some 9]%Z |}.
Definition ex_elems : list (option (list num)) :=
  [Some [Some 1; Some 5; Some 4; Some (-3)]; Some [Some 7; Some 0; Some (-2); Some 9]]%Z.

Example ex_full_inert : la_inert ex_full = [false; true; true; true; true; false].
Proof. vm_compute. reflexivity. Qed.

Example ex_full_represents : la_represents ex_full ex_elems.
Proof. unfold la_represents, insert_inert. repeat split; vm_compute; reflexivity. Qed.

Example ex_base_represents : la_represents ex_base ex_elems.
Proof. unfold la_represents, insert_inert. repeat split; vm_compute; reflexivity. Qed.

Example ex_case :
  c17_la_case (ex_full, ex_base) =
  Some ([false; true; true; true; true; false],
        [(Some 1, Some (-3), Some 4, Some 5); nanbox; nanbox; nanbox; nanbox;
         (Some (-2), Some 0, Some 7, Some 9)],
        (Some (-2), Some (-3), Some 7, Some 9), (true, true, true))%Z.
Proof. vm_compute. reflexivity. Qed.

Example ex_renumber :
  map (renumber (la_inert ex_full)) [0; 1] = [0; 5].
Proof. vm_compute. reflexivity. Qed.

(* a point array: slot 1 missing (placeholder 0, 0), slot 2 NaN-only *)
Definition ex_pts : fixarr :=
  {| fa_off := 0; fa_len := 4; fa_valid := Some [true; false; true; true];
     fa_vals := [Some 3; Some 4; Some 0; Some 0; None; None; Some (-1); Some 2]%Z |}.
Example ex_pts_case :
  (fa_inert ex_pts, fa_bounds ex_pts, fa_total_bounds ex_pts) =
  ([false; true; true; false],
   [(Some 3, Some 4, Some 3, Some 4); nanbox; nanbox; (Some (-1), Some 2, Some (-1), Some 2)],
   (Some (-1), Some 2, Some 3, Some 4))%Z.
Proof. vm_compute. reflexivity. Qed.

(* an index over four rows, two of them NaN (one only partially), page size 2, and
   the index over the other two rows: the answers correspond through the
   renumbering 0 -> 0, 1 -> 2 *)
Example ex_rtree :
  c17_rtree_case
    (2, [[Some 0; Some 0; Some 2; Some 2]; [None; None; None; None];
         [Some 4; Some 4; Some 6; Some 6]; [None; Some 2; Some 4; Some 4]]%Z,
     [0; 1; 3; 2], [0; 1], 2, [[0; 0; 10; 10]; [0; 0; 5; 5]; [7; 7; 9; 9]]%Z) =
  ([([0; 2], [0; 2], []); ([0; 2], [0], [2]); ([], [], [])], true).
Proof. vm_compute. reflexivity. Qed.

(* predicates on a concrete 2-level array with finite coordinates: a square, a
   missing slot, [], [[]], a second square; the box (0,0,10,10) meets both squares *)
Definition ex_ib : listarr :=
  {| la_off := 0; la_len := 5; la_valid := Some [true; false; true; true; true];
     la_offs := [[0; 1; 1; 1; 2; 3]; [0; 10; 10; 20]];
     la_vals := map Some [1; 1; 3; 1; 3; 3; 1; 3; 1; 1;
                          5; 5; 7; 5; 7; 7; 5; 7; 5; 5]%Z |}.
Example ex_ib_polygon :
  polygon_array ex_ib (0, 0, 10, 10)%Z None = Some [true; false; false; false; true].
Proof. vm_compute. reflexivity. Qed.
Example ex_ib_multiline :
  multiline_array ex_ib (0, 0, 10, 10)%Z None = Some [true; false; false; false; true].
Proof. vm_compute. reflexivity. Qed.
Example ex_ib_outer : buffer_outer_offsets ex_ib = [0; 10; 10; 10; 10; 20].
Proof. vm_compute. reflexivity. Qed.

(* a missing point whose placeholder (0,0) lies inside the polygon *)
Definition ex_mp : fixarr :=
  {| fa_off := 0; fa_len := 3; fa_valid := Some [true; false; true];
     fa_vals := map Some [1; 1; 0; 0; 9; 9]%Z |}.
Example ex_mp_intersects :
  array_intersects ex_mp
    (ShPolygon (BList {| la_off := 0; la_len := 1; la_valid := None;
                         la_offs := [[0; 10]];
                         la_vals := map Some [-2; -2; 2; -2; 2; 2; -2; 2; -2; -2]%Z |})) None
  = Some (Value [true; false; false]).
Proof. vm_compute. reflexivity. Qed.
Example ex_mp_bounds : point_array ex_mp (-5, -5, 5, 5)%Z None = Some [true; false; false].
Proof. vm_compute. reflexivity. Qed.

(* ---- (a) EMPTY (not missing) points against polygons, over the binary64 model ----
   A point that is present but has no finite coordinate -- every mixture of NaN, +inf,
   -inf in its two coordinates, e.g. (-inf, NaN) -- is inert like a missing one: its
   bounds are NaN (C17_bounds_nan_point, [inert_pt]) and it is inside no polygon.  The
   integer models of C02 do not see such points ([finite_vals] answers None: outside the
   model); the statement is therefore over Model/FloatKernels.v, the binary64
   transcription of point_intersects_polygon that harness/cfloat_util.py compares bit
   for bit with the real kernel on arbitrary float64 inputs, all nine mixtures included.
   [FloatExact.fnonfinite v] := v is a NaN, +inf or -inf (= np.isfinite(v) is False,
   both directions: C17_nonfinite_iff).  No hypothesis on the polygon's buffers.
   Required without Import: no short name of those files is used above. *)
From SP Require Model.FloatKernels Proofs.FloatExact.

Theorem C17_empty_point_in_no_polygon :
  forall (x y : PrimFloat.float) (values : list PrimFloat.float) (offs : list nat),
  FloatExact.fnonfinite x -> FloatExact.fnonfinite y ->
  FloatKernels.fpoint_intersects_polygon x y values offs = false.
Proof. exact FloatExact.empty_point_in_no_polygon. Qed.
Print Assumptions C17_empty_point_in_no_polygon.

Theorem C17_nonfinite_iff : forall v : PrimFloat.float,
  FloatExact.fnonfinite v <-> FloatKernels.fisfinite v = false.
Proof.
  exact (fun v => conj (FloatExact.fnonfinite_not_isfinite v) (FloatExact.not_isfinite_fnonfinite v)).
Qed.
Print Assumptions C17_nonfinite_iff.

(* (b) a point with at least one finite coordinate is not touched by that guard: it is
   answered by its winding number, as before *)
Theorem C17_nonempty_point_winding :
  forall (x y : PrimFloat.float) (values : list PrimFloat.float) (offs : list nat),
  FloatKernels.fisfinite x = true \/ FloatKernels.fisfinite y = true ->
  FloatKernels.fpoint_intersects_polygon x y values offs =
  negb (FloatKernels.fwinding_number x y values offs =? 0)%Z.
Proof. exact FloatExact.nonempty_point_winding. Qed.
Print Assumptions C17_nonempty_point_winding.

(* non-vacuity: the triangle (0,0) (2,1) (1,3) of the repaired defect, evaluated by the
   Coq kernel on binary64.  All nine mixtures answer false ... *)
Definition ex_tri : list PrimFloat.float :=
  map FloatKernels.Z2F [0; 0; 2; 1; 1; 3; 0; 0]%Z.
Example ex_empty_point_neg_inf_nan :
  FloatKernels.fpoint_intersects_polygon PrimFloat.neg_infinity PrimFloat.nan ex_tri [0; 8] = false.
Proof. vm_compute; reflexivity. Qed.
Example ex_empty_points_all_mixtures :
  let nf := [PrimFloat.nan; PrimFloat.infinity; PrimFloat.neg_infinity] in
  map (fun x => map (fun y => FloatKernels.fpoint_intersects_polygon x y ex_tri [0; 8]) nf) nf
  = [[false; false; false]; [false; false; false]; [false; false; false]].
Proof. vm_compute; reflexivity. Qed.
(* ... although the winding number the loop computes for (-inf, NaN) is not zero (every
   comparison with NaN is False, so each non-horizontal edge counts): without the guard
   the kernel answered True, which is the defect repaired in /repo (c066c32) *)
Example ex_empty_point_winding_nonzero :
  FloatKernels.fwinding_number PrimFloat.neg_infinity PrimFloat.nan ex_tri [0; 8] = 1%Z.
Proof. vm_compute; reflexivity. Qed.
(* a half-finite point is not empty and is decided by the loop: (1, 1) inside, (+inf, 1)
   and (-inf, 1) outside; RECORDED: (1, NaN) is answered True (every comparison with NaN
   is False, so no edge is skipped for lying above or below the point, and x = 1 is left
   of / on the two edges it is tested against) -- the real kernel answers the same; C17
   only speaks about points without ANY finite coordinate *)
Example ex_half_finite_points :
  map (fun p => FloatKernels.fpoint_intersects_polygon (fst p) (snd p) ex_tri [0; 8])
      [(FloatKernels.Z2F 1, FloatKernels.Z2F 1); (PrimFloat.infinity, FloatKernels.Z2F 1);
       (FloatKernels.Z2F 1, PrimFloat.nan); (PrimFloat.neg_infinity, FloatKernels.Z2F 1)]
  = [true; false; true; false].
Proof. vm_compute; reflexivity. Qed.

(* ---- (a) EMPTY polygons / multipolygons: no finite coordinate in the buffer ----
   A polygon or multipolygon whose vertices are all infinite, or infinite mixed with NaN, has
   NaN bounds and is inert like a NaN-only one.  The KERNEL point_intersects_polygon alone still
   answers True for such buffers and finite points (its ray test against infinite vertices:
   ex_inf_polygon_kernel_true below); the wrappers Point._intersects_polygon and
   PointArray._intersects_polygon therefore test  np.isfinite(polygon.buffer_values).any()
   first (/repo 2a2a476; formerly the recorded finding inf-only-polygon-intersects-points).
   [FloatKernels.fpolygon_intersects] transcribes that wrapper over the binary64 kernel
   model; harness/cfloat_util.py compares it with PointArray.intersects / Point.intersects
   on real Polygon scalars.  For EVERY point, finite or not, and any offsets: *)
Theorem C17_inf_polygon_contains_no_point :
  forall (x y : PrimFloat.float) (values : list PrimFloat.float) (offs : list nat),
  Forall FloatExact.fnonfinite values ->
  FloatKernels.fpolygon_intersects x y values offs = false.
Proof. exact FloatExact.inf_polygon_contains_no_point. Qed.
Print Assumptions C17_inf_polygon_contains_no_point.

(* (b) a polygon with at least one finite coordinate is handed to the kernel unchanged *)
Theorem C17_finite_polygon_kernel :
  forall (x y : PrimFloat.float) (values : list PrimFloat.float) (offs : list nat),
  Exists (fun v => FloatKernels.fisfinite v = true) values ->
  FloatKernels.fpolygon_intersects x y values offs =
  FloatKernels.fpoint_intersects_polygon x y values offs.
Proof. exact FloatExact.finite_polygon_kernel. Qed.
Print Assumptions C17_finite_polygon_kernel.

(* non-vacuity: the all-infinite "triangle" (-inf,-inf) (inf,-inf) (inf,inf) of the former
   finding, and the mixed ring (-inf,NaN) (inf,NaN) (inf,inf) (-inf,NaN): the kernel says
   the origin is inside, the wrapper says it is not *)
Definition ex_inf_ring : list PrimFloat.float :=
  [PrimFloat.neg_infinity; PrimFloat.neg_infinity; PrimFloat.infinity; PrimFloat.neg_infinity;
   PrimFloat.infinity; PrimFloat.infinity; PrimFloat.neg_infinity; PrimFloat.neg_infinity].
Definition ex_mixed_ring : list PrimFloat.float :=
  [PrimFloat.neg_infinity; PrimFloat.nan; PrimFloat.infinity; PrimFloat.nan;
   PrimFloat.infinity; PrimFloat.infinity; PrimFloat.neg_infinity; PrimFloat.nan].
Example ex_inf_polygon_kernel_true :
  (FloatKernels.fpoint_intersects_polygon PrimFloat.zero PrimFloat.zero ex_inf_ring [0; 8],
   FloatKernels.fpoint_intersects_polygon PrimFloat.zero PrimFloat.zero ex_mixed_ring [0; 8])
  = (true, true).
Proof. vm_compute; reflexivity. Qed.
Example ex_inf_polygon_wrapper_false :
  (FloatKernels.fpolygon_intersects PrimFloat.zero PrimFloat.zero ex_inf_ring [0; 8],
   FloatKernels.fpolygon_intersects PrimFloat.zero PrimFloat.zero ex_mixed_ring [0; 8],
   FloatKernels.fpolygon_intersects (FloatKernels.Z2F 1) (FloatKernels.Z2F 1) ex_tri [0; 8])
  = (false, false, true).
Proof. vm_compute; reflexivity. Qed.
