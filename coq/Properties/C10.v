(* C10 -- pack_partitions_to_parquet leaves a complete, clean, re-readable dataset.
   Statements only; proofs live in Proofs/. *)
From Coq Require Import ZArith List Bool Arith String Permutation.
From SP Require Import Harness Model.FS Model.PackFS Model.Retry Spec.PackSpec Proofs.PackExamples
  Proofs.PackProofs.
Import ListNotations.

(* C10_layout + C10_content.  For EVERY number of requested partitions, EVERY number of input
   partitions and EVERY assignment matrix (which (input, output) cells are non-empty), the
   three temp-directory modes (inside the dataset; external with any parent path, existing
   or not), ANY order in which the tasks run, overwrite or not, and ANY prior tree
   ([prior_ok]: a tree with unique paths, no file where a directory is needed on the way,
   the external temp directories not yet there, and -- without overwrite -- nothing at the
   dataset path): the call returns, and the tree it leaves is, path by path,
   [expected_node]:
     - below the dataset path exactly part.0 .. part.(m-1) as FILES (m = number of non-empty
       outputs), _metadata, _common_metadata, and nothing else (no placeholder directory, no
       temp directory, no sub-part file, nothing of a prior dataset);
     - everywhere else the prior tree, untouched, plus the directories makedirs creates on
       the way to the dataset path and to the external temp parent (see
       C10_uuid_parent_left_refuted and C10_outside_untouched);
   and part j holds exactly the rows (cells) of the j-th non-empty output. *)
Theorem C10_layout : forall f0 cfg asg,
  prior_ok f0 cfg -> tmp_separate cfg -> wf_asg (c_k cfg) asg -> wf_orders cfg asg ->
  nonempty_outputs (c_k cfg) asg <> [] ->
  exists parts f1,
    pack f0 cfg asg = OK parts f1 /\
    (forall q, node_at f1 q = expected_node f0 cfg parts q) /\
    Forall2 (fun p N => Permutation p (cells_of asg N)) parts (nonempty_outputs (c_k cfg) asg).
Proof. exact pack_layout. Qed.
Print Assumptions C10_layout.

(* C10_content, separately: the returned parts are the cells of the non-empty outputs, in
   order, each as a multiset *)
Theorem C10_content : forall f0 cfg asg,
  prior_ok f0 cfg -> tmp_separate cfg -> wf_asg (c_k cfg) asg -> wf_orders cfg asg ->
  nonempty_outputs (c_k cfg) asg <> [] ->
  exists parts f1,
    pack f0 cfg asg = OK parts f1 /\
    Forall2 (fun p N => Permutation p (cells_of asg N)) parts (nonempty_outputs (c_k cfg) asg).
Proof. exact pack_content. Qed.
Print Assumptions C10_content.

(* C10_overwrite: whatever tree was at the dataset path, after the call the dataset directory
   is exactly the new dataset *)
Theorem C10_overwrite : forall f0 cfg asg,
  prior_ok f0 cfg -> tmp_separate cfg -> wf_asg (c_k cfg) asg -> wf_orders cfg asg ->
  nonempty_outputs (c_k cfg) asg <> [] ->
  exists parts f1,
    pack f0 cfg asg = OK parts f1 /\
    List.length parts = List.length (nonempty_outputs (c_k cfg) asg) /\
    forall q rl, strip_prefix (c_path cfg) q = Some rl -> node_at f1 q = dataset_node parts rl.
Proof. exact pack_overwrite. Qed.
Print Assumptions C10_overwrite.

(* nothing temporary is left outside either, provided the directories on the way existed *)
Theorem C10_outside_untouched : forall f0 cfg asg,
  prior_ok f0 cfg -> tmp_separate cfg -> wf_asg (c_k cfg) asg -> wf_orders cfg asg ->
  nonempty_outputs (c_k cfg) asg <> [] ->
  (forall q, on_the_way q (parent (c_path cfg)) = true -> node_at f0 q = Some Dir) ->
  match c_tmp cfg with
  | TInside => True
  | TExternal t => forall q, on_the_way q t = true -> node_at f0 q = Some Dir
  end ->
  exists parts f1,
    pack f0 cfg asg = OK parts f1 /\
    forall q, is_prefix (c_path cfg) q = false -> node_at f1 q = node_at f0 q.
Proof. exact pack_outside_untouched. Qed.
Print Assumptions C10_outside_untouched.

(* "no temporary directories outside the dataset" is false when the temp-directory format
   has a directory above the per-partition leaf that does not exist yet
   (tmp/{uuid}/t{partition}): after a successful call a directory exists outside the dataset
   that did not exist before (recorded finding `tempdir-parent-left`) *)
Theorem C10_uuid_parent_left_refuted :
  exists f0 cfg asg parts f1 q,
    pack f0 cfg asg = OK parts f1 /\
    is_prefix (c_path cfg) q = false /\
    node_at f0 q = None /\ node_at f1 q = Some Dir.
Proof. exact uuid_parent_left. Qed.
Print Assumptions C10_uuid_parent_left_refuted.

(* non-vacuity: the premises of C10_layout hold for setup M (harness/c19.py): a prior dataset
   with debris, overwrite, 4 requested partitions one of which stays empty, task orders
   [1;0] and [3;2;1;0], default and external temp directories *)
Example C10_premises_M_inside :
  prior_ok priorM (cfgM TInside) /\ tmp_separate (cfgM TInside) /\ wf_asg 4 asgM /\
  wf_orders (cfgM TInside) asgM /\ nonempty_outputs 4 asgM <> [].
Proof. exact premises_M_inside. Qed.
Example C10_premises_M_flat :
  prior_ok priorM (cfgM (TExternal [])) /\ tmp_separate (cfgM (TExternal [])) /\ wf_asg 4 asgM /\
  wf_orders (cfgM (TExternal [])) asgM /\ nonempty_outputs 4 asgM <> [].
Proof. exact premises_M_flat. Qed.

(* non-vacuity: the fault-free runs of setup M (harness/c19.py) in the three modes end in
   exactly keep/ + the dataset {part.0, part.1, part.2, _metadata, _common_metadata}
   (+ tmp/<uuid>/ in the uuid mode), with the parts holding the cells of outputs 0, 2, 3 *)
Example C10_example_inside :
  final_is (pack priorM (cfgM TInside) asgM) (keepM ++ datasetM) = true.
Proof. exact packM_inside. Qed.
Example C10_example_flat :
  final_is (pack priorM (cfgM (TExternal [])) asgM) (keepM ++ datasetM) = true.
Proof. exact packM_flat. Qed.
Example C10_example_uuid :
  final_is (pack priorM (cfgM (TExternal uuid_parent)) asgM)
           (keepM ++ datasetM ++ [([NStr "tmp"%string], Dir); (uuid_parent, Dir)]) = true.
Proof. exact packM_uuid. Qed.
