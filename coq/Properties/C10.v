(* C10 -- pack_partitions_to_parquet leaves a complete, clean, re-readable dataset.
   Statements only; proofs live in Proofs/. *)
From Coq Require Import ZArith List Bool Arith String.
From SP Require Import Harness Model.FS Model.PackFS Model.Retry Spec.PackSpec Proofs.PackExamples.
Import ListNotations.

(* "no temporary directories outside the dataset" is false when the temp-directory format
   has a directory above the per-partition leaf (tmp/{uuid}/t{partition}): after a successful
   call a directory exists outside the dataset that did not exist before (recorded finding
   `tempdir-parent-left`) *)
Theorem C10_uuid_parent_left_refuted :
  exists f0 cfg asg parts f1 q,
    pack f0 cfg asg = OK parts f1 /\
    is_prefix (c_path cfg) q = false /\
    node_at f0 q = None /\ node_at f1 q = Some Dir.
Proof. exact uuid_parent_left. Qed.
Print Assumptions C10_uuid_parent_left_refuted.

(* non-vacuity: the fault-free runs of setup M (harness/c19.py) in the three modes end in
   exactly keep/ + the dataset {part.0, part.1, part.2, _metadata, _common_metadata}
   (+ tmp/<uuid>/ in the uuid mode), with the parts holding the cells of outputs 0, 2, 3 *)
Example C10_example_inside :
  final_is (pack priorM (cfgM TInside) asgM) (keepM ++ datasetM) = true.
Proof. exact packM_inside. Qed.
Example C10_example_flat :
  final_is (pack priorM (cfgM (TExternal [])) asgM) (keepM ++ datasetM) = true.
Proof. exact packM_flat. Qed.
Example C10_example_uuid :
  final_is (pack priorM (cfgM (TExternal uuid_parent)) asgM)
           (keepM ++ datasetM ++ [([NStr "tmp"%string], Dir); (uuid_parent, Dir)]) = true.
Proof. exact packM_uuid. Qed.
