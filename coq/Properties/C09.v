(* C09: pack_partitions keeps every row and orders rows along the Hilbert curve.
   PARTIAL: Dask's set_index / repartition are contracts (premises below), checked on
   the real Dask by harness/c09.py, never proved; the Hilbert key of a row is the
   abstract elementwise function [hkey] (properties C07 / C08 are about it). *)
From Coq Require Import ZArith NArith List Bool Arith Permutation Sorted.
From SP Require Import Model.Num Model.Bounds Model.DaskModel Model.Pack
                       Spec.DaskSpec Proofs.PackPartitionsProofs.
Import ListNotations.
Local Open Scope nat_scope.

(* every row gets the key it has in the unpartitioned frame: the total bounds are
   those of the whole frame and the key is computed row by row *)
Theorem C09_keyed_rows :
  forall (R : Type) (rbox : R -> bbox) (hkey : bbox -> nat -> bbox -> N) parts p,
    concat (with_hilbert_distance_column R rbox hkey parts p) =
    keyed_rows R rbox hkey (concat parts) p.
Proof. exact with_hd_concat. Qed.
Print Assumptions C09_keyed_rows.

Theorem C09_key_partition_independent :
  forall (R : Type) (rbox : R -> bbox) (hkey : bbox -> nat -> bbox -> N) parts parts' p,
    concat parts = concat parts' ->
    concat (with_hilbert_distance_column R rbox hkey parts p) =
    concat (with_hilbert_distance_column R rbox hkey parts' p).
Proof. exact key_partition_independent. Qed.
Print Assumptions C09_key_partition_independent.

(* C09_partial, clause by clause.  Premises = the oracle contracts on Dask. *)
Theorem C09_partial_rows :
  forall (R : Type) (rbox : R -> bbox) (hkey : bbox -> nat -> bbox -> N)
         set_index repartition,
    set_index_perm (R * N) set_index -> repartition_keeps (R * N) repartition ->
    forall parts n p,
      Permutation (concat (pack_partitions R rbox hkey set_index repartition parts (Some n) p))
                  (keyed_rows R rbox hkey (concat parts) p).
Proof. exact pack_rows. Qed.
Print Assumptions C09_partial_rows.

Theorem C09_partial_own_key :
  forall (R : Type) (rbox : R -> bbox) (hkey : bbox -> nat -> bbox -> N)
         set_index repartition,
    set_index_perm (R * N) set_index -> repartition_keeps (R * N) repartition ->
    forall parts n p r k,
      In (r, k) (concat (pack_partitions R rbox hkey set_index repartition parts (Some n) p)) ->
      In r (concat parts) /\
      k = hkey (pandas_total_bounds R rbox (concat parts)) p (rbox r).
Proof. exact pack_own_key. Qed.
Print Assumptions C09_partial_own_key.

Theorem C09_partial_sorted :
  forall (R : Type) (rbox : R -> bbox) (hkey : bbox -> nat -> bbox -> N)
         set_index repartition,
    set_index_sorted (R * N) set_index -> repartition_keeps (R * N) repartition ->
    forall parts n p,
      keys_sorted (R * N) snd
                  (concat (pack_partitions R rbox hkey set_index repartition parts (Some n) p)).
Proof. exact pack_sorted. Qed.
Print Assumptions C09_partial_sorted.

Theorem C09_partial_count :
  forall (R : Type) (rbox : R -> bbox) (hkey : bbox -> nat -> bbox -> N)
         set_index repartition,
    repartition_count (R * N) repartition ->
    forall parts n p,
      N.of_nat (length (pack_partitions R rbox hkey set_index repartition parts (Some n) p)) = n.
Proof. exact pack_count. Qed.
Print Assumptions C09_partial_count.

Theorem C09_partial_input_partitioning :
  forall (R : Type) (rbox : R -> bbox) (hkey : bbox -> nat -> bbox -> N)
         set_index repartition,
    set_index_perm (R * N) set_index -> set_index_sorted (R * N) set_index ->
    repartition_keeps (R * N) repartition ->
    forall parts parts' n n' p,
      concat parts = concat parts' ->
      map snd (concat (pack_partitions R rbox hkey set_index repartition parts (Some n) p)) =
      map snd (concat (pack_partitions R rbox hkey set_index repartition parts' (Some n') p)) /\
      forall k,
        Permutation
          (filter (fun x => N.eqb (snd x) k)
                  (concat (pack_partitions R rbox hkey set_index repartition parts (Some n) p)))
          (filter (fun x => N.eqb (snd x) k)
                  (concat (pack_partitions R rbox hkey set_index repartition parts' (Some n') p))).
Proof. exact pack_input_partitioning. Qed.
Print Assumptions C09_partial_input_partitioning.

(* non-vacuity *)
Example ex_default_npartitions :
  compute_packing_npartitions None 100 = 8%N /\
  compute_packing_npartitions None (2 ^ 27) = 16%N /\
  compute_packing_npartitions (Some 3%N) 100 = 3%N.
Proof. vm_compute. repeat split. Qed.

Example ex_c09_case :
  c09_case ([[(0, (Some 1, Some 1, Some 1, Some 1)%Z, 5%N)];
             [(1, nanbox, 0%N); (2, (Some 3, Some 0, Some 3, Some 0)%Z, 9%N)]],
            [[(1, 0%N); (0, 5%N)]; [(2, 9%N)]], 2%N) =
  ((Some 1, Some 0, Some 3, Some 1)%Z, true, true, true).
Proof. vm_compute. reflexivity. Qed.
