(* C09: pack_partitions keeps every row and orders rows along the Hilbert curve.
   PARTIAL: Dask's set_index / repartition are contracts (premises below), checked on
   the real Dask by harness/c09.py, never proved; the Hilbert key of a row is the
   abstract elementwise function [hkey] (properties C07 / C08 are about it). *)
From Coq Require Import ZArith NArith List Bool Arith Permutation Sorted.
From SP Require Import Model.Num Model.Bounds Model.DaskModel Model.Pack
                       Spec.DaskSpec Proofs.PackPartitionsProofs.
Import ListNotations.
Local Open Scope nat_scope.

(* every row gets the key it has in the unpartitioned frame: the total bounds are
   those of the whole frame and the key is computed row by row *)
Theorem C09_keyed_rows :
  forall (R : Type) (rbox : R -> bbox) (hkey : bbox -> nat -> bbox -> N) parts p,
    concat (with_hilbert_distance_column R rbox hkey parts p) =
    keyed_rows R rbox hkey (concat parts) p.
Proof. exact with_hd_concat. Qed.
Print Assumptions C09_keyed_rows.

Theorem C09_key_partition_independent :
  forall (R : Type) (rbox : R -> bbox) (hkey : bbox -> nat -> bbox -> N) parts parts' p,
    concat parts = concat parts' ->
    concat (with_hilbert_distance_column R rbox hkey parts p) =
    concat (with_hilbert_distance_column R rbox hkey parts' p).
Proof. exact key_partition_independent. Qed.
Print Assumptions C09_key_partition_independent.

(* C09_partial, clause by clause.  Premises = the oracle contracts on Dask. *)
Theorem C09_partial_rows :
  forall (R : Type) (rbox : R -> bbox) (hkey : bbox -> nat -> bbox -> N)
         set_index repartition,
    set_index_perm (R * N) set_index -> repartition_keeps (R * N) repartition ->
    forall parts n p,
      Permutation (concat (pack_partitions R rbox hkey set_index repartition parts (Some n) p))
                  (keyed_rows R rbox hkey (concat parts) p).
Proof. exact pack_rows. Qed.
Print Assumptions C09_partial_rows.

Theorem C09_partial_own_key :
  forall (R : Type) (rbox : R -> bbox) (hkey : bbox -> nat -> bbox -> N)
         set_index repartition,
    set_index_perm (R * N) set_index -> repartition_keeps (R * N) repartition ->
    forall parts n p r k,
      In (r, k) (concat (pack_partitions R rbox hkey set_index repartition parts (Some n) p)) ->
      In r (concat parts) /\
      k = hkey (pandas_total_bounds R rbox (concat parts)) p (rbox r).
Proof. exact pack_own_key. Qed.
Print Assumptions C09_partial_own_key.

Theorem C09_partial_sorted :
  forall (R : Type) (rbox : R -> bbox) (hkey : bbox -> nat -> bbox -> N)
         set_index repartition,
    set_index_sorted (R * N) set_index -> repartition_keeps (R * N) repartition ->
    forall parts n p,
      keys_sorted (R * N) snd
                  (concat (pack_partitions R rbox hkey set_index repartition parts (Some n) p)).
Proof. exact pack_sorted. Qed.
Print Assumptions C09_partial_sorted.

Theorem C09_partial_count :
  forall (R : Type) (rbox : R -> bbox) (hkey : bbox -> nat -> bbox -> N)
         set_index repartition,
    repartition_count (R * N) repartition ->
    forall parts n p,
      N.of_nat (length (pack_partitions R rbox hkey set_index repartition parts (Some n) p)) = n.
Proof. exact pack_count. Qed.
Print Assumptions C09_partial_count.

Theorem C09_partial_input_partitioning :
  forall (R : Type) (rbox : R -> bbox) (hkey : bbox -> nat -> bbox -> N)
         set_index repartition,
    set_index_perm (R * N) set_index -> set_index_sorted (R * N) set_index ->
    repartition_keeps (R * N) repartition ->
    forall parts parts' n n' p,
      concat parts = concat parts' ->
      map snd (concat (pack_partitions R rbox hkey set_index repartition parts (Some n) p)) =
      map snd (concat (pack_partitions R rbox hkey set_index repartition parts' (Some n') p)) /\
      forall k,
        Permutation
          (filter (fun x => N.eqb (snd x) k)
                  (concat (pack_partitions R rbox hkey set_index repartition parts (Some n) p)))
          (filter (fun x => N.eqb (snd x) k)
                  (concat (pack_partitions R rbox hkey set_index repartition parts' (Some n') p))).
Proof. exact pack_input_partitioning. Qed.
Print Assumptions C09_partial_input_partitioning.

(* non-vacuity *)
Example ex_default_npartitions :
  compute_packing_npartitions None 100 = 8%N /\
  compute_packing_npartitions None (2 ^ 27) = 16%N /\
  compute_packing_npartitions (Some 3%N) 100 = 3%N.
Proof. vm_compute. repeat split. Qed.

Example ex_c09_case :
  c09_case ([[(0, (Some 1, Some 1, Some 1, Some 1)%Z, 5%N)];
             [(1, nanbox, 0%N); (2, (Some 3, Some 0, Some 3, Some 0)%Z, 9%N)]],
            [[(1, 0%N); (0, 5%N)]; [(2, 9%N)]], 2%N) =
  ((Some 1, Some 0, Some 3, Some 1)%Z, true, true, true).
Proof. vm_compute. reflexivity. Qed.

(* ------------------------------------------------------------------ *)
(* Binary64 part (Model/PackFloat.v on top of Model/FloatData2Coord.v): the key VALUES.
   The theorems above leave the key abstract ([hkey]); here it is the bit-exact float
   model of GeoSeries.hilbert_distance, and harness/c09.py / c09_float.py compare the
   index of every packed frame with it in the kernel (no tolerance, no call of the
   library's own hilbert_distance for the reference).                                   *)
(* ------------------------------------------------------------------ *)
From SP Require Import Model.Hilbert Model.FloatData2Coord Model.PackFloat
                       Proofs.PackFloatProofs.

(* every row of the packed frame's key column is f_hd1 of the row's own bounds row
   against the (widened) total bounds of the whole Dask frame, for EVERY binary64 input
   (NaN rows of missing elements, infinities, signed zeros, zero widths) and every
   input partitioning; the key column has the shape of the input partitions *)
Theorem C09_f_own_key :
  forall parts p keys,
    f_pack_keys parts p = Some keys ->
    concat keys = map (f_hd1 (f_key_tb (f_dask_total_bounds parts)) p) (concat parts) /\
    map (@length N) keys = map (@length frow) parts.
Proof. exact f_pack_keys_own_key. Qed.
Print Assumptions C09_f_own_key.

(* PARTIAL: two partitionings of the same rows get the same keys row by row GIVEN that the
   total-bounds tuple captured by _with_hilbert_distance_column is the same.  That
   nanmin / nanmax over the partitions of the per-partition nanmin / nanmax equals the
   nanmin / nanmax over all rows (order theory of binary64 [<?] with NaN skipped, zero
   signs irrelevant to the keys) was not proved when this theorem was stated; it is now:
   see C09_f_total_bounds_partition_independent and the UNCONDITIONAL
   C09_f_key_partition_independent further down (Proofs/FloatBoundsCombine.v).  The
   kernel still evaluates the two-level reduction on the real input partitions of every
   packing of every run. *)
Theorem C09_f_key_partition_independent_partial :
  forall tb p parts parts' keys keys',
    concat parts = concat parts' ->
    f_with_hilbert_distance_column tb p parts = Some keys ->
    f_with_hilbert_distance_column tb p parts' = Some keys' ->
    concat keys = concat keys'.
Proof. exact f_keys_partition_independent. Qed.
Print Assumptions C09_f_key_partition_independent_partial.

(* non-vacuity (statements and witnesses in Proofs/PackFloatProofs.v, closed by vm_compute):
   a frame of non-representable decimals (0.1, 0.5), (0.7, 1.5), a missing row, (102.5, 35.0)
   packed with p = 10 from one and from four input partitions (one empty, one holding the
   missing row): same keys 0, 999, 0, 699050 *)
Example ex_f_pack_keys : ex_f_pack_keys_stmt.
Proof. exact ex_f_pack_keys_holds. Qed.

(* why the order of the float operations is part of what is checked: on the decimal grid
   0.1, 0.2, ..., 102.5 with 1024 cells the station 0.7 lies in cell 6 as _data2coord
   computes it, (v - lo) * (n / width), and in cell 5 with (v - lo) / width * n *)
Example ex_f_operation_order_matters : ex_f_operation_order_stmt.
Proof. exact ex_f_operation_order_holds. Qed.

(* ------------------------------------------------------------------ *)
(* Binary64 part, unconditional (Proofs/FloatBoundsCombine.v): the two-level
   nanmin / nanmax of DaskGeoSeries.total_bounds does not depend on the partitioning
   up to the sign of a zero, and no key depends on the sign of a zero in the total
   bounds.  From the standard library's specifications of the primitive comparisons
   and of - + * on zeros (FloatAxioms), no Flocq, no reals.                             *)
(* ------------------------------------------------------------------ *)
From Coq Require Import PrimFloat SpecFloat FloatOps Permutation.
From SP Require Import Proofs.FloatBoundsCombine.

(* the total bounds of the Dask frame (per partition, then over the partitions) against
   the total bounds of all its rows at once: equal, both zeros, or both NaN, per column;
   every binary64 content (NaN rows, infinities, signed zeros), every split (empty and
   all-NaN partitions) *)
Theorem C09_f_total_bounds_partition_independent : forall parts : list (list frow),
  frow_eq_mod_zero (f_dask_total_bounds parts) (f_total_bounds (concat parts)).
Proof. exact f_total_bounds_partition_independent. Qed.
Print Assumptions C09_f_total_bounds_partition_independent.

(* ... and two frames holding the same rows in ANY order, split in any two ways *)
Theorem C09_f_total_bounds_permutation_independent : forall parts parts' : list (list frow),
  Permutation (concat parts) (concat parts') ->
  frow_eq_mod_zero (f_dask_total_bounds parts) (f_dask_total_bounds parts').
Proof. exact f_dask_total_bounds_permutation_independent. Qed.
Print Assumptions C09_f_total_bounds_permutation_independent.

(* _data2coord: the cell of a value does not depend on the sign of a zero end of the range
   (nor of a zero value).  (v - (+0.0)) and (v - (-0.0)) differ only when v is a zero, in
   the sign of the zero result; the width hi - lo is the same number unless it is a zero,
   and then n / width is not computed; product, clips and cast send both zeros to cell 0 *)
Theorem C09_f_data2coord_zero_sign : forall v v' lo lo' hi hi' n,
  feq_mod_zero v v' -> feq_mod_zero lo lo' -> feq_mod_zero hi hi' ->
  f_data2coord v lo hi n = f_data2coord v' lo' hi' n.
Proof. exact f_data2coord_mod_zero. Qed.
Print Assumptions C09_f_data2coord_zero_sign.

(* hilbert_distance(total_bounds=tb, p) of a row, widening included *)
Theorem C09_f_key_zero_sign : forall tb tb' p b,
  frow_eq_mod_zero tb tb' -> f_hd1 (f_key_tb tb) p b = f_hd1 (f_key_tb tb') p b.
Proof. exact f_key_mod_zero. Qed.
Print Assumptions C09_f_key_zero_sign.

(* UNCONDITIONAL: any two partitionings of the same rows: every row gets the same key *)
Theorem C09_f_key_partition_independent :
  forall parts parts' p keys keys',
    concat parts = concat parts' ->
    f_pack_keys parts p = Some keys ->
    f_pack_keys parts' p = Some keys' ->
    concat keys = concat keys'.
Proof. exact f_pack_keys_partition_independent. Qed.
Print Assumptions C09_f_key_partition_independent.

(* the rows met in another order as well (which is what can change the sign of a zero
   bound): the (row, key) pairs of the two frames are the same *)
Theorem C09_f_key_permutation_independent :
  forall parts parts' p keys keys',
    Permutation (concat parts) (concat parts') ->
    f_pack_keys parts p = Some keys ->
    f_pack_keys parts' p = Some keys' ->
    Permutation (combine (concat parts) (concat keys))
                (combine (concat parts') (concat keys')).
Proof. exact f_pack_keys_permutation_independent. Qed.
Print Assumptions C09_f_key_permutation_independent.

(* non-vacuity (statements in Proofs/FloatBoundsCombine.v, closed by vm_compute):
   rows (+0.0, 1), (-0.0, 2), (4, 8): x0 of the total bounds is +0.0 for the partitions
   [[a]; [b; c]] and -0.0 for [[b]; [a; c]]; keys 0, 16644, 699050 for a, b, c in both *)
Example ex_f_zero_sign_depends_on_order : ex_f_zero_sign_depends_on_order_stmt.
Proof. exact ex_f_zero_sign_depends_on_order_holds. Qed.

(* the same with the zero as the upper bound *)
Example ex_f_zero_sign_upper : ex_f_zero_sign_upper_stmt.
Proof. exact ex_f_zero_sign_upper_holds. Qed.

(* a partition holding only missing rows (NaN partition_bounds row), an empty partition,
   a frame of missing rows only *)
Example ex_f_all_nan_partition : ex_f_all_nan_partition_stmt.
Proof. exact ex_f_all_nan_partition_holds. Qed.

(* the relation cannot be pushed through the division: n / +0.0 and n / -0.0 are the two
   infinities - _data2coord tests x_width == 0 first *)
Example ex_f_div_sees_zero_sign :
  feq_mod_zero 0%float (-0)%float /\ ~ feq_mod_zero (1 / 0)%float (1 / (-0))%float.
Proof. exact f_div_not_mod_zero. Qed.
