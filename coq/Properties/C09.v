(* C09: pack_partitions keeps every row and orders rows along the Hilbert curve.
   PARTIAL: Dask's set_index / repartition are contracts (premises below), checked on
   the real Dask by harness/c09.py, never proved; the Hilbert key of a row is the
   abstract elementwise function [hkey] (properties C07 / C08 are about it). *)
From Coq Require Import ZArith NArith List Bool Arith Permutation Sorted.
From SP Require Import Model.Num Model.Bounds Model.DaskModel Model.Pack
                       Spec.DaskSpec Proofs.PackPartitionsProofs.
Import ListNotations.
Local Open Scope nat_scope.

(* every row gets the key it has in the unpartitioned frame: the total bounds are
   those of the whole frame and the key is computed row by row *)
Theorem C09_keyed_rows :
  forall (R : Type) (rbox : R -> bbox) (hkey : bbox -> nat -> bbox -> N) parts p,
    concat (with_hilbert_distance_column R rbox hkey parts p) =
    keyed_rows R rbox hkey (concat parts) p.
Proof. exact with_hd_concat. Qed.
Print Assumptions C09_keyed_rows.

Theorem C09_key_partition_independent :
  forall (R : Type) (rbox : R -> bbox) (hkey : bbox -> nat -> bbox -> N) parts parts' p,
    concat parts = concat parts' ->
    concat (with_hilbert_distance_column R rbox hkey parts p) =
    concat (with_hilbert_distance_column R rbox hkey parts' p).
Proof. exact key_partition_independent. Qed.
Print Assumptions C09_key_partition_independent.

(* C09_partial, clause by clause.  Premises = the oracle contracts on Dask. *)
Theorem C09_partial_rows :
  forall (R : Type) (rbox : R -> bbox) (hkey : bbox -> nat -> bbox -> N)
         set_index repartition,
    set_index_perm (R * N) set_index -> repartition_keeps (R * N) repartition ->
    forall parts n p,
      Permutation (concat (pack_partitions R rbox hkey set_index repartition parts (Some n) p))
                  (keyed_rows R rbox hkey (concat parts) p).
Proof. exact pack_rows. Qed.
Print Assumptions C09_partial_rows.

Theorem C09_partial_own_key :
  forall (R : Type) (rbox : R -> bbox) (hkey : bbox -> nat -> bbox -> N)
         set_index repartition,
    set_index_perm (R * N) set_index -> repartition_keeps (R * N) repartition ->
    forall parts n p r k,
      In (r, k) (concat (pack_partitions R rbox hkey set_index repartition parts (Some n) p)) ->
      In r (concat parts) /\
      k = hkey (pandas_total_bounds R rbox (concat parts)) p (rbox r).
Proof. exact pack_own_key. Qed.
Print Assumptions C09_partial_own_key.

Theorem C09_partial_sorted :
  forall (R : Type) (rbox : R -> bbox) (hkey : bbox -> nat -> bbox -> N)
         set_index repartition,
    set_index_sorted (R * N) set_index -> repartition_keeps (R * N) repartition ->
    forall parts n p,
      keys_sorted (R * N) snd
                  (concat (pack_partitions R rbox hkey set_index repartition parts (Some n) p)).
Proof. exact pack_sorted. Qed.
Print Assumptions C09_partial_sorted.

Theorem C09_partial_count :
  forall (R : Type) (rbox : R -> bbox) (hkey : bbox -> nat -> bbox -> N)
         set_index repartition,
    repartition_count (R * N) repartition ->
    forall parts n p,
      N.of_nat (length (pack_partitions R rbox hkey set_index repartition parts (Some n) p)) = n.
Proof. exact pack_count. Qed.
Print Assumptions C09_partial_count.

Theorem C09_partial_input_partitioning :
  forall (R : Type) (rbox : R -> bbox) (hkey : bbox -> nat -> bbox -> N)
         set_index repartition,
    set_index_perm (R * N) set_index -> set_index_sorted (R * N) set_index ->
    repartition_keeps (R * N) repartition ->
    forall parts parts' n n' p,
      concat parts = concat parts' ->
      map snd (concat (pack_partitions R rbox hkey set_index repartition parts (Some n) p)) =
      map snd (concat (pack_partitions R rbox hkey set_index repartition parts' (Some n') p)) /\
      forall k,
        Permutation
          (filter (fun x => N.eqb (snd x) k)
                  (concat (pack_partitions R rbox hkey set_index repartition parts (Some n) p)))
          (filter (fun x => N.eqb (snd x) k)
                  (concat (pack_partitions R rbox hkey set_index repartition parts' (Some n') p))).
Proof. exact pack_input_partitioning. Qed.
Print Assumptions C09_partial_input_partitioning.

(* non-vacuity *)
Example ex_default_npartitions :
  compute_packing_npartitions None 100 = 8%N /\
  compute_packing_npartitions None (2 ^ 27) = 16%N /\
  compute_packing_npartitions (Some 3%N) 100 = 3%N.
Proof. vm_compute. repeat split. Qed.

Example ex_c09_case :
  c09_case ([[(0, (Some 1, Some 1, Some 1, Some 1)%Z, 5%N)];
             [(1, nanbox, 0%N); (2, (Some 3, Some 0, Some 3, Some 0)%Z, 9%N)]],
            [[(1, 0%N); (0, 5%N)]; [(2, 9%N)]], 2%N) =
  ((Some 1, Some 0, Some 3, Some 1)%Z, true, true, true).
Proof. vm_compute. reflexivity. Qed.

(* ------------------------------------------------------------------ *)
(* Binary64 part (Model/PackFloat.v on top of Model/FloatData2Coord.v): the key VALUES.
   The theorems above leave the key abstract ([hkey]); here it is the bit-exact float
   model of GeoSeries.hilbert_distance, and harness/c09.py / c09_float.py compare the
   index of every packed frame with it in the kernel (no tolerance, no call of the
   library's own hilbert_distance for the reference).                                   *)
(* ------------------------------------------------------------------ *)
From SP Require Import Model.Hilbert Model.FloatData2Coord Model.PackFloat
                       Proofs.PackFloatProofs.

(* every row of the packed frame's key column is f_hd1 of the row's own bounds row
   against the (widened) total bounds of the whole Dask frame, for EVERY binary64 input
   (NaN rows of missing elements, infinities, signed zeros, zero widths) and every
   input partitioning; the key column has the shape of the input partitions *)
Theorem C09_f_own_key :
  forall parts p keys,
    f_pack_keys parts p = Some keys ->
    concat keys = map (f_hd1 (f_key_tb (f_dask_total_bounds parts)) p) (concat parts) /\
    map (@length N) keys = map (@length frow) parts.
Proof. exact f_pack_keys_own_key. Qed.
Print Assumptions C09_f_own_key.

(* PARTIAL: two partitionings of the same rows get the same keys row by row GIVEN that the
   total-bounds tuple captured by _with_hilbert_distance_column is the same.  That
   nanmin / nanmax over the partitions of the per-partition nanmin / nanmax equals the
   nanmin / nanmax over all rows (order theory of binary64 [<?] with NaN skipped, zero
   signs irrelevant to the keys) is not proved; the kernel evaluates the two-level
   reduction on the real input partitions of every packing of every run. *)
Theorem C09_f_key_partition_independent_partial :
  forall tb p parts parts' keys keys',
    concat parts = concat parts' ->
    f_with_hilbert_distance_column tb p parts = Some keys ->
    f_with_hilbert_distance_column tb p parts' = Some keys' ->
    concat keys = concat keys'.
Proof. exact f_keys_partition_independent. Qed.
Print Assumptions C09_f_key_partition_independent_partial.

(* non-vacuity (statements and witnesses in Proofs/PackFloatProofs.v, closed by vm_compute):
   a frame of non-representable decimals (0.1, 0.5), (0.7, 1.5), a missing row, (102.5, 35.0)
   packed with p = 10 from one and from four input partitions (one empty, one holding the
   missing row): same keys 0, 999, 0, 699050 *)
Example ex_f_pack_keys : ex_f_pack_keys_stmt.
Proof. exact ex_f_pack_keys_holds. Qed.

(* why the order of the float operations is part of what is checked: on the decimal grid
   0.1, 0.2, ..., 102.5 with 1024 cells the station 0.7 lies in cell 6 as _data2coord
   computes it, (v - lo) * (n / width), and in cell 5 with (v - lo) / width * n *)
Example ex_f_operation_order_matters : ex_f_operation_order_stmt.
Proof. exact ex_f_operation_order_holds. Qed.
