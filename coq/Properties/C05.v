(* C05: sjoin(left, right, how) returns exactly the intersecting (left, right) pairs. *)
From Coq Require Import ZArith List Bool Arith String Permutation.
From SP Require Import Model.Num Model.Arrow Model.Bounds Model.PointKernels Model.PointShape
                       Model.Sjoin Model.SjoinWf Spec.SjoinSpec
                       Proofs.SjoinRows Proofs.SjoinPairs Proofs.SjoinCand Proofs.SjoinCols Proofs.SjoinBBox Proofs.SjoinArrayForm
                       Proofs.SjoinRtreeBridge.
Import ListNotations.
Local Open Scope nat_scope.

(* ---- the pair table ---- *)

(* For every spatial index that satisfies the C03 contract (no duplicates, existing rows,
   every row whose box is not outside the query box) and the C02 contract on the array
   form at [inds], the (_key_left, _key_right) table enumerates, each exactly once, the
   pairs (l, r) with both geometries present and intersecting -- provided an intersecting
   point lies in the shape's bounds row ([good_right]; see the C05_hit_in_bbox theorems). *)
Theorem C05_pairs_exact : forall (cand : bbox -> list nat) (a : fixarr),
  cand_contract (fa_len a) (fa_bounds a) cand ->
  array_form_contract a ->
  forall rgeoms ps,
    good_right a rgeoms ->
    pair_table cand a rgeoms = Some (Value ps) ->
    pair_enum a rgeoms ps.
Proof. exact pairs_exact. Qed.
Print Assumptions C05_pairs_exact.

(* the linear scan of the executable model satisfies the index contract *)
Theorem C05_scan_is_an_index : forall a, wf_fixarr a = true ->
  cand_contract (fa_len a) (fa_bounds a) (scan_cand a).
Proof. exact scan_cand_contract. Qed.
Print Assumptions C05_scan_is_an_index.

(* ---- an intersecting point lies in the shape's bounds row ---- *)

(* For every shape kind of the C02 model: if Point.intersects(shape) holds for the point of
   left row l, the box of that row is not outside the bounds row of the shape.  Guards
   (executable, evaluated by the correspondence check on every real right geometry): the
   scalar's offsets are non-decreasing, even and delimit flat_values; polygon rings are
   closed. *)
Theorem C05_intersects_implies_bbox : forall a sh,
  wf_fixarr a = true -> shape_buffers_wf sh = true -> shape_rings_closed sh = true ->
  hit_in_bbox a sh.
Proof. exact hit_in_bbox_shape. Qed.
Print Assumptions C05_intersects_implies_bbox.

Theorem C05_good_right : forall a rgeoms,
  wf_fixarr a = true -> right_wf rgeoms = true -> good_right a rgeoms.
Proof. exact good_right_of_wf. Qed.
Print Assumptions C05_good_right.

(* the "closed rings" guard is needed: with an unclosed ring the winding number is non-zero
   outside the bounds row, and the pair table misses an intersecting pair *)
Theorem C05_unclosed_ring_refuted :
  wf_fixarr far_point = true /\ shape_buffers_wf open_ring = true /\
  shape_rings_closed open_ring = false /\
  ~ hit_in_bbox far_point open_ring /\
  intersecting far_point [Some open_ring] 0 0 /\
  pair_table (scan_cand far_point) far_point [Some open_ring] = Some (Value []).
Proof. exact unclosed_ring_refuted. Qed.
Print Assumptions C05_unclosed_ring_refuted.

(* ---- the merge chains ---- *)

(* whatever merge satisfies the relational contract, each chain turns a pair table into
   one row per pair, plus the unmatched rows of the kept side, as a multiset *)
Theorem C05_merge_algebra : forall mrg h nl nr ps,
  merge_contract mrg ->
  (forall p, In p ps -> fst p < nl /\ snd p < nr) ->
  Permutation (join_rows mrg h nl nr ps) (expected_rows h nl nr ps).
Proof. exact join_rows_expected. Qed.
Print Assumptions C05_merge_algebra.

Theorem C05_merge_contract_satisfiable : merge_contract merge_rel_op.
Proof. exact merge_rel_contract. Qed.
Print Assumptions C05_merge_contract_satisfiable.

(* ---- sjoin as a whole ---- *)

(* how = inner: exactly one row per intersecting pair *)
Theorem C05_inner : forall mrg cand ls rs lm rm a rgeoms res,
  contracts mrg cand a rgeoms ->
  sjoin mrg cand Inner ls rs lm rm a rgeoms = Some (inr res) ->
  exists ps, pair_enum a rgeoms ps /\ Permutation (j_rows res) (map both ps).
Proof. exact (fun mrg cand => rows_exact_h mrg cand Inner). Qed.
Print Assumptions C05_inner.

(* how = left: plus every left row without partner exactly once, right side missing *)
Theorem C05_left : forall mrg cand ls rs lm rm a rgeoms res,
  contracts mrg cand a rgeoms ->
  sjoin mrg cand Left ls rs lm rm a rgeoms = Some (inr res) ->
  exists ps, pair_enum a rgeoms ps /\
    Permutation (j_rows res)
                (map both ps ++ map (fun l => (Some l, None)) (unmatched_left (fa_len a) ps)).
Proof. exact (fun mrg cand => rows_exact_h mrg cand Left). Qed.
Print Assumptions C05_left.

(* how = right: plus every right row without partner exactly once, left side missing *)
Theorem C05_right : forall mrg cand ls rs lm rm a rgeoms res,
  contracts mrg cand a rgeoms ->
  sjoin mrg cand Right ls rs lm rm a rgeoms = Some (inr res) ->
  exists ps, pair_enum a rgeoms ps /\
    Permutation (j_rows res)
                (map both ps ++ map (fun r => (None, Some r)) (unmatched_right (List.length rgeoms) ps)).
Proof. exact (fun mrg cand => rows_exact_h mrg cand Right). Qed.
Print Assumptions C05_right.

(* all together: when sjoin returns a frame, its rows are, as a multiset, one row per
   intersecting pair plus the unmatched rows [how] keeps -- under the pandas-merge contract,
   the C03 contract on the index, the C02 contract on the array form, and the executable
   guards on the right geometries (well-formed buffers, closed rings) *)
Theorem C05_sjoin_exact : forall mrg cand h ls rs lm rm a rgeoms res,
  merge_contract mrg ->
  cand_contract (fa_len a) (fa_bounds a) (cand a) ->
  array_form_contract a ->
  right_wf rgeoms = true ->
  sjoin mrg cand h ls rs lm rm a rgeoms = Some (inr res) ->
  exists ps, pair_enum a rgeoms ps /\
             Permutation (j_rows res) (expected_rows h (fa_len a) (List.length rgeoms) ps).
Proof. exact sjoin_exact. Qed.
Print Assumptions C05_sjoin_exact.

(* the model the correspondence check evaluates is an instance *)
Theorem C05_model_exact : forall h ls rs lm rm a rgeoms res,
  array_form_contract a ->
  right_wf rgeoms = true ->
  sjoin merge_rel_op scan_cand h ls rs lm rm a rgeoms = Some (inr res) ->
  exists ps, pair_enum a rgeoms ps /\
             Permutation (j_rows res) (expected_rows h (fa_len a) (List.length rgeoms) ps).
Proof. exact model_exact. Qed.
Print Assumptions C05_model_exact.

(* ---- the C02 contract, proved from Model/PointShape.v ---- *)

(* PointArray.intersects(shape, inds) = [Point.intersects(shape) of element j, false for a
   missing element | j in inds], whenever it returns *)
Theorem C05_array_form : forall a, wf_fixarr a = true -> array_form_contract a.
Proof. exact array_form. Qed.
Print Assumptions C05_array_form.

(* the pair table, with the index contract as only premise *)
Theorem C05_pairs_exact_index_only : forall (cand : bbox -> list nat) a rgeoms ps,
  wf_fixarr a = true ->
  cand_contract (fa_len a) (fa_bounds a) cand ->
  right_wf rgeoms = true ->
  pair_table cand a rgeoms = Some (Value ps) ->
  pair_enum a rgeoms ps.
Proof. exact pairs_exact_closed. Qed.
Print Assumptions C05_pairs_exact_index_only.

(* sjoin, with the pandas-merge and index contracts as only premises *)
Theorem C05_sjoin_exact_two_contracts : forall mrg cand h ls rs lm rm a rgeoms res,
  merge_contract mrg ->
  cand_contract (fa_len a) (fa_bounds a) (cand a) ->
  right_wf rgeoms = true ->
  sjoin mrg cand h ls rs lm rm a rgeoms = Some (inr res) ->
  exists ps, pair_enum a rgeoms ps /\
             Permutation (j_rows res) (expected_rows h (fa_len a) (List.length rgeoms) ps).
Proof. exact sjoin_exact_two. Qed.
Print Assumptions C05_sjoin_exact_two_contracts.

(* the model the correspondence check evaluates: no premise but the guards *)
Theorem C05_model_exact_closed : forall h ls rs lm rm a rgeoms res,
  right_wf rgeoms = true ->
  sjoin merge_rel_op scan_cand h ls rs lm rm a rgeoms = Some (inr res) ->
  exists ps, pair_enum a rgeoms ps /\
             Permutation (j_rows res) (expected_rows h (fa_len a) (List.length rgeoms) ps).
Proof. exact model_exact_closed. Qed.
Print Assumptions C05_model_exact_closed.

(* ---- the index contract discharged by the Hilbert R-tree of C03 ---- *)

(* [rtree_cand keys ps a q] (Proofs/SjoinRtreeBridge.v) = HilbertRtree(left bounds).intersects(q):
   the tree of Model/Rtree.v built over the bounds rows of the left frame with the key
   permutation [keys] (the Hilbert order, any p) and page size [ps] (0 is coerced to 1 as the
   constructor does).  For every such tree the index contract holds -- by C03_intersects_In /
   C03_intersects_NoDup.  Guard [left_bounds_tidy] (executable): a left bounds row with a NaN
   is NaN in its first column (true when the present points have finite coordinates,
   C05_finite_coords_tidy); without it the real index itself drops a row such as (1, NaN)
   that the mask isnan(row[0]) keeps. *)
Theorem C05_rtree_is_an_index : forall a keys ps,
  wf_fixarr a = true -> left_bounds_tidy a = true ->
  Permutation keys (seq 0 (fa_len a)) ->
  cand_contract (fa_len a) (fa_bounds a) (rtree_cand keys ps a).
Proof. exact rtree_is_an_index. Qed.
Print Assumptions C05_rtree_is_an_index.

Theorem C05_finite_coords_tidy : forall a,
  wf_fixarr a = true ->
  (exists slots, Intersect.all_some (map (Intersect.point_slot a) (seq 0 (fa_len a))) = Some slots) ->
  left_bounds_tidy a = true.
Proof. exact (fun a W S => finite_coords_tidy a (conj W S)). Qed.
Print Assumptions C05_finite_coords_tidy.

(* the pair table computed through the tree *)
Theorem C05_pairs_exact_rtree : forall keys ps a rgeoms prs,
  wf_fixarr a = true -> left_bounds_tidy a = true ->
  Permutation keys (seq 0 (fa_len a)) ->
  right_wf rgeoms = true ->
  pair_table (rtree_cand keys ps a) a rgeoms = Some (Value prs) ->
  pair_enum a rgeoms prs.
Proof. exact pairs_exact_rtree. Qed.
Print Assumptions C05_pairs_exact_rtree.

(* sjoin with the R-tree as the left index, for every key permutation and page size:
   pandas' merge is the only contract left; the other premises are executable guards *)
Theorem C05_sjoin_exact_rtree : forall mrg keys ps h ls rs lm rm a rgeoms res,
  merge_contract mrg ->
  left_bounds_tidy a = true ->
  Permutation keys (seq 0 (fa_len a)) ->
  right_wf rgeoms = true ->
  sjoin mrg (rtree_cand keys ps) h ls rs lm rm a rgeoms = Some (inr res) ->
  exists prs, pair_enum a rgeoms prs /\
              Permutation (j_rows res) (expected_rows h (fa_len a) (List.length rgeoms) prs).
Proof. exact sjoin_exact_rtree. Qed.
Print Assumptions C05_sjoin_exact_rtree.

(* with the relational join of the executable model: no contract left *)
Theorem C05_model_exact_rtree : forall keys ps h ls rs lm rm a rgeoms res,
  left_bounds_tidy a = true ->
  Permutation keys (seq 0 (fa_len a)) ->
  right_wf rgeoms = true ->
  sjoin merge_rel_op (rtree_cand keys ps) h ls rs lm rm a rgeoms = Some (inr res) ->
  exists prs, pair_enum a rgeoms prs /\
              Permutation (j_rows res) (expected_rows h (fa_len a) (List.length rgeoms) prs).
Proof. exact model_exact_rtree. Qed.
Print Assumptions C05_model_exact_rtree.

(* what the expected rows are, row by row: no row twice; (l, r) iff a pair; (l, missing) iff
   how = left and l has no partner; (missing, r) iff how = right and r has no partner *)
Theorem C05_rows_once : forall h nl nr ps, NoDup ps -> NoDup (expected_rows h nl nr ps).
Proof. exact expected_rows_nodup. Qed.
Print Assumptions C05_rows_once.

Theorem C05_rows_matched : forall h nl nr ps l r,
  In (Some l, Some r) (expected_rows h nl nr ps) <-> In (l, r) ps.
Proof. exact in_expected_both. Qed.
Print Assumptions C05_rows_matched.

Theorem C05_rows_left_only : forall h nl nr ps l,
  In (Some l, None) (expected_rows h nl nr ps) <-> h = Left /\ l < nl /\ forall r, ~ In (l, r) ps.
Proof. exact in_expected_left_only. Qed.
Print Assumptions C05_rows_left_only.

Theorem C05_rows_right_only : forall h nl nr ps r,
  In (None, Some r) (expected_rows h nl nr ps) <-> h = Right /\ r < nr /\ forall l, ~ In (l, r) ps.
Proof. exact in_expected_right_only. Qed.
Print Assumptions C05_rows_right_only.

(* ---- names ---- *)

(* Clashing column names get "_<lsuffix>" / "_<rsuffix>", all others are unchanged; inner/left
   keep the left geometry column and drop the right one, right keeps the right one; column
   order as stated.  Premise: the generated index_<suffix>[<level>] names and the two key
   names are pairwise different (fails only when one suffix is the other plus a level digit
   and a MultiIndex is involved -- excluded input F2). *)
Theorem C05_suffixes : forall mrg cand h ls rs lm rm a rgeoms res,
  sjoin mrg cand h ls rs lm rm a rgeoms = Some (inr res) ->
  let il := snd (record_reset_index (fm_index lm) ls) in
  let ir := snd (record_reset_index (fm_index rm) rs) in
  let cl := clash_of h lm rm in
  NoDup (il ++ ir ++ [key_left; key_right]) ->
  match h with
  | Right =>
      j_cols res = il ++ map (suffixed cl ls) (remove_all [fm_geom lm] (fm_cols lm)) ++
                   map (suffixed cl rs) (fm_cols rm) /\
      j_geom res = suffixed cl rs (fm_geom rm)
  | _ =>
      j_cols res = map (suffixed cl ls) (fm_cols lm) ++ ir ++
                   map (suffixed cl rs) (remove_all [fm_geom rm] (fm_cols rm)) /\
      j_geom res = suffixed cl ls (fm_geom lm)
  end.
Proof. exact sjoin_suffixes. Qed.
Print Assumptions C05_suffixes.

Theorem C05_generated_names_plain : forall nl nr ls rs,
  ls <> rs ->
  NoDup (snd (record_reset_index (IxPlain nl) ls) ++ snd (record_reset_index (IxPlain nr) rs) ++
         [key_left; key_right]).
Proof. exact generated_names_plain. Qed.
Print Assumptions C05_generated_names_plain.

(* the index names of the kept frame (left for inner/left, right for right) come back, for a
   plain index (named or not) and for a MultiIndex with at least two levels *)
Theorem C05_index_restored : forall mrg cand h ls rs lm rm a rgeoms res,
  sjoin mrg cand h ls rs lm rm a rgeoms = Some (inr res) ->
  ordinary_index (fm_index (kept h lm rm)) ->
  j_index_names res = index_names (fm_index (kept h lm rm)).
Proof. exact sjoin_index_restored. Qed.
Print Assumptions C05_index_restored.

(* excluded input F1: a MultiIndex with one level comes back unnamed *)
Theorem C05_index_multi1_refuted :
  exists res,
    sjoin merge_rel_op scan_cand Inner "left" "right" f1_lm f1_rm f1_left f1_right = Some (inr res) /\
    j_index_names res = [None] /\
    j_index_names res <> index_names (fm_index (kept Inner f1_lm f1_rm)).
Proof. exact index_multi1_refuted. Qed.
Print Assumptions C05_index_multi1_refuted.

(* ---- non-vacuity: the model computes, on a concrete pair of frames ---- *)
Local Open Scope string_scope.
Definition ex_left : fixarr :=
  {| fa_off := 0; fa_len := 3; fa_valid := Some [true; false; true];
     fa_vals := [Some 1; Some 1; Some 0; Some 0; Some 3; Some 3]%Z |}.
Definition ex_square : shape :=
  ShPolygon (BList {| la_off := 0; la_len := 1; la_valid := None; la_offs := [[0; 10]%nat];
                      la_vals := [Some 0; Some 0; Some 2; Some 0; Some 2; Some 2; Some 0; Some 2;
                                  Some 0; Some 0]%Z |}).
Definition ex_right : list (option shape) :=
  [Some ex_square; Some (ShPoint (Some 3%Z) (Some 3%Z)); None].
Definition ex_lm := {| fm_index := IxPlain (Some "li"); fm_cols := ["geometry"; "lid"; "a"];
                       fm_geom := "geometry" |}.
Definition ex_rm := {| fm_index := IxMulti [Some "r1"; None]; fm_cols := ["rid"; "a"; "geometry"];
                       fm_geom := "geometry" |}.
Definition ex_bounds : list bbox :=
  [(Some 0, Some 0, Some 2, Some 2); (Some 3, Some 3, Some 3, Some 3); (None, None, None, None)]%Z.

Example ex_inner :
  sjoin_case (Inner, "left", "right", ex_lm, ex_rm, ex_left, ex_right) =
  Some (inr ([(Some 0, Some 0); (Some 2, Some 1)]%nat,
             ["geometry"; "lid"; "a_left"; "index_right0"; "index_right1"; "rid"; "a_right"],
             [Some "li"], "geometry", ex_bounds)).
Proof. vm_compute. reflexivity. Qed.

Example ex_left_join :
  sjoin_case (Left, "left", "right", ex_lm, ex_rm, ex_left, ex_right) =
  Some (inr ([(Some 0, Some 0); (Some 1, None); (Some 2, Some 1)]%nat,
             ["geometry"; "lid"; "a_left"; "index_right0"; "index_right1"; "rid"; "a_right"],
             [Some "li"], "geometry", ex_bounds)).
Proof. vm_compute. reflexivity. Qed.

Example ex_right_join :
  sjoin_case (Right, "left", "right", ex_lm, ex_rm, ex_left, ex_right) =
  Some (inr ([(None, Some 2); (Some 0, Some 0); (Some 2, Some 1)]%nat,
             ["index_left"; "lid"; "a_left"; "rid"; "a_right"; "geometry"],
             [Some "r1"; None], "geometry", ex_bounds)).
Proof. vm_compute. reflexivity. Qed.

Example ex_equal_suffixes :
  sjoin_case (Right, "x", "x", ex_lm, ex_rm, ex_left, ex_right) = Some (inl 1%nat).
Proof. vm_compute. reflexivity. Qed.

(* excluded input F2: one suffix is the other plus a level digit -> KeyError *)
Example ex_suffix_digit_keyerror :
  sjoin_case (Inner, "r", "r1", ex_rm, ex_lm, ex_left, ex_right) = Some (inl 5%nat).
Proof. vm_compute. reflexivity. Qed.

(* ---- non-vacuity of the R-tree instance: five left points (one missing), the tree built
   with page size 2 (three leaf pages, depth 2) and a non-identity key order ---- *)
Definition ex_left5 : fixarr :=
  {| fa_off := 0; fa_len := 5; fa_valid := Some [true; false; true; true; true];
     fa_vals := [Some 1; Some 1; Some 0; Some 0; Some 3; Some 3; Some 2; Some 0; Some 7; Some 7]%Z |}.
Definition ex_keys5 : list nat := [4; 1; 3; 0; 2].

Example ex_rtree_guards :
  wf_fixarr ex_left5 = true /\ left_bounds_tidy ex_left5 = true /\ right_wf ex_right = true /\
  Permutation ex_keys5 (seq 0 (fa_len ex_left5)).
Proof.
  repeat split; try reflexivity. unfold ex_keys5. cbn.
  apply perm_trans with (4 :: [0; 1; 2; 3]).
  - apply perm_skip. apply perm_trans with (1 :: [0; 2; 3]).
    + apply perm_skip. apply perm_trans with (3 :: [0; 2]); [apply perm_skip, Permutation_refl|].
      change (Permutation ([3] ++ [0; 2]) ([0; 2] ++ [3])). apply Permutation_app_comm.
    + apply perm_swap.
  - change (Permutation ([4] ++ [0; 1; 2; 3]) ([0; 1; 2; 3] ++ [4])). apply Permutation_app_comm.
Qed.

(* the tree: root, two inner nodes, three leaf pages (+ one absent page) *)
Example ex_rtree_tree :
  Rtree.t_tree (left_sindex ex_keys5 2 ex_left5) =
  [[Some 1; Some 0; Some 7; Some 7]; [Some 1; Some 0; Some 7; Some 7]; [Some 3; Some 3; Some 3; Some 3];
   [Some 7; Some 7; Some 7; Some 7]; [Some 1; Some 0; Some 2; Some 1]; [Some 3; Some 3; Some 3; Some 3];
   [None; None; None; None]]%Z.
Proof. vm_compute. reflexivity. Qed.

(* candidates for the bounds rows of the two right shapes, and for a NaN row *)
Example ex_rtree_cand :
  rtree_cand ex_keys5 2 ex_left5 (Some 0, Some 0, Some 2, Some 2)%Z = [3; 0] /\
  rtree_cand ex_keys5 2 ex_left5 (Some 3, Some 3, Some 3, Some 3)%Z = [2] /\
  rtree_cand ex_keys5 2 ex_left5 (None, None, None, None) = [0; 2; 3; 4].
Proof. vm_compute. repeat split; reflexivity. Qed.

(* left row 3 = (2, 0) is a candidate of the square (its box is not outside the bounds row)
   that the exact filter rejects *)
Example ex_rtree_sjoin :
  match sjoin merge_rel_op (rtree_cand ex_keys5 2) Left "left" "right" ex_lm ex_rm ex_left5 ex_right with
  | Some (inr r) => sort_orows (j_rows r)
  | _ => []
  end = [(Some 0, Some 0); (Some 1, None); (Some 2, Some 1); (Some 3, None); (Some 4, None)]%nat.
Proof. vm_compute. reflexivity. Qed.

(* the same frames through the linear scan of the executable model *)
Example ex_rtree_sjoin_scan :
  match sjoin merge_rel_op scan_cand Left "left" "right" ex_lm ex_rm ex_left5 ex_right with
  | Some (inr r) => sort_orows (j_rows r)
  | _ => []
  end = [(Some 0, Some 0); (Some 1, None); (Some 2, Some 1); (Some 3, None); (Some 4, None)]%nat.
Proof. vm_compute. reflexivity. Qed.

(* ---- coordinates that are not small integers (round 4) ----
   Model/Sjoin.v takes integer coordinates.  Model/SjoinFloat.v is the same loop (candidates
   from the bounds row, exact filter with the array kernels) over binary64; harness/c05_float.py
   compares the real sjoin with it, bit for bit, on decimal / tiny / huge / near-collinear
   float64 frames.  Two facts about that model: its pair table is exact for EVERY float64
   frame (each present pair with the point in the bounds row and the float kernels answering
   True, exactly once), and on images of integers |v| <= 2^25 its intersection test IS the
   integer test the theorems above are about (every shape kind). *)
From SP Require Model.FloatKernels Model.SjoinFloat Proofs.FloatExact Proofs.SjoinFloatProofs
                Proofs.SjoinFloatExact.

Theorem C05_float_pairs_exact : forall left right l r,
  In (l, r) (SjoinFloat.fsjoin_pairs left right) <->
  exists p s, nth_error left l = Some (Some p) /\ nth_error right r = Some (Some s) /\
              SjoinFloat.fcandidate p s = true /\ SjoinFloat.fintersects p s = true.
Proof. exact SjoinFloatProofs.fsjoin_pairs_spec. Qed.
Print Assumptions C05_float_pairs_exact.

Theorem C05_float_pairs_NoDup : forall left right, NoDup (SjoinFloat.fsjoin_pairs left right).
Proof. exact SjoinFloatProofs.fsjoin_pairs_NoDup. Qed.
Print Assumptions C05_float_pairs_NoDup.

(* [FloatExact.FintS f z]: f is finite, its real value is IZR z, and |z| <= 2^25 *)
Theorem C05_float_intersects_point_exact : forall x y zx zy px py zpx zpy,
  FloatExact.FintS x zx -> FloatExact.FintS y zy ->
  FloatExact.FintS px zpx -> FloatExact.FintS py zpy ->
  SjoinFloat.fintersects (x, y) (SjoinFloat.FPoint px py) = sc_point zx zy zpx zpy.
Proof. exact SjoinFloatExact.fintersects_point_exact. Qed.
Print Assumptions C05_float_intersects_point_exact.

Theorem C05_float_intersects_multipoint_exact : forall x y zx zy flat zflat,
  FloatExact.FintS x zx -> FloatExact.FintS y zy -> Forall2 FloatExact.FintS flat zflat ->
  SjoinFloat.fintersects (x, y) (SjoinFloat.FMultiPoint flat) = sc_multipoint zx zy zflat.
Proof. exact SjoinFloatExact.fintersects_multipoint_exact. Qed.
Print Assumptions C05_float_intersects_multipoint_exact.

(* lines, rings, multilines: the array form of Model/PointShape.v (sub-lines with an even
   number of values, as every constructor of the library produces) *)
Theorem C05_float_intersects_lines_exact : forall x y zx zy lines zlines,
  FloatExact.FintS x zx -> FloatExact.FintS y zy ->
  Forall2 (Forall2 FloatExact.FintS) lines zlines ->
  Forall (fun l : list Z => Nat.even (List.length l) = true) zlines ->
  ar_lines zx zy zlines false = Value (SjoinFloat.fintersects (x, y) (SjoinFloat.FLines lines)).
Proof. exact SjoinFloatExact.fintersects_lines_exact. Qed.
Print Assumptions C05_float_intersects_lines_exact.

Theorem C05_float_intersects_polygon_exact : forall x y zx zy vals zvals offs,
  FloatExact.FintS x zx -> FloatExact.FintS y zy -> Forall2 FloatExact.FintS vals zvals ->
  SjoinFloat.fintersects (x, y) (SjoinFloat.FPolygon vals offs) =
  point_intersects_polygon zx zy zvals offs.
Proof. exact SjoinFloatExact.fintersects_polygon_exact. Qed.
Print Assumptions C05_float_intersects_polygon_exact.

(* non-vacuity, run by the kernel: with h = 2^-28, the segment (10, 50) - (10+h, 50+h): its
   midpoint (row 0) and its start (row 4) are on it, (h/4, h/2) and (3h/4, h/2) beyond (10, 50)
   (rows 1, 3: inside its bounds row, |cross product| = 2^-58) are not; a missing point and a
   missing shape give nothing; the triangle (10, 50), (10+h, 50), (10, 50+h) holds row 1, not
   row 3, and - the code's rule on the boundary - the midpoint of its hypotenuse, not its vertex *)
From Coq Require Import PrimFloat.
Example ex_float_tiny_segment :
  SjoinFloat.fsjoin_pairs
    [Some (0x1.40000001p+3, 0x1.900000004p+5); Some (0x1.400000008p+3, 0x1.900000004p+5); None;
     Some (0x1.400000018p+3, 0x1.900000004p+5); Some (0x1.4p+3, 0x1.9p+5)]%float
    [Some (SjoinFloat.FLines [[0x1.4p+3; 0x1.9p+5; 0x1.40000002p+3; 0x1.900000008p+5]]); None;
     Some (SjoinFloat.FPolygon [0x1.4p+3; 0x1.9p+5; 0x1.40000002p+3; 0x1.9p+5; 0x1.4p+3; 0x1.900000008p+5;
                                0x1.4p+3; 0x1.9p+5] [0; 8]%nat)]%float
  = [(0, 0); (4, 0); (0, 2); (1, 2)]%nat.
Proof. vm_compute. reflexivity. Qed.
