(* C18: results do not depend on scheduling, thread count or concurrent use — the
   modelled state machines (Model/Sched.v).  numba's threading layer, the GIL and Dask's
   scheduler are not part of the model: partial. *)
From Coq Require Import ZArith List Bool Arith Permutation String.
From SP Require Import Model.FS Model.Sched Spec.SchedSpec Proofs.SchedProofs Proofs.SchedFSProofs.
Import ListNotations.

(* ---- (a) prange kernels ---- *)

Theorem prange_any_order : forall (V : Type) (its its' : list (nat * list V)),
  Permutation its its' -> footprints_distinct its ->
  forall r, run_iterations its' r = run_iterations its r.
Proof. exact SchedProofs.prange_any_order. Qed.
Print Assumptions prange_any_order.

Theorem prange_any_interleaving : forall (V : Type) (its : list (nat * list V)) ws,
  winterleave (map iter_writes its) ws -> footprints_distinct its ->
  forall r, apply_writes ws r = run_iterations its r.
Proof. exact SchedProofs.prange_any_interleaving. Qed.
Print Assumptions prange_any_interleaving.

(* ---- (b) check-then-build caches ---- *)

Theorem cache_race_benign : forall (V : Type) (fx : V) checks sched,
  let s := srun fx sched (start checks) in
  Forall (returned_ok fx) (snd s) /\
  (fst s = None \/ fst s = Some fx) /\
  ((exists p v, In p (snd s) /\ p = Done v) -> fst s = Some fx).
Proof. exact SchedProofs.cache_race_benign. Qed.
Print Assumptions cache_race_benign.

Theorem cache_progress : forall (V : Type) (fx : V) checks sched j k mw,
  nth_error checks j = Some (k, mw) -> k + mw + 3 <= count_occ Nat.eq_dec sched j ->
  nth_error (snd (srun fx sched (start checks))) j = Some (Done (Some fx)).
Proof. exact SchedProofs.cache_progress. Qed.
Print Assumptions cache_progress.

(* ---- generic: independent operations commute, any interleaving ---- *)

Theorem ops_commute : forall (Loc Val : Type) (a b : op Loc Val),
  op_ok a -> op_ok b -> independent a b -> commute a b.
Proof. exact independent_commute. Qed.
Print Assumptions ops_commute.

Theorem schedule_independent : forall (Loc Val : Type) (ts : list (list (op Loc Val))) l,
  interleave ts l -> Forall (Forall op_ok) ts -> tasks_independent ts ->
  forall s, seq_store (run l s) (run (List.concat ts) s).
Proof. exact interleave_run. Qed.
Print Assumptions schedule_independent.

(* ---- (c) pack_partitions_to_parquet ---- *)

(* every operation of the tasks honours its declared footprints *)
Theorem fs_ops_ok : forall L asg k, layout_ok L = true ->
  Forall (Forall op_ok) (phase1 L asg) /\ Forall (Forall op_ok) (phase2 L asg k).
Proof. exact SchedFSProofs.fs_ops_ok. Qed.
Print Assumptions fs_ops_ok.

(* process_partition i and j (i <> j), concat_parts N and M (N <> M) are independent *)
Theorem footprints_disjoint : forall L, layout_ok L = true -> forall asg k,
  tasks_independent (phase1 L asg) /\ tasks_independent (phase2 L asg k).
Proof. exact SchedFSProofs.footprints_disjoint. Qed.
Print Assumptions footprints_disjoint.

(* every interleaving of the process_partition tasks followed (dask.compute barrier) by
   every interleaving of the concat_parts tasks leaves the tree of the sequential run *)
Theorem C18_fs_schedule_independent : forall L, layout_ok L = true -> forall asg k l1 l2,
  interleave (phase1 L asg) l1 -> interleave (phase2 L asg k) l2 ->
  forall s, seq_store (run (l1 ++ l2) s)
                      (run (List.concat (phase1 L asg) ++ List.concat (phase2 L asg k)) s).
Proof. exact fs_schedule_independent. Qed.
Print Assumptions C18_fs_schedule_independent.

(* ---- non-vacuity ---- *)

(* three iterations, the middle one storing twice, executed 2,0,1 *)
Example ex_prange :
  run_iterations [(2, [7]); (0, [1]); (1, [5; 6])] [0; 0; 0; 0] = [1; 6; 7; 0]
  /\ run_iterations [(0, [1]); (1, [5; 6]); (2, [7])] [0; 0; 0; 0] = [1; 6; 7; 0].
Proof. vm_compute. auto. Qed.

(* without the footprint property the order matters *)
Example ex_prange_overlap :
  run_iterations [(0, [1]); (0, [2])] [0] <> run_iterations [(0, [2]); (0, [1])] [0].
Proof. vm_compute. discriminate. Qed.

(* two threads racing through sindex (two checks each): both build, both return f x *)
Example ex_cache_race :
  srun 9 [0; 1; 0; 1; 0; 1; 0; 1] (start [(1, 0); (1, 0)]) = (Some 9, [Done (Some 9); Done (Some 9)]).
Proof. vm_compute. reflexivity. Qed.

Example ex_cache_second_sees :
  srun 9 [0; 0; 0; 0; 1; 1] (start [(1, 0); (0, 0)]) = (Some 9, [Done (Some 9); Done (Some 9)]).
Proof. vm_compute. reflexivity. Qed.

(* partition_bounds: the builder reads the cell once more before returning; the kinds of
   access of each step (0 read, 1 write, 2 none) *)
Example ex_cache_partition_bounds :
  cache_check ([(0, 1); (0, 1)], [0; 1; 0; 1; 1; 0; 0; 1; 1]) =
  (Some 1%Z, [Some (Some 1%Z); Some (Some 1%Z)], [0; 0; 1; 1; 0; 0; 0; 0; 2]).
Proof. vm_compute. reflexivity. Qed.

(* two input partitions, two output partitions, temporary directories inside the dataset;
   input 0 feeds outputs 0 and 1, input 1 feeds output 1 *)
Definition exL : layout := {| l_ds := [NStr "ds"%string]; l_tmp := TInside |}.
Definition ex_asg : list (list nat) := [[0; 1]; [1]].
Definition ex_locs : list loc :=
  [LPath [NStr "ds"%string; NPart 0]; LPath [NStr "ds"%string; NPart 1];
   LPath [NStr "ds"%string; NPart 1; NSub 0]; LPath [NStr "ds"%string; NPart 1; NSub 1]].

Example ex_fs_sequential :
  view (run (List.concat (phase1 exL ex_asg) ++ List.concat (phase2 exL ex_asg 2)) (initial exL 2)) ex_locs
  = [VFile [(0, 0)]; VFile [(0, 1); (1, 1)]; VNone; VNone].
Proof. vm_compute. reflexivity. Qed.

(* one of the other schedules: task 1 of each phase first, operations interleaved *)
Example ex_fs_other_schedule :
  let p1 := phase1 exL ex_asg in
  let p2 := phase2 exL ex_asg 2 in
  let a := nth 0 p1 [] in let b := nth 1 p1 [] in
  let c := nth 0 p2 [] in let d := nth 1 p2 [] in
  view (run ([nth 0 b (fs_rmtree []); nth 0 a (fs_rmtree []); nth 1 a (fs_rmtree [])] ++
             [nth 0 d (fs_rmtree []); nth 0 c (fs_rmtree []); nth 1 d (fs_rmtree []);
              nth 1 c (fs_rmtree []); nth 2 c (fs_rmtree []); nth 2 d (fs_rmtree []);
              nth 3 c (fs_rmtree []); nth 3 d (fs_rmtree [])]) (initial exL 2)) ex_locs
  = [VFile [(0, 0)]; VFile [(0, 1); (1, 1)]; VNone; VNone].
Proof. vm_compute. reflexivity. Qed.

(* an empty output partition: both of its directories are removed *)
Example ex_fs_empty_partition :
  view (run (List.concat (phase1 exL [[0]]) ++ List.concat (phase2 exL [[0]] 2)) (initial exL 2))
       [LPath [NStr "ds"%string; NPart 0]; LPath [NStr "ds"%string; NPart 1]]
  = [VFile [(0, 0)]; VNone].
Proof. vm_compute. reflexivity. Qed.

(* ---- round 4: results do not depend on what a result buffer held, nor - for the sequential
   reductions of the repository - on a chunking (Model/SchedBuffers.v) ---- *)
From SP Require Import Model.SchedBuffers Proofs.SchedBuffersProofs.

(* <kind>s_intersect_bounds clear the result before any early return: whatever the block
   handed to them held (zeros, or what an earlier call / another thread left in a recycled
   block), the answer is the same *)
Theorem C18_bounds_kernel_history_independent :
  forall (V : Type) (clear : V) degenerate stores g1 g2,
  List.length g1 = List.length g2 ->
  bounds_kernel clear degenerate stores g1 = bounds_kernel clear degenerate stores g2.
Proof. exact bounds_kernel_ignores_buffer. Qed.
Print Assumptions C18_bounds_kernel_history_independent.

(* length / area: np.full(n, nan) + the map kernel that skips missing elements *)
Theorem C18_measure_wrapper_history_independent :
  forall (V : Type) (nan : V) missing fn g1 g2,
  List.length g1 = List.length g2 ->
  measure_wrapper nan missing fn g1 = measure_wrapper nan missing fn g2.
Proof. exact measure_wrapper_ignores_buffer. Qed.
Print Assumptions C18_measure_wrapper_history_independent.

(* why the run looks for these classes: the early return placed before the clearing, and
   np.empty under the map kernel, make the answer a function of the buffer *)
Theorem C18_late_clear_refuted :
  exists (stores : list (nat * bool)) g1 g2, List.length g1 = List.length g2 /\
    bounds_kernel_late_clear false true stores g1 <> bounds_kernel_late_clear false true stores g2.
Proof. exact late_clear_depends_on_buffer. Qed.
Print Assumptions C18_late_clear_refuted.

Theorem C18_empty_measure_refuted :
  exists (missing : list bool) (fn : nat -> nat) g1 g2, List.length g1 = List.length g2 /\
    measure_wrapper_empty missing fn g1 <> measure_wrapper_empty missing fn g2.
Proof. exact empty_measure_depends_on_buffer. Qed.
Print Assumptions C18_empty_measure_refuted.

(* a binary64 sum split into per-thread chunks is not the sequential sum: the same terms in
   the same order, chunked in two ways, give two values (0.1 + 0.2 + 0.3) *)
Theorem C18_reduction_chunking_refuted :
  exists chunks1 chunks2 : list (list PrimFloat.float),
    List.concat chunks1 = List.concat chunks2 /\ chunked_sum chunks1 <> chunked_sum chunks2.
Proof. exact chunking_matters. Qed.
Print Assumptions C18_reduction_chunking_refuted.
