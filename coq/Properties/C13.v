(* C13: bounds / total_bounds are the tight extents of the finite coordinates. *)
From Coq Require Import ZArith List Bool Arith Lia.
From SP Require Import Model.Num Model.Arrow Model.Bounds Spec.BoundsSpec
                       Proofs.BoundsProofs.
Import ListNotations.

Theorem C13_kernel : forall vs, tight_box vs (total_bounds_interleaved vs).
Proof. exact kernel_tight. Qed.
Print Assumptions C13_kernel.

Theorem C13_kernel_1d : forall vs,
  let '(x0, y0, x1, y1) := total_bounds_interleaved vs in
  total_bounds_interleaved_1d vs 0 = (x0, x1) /\
  total_bounds_interleaved_1d vs 1 = (y0, y1).
Proof. exact kernel_1d. Qed.
Print Assumptions C13_kernel_1d.

Theorem C13_total_proj : forall a,
  let '(x0, y0, x1, y1) := la_total_bounds a in
  la_total_bounds_x a = (x0, x1) /\ la_total_bounds_y a = (y0, y1).
Proof. exact la_total_proj. Qed.
Print Assumptions C13_total_proj.

Theorem C13_point_total_proj : forall a,
  let '(x0, y0, x1, y1) := fa_total_bounds a in
  fa_total_bounds_x a = (x0, x1) /\ fa_total_bounds_y a = (y0, y1).
Proof. exact fa_total_proj. Qed.
Print Assumptions C13_point_total_proj.
