(* C13: bounds / total_bounds are the tight extents of the finite coordinates. *)
From Coq Require Import ZArith List Bool Arith Lia.
From SP Require Import Model.Num Model.Arrow Model.Bounds Spec.BoundsSpec
                       Proofs.BoundsProofs.
Import ListNotations.
Local Open Scope nat_scope.

(* ---- the kernels ---- *)

Theorem C13_kernel : forall vs, tight_box vs (total_bounds_interleaved vs).
Proof. exact kernel_tight. Qed.
Print Assumptions C13_kernel.

Theorem C13_kernel_1d : forall vs,
  let '(x0, y0, x1, y1) := total_bounds_interleaved vs in
  total_bounds_interleaved_1d vs 0 = (x0, x1) /\
  total_bounds_interleaved_1d vs 1 = (y0, y1).
Proof. exact kernel_1d. Qed.
Print Assumptions C13_kernel_1d.

(* ---- list arrays: per-row bounds ---- *)

Theorem C13_bounds_rows : forall a, wf_listarr a = true ->
  la_bounds a =
  map (fun i => total_bounds_interleaved (elem_flat a i)) (seq 0 (la_len a)).
Proof. exact la_bounds_rows. Qed.
Print Assumptions C13_bounds_rows.

Theorem C13_bounds_length : forall a, wf_listarr a = true ->
  length (la_bounds a) = la_len a.
Proof. exact la_bounds_length. Qed.
Print Assumptions C13_bounds_length.

Theorem C13_bounds_row_tight : forall a i,
  wf_listarr a = true -> (i < la_len a)%nat ->
  tight_box (elem_flat a i) (nth i (la_bounds a) nanbox).
Proof. exact la_bounds_row_tight. Qed.
Print Assumptions C13_bounds_row_tight.

Theorem C13_missing_row_nan : forall a i,
  wf_listarr a = true -> nulls_empty a = true -> (i < la_len a)%nat ->
  isna_at (la_valid a) (la_off a) i = true ->
  nth i (la_bounds a) nanbox = nanbox.
Proof. exact la_missing_row_nan. Qed.
Print Assumptions C13_missing_row_nan.

(* ---- list arrays: total bounds ---- *)

(* what flat_values reads is exactly the coordinates of the non-missing
   elements, in order *)
Theorem C13_flat_values : forall a,
  wf_listarr a = true -> nulls_empty a = true ->
  flat_values a = la_valid_coords a.
Proof. exact flat_values_valid_coords. Qed.
Print Assumptions C13_flat_values.

(* full strength: holds without [even_outer] *)
Theorem C13_total_noeven : forall a,
  wf_listarr a = true -> nulls_empty a = true ->
  tight_box (la_valid_coords a) (la_total_bounds a).
Proof. exact la_total_tight. Qed.
Print Assumptions C13_total_noeven.

Theorem C13_total : forall a,
  wf_listarr a = true -> nulls_empty a = true -> even_outer a = true ->
  tight_box (la_valid_coords a) (la_total_bounds a).
Proof. exact la_total_tight_even. Qed.
Print Assumptions C13_total.

Theorem C13_total_proj : forall a,
  let '(x0, y0, x1, y1) := la_total_bounds a in
  la_total_bounds_x a = (x0, x1) /\ la_total_bounds_y a = (y0, y1).
Proof. exact la_total_proj. Qed.
Print Assumptions C13_total_proj.

(* ---- list arrays: every row lies inside the total ---- *)

Theorem C13_rows_in_total : forall a i x0 y0 x1 y1,
  wf_listarr a = true -> nulls_empty a = true -> even_outer a = true ->
  (i < la_len a)%nat -> isna_at (la_valid a) (la_off a) i = false ->
  nth i (la_bounds a) nanbox = (x0, y0, x1, y1) ->
  let '(X0, Y0, X1, Y1) := la_total_bounds a in
  (forall v, x0 = Some v -> exists t, X0 = Some t /\ (t <= v)%Z) /\
  (forall v, x1 = Some v -> exists t, X1 = Some t /\ (v <= t)%Z) /\
  (forall v, y0 = Some v -> exists t, Y0 = Some t /\ (t <= v)%Z) /\
  (forall v, y1 = Some v -> exists t, Y1 = Some t /\ (v <= t)%Z).
Proof. exact la_rows_in_total. Qed.
Print Assumptions C13_rows_in_total.

(* [even_outer] cannot be dropped from C13_rows_in_total: a well-formed array
   without missing elements whose row 1 has xmax 100 while the total xmax is 5
   (offsets [0;1;3]: the row is read from an odd position of the buffer). *)
Theorem C13_rows_in_total_needs_even :
  exists a i v t,
    wf_listarr a = true /\ nulls_empty a = true /\ even_outer a = false /\
    (i < la_len a)%nat /\ isna_at (la_valid a) (la_off a) i = false /\
    snd (fst (nth i (la_bounds a) nanbox)) = Some v /\
    snd (fst (la_total_bounds a)) = Some t /\ (t < v)%Z.
Proof. exact la_rows_in_total_needs_even. Qed.
Print Assumptions C13_rows_in_total_needs_even.

(* ---- fixed (point) arrays ---- *)

Theorem C13_point_rows : forall a, wf_fixarr a = true ->
  fa_bounds a =
  map (fun p => total_bounds_interleaved (point_coords p)) (fa_decode a).
Proof. exact fa_bounds_rows. Qed.
Print Assumptions C13_point_rows.

Theorem C13_point_total : forall a, wf_fixarr a = true ->
  tight_box (fa_valid_coords a) (fa_total_bounds a).
Proof. exact fa_total_tight. Qed.
Print Assumptions C13_point_total.

Theorem C13_point_total_proj : forall a,
  let '(x0, y0, x1, y1) := fa_total_bounds a in
  fa_total_bounds_x a = (x0, x1) /\ fa_total_bounds_y a = (y0, y1).
Proof. exact fa_total_proj. Qed.
Print Assumptions C13_point_total_proj.

(* ---- non-vacuity ---- *)

(* two nesting levels, sliced at offset 1, slot 2 (absolute 3) missing, two NaN
   coordinates; values 0..1 belong to the slot cut off by the slice *)
Definition ex_la : listarr :=
  {| la_off := 1; la_len := 3;
     la_valid := Some [true; true; false; true];
     la_offs := [[0; 1; 3; 3; 4]; [0; 2; 6; 8; 12]];
     la_vals := [Some 100%Z; Some 100%Z;
                 Some 1%Z; Some 5%Z; None; Some (-3)%Z; Some 4%Z; Some 2%Z;
                 Some 7%Z; None; Some (-2)%Z; Some 9%Z] |}.

Example ex_la_guards :
  (wf_listarr ex_la, nulls_empty ex_la, even_outer ex_la) = (true, true, true).
Proof. vm_compute; reflexivity. Qed.

Example ex_la_isna : la_isna ex_la = [false; true; false].
Proof. vm_compute; reflexivity. Qed.

Example ex_la_outer : buffer_outer_offsets ex_la = [2; 8; 8; 12].
Proof. vm_compute; reflexivity. Qed.

Example ex_la_decode :
  decode_flat ex_la =
  [Some [Some 1%Z; Some 5%Z; None; Some (-3)%Z; Some 4%Z; Some 2%Z];
   None;
   Some [Some 7%Z; None; Some (-2)%Z; Some 9%Z]].
Proof. vm_compute; reflexivity. Qed.

Example ex_la_all :
  la_all ex_la =
  ([(Some 1%Z, Some (-3)%Z, Some 4%Z, Some 5%Z);
    nanbox;
    (Some (-2)%Z, Some 9%Z, Some 7%Z, Some 9%Z)],
   (Some (-2)%Z, Some (-3)%Z, Some 7%Z, Some 9%Z),
   (Some (-2)%Z, Some 7%Z),
   (Some (-3)%Z, Some 9%Z)).
Proof. vm_compute; reflexivity. Qed.

(* point array sliced at offset 1, slot 1 (absolute 2) missing with placeholder
   values 99, slot 0 has a NaN y *)
Definition ex_fa : fixarr :=
  {| fa_off := 1; fa_len := 3;
     fa_valid := Some [true; true; false; true];
     fa_vals := [Some 50%Z; Some 50%Z; Some 1%Z; None; Some 99%Z; Some 99%Z;
                 Some (-4)%Z; Some 6%Z] |}.

Example ex_fa_guard : wf_fixarr ex_fa = true.
Proof. vm_compute; reflexivity. Qed.

Example ex_fa_decode :
  fa_decode ex_fa = [Some (Some 1%Z, None); None; Some (Some (-4)%Z, Some 6%Z)].
Proof. vm_compute; reflexivity. Qed.

Example ex_fa_all :
  fa_all ex_fa =
  ([(Some 1%Z, None, Some 1%Z, None);
    nanbox;
    (Some (-4)%Z, Some 6%Z, Some (-4)%Z, Some 6%Z)],
   (Some (-4)%Z, Some 6%Z, Some 1%Z, Some 6%Z),
   (Some (-4)%Z, Some 1%Z),
   (Some 6%Z, Some 6%Z)).
Proof. vm_compute; reflexivity. Qed.

(* an extent that is a genuine min/max, and an empty one *)
Example ex_extent : extent [3; -1; 2]%Z (Some (-1)%Z) (Some 3%Z).
Proof.
  cbn. exists (-1)%Z, 3%Z. repeat split; cbn; try tauto;
    intros x [<-|[<-|[<-|[]]]]; lia.
Qed.

Example ex_extent_not_loose : ~ extent [3; -1; 2]%Z (Some (-2)%Z) (Some 3%Z).
Proof.
  cbn. intros (a & b & Ha & _ & [Hin _] & _). injection Ha as <-.
  cbn in Hin. lia.
Qed.

(* ---- total_bounds as the combination of boxes (session 4) ----
   What the harness' Dask section evaluates in the kernel: DaskGeoSeries.total_bounds is
   [box_total] (NaN-ignoring min / max, Model/DaskModel.v) of partition_bounds, row i of which
   is the total_bounds of partition i.  The three theorems say that this combination loses
   nothing: the total_bounds of an array is the combination of its own bounds rows, and the
   combination of the total_bounds of any split of the coordinates into pieces (partitions;
   each piece whole (x, y) pairs) is the total_bounds of the whole. *)
From SP Require Import Model.Rtree Model.DaskModel Proofs.DaskProofs.

Theorem C13_total_is_union_of_rows : forall a,
  wf_listarr a = true -> even_outer a = true ->
  la_total_bounds a = box_total (la_bounds a).
Proof. exact la_total_is_box_total. Qed.
Print Assumptions C13_total_is_union_of_rows.

Theorem C13_point_total_is_union_of_rows : forall a,
  wf_fixarr a = true -> fa_total_bounds a = box_total (fa_bounds a).
Proof. exact fa_total_is_box_total. Qed.
Print Assumptions C13_point_total_is_union_of_rows.

Theorem C13_dask_combination : forall pieces,
  Forall (fun l => Nat.even (length l) = true) pieces ->
  total_bounds_interleaved (concat pieces) = box_total (map total_bounds_interleaved pieces).
Proof. exact tbi_concat. Qed.
Print Assumptions C13_dask_combination.

(* non-vacuity: three partitions, the middle one without any finite coordinate (NaN row) *)
Example ex_dask_combination :
  box_total (map total_bounds_interleaved
               [[Some 3%Z; Some 1%Z; None; Some 9%Z]; [None; None]; [Some (-2)%Z; Some 4%Z]]) =
  (Some (-2)%Z, Some 1%Z, Some 3%Z, Some 9%Z).
Proof. vm_compute; reflexivity. Qed.

(* ------------------------------------------------------------------ *)
(* Binary64 (Model/PackFloat.v [f_total_bounds]: nan-skipping min / max folds on Coq's
   primitive floats; Proofs/FloatBoundsCombine.v): the combination theorem for float64
   VALUES.  min / max select (no rounding) and skip NaN, but +0.0 and -0.0 compare equal:
   the combination holds up to the sign of a zero bound ([feq_mod_zero]: bitwise equal, or
   both zeros, or both NaN), whatever the order in which the values are met.            *)
(* ------------------------------------------------------------------ *)
From Coq Require Import PrimFloat SpecFloat FloatOps Permutation.
From SP Require Import Model.FloatData2Coord Model.PackFloat Proofs.FloatBoundsCombine.

(* one column *)
Theorem C13_f_nanmin_partition_independent : forall chunks : list (list float),
  feq_mod_zero (f_nanmin (map f_nanmin chunks)) (f_nanmin (concat chunks)).
Proof. exact f_nanmin_partition_independent. Qed.
Print Assumptions C13_f_nanmin_partition_independent.

Theorem C13_f_nanmax_partition_independent : forall chunks : list (list float),
  feq_mod_zero (f_nanmax (map f_nanmax chunks)) (f_nanmax (concat chunks)).
Proof. exact f_nanmax_partition_independent. Qed.
Print Assumptions C13_f_nanmax_partition_independent.

(* the values in any order, split in any two ways *)
Theorem C13_f_nanmin_permutation_independent : forall chunks chunks' : list (list float),
  Permutation (concat chunks) (concat chunks') ->
  feq_mod_zero (f_nanmin (map f_nanmin chunks)) (f_nanmin (map f_nanmin chunks')).
Proof. exact f_nanmin_permutation_independent. Qed.
Print Assumptions C13_f_nanmin_permutation_independent.

Theorem C13_f_nanmax_permutation_independent : forall chunks chunks' : list (list float),
  Permutation (concat chunks) (concat chunks') ->
  feq_mod_zero (f_nanmax (map f_nanmax chunks)) (f_nanmax (map f_nanmax chunks')).
Proof. exact f_nanmax_permutation_independent. Qed.
Print Assumptions C13_f_nanmax_permutation_independent.

(* whatever the order of the reduction and the tie rule of an implementation of nanmin:
   an answer that is NaN when there is no number and otherwise an element of the list
   that no number of the list is below is [f_nanmin] up to the sign of a zero *)
Theorem C13_f_nanmin_characterised : forall l m,
  (all_nan l /\ is_nan m = true) \/
  (is_nan m = false /\ In m l /\
   forall x, In x l -> is_nan x = false -> (x <? m)%float = false) ->
  feq_mod_zero m (f_nanmin l).
Proof. exact f_nanmin_characterised. Qed.
Print Assumptions C13_f_nanmin_characterised.

Theorem C13_f_nanmax_characterised : forall l m,
  (all_nan l /\ is_nan m = true) \/
  (is_nan m = false /\ In m l /\
   forall x, In x l -> is_nan x = false -> (m <? x)%float = false) ->
  feq_mod_zero m (f_nanmax l).
Proof. exact f_nanmax_characterised. Qed.
Print Assumptions C13_f_nanmax_characterised.

(* the four columns: total bounds of the concatenation = nan-combination of the pieces'
   total bounds (pieces = the bounds rows of the partitions of a frame) *)
Theorem C13_f_dask_combination : forall pieces : list (list frow),
  frow_eq_mod_zero (f_total_bounds (map f_total_bounds pieces)) (f_total_bounds (concat pieces)).
Proof. exact f_total_bounds_partition_independent. Qed.
Print Assumptions C13_f_dask_combination.

(* the model's folds scan from left to right and keep the running value on a tie ("first
   best", associative): for CONSECUTIVE pieces the combination is bit for bit, zero signs
   included; a zero sign can change only with the order in which the values are met *)
Theorem C13_f_dask_combination_sequential : forall pieces : list (list frow),
  f_total_bounds (map f_total_bounds pieces) = f_total_bounds (concat pieces).
Proof. exact f_total_bounds_split_exact. Qed.
Print Assumptions C13_f_dask_combination_sequential.

(* non-vacuity: same rows met in another order: +0.0 / -0.0 as x0 (and as x1); a piece of
   NaN rows only, an empty piece, NaN rows only *)
Example ex_f_combination_zero_sign : ex_f_zero_sign_depends_on_order_stmt.
Proof. exact ex_f_zero_sign_depends_on_order_holds. Qed.
Example ex_f_combination_zero_sign_upper : ex_f_zero_sign_upper_stmt.
Proof. exact ex_f_zero_sign_upper_holds. Qed.
Example ex_f_combination_all_nan_piece : ex_f_all_nan_partition_stmt.
Proof. exact ex_f_all_nan_partition_holds. Qed.

(* ---- the numba kernel itself on binary64 (Model/FloatBounds.v: inf / -inf start, isfinite
   filter, numba's min / max = keep the running value on a tie, NaN when nothing finite) ---- *)
From SP Require Import Model.FloatBounds.

(* float version of C13_dask_combination on the KERNEL: its answer on a concatenation of
   coordinate lists (whole pairs each) is the nan-combination of its answers on the pieces
   (pieces = elements of an array: total_bounds against bounds; or partitions of a frame).
   Bit for bit - the kernel and the row-level folds scan in the same order - hence also up to
   feq_mod_zero; for the pieces met in any other order: C13_f_nanmin_permutation_independent *)
Theorem C13_f_kernel_dask_combination : forall pieces,
  Forall (fun l => Nat.even (length l) = true) pieces ->
  f_total_bounds_interleaved (concat pieces) =
  f_total_bounds (map f_total_bounds_interleaved pieces).
Proof. exact f_tbi_concat. Qed.
Print Assumptions C13_f_kernel_dask_combination.

(* the kernel is the four nan-skipping folds over the de-interleaved coordinates, a
   non-finite coordinate read as NaN *)
Theorem C13_f_kernel_is_folds : forall vs,
  f_total_bounds_interleaved vs =
  (f_nanmin (map f_clean (f_xs vs)), f_nanmin (map f_clean (f_ys vs)),
   f_nanmax (map f_clean (f_xs vs)), f_nanmax (map f_clean (f_ys vs))).
Proof. exact f_tbi_is_folds. Qed.
Print Assumptions C13_f_kernel_is_folds.

(* non-vacuity (the five inputs were run through the real total_bounds_interleaved: same
   bits): the first zero met is kept as minimum and as maximum; +-inf and NaN skipped;
   nothing finite / nothing at all: NaN *)
Example ex_f_kernel : ex_f_kernel_stmt.
Proof. exact ex_f_kernel_holds. Qed.
