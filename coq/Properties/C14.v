(* C14 — length, area and boundary are the exact measures of each element.
   Theorem statements only; proofs are in Proofs/Measures*.v. *)
From Coq Require Import ZArith List Bool Arith Reals.
From SP Require Import Model.Num Model.Arrow Model.Measures Proofs.BoundsProofs
  Spec.MeasuresSpec Proofs.MeasuresProofs Proofs.MeasuresMapProofs Proofs.MeasuresArrayProofs
  Proofs.MeasuresRealProofs Proofs.MeasuresScalarProofs.
Import ListNotations.
Local Open Scope nat_scope.

(* ---- area ---- *)

(* For a closed ring (first vertex = last vertex) of any length with finite
   coordinates, laid out anywhere in a values buffer, the loop of compute_area
   (main loop + wrap-around term) is the shoelace sum
   Sigma (x_i*y_{i+1} - x_{i+1}*y_i)  (doubled area). *)
Theorem area_is_shoelace : forall vals start stop ps,
  start <= stop -> stop <= length vals ->
  slice start stop vals = flatz ps ->
  closed ps ->
  compute_area vals [start; stop] = Some (shoelace2 ps).
Proof. exact MeasuresProofs.area_is_shoelace. Qed.
Print Assumptions area_is_shoelace.

(* fewer than 3 vertices: 0, whatever the ring holds *)
Theorem area_lt3_zero : forall vals start stop,
  stop - start < 6 -> compute_area vals [start; stop] = Some 0%Z.
Proof. exact MeasuresProofs.area_lt3_zero. Qed.
Print Assumptions area_lt3_zero.

Theorem area_rev : forall ps, shoelace2 (rev ps) = (- shoelace2 ps)%Z.
Proof. exact MeasuresProofs.area_rev. Qed.
Print Assumptions area_rev.

Theorem area_translate : forall ps dx dy,
  closed ps -> shoelace2 (translate dx dy ps) = shoelace2 ps.
Proof. exact MeasuresProofs.area_translate. Qed.
Print Assumptions area_translate.

(* closure is necessary: on an unclosed ring the code's value is neither the
   shoelace sum nor translation invariant *)
Theorem area_unclosed_refuted :
  exists ps dx dy,
    ~ closed ps /\
    compute_area (flatz ps) [0; 2 * length ps] <> Some (shoelace2 ps) /\
    compute_area (flatz (translate dx dy ps)) [0; 2 * length ps]
      <> compute_area (flatz ps) [0; 2 * length ps].
Proof. exact MeasuresProofs.area_unclosed_refuted. Qed.
Print Assumptions area_unclosed_refuted.

(* The area of a polygon (offs = its ring offsets) or of a multipolygon element
   (offs = the ring offsets of all its polygons): the sum of the shoelace values of
   its closed finite rings ... *)
Theorem C14_polygon_area : forall vals offs pss,
  mono offs = true -> all_even offs = true -> last offs 0 <= length vals ->
  segs vals offs = map flatz pss ->
  Forall closed pss ->
  compute_area vals offs = Some (zsum (map shoelace2 pss)).
Proof. exact MeasuresMapProofs.polygon_area_shoelace. Qed.
Print Assumptions C14_polygon_area.

(* ... which for a ring-oriented polygon (shell counter-clockwise, holes clockwise)
   is |shell| - Sigma |hole| ... *)
Theorem C14_polygon_area_oriented : forall shell holes,
  (0 <= shoelace2 shell)%Z ->
  Forall (fun h => (shoelace2 h <= 0)%Z) holes ->
  zsum (map shoelace2 (shell :: holes)) =
  (Z.abs (shoelace2 shell) - zsum (map (fun h => Z.abs (shoelace2 h)) holes))%Z.
Proof. exact MeasuresMapProofs.oriented_sum. Qed.
Print Assumptions C14_polygon_area_oriented.

(* ... and for a multipolygon the sum over its parts *)
Theorem C14_multipolygon_area_parts : forall parts : list (list (list (Z * Z))),
  zsum (map shoelace2 (concat parts)) = zsum (map (fun p => zsum (map shoelace2 p)) parts).
Proof. exact MeasuresMapProofs.zsum_concat. Qed.
Print Assumptions C14_multipolygon_area_parts.

(* ---- length ---- *)

(* The arguments of the sqrt's summed by compute_line_length are, ring by ring and in
   order, exactly the squared lengths of the segments between consecutive vertices
   whose both ends are finite ([ring_terms r = seg_terms (pairs r)]); the float result
   is the exact integer sum when all are perfect squares ([exact_sum]). *)
Theorem C14_length_terms : forall vals offs,
  mono offs = true -> all_even offs = true -> last offs 0 <= length vals ->
  compute_line_length vals offs =
  (concat (map (fun r => seg_terms (pairs r)) (segs vals offs)),
   exact_sum (concat (map (fun r => seg_terms (pairs r)) (segs vals offs)))).
Proof. exact MeasuresMapProofs.compute_length_rings. Qed.
Print Assumptions C14_length_terms.

Theorem length_translate : forall dx dy r,
  seg_terms (pairs (ntranslate dx dy r)) = seg_terms (pairs r).
Proof. exact MeasuresMapProofs.length_translate. Qed.
Print Assumptions length_translate.

(* The spec of length is Sigma sqrt(IZR t) over those terms ([length_R]); it is the sum
   of the Euclidean lengths of the segments with both ends finite ... *)
Theorem C14_length_is_euclidean : forall ps : list (num * num),
  length_R (seg_terms ps) = seg_lengths_R ps.
Proof. exact MeasuresRealProofs.length_R_segments. Qed.
Print Assumptions C14_length_is_euclidean.

(* ... and when every term is a perfect square (axis-parallel / Pythagorean segments)
   it is exactly the integer [exact_sum] returns, which the correspondence check
   compares exactly with the implementation's float.  (Rounding of the float sqrt /
   summation otherwise is outside the model: validated to 1e-12, "partial".) *)
Theorem C14_length_exact : forall ts s, exact_sum ts = Some s -> length_R ts = IZR s.
Proof. exact MeasuresRealProofs.exact_sum_correct. Qed.
Print Assumptions C14_length_exact.

(* ---- array form = map of the ring-level measure over the elements ---- *)

(* For every kind (all three nesting depths) and every well-formed buffer layout
   (any offset, any validity bitmap): row i of .area / .length is NaN when element i
   is missing and otherwise the measure of the rings of element i
   ([elem_rings]: decoded through the offsets levels), whatever else the buffers hold. *)
Theorem C14_array_is_map : forall k a,
  length (la_offs a) = depth k -> wf_listarr a = true -> even_inner a = true ->
  arr_area k a =
    map (fun i => if isna_at (la_valid a) (la_off a) i then None
                  else spec_area k (elem_rings a i)) (seq 0 (la_len a))
  /\
  arr_length k a =
    map (fun i => if isna_at (la_valid a) (la_off a) i then None
                  else Some (spec_length k (elem_rings a i))) (seq 0 (la_len a)).
Proof. exact MeasuresArrayProofs.array_is_map. Qed.
Print Assumptions C14_array_is_map.

(* scalar form = array form: row i of the array equals the scalar property of the
   element re-encoded from its own nested lists with offsets starting at 0
   ([fresh_scalar]: what arr[i] builds), for every kind and nesting depth *)
Theorem C14_scalar_array_agree : forall k a i,
  length (la_offs a) = depth k -> wf_listarr a = true -> even_inner a = true ->
  i < la_len a -> isna_at (la_valid a) (la_off a) i = false ->
  nth i (arr_area k a) None = sc_area k (fresh_scalar k a i) /\
  nth i (arr_length k a) None = Some (sc_length k (fresh_scalar k a i)).
Proof. exact MeasuresScalarProofs.scalar_array_agree. Qed.
Print Assumptions C14_scalar_array_agree.

(* [elem_rings] refines the flat decoding of Model/Arrow.v (the abstraction function
   shared with the other properties): the rings of element i, concatenated, are the
   coordinates of element i *)
Theorem C14_elem_rings_flat : forall a,
  wf_listarr a = true -> 1 <= length (la_offs a) <= 3 ->
  forall i, i < la_len a -> concat (elem_rings a i) = elem_flat a i.
Proof. exact MeasuresScalarProofs.elem_rings_flat. Qed.
Print Assumptions C14_elem_rings_flat.

(* the rings of a multipolygon element are those of its parts, in order *)
Theorem C14_parts_rings : forall a o0 o1 o2,
  la_offs a = [o0; o1; o2] -> wf_listarr a = true ->
  forall i, i < la_len a -> concat (elem_parts a i) = elem_rings a i.
Proof. exact MeasuresScalarProofs.elem_parts_rings. Qed.
Print Assumptions C14_parts_rings.

(* ---- boundary ---- *)

(* scalar forms: MultiPolygon.boundary holds exactly the element's rings in order;
   Polygon.boundary is the same ListScalar *)
Theorem C14_boundary_scalar_multipolygon : forall parts,
  sc_rings (sc_multipolygon_boundary (fresh3 parts)) = concat parts.
Proof. exact MeasuresScalarProofs.scalar_boundary_fresh3. Qed.
Print Assumptions C14_boundary_scalar_multipolygon.

Theorem C14_boundary_scalar_polygon : forall s, sc_rings (sc_polygon_boundary s) = sc_rings s.
Proof. exact MeasuresScalarProofs.scalar_boundary_polygon. Qed.
Print Assumptions C14_boundary_scalar_polygon.


Theorem C14_boundary_multipolygon : forall a o0 o1 o2,
  la_offs a = [o0; o1; o2] -> wf_listarr a = true ->
  let b := multipolygon_boundary a in
  la_len b = la_len a /\
  buffer_values b = buffer_values a /\
  last (la_offs b) [] = o2 /\
  la_isna b = la_isna a /\
  (forall i, i < la_len a -> elem_rings b i = elem_rings a i).
Proof. exact MeasuresArrayProofs.multipolygon_boundary_spec. Qed.
Print Assumptions C14_boundary_multipolygon.

Theorem C14_boundary_multipolygon_length : forall a o0 o1 o2,
  la_offs a = [o0; o1; o2] -> wf_listarr a = true ->
  arr_length KMultiLine (multipolygon_boundary a) = arr_length KMultiPolygon a.
Proof. exact MeasuresArrayProofs.multipolygon_boundary_length. Qed.
Print Assumptions C14_boundary_multipolygon_length.

Theorem C14_boundary_polygon : forall a,
  polygon_boundary a = a /\
  arr_length KMultiLine (polygon_boundary a) = arr_length KPolygon a.
Proof. exact MeasuresArrayProofs.polygon_boundary_spec. Qed.
Print Assumptions C14_boundary_polygon.

(* ---- non-vacuity ---- *)
Example ex_square :
  compute_area (flatz [(0,0); (2,0); (2,2); (0,2); (0,0)]%Z) [0; 10] = Some 8%Z.
Proof. vm_compute. reflexivity. Qed.
Example ex_square_closed : closed [(0,0); (2,0); (2,2); (0,2); (0,0)]%Z.
Proof. vm_compute. reflexivity. Qed.

(* ================================================================== *)
(* ---- float part: the bit-exact binary64 model (Model/FloatMeasures.v), which the
        correspondence check compares with the implementation bit for bit, related to
        the exact model above.  Proofs in Proofs/FloatMeasuresProofs.v. ---- *)
From SP Require Import Model.FloatMeasures Proofs.FloatMeasuresProofs.

(* The float length is the left-to-right float sum, starting from +0.0, of
   sqrt(dx*dx + dy*dy) over the list [fseg_terms vals offs]; every segment in it has both
   ends finite; and under any abstraction [ab] of the floats that sends exactly
   NaN / +inf / -inf to None, that list is -- segment for segment, in the same order --
   the term list of the exact model (C14_length_terms: the segments between consecutive
   vertices with both ends finite, ring by ring). *)
Theorem f_length_structure : forall ab : PrimFloat.float -> num,
  (forall f, ab f = None <-> f_isfinite f = false) ->
  forall vals offs,
    f_compute_line_length vals offs = fsum_from PrimFloat.zero (fseg_terms vals offs) /\
    Forall (fun s => fseg_finite s = true) (fseg_terms vals offs) /\
    map (zsq ab) (fseg_terms vals offs) = fst (compute_line_length (map ab vals) offs).
Proof. exact FloatMeasuresProofs.f_length_structure. Qed.
Print Assumptions f_length_structure.

Theorem f_length_structure_rings : forall ab : PrimFloat.float -> num,
  (forall f, ab f = None <-> f_isfinite f = false) ->
  forall vals offs,
    mono offs = true -> all_even offs = true -> last offs 0 <= length vals ->
    map (zsq ab) (fseg_terms vals offs) =
    concat (map (fun r => seg_terms (pairs r)) (segs (map ab vals) offs)).
Proof. exact FloatMeasuresProofs.f_length_structure_rings. Qed.
Print Assumptions f_length_structure_rings.

(* array level, all three nesting depths, any well-formed buffer layout: row i is NaN
   when element i is missing, the float kernel on the element's ring offsets otherwise *)
Theorem f_array_rows : forall k a fv,
  length (la_offs a) = kind_depth k -> f_wf a fv = true ->
  f_arr_length k a fv =
    map (fun i => if isna_at (la_valid a) (la_off a) i then PrimFloat.nan
                  else f_elem_length k a fv i) (seq 0 (la_len a)) /\
  f_arr_area k a fv =
    map (fun i => if isna_at (la_valid a) (la_off a) i then PrimFloat.nan
                  else f_elem_area k a fv i) (seq 0 (la_len a)).
Proof. exact FloatMeasuresProofs.f_array_rows. Qed.
Print Assumptions f_array_rows.

Theorem f_missing_nan : forall k a fv i,
  length (la_offs a) = kind_depth k -> f_wf a fv = true ->
  i < la_len a -> isna_at (la_valid a) (la_off a) i = true ->
  length (f_arr_length k a fv) = la_len a /\ length (f_arr_area k a fv) = la_len a /\
  nth i (f_arr_length k a fv) PrimFloat.zero = PrimFloat.nan /\
  nth i (f_arr_area k a fv) PrimFloat.zero = PrimFloat.nan.
Proof. exact FloatMeasuresProofs.f_missing_nan. Qed.
Print Assumptions f_missing_nan.

(* ---- float area on integer-valued coordinates is exact ----
   [frep f z]: the binary64 number f is finite and its real value ([fvalue], through
   Flocq's IEEE 754 formalisation of the primitive floats) is the integer z.
   [area_nterms offs]: the number of terms x*(y'-y) the loops add for ring offsets
   [offs] (m - 1 for a ring of m >= 3 vertices; at most the number of vertices).
   Coordinates are floats holding the integers zs, |z| <= B.  Every difference is at
   most 2B, every product at most 2B^2 and every partial sum at most T*2B^2 in
   magnitude, so with T*2*B^2 <= 2^53 no operation rounds: the float area is finite and
   is EXACTLY (the doubled area of the exact model) / 2.  (The hypothesis
   [compute_area ... = Some z2] also says that every read is inside the buffer.) *)
Theorem f_area_exact_int : forall fv zs B offs z2,
  Forall2 frep fv zs -> Forall (fun z => (Z.abs z <= B)%Z) zs ->
  (Z.of_nat (area_nterms offs) * (2 * B * B) <= 2 ^ 53)%Z ->
  compute_area (map Some zs) offs = Some z2 ->
  ffinite (f_compute_area fv offs) = true /\
  fvalue (f_compute_area fv offs) = (IZR z2 / 2)%R.
Proof. exact FloatMeasuresProofs.f_area_exact_int. Qed.
Print Assumptions f_area_exact_int.

(* the same with the bound stated on the number of vertices m of the element's rings
   (offsets count values, two per vertex):  m * 2 * B * B <= 2^53 *)
Theorem f_area_exact_int_vertices : forall fv zs B offs z2 m,
  Forall2 frep fv zs -> Forall (fun z => (Z.abs z <= B)%Z) zs ->
  mono offs = true -> last offs 0 <= 2 * m ->
  (Z.of_nat m * 2 * B * B <= 2 ^ 53)%Z ->
  compute_area (map Some zs) offs = Some z2 ->
  ffinite (f_compute_area fv offs) = true /\
  fvalue (f_compute_area fv offs) = (IZR z2 / 2)%R.
Proof. exact FloatMeasuresProofs.f_area_exact_int_vertices. Qed.
Print Assumptions f_area_exact_int_vertices.

(* a single ring of m vertices *)
Theorem f_area_exact_ring : forall fv zs B m z2,
  Forall2 frep fv zs -> Forall (fun z => (Z.abs z <= B)%Z) zs ->
  (Z.of_nat m * 2 * B * B <= 2 ^ 53)%Z ->
  compute_area (map Some zs) [0; 2 * m] = Some z2 ->
  ffinite (f_compute_area fv [0; 2 * m]) = true /\
  fvalue (f_compute_area fv [0; 2 * m]) = (IZR z2 / 2)%R.
Proof. exact FloatMeasuresProofs.f_area_exact_ring. Qed.
Print Assumptions f_area_exact_ring.

(* with C14_polygon_area: for closed rings the float area is exactly half the sum of the
   shoelace values of the element's rings *)
Theorem f_area_is_shoelace : forall fv zs B offs pss m,
  Forall2 frep fv zs -> Forall (fun z => (Z.abs z <= B)%Z) zs ->
  mono offs = true -> all_even offs = true -> last offs 0 <= length zs ->
  last offs 0 <= 2 * m -> (Z.of_nat m * 2 * B * B <= 2 ^ 53)%Z ->
  segs (map Some zs) offs = map flatz pss -> Forall closed pss ->
  ffinite (f_compute_area fv offs) = true /\
  fvalue (f_compute_area fv offs) = (IZR (zsum (map shoelace2 pss)) / 2)%R.
Proof. exact FloatMeasuresProofs.f_area_is_shoelace. Qed.
Print Assumptions f_area_is_shoelace.

(* [frep] is inhabited by an explicit injection of the integers up to 2^53
   ([Z2F]: of_uint63 of the magnitude, negated for negative numbers) ... *)
Theorem frep_Z2F : forall z, (Z.abs z <= 2 ^ 53)%Z -> frep (Z2F z) z.
Proof. exact FloatMeasuresProofs.frep_Z2F. Qed.
Print Assumptions frep_Z2F.

(* ... so that (i) reads: on the image of an integer buffer *)
Theorem f_area_exact_Z2F : forall zs B offs z2 m,
  Forall (fun z => (Z.abs z <= B)%Z) zs -> (B <= 2 ^ 53)%Z ->
  mono offs = true -> last offs 0 <= 2 * m ->
  (Z.of_nat m * 2 * B * B <= 2 ^ 53)%Z ->
  compute_area (map Some zs) offs = Some z2 ->
  ffinite (f_compute_area (map Z2F zs) offs) = true /\
  fvalue (f_compute_area (map Z2F zs) offs) = (IZR z2 / 2)%R.
Proof. exact FloatMeasuresProofs.f_area_exact_Z2F. Qed.
Print Assumptions f_area_exact_Z2F.

(* non-vacuity, by kernel evaluation of both models: the 3-4-5 triangle *)
Example ex_f_area_triangle :
  f_compute_area (map Z2F [0; 0; 4; 0; 4; 3; 0; 0]%Z) [0; 8] = Z2F 6 /\
  compute_area (map Some [0; 0; 4; 0; 4; 3; 0; 0]%Z) [0; 8] = Some 12%Z.
Proof. split; vm_compute; reflexivity. Qed.

(* ---- float length on integer coordinates with perfect-square segments is exact ----
   When every sqrt summed by the exact model has a perfect-square argument
   ([exact_sum] = Some s: what the correspondence check of the exact model compares
   exactly), the float length is finite and is exactly the integer s: no subtraction,
   square, sum, sqrt or accumulation rounds (|coordinate| <= B with 8*B^2 <= 2^53; each
   root is at most 3B and T roots are accumulated with T*3B <= 2^53). *)
Theorem f_length_exact_squares : forall fv zs B offs s,
  Forall2 frep fv zs -> Forall (fun z => (Z.abs z <= B)%Z) zs -> (8 * B * B <= 2 ^ 53)%Z ->
  (Z.of_nat (length (fst (compute_line_length (map Some zs) offs))) * (3 * B) <= 2 ^ 53)%Z ->
  snd (compute_line_length (map Some zs) offs) = Some s ->
  ffinite (f_compute_line_length fv offs) = true /\
  fvalue (f_compute_line_length fv offs) = IZR s.
Proof. exact FloatMeasuresProofs.f_length_exact_squares. Qed.
Print Assumptions f_length_exact_squares.

Example ex_f_length_345 :
  f_compute_line_length (map Z2F [0; 0; 3; 4; 3; 0; 0; 0]%Z) [0; 8] = Z2F 12 /\
  compute_line_length (map Some [0; 0; 3; 4; 3; 0; 0; 0]%Z) [0; 8] = ([25; 16; 9]%Z, Some 12%Z).
Proof. split; vm_compute; reflexivity. Qed.

(* ================================================================== *)
(* ---- float length: forward error bound for arbitrary stored doubles ----
   (Proofs/FloatLengthBound.v, over Flocq's binary64.)  What the float `length` MEANS
   when the segment lengths are not integers.  u64 = 2^-53 is the unit roundoff.
   [seg_R (x0,y0,x1,y1)] = sqrt((X1-X0)^2 + (Y1-Y0)^2) over R, X = [fvalue x] the real value
   of the stored double; [segs_R l] = the sum of [seg_R] over l.  A segment is
   [seg_in_range] when each exact difference X1-X0, Y1-Y0 of its stored coordinates is 0 or
   has magnitude in [2^-500, 2^500]: then no square, sum or partial sum overflows and no
   square is subnormal (differences and sums of doubles have relative error <= u even in
   the subnormal range; the sqrt of a double is never subnormal). ---- *)
From SP Require Import Proofs.FloatLengthBound.

Theorem u64_value : u64 = (/ 2 ^ 53)%R.
Proof. exact FloatLengthBound.u64_value. Qed.
Print Assumptions u64_value.

Theorem seg_in_range_spec : forall x0 y0 x1 y1,
  seg_in_range (x0, y0, x1, y1) <->
  (let dx := (fvalue x1 - fvalue x0)%R in
   dx = 0%R \/ (/ 2 ^ 500 <= Rabs dx <= 2 ^ 500)%R) /\
  (let dy := (fvalue y1 - fvalue y0)%R in
   dy = 0%R \/ (/ 2 ^ 500 <= Rabs dy <= 2 ^ 500)%R).
Proof. exact FloatLengthBound.seg_in_range_spec. Qed.
Print Assumptions seg_in_range_spec.

Theorem seg_R_spec : forall x0 y0 x1 y1,
  seg_R (x0, y0, x1, y1) =
  R_sqrt.sqrt ((fvalue x1 - fvalue x0) * (fvalue x1 - fvalue x0) +
               (fvalue y1 - fvalue y0) * (fvalue y1 - fvalue y0))%R.
Proof. exact FloatLengthBound.seg_R_spec. Qed.
Print Assumptions seg_R_spec.

(* one segment: subtraction (1+u) on each difference, hence (1+u)^2 on each square, one
   (1+u) for each product and for their sum: the argument of sqrt is within (1+u)^4, the
   root within (1+u)^2, its rounding within (1+u)^3 *)
Theorem f_segment_length_bound : forall x0 y0 x1 y1,
  f_finite4 x0 y0 x1 y1 = true -> seg_in_range (x0, y0, x1, y1) ->
  ffinite (f_seglen x0 y0 x1 y1) = true /\
  (Rabs (fvalue (f_seglen x0 y0 x1 y1) - seg_R (x0, y0, x1, y1))
    <= ((1 + u64) ^ 3 - 1) * seg_R (x0, y0, x1, y1))%R.
Proof. exact FloatLengthBound.f_segment_length_bound. Qed.
Print Assumptions f_segment_length_bound.

(* the model function itself: [fseg_terms vals offs] is the list of segments the loops add
   (f_length_structure: consecutive vertices with both ends finite, ring by ring, in
   order); n = its length.  All terms are non-negative, so every accumulation costs one
   factor (1+u); the first one, 0 + r, is exact: exponent 3 + (n - 1) = n + 2. *)
Theorem f_length_bound : forall vals offs,
  Forall seg_in_range (fseg_terms vals offs) ->
  (Z.of_nat (length (fseg_terms vals offs)) <= 2 ^ 50)%Z ->
  ffinite (f_compute_line_length vals offs) = true /\
  (Rabs (fvalue (f_compute_line_length vals offs) - segs_R (fseg_terms vals offs))
    <= ((1 + u64) ^ (length (fseg_terms vals offs) + 2) - 1) * segs_R (fseg_terms vals offs))%R.
Proof. exact FloatLengthBound.f_length_bound. Qed.
Print Assumptions f_length_bound.

(* the two-sided form *)
Theorem f_length_bound_interval : forall vals offs,
  Forall seg_in_range (fseg_terms vals offs) ->
  (Z.of_nat (length (fseg_terms vals offs)) <= 2 ^ 50)%Z ->
  let n := length (fseg_terms vals offs) in
  let L := segs_R (fseg_terms vals offs) in
  ((1 - u64) ^ (n + 2) * L <= fvalue (f_compute_line_length vals offs)
                          <= (1 + u64) ^ (n + 2) * L)%R.
Proof. exact FloatLengthBound.f_length_bound_interval. Qed.
Print Assumptions f_length_bound_interval.

(* a sufficient condition on the coordinates alone: every finite stored coordinate is 0 or
   has magnitude in [2^-400, 2^400] (such doubles are multiples of 2^-452, so a difference
   of two of them is 0 or at least 2^-452 in magnitude) *)
Theorem coord_ok_spec : forall f,
  coord_ok f <->
  (f_isfinite f = true ->
   fvalue f = 0%R \/ (/ 2 ^ 400 <= Rabs (fvalue f) <= 2 ^ 400)%R).
Proof. exact FloatLengthBound.coord_ok_spec. Qed.
Print Assumptions coord_ok_spec.

Theorem f_length_bound_coords : forall vals offs,
  Forall coord_ok vals ->
  (Z.of_nat (length (fseg_terms vals offs)) <= 2 ^ 50)%Z ->
  ffinite (f_compute_line_length vals offs) = true /\
  (Rabs (fvalue (f_compute_line_length vals offs) - segs_R (fseg_terms vals offs))
    <= ((1 + u64) ^ (length (fseg_terms vals offs) + 2) - 1) * segs_R (fseg_terms vals offs))%R.
Proof. exact FloatLengthBound.f_length_bound_coords. Qed.
Print Assumptions f_length_bound_coords.

(* against the exact specification: coordinates are floats holding the integers zs
   (|z| <= 2^499); ts = the squared segment lengths of the exact model, whose meaning is
   [length_R ts] = the sum over R of sqrt (IZR t) (C14_length_is_euclidean).  Perfect
   squares or not, the float length is finite and within (1+u)^(n+2) - 1, relative, of it
   (f_length_exact_squares is the case where the error is 0). *)
Theorem f_length_bound_int : forall fv zs offs,
  Forall2 frep fv zs -> Forall (fun z => (Z.abs z <= 2 ^ 499)%Z) zs ->
  (Z.of_nat (length (fst (compute_line_length (map Some zs) offs))) <= 2 ^ 50)%Z ->
  ffinite (f_compute_line_length fv offs) = true /\
  (Rabs (fvalue (f_compute_line_length fv offs)
         - length_R (fst (compute_line_length (map Some zs) offs)))
    <= ((1 + u64) ^ (length (fst (compute_line_length (map Some zs) offs)) + 2) - 1)
       * length_R (fst (compute_line_length (map Some zs) offs)))%R.
Proof. exact FloatLengthBound.f_length_bound_int. Qed.
Print Assumptions f_length_bound_int.

(* non-vacuity: the polyline (0,0), (1,1), (3,2) has segments of length sqrt 2 and sqrt 5;
   the float model (evaluated by the kernel) returns a double strictly between 3 and 4, the
   exact model returns the terms [2; 5] and no exact sum, and the theorem places the float
   within (1+u)^4 - 1 of sqrt 2 + sqrt 5 *)
Example ex_f_length_bound_sqrt2_sqrt5 :
  (PrimFloat.ltb (Z2F 3) (f_compute_line_length (map Z2F [0; 0; 1; 1; 3; 2]%Z) [0; 6]) &&
   PrimFloat.ltb (f_compute_line_length (map Z2F [0; 0; 1; 1; 3; 2]%Z) [0; 6]) (Z2F 4)) = true /\
  compute_line_length (map Some [0; 0; 1; 1; 3; 2]%Z) [0; 6] = ([2; 5]%Z, None) /\
  ffinite (f_compute_line_length (map Z2F [0; 0; 1; 1; 3; 2]%Z) [0; 6]) = true /\
  (Rabs (fvalue (f_compute_line_length (map Z2F [0; 0; 1; 1; 3; 2]%Z) [0; 6]%nat)
         - (R_sqrt.sqrt 2 + R_sqrt.sqrt 5))
    <= ((1 + u64) ^ 4 - 1) * (R_sqrt.sqrt 2 + R_sqrt.sqrt 5))%R.
Proof. exact FloatLengthBound.ex_f_length_bound_sqrt2_sqrt5. Qed.
