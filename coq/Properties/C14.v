(* C14 — length, area and boundary are the exact measures of each element.
   Theorem statements only; proofs are in Proofs/Measures*.v. *)
From Coq Require Import ZArith List Bool Arith Reals.
From SP Require Import Model.Num Model.Arrow Model.Measures Proofs.BoundsProofs
  Spec.MeasuresSpec Proofs.MeasuresProofs Proofs.MeasuresMapProofs Proofs.MeasuresArrayProofs
  Proofs.MeasuresRealProofs Proofs.MeasuresScalarProofs.
Import ListNotations.
Local Open Scope nat_scope.

(* ---- area ---- *)

(* For a closed ring (first vertex = last vertex) of any length with finite
   coordinates, laid out anywhere in a values buffer, the loop of compute_area
   (main loop + wrap-around term) is the shoelace sum
   Sigma (x_i*y_{i+1} - x_{i+1}*y_i)  (doubled area). *)
Theorem area_is_shoelace : forall vals start stop ps,
  start <= stop -> stop <= length vals ->
  slice start stop vals = flatz ps ->
  closed ps ->
  compute_area vals [start; stop] = Some (shoelace2 ps).
Proof. exact MeasuresProofs.area_is_shoelace. Qed.
Print Assumptions area_is_shoelace.

(* fewer than 3 vertices: 0, whatever the ring holds *)
Theorem area_lt3_zero : forall vals start stop,
  stop - start < 6 -> compute_area vals [start; stop] = Some 0%Z.
Proof. exact MeasuresProofs.area_lt3_zero. Qed.
Print Assumptions area_lt3_zero.

Theorem area_rev : forall ps, shoelace2 (rev ps) = (- shoelace2 ps)%Z.
Proof. exact MeasuresProofs.area_rev. Qed.
Print Assumptions area_rev.

Theorem area_translate : forall ps dx dy,
  closed ps -> shoelace2 (translate dx dy ps) = shoelace2 ps.
Proof. exact MeasuresProofs.area_translate. Qed.
Print Assumptions area_translate.

(* closure is necessary: on an unclosed ring the code's value is neither the
   shoelace sum nor translation invariant *)
Theorem area_unclosed_refuted :
  exists ps dx dy,
    ~ closed ps /\
    compute_area (flatz ps) [0; 2 * length ps] <> Some (shoelace2 ps) /\
    compute_area (flatz (translate dx dy ps)) [0; 2 * length ps]
      <> compute_area (flatz ps) [0; 2 * length ps].
Proof. exact MeasuresProofs.area_unclosed_refuted. Qed.
Print Assumptions area_unclosed_refuted.

(* The area of a polygon (offs = its ring offsets) or of a multipolygon element
   (offs = the ring offsets of all its polygons): the sum of the shoelace values of
   its closed finite rings ... *)
Theorem C14_polygon_area : forall vals offs pss,
  mono offs = true -> all_even offs = true -> last offs 0 <= length vals ->
  segs vals offs = map flatz pss ->
  Forall closed pss ->
  compute_area vals offs = Some (zsum (map shoelace2 pss)).
Proof. exact MeasuresMapProofs.polygon_area_shoelace. Qed.
Print Assumptions C14_polygon_area.

(* ... which for a ring-oriented polygon (shell counter-clockwise, holes clockwise)
   is |shell| - Sigma |hole| ... *)
Theorem C14_polygon_area_oriented : forall shell holes,
  (0 <= shoelace2 shell)%Z ->
  Forall (fun h => (shoelace2 h <= 0)%Z) holes ->
  zsum (map shoelace2 (shell :: holes)) =
  (Z.abs (shoelace2 shell) - zsum (map (fun h => Z.abs (shoelace2 h)) holes))%Z.
Proof. exact MeasuresMapProofs.oriented_sum. Qed.
Print Assumptions C14_polygon_area_oriented.

(* ... and for a multipolygon the sum over its parts *)
Theorem C14_multipolygon_area_parts : forall parts : list (list (list (Z * Z))),
  zsum (map shoelace2 (concat parts)) = zsum (map (fun p => zsum (map shoelace2 p)) parts).
Proof. exact MeasuresMapProofs.zsum_concat. Qed.
Print Assumptions C14_multipolygon_area_parts.

(* ---- length ---- *)

(* The arguments of the sqrt's summed by compute_line_length are, ring by ring and in
   order, exactly the squared lengths of the segments between consecutive vertices
   whose both ends are finite ([ring_terms r = seg_terms (pairs r)]); the float result
   is the exact integer sum when all are perfect squares ([exact_sum]). *)
Theorem C14_length_terms : forall vals offs,
  mono offs = true -> all_even offs = true -> last offs 0 <= length vals ->
  compute_line_length vals offs =
  (concat (map (fun r => seg_terms (pairs r)) (segs vals offs)),
   exact_sum (concat (map (fun r => seg_terms (pairs r)) (segs vals offs)))).
Proof. exact MeasuresMapProofs.compute_length_rings. Qed.
Print Assumptions C14_length_terms.

Theorem length_translate : forall dx dy r,
  seg_terms (pairs (ntranslate dx dy r)) = seg_terms (pairs r).
Proof. exact MeasuresMapProofs.length_translate. Qed.
Print Assumptions length_translate.

(* The spec of length is Sigma sqrt(IZR t) over those terms ([length_R]); it is the sum
   of the Euclidean lengths of the segments with both ends finite ... *)
Theorem C14_length_is_euclidean : forall ps : list (num * num),
  length_R (seg_terms ps) = seg_lengths_R ps.
Proof. exact MeasuresRealProofs.length_R_segments. Qed.
Print Assumptions C14_length_is_euclidean.

(* ... and when every term is a perfect square (axis-parallel / Pythagorean segments)
   it is exactly the integer [exact_sum] returns, which the correspondence check
   compares exactly with the implementation's float.  (Rounding of the float sqrt /
   summation otherwise is outside the model: validated to 1e-12, "partial".) *)
Theorem C14_length_exact : forall ts s, exact_sum ts = Some s -> length_R ts = IZR s.
Proof. exact MeasuresRealProofs.exact_sum_correct. Qed.
Print Assumptions C14_length_exact.

(* ---- array form = map of the ring-level measure over the elements ---- *)

(* For every kind (all three nesting depths) and every well-formed buffer layout
   (any offset, any validity bitmap): row i of .area / .length is NaN when element i
   is missing and otherwise the measure of the rings of element i
   ([elem_rings]: decoded through the offsets levels), whatever else the buffers hold. *)
Theorem C14_array_is_map : forall k a,
  length (la_offs a) = depth k -> wf_listarr a = true -> even_inner a = true ->
  arr_area k a =
    map (fun i => if isna_at (la_valid a) (la_off a) i then None
                  else spec_area k (elem_rings a i)) (seq 0 (la_len a))
  /\
  arr_length k a =
    map (fun i => if isna_at (la_valid a) (la_off a) i then None
                  else Some (spec_length k (elem_rings a i))) (seq 0 (la_len a)).
Proof. exact MeasuresArrayProofs.array_is_map. Qed.
Print Assumptions C14_array_is_map.

(* scalar form = array form: row i of the array equals the scalar property of the
   element re-encoded from its own nested lists with offsets starting at 0
   ([fresh_scalar]: what arr[i] builds), for every kind and nesting depth *)
Theorem C14_scalar_array_agree : forall k a i,
  length (la_offs a) = depth k -> wf_listarr a = true -> even_inner a = true ->
  i < la_len a -> isna_at (la_valid a) (la_off a) i = false ->
  nth i (arr_area k a) None = sc_area k (fresh_scalar k a i) /\
  nth i (arr_length k a) None = Some (sc_length k (fresh_scalar k a i)).
Proof. exact MeasuresScalarProofs.scalar_array_agree. Qed.
Print Assumptions C14_scalar_array_agree.

(* [elem_rings] refines the flat decoding of Model/Arrow.v (the abstraction function
   shared with the other properties): the rings of element i, concatenated, are the
   coordinates of element i *)
Theorem C14_elem_rings_flat : forall a,
  wf_listarr a = true -> 1 <= length (la_offs a) <= 3 ->
  forall i, i < la_len a -> concat (elem_rings a i) = elem_flat a i.
Proof. exact MeasuresScalarProofs.elem_rings_flat. Qed.
Print Assumptions C14_elem_rings_flat.

(* the rings of a multipolygon element are those of its parts, in order *)
Theorem C14_parts_rings : forall a o0 o1 o2,
  la_offs a = [o0; o1; o2] -> wf_listarr a = true ->
  forall i, i < la_len a -> concat (elem_parts a i) = elem_rings a i.
Proof. exact MeasuresScalarProofs.elem_parts_rings. Qed.
Print Assumptions C14_parts_rings.

(* ---- boundary ---- *)

(* scalar forms: MultiPolygon.boundary holds exactly the element's rings in order;
   Polygon.boundary is the same ListScalar *)
Theorem C14_boundary_scalar_multipolygon : forall parts,
  sc_rings (sc_multipolygon_boundary (fresh3 parts)) = concat parts.
Proof. exact MeasuresScalarProofs.scalar_boundary_fresh3. Qed.
Print Assumptions C14_boundary_scalar_multipolygon.

Theorem C14_boundary_scalar_polygon : forall s, sc_rings (sc_polygon_boundary s) = sc_rings s.
Proof. exact MeasuresScalarProofs.scalar_boundary_polygon. Qed.
Print Assumptions C14_boundary_scalar_polygon.


Theorem C14_boundary_multipolygon : forall a o0 o1 o2,
  la_offs a = [o0; o1; o2] -> wf_listarr a = true ->
  let b := multipolygon_boundary a in
  la_len b = la_len a /\
  buffer_values b = buffer_values a /\
  last (la_offs b) [] = o2 /\
  la_isna b = la_isna a /\
  (forall i, i < la_len a -> elem_rings b i = elem_rings a i).
Proof. exact MeasuresArrayProofs.multipolygon_boundary_spec. Qed.
Print Assumptions C14_boundary_multipolygon.

Theorem C14_boundary_multipolygon_length : forall a o0 o1 o2,
  la_offs a = [o0; o1; o2] -> wf_listarr a = true ->
  arr_length KMultiLine (multipolygon_boundary a) = arr_length KMultiPolygon a.
Proof. exact MeasuresArrayProofs.multipolygon_boundary_length. Qed.
Print Assumptions C14_boundary_multipolygon_length.

Theorem C14_boundary_polygon : forall a,
  polygon_boundary a = a /\
  arr_length KMultiLine (polygon_boundary a) = arr_length KPolygon a.
Proof. exact MeasuresArrayProofs.polygon_boundary_spec. Qed.
Print Assumptions C14_boundary_polygon.

(* ---- non-vacuity ---- *)
Example ex_square :
  compute_area (flatz [(0,0); (2,0); (2,2); (0,2); (0,0)]%Z) [0; 10] = Some 8%Z.
Proof. vm_compute. reflexivity. Qed.
Example ex_square_closed : closed [(0,0); (2,0); (2,2); (0,2); (0,0)]%Z.
Proof. vm_compute. reflexivity. Qed.
