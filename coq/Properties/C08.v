(* C08 — a geometry's hilbert_distance is the curve position of its bbox centre.
   Theorems about Model/Data2Coord.v (transcription of utils._data2coord,
   rtree._distances_from_bounds, GeometryArray.hilbert_distance and
   GeoSeries.hilbert_distance).  Numbers: Z in a unit 2^-s ([one] = 1.0); the model
   answers [Some d] for a row only in the exact-scaling regime (Model/Data2Coord.v:
   |width| a power of two, operands below 2^52 units, finite centre) and [None]
   ("not modelled": NaN centre, inexact scaling) otherwise. *)
From Coq Require Import ZArith NArith List String.
From SP Require Import Model.Num Model.Bounds Model.Hilbert Model.Data2Coord Spec.Curve
     Proofs.Data2CoordProofs.
Import ListNotations.
Local Open Scope Z_scope.

(* the result is computed row by row from the row's own bounds and (total_bounds, p) *)
Theorem C08_elementwise : forall one self tb p t,
    effective_bounds one self tb = Some t ->
    fst (hilbert_distance one self tb p) = Returned (map (hd1 one t p) (av_bounds self)).
Proof. exact elementwise. Qed.
Print Assumptions C08_elementwise.

(* ... hence splitting the rows (slicing, Dask partitions) and computing each part with the
   same total_bounds gives the parts of the whole result, whatever the parts' own extents *)
Theorem C08_partition_invariant : forall one s p t rows1 rows2 tot tot1 tot2,
    effective_bounds one {| av_bounds := rows1 ++ rows2; av_total := tot |} (Some s) = Some t ->
    exists r1 r2,
      fst (hilbert_distance one {| av_bounds := rows1; av_total := tot1 |} (Some s) p) = Returned r1 /\
      fst (hilbert_distance one {| av_bounds := rows2; av_total := tot2 |} (Some s) p) = Returned r2 /\
      fst (hilbert_distance one {| av_bounds := rows1 ++ rows2; av_total := tot |} (Some s) p)
      = Returned (r1 ++ r2).
Proof. exact partition_invariant. Qed.
Print Assumptions C08_partition_invariant.

(* ... and the value at position i is a function of row i alone *)
Theorem C08_row_independent : forall one s p t rows tot i b,
    effective_bounds one {| av_bounds := rows; av_total := tot |} (Some s) = Some t ->
    nth_error rows i = Some b ->
    exists r, fst (hilbert_distance one {| av_bounds := rows; av_total := tot |} (Some s) p) = Returned r /\
              nth_error r i = Some (hd1 one t p b).
Proof. exact row_independent. Qed.
Print Assumptions C08_row_independent.

(* 0 <= d < 4^p *)
Theorem C08_range : forall one self tb p r d, hilbert_guard p 2 ->
    fst (hilbert_distance one self tb p) = Returned r -> In (Some d) r ->
    (d < 4 ^ N.of_nat p)%N.
Proof. exact range. Qed.
Print Assumptions C08_range.

(* exact regime, ranges of positive width: the coordinates are the indices of the grid cell
   containing the bbox centre; upper edge and beyond -> last cell; below -> first cell *)
Theorem C08_cell : forall one tx0 ty0 tx1 ty1 p x0 y0 x1 y1 d,
    let xr := widen one (tx0, tx1) in
    let yr := widen one (ty0, ty1) in
    fst xr < snd xr -> fst yr < snd yr ->
    hd1 one (tx0, ty0, tx1, ty1) p (Some x0, Some y0, Some x1, Some y1) = Some d ->
    exists cx cy,
      d = distance_from_coordinate p [Z.to_N cx; Z.to_N cy] /\
      cell_index_spec (fst xr) (snd xr - fst xr) p (x0 + x1) cx /\
      cell_index_spec (fst yr) (snd yr - fst yr) p (y0 + y1) cy.
Proof. exact cell_of_centre. Qed.
Print Assumptions C08_cell.

(* a zero-width / zero-height total_bounds is widened by 1.0: the widths used are non-zero *)
Theorem C08_zero_extent : forall one self kind x0 y0 x1 y1 p,
    0 < one ->
    let tb := Some {| sq_kind := kind;
                      sq_items := [PyFloat (Some x0); PyFloat (Some y0);
                                   PyFloat (Some x1); PyFloat (Some y1)] |} in
    let xhi := if x0 =? x1 then x1 + one else x1 in
    let yhi := if y0 =? y1 then y1 + one else y1 in
    xhi - x0 <> 0 /\ yhi - y0 <> 0 /\
    widen one (x0, xhi) = (x0, xhi) /\ widen one (y0, yhi) = (y0, yhi) /\
    fst (hilbert_distance one self tb p)
    = Returned (map (hd1 one (x0, y0, xhi, yhi) p) (av_bounds self)).
Proof. exact zero_extent_widened. Qed.
Print Assumptions C08_zero_extent.

(* the caller's sequence is unchanged, and its type (list / tuple / ndarray, ints / floats)
   does not matter *)
Theorem C08_argument : forall one self p,
    (forall tb, snd (hilbert_distance one self tb p) = tb) /\
    (forall k1 k2 items1 items2,
        map (to_float one) items1 = map (to_float one) items2 ->
        fst (hilbert_distance one self (Some {| sq_kind := k1; sq_items := items1 |}) p)
        = fst (hilbert_distance one self (Some {| sq_kind := k2; sq_items := items2 |}) p)).
Proof.
  exact (fun one self p => conj (fun tb => argument_unchanged one self tb p)
                                (fun k1 k2 i1 i2 => sequence_type_irrelevant one self k1 k2 i1 i2 p)).
Qed.
Print Assumptions C08_argument.

(* non-vacuity: a 16 x 16 extent (unit 1/2), p = 2: centre, inner point, missing row, upper corner *)
Example C08_ex1 :
  hilbert_distance 2
    {| av_bounds := [(Some 4, Some 4, Some 4, Some 4); (Some 0, Some 0, Some 16, Some 16);
                     (None, None, None, None); (Some 32, Some 32, Some 32, Some 32)];
       av_total := (Some 0, Some 0, Some 32, Some 32) |} None 2
  = (Returned [Some 0%N; Some 2%N; None; Some 10%N], None).
Proof. vm_compute. reflexivity. Qed.
(* a list of ints with zero width is accepted, widened, and comes back unchanged *)
Example C08_ex2 :
  let tb := Some {| sq_kind := KList; sq_items := [PyInt 3; PyInt 0; PyInt 3; PyInt 8] |} in
  hilbert_distance 2 {| av_bounds := [(Some 6, Some 2, Some 6, Some 2)];
                        av_total := (Some 6, Some 2, Some 6, Some 2) |} tb 3
  = (Returned [Some 1%N], tb).
Proof. vm_compute. reflexivity. Qed.
