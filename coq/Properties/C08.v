(* C08 — a geometry's hilbert_distance is the curve position of its bbox centre.
   Theorems about Model/Data2Coord.v (transcription of utils._data2coord,
   rtree._distances_from_bounds, GeometryArray.hilbert_distance and
   GeoSeries.hilbert_distance).  Numbers: Z in a unit 2^-s ([one] = 1.0); the model
   answers [Some d] for a row only in the exact-scaling regime (Model/Data2Coord.v:
   |width| a power of two, operands below 2^52 units, finite centre) and [None]
   ("not modelled": NaN centre, inexact scaling) otherwise. *)
From Coq Require Import ZArith NArith List String.
From SP Require Import Model.Num Model.Bounds Model.Hilbert Model.Data2Coord Spec.Curve
     Proofs.Data2CoordProofs.
Import ListNotations.
Local Open Scope Z_scope.

(* the result is computed row by row from the row's own bounds and (total_bounds, p) *)
Theorem C08_elementwise : forall one self tb p t,
    effective_bounds one self tb = Some t ->
    fst (hilbert_distance one self tb p) = Returned (map (hd1 one t p) (av_bounds self)).
Proof. exact elementwise. Qed.
Print Assumptions C08_elementwise.

(* ... hence splitting the rows (slicing, Dask partitions) and computing each part with the
   same total_bounds gives the parts of the whole result, whatever the parts' own extents *)
Theorem C08_partition_invariant : forall one s p t rows1 rows2 tot tot1 tot2,
    effective_bounds one {| av_bounds := rows1 ++ rows2; av_total := tot |} (Some s) = Some t ->
    exists r1 r2,
      fst (hilbert_distance one {| av_bounds := rows1; av_total := tot1 |} (Some s) p) = Returned r1 /\
      fst (hilbert_distance one {| av_bounds := rows2; av_total := tot2 |} (Some s) p) = Returned r2 /\
      fst (hilbert_distance one {| av_bounds := rows1 ++ rows2; av_total := tot |} (Some s) p)
      = Returned (r1 ++ r2).
Proof. exact partition_invariant. Qed.
Print Assumptions C08_partition_invariant.

(* ... and the value at position i is a function of row i alone *)
Theorem C08_row_independent : forall one s p t rows tot i b,
    effective_bounds one {| av_bounds := rows; av_total := tot |} (Some s) = Some t ->
    nth_error rows i = Some b ->
    exists r, fst (hilbert_distance one {| av_bounds := rows; av_total := tot |} (Some s) p) = Returned r /\
              nth_error r i = Some (hd1 one t p b).
Proof. exact row_independent. Qed.
Print Assumptions C08_row_independent.

(* 0 <= d < 4^p *)
Theorem C08_range : forall one self tb p r d, hilbert_guard p 2 ->
    fst (hilbert_distance one self tb p) = Returned r -> In (Some d) r ->
    (d < 4 ^ N.of_nat p)%N.
Proof. exact range. Qed.
Print Assumptions C08_range.

(* exact regime, ranges of positive width: the coordinates are the indices of the grid cell
   containing the bbox centre; upper edge and beyond -> last cell; below -> first cell *)
Theorem C08_cell : forall one tx0 ty0 tx1 ty1 p x0 y0 x1 y1 d,
    let xr := widen one (tx0, tx1) in
    let yr := widen one (ty0, ty1) in
    fst xr < snd xr -> fst yr < snd yr ->
    hd1 one (tx0, ty0, tx1, ty1) p (Some x0, Some y0, Some x1, Some y1) = Some d ->
    exists cx cy,
      d = distance_from_coordinate p [Z.to_N cx; Z.to_N cy] /\
      cell_index_spec (fst xr) (snd xr - fst xr) p (x0 + x1) cx /\
      cell_index_spec (fst yr) (snd yr - fst yr) p (y0 + y1) cy.
Proof. exact cell_of_centre. Qed.
Print Assumptions C08_cell.

(* a zero-width / zero-height total_bounds is widened by 1.0: the widths used are non-zero *)
Theorem C08_zero_extent : forall one self kind x0 y0 x1 y1 p,
    0 < one ->
    let tb := Some {| sq_kind := kind;
                      sq_items := [PyFloat (Some x0); PyFloat (Some y0);
                                   PyFloat (Some x1); PyFloat (Some y1)] |} in
    let xhi := if x0 =? x1 then x1 + one else x1 in
    let yhi := if y0 =? y1 then y1 + one else y1 in
    xhi - x0 <> 0 /\ yhi - y0 <> 0 /\
    widen one (x0, xhi) = (x0, xhi) /\ widen one (y0, yhi) = (y0, yhi) /\
    fst (hilbert_distance one self tb p)
    = Returned (map (hd1 one (x0, y0, xhi, yhi) p) (av_bounds self)).
Proof. exact zero_extent_widened. Qed.
Print Assumptions C08_zero_extent.

(* the caller's sequence is unchanged, and its type (list / tuple / ndarray, ints / floats)
   does not matter *)
Theorem C08_argument : forall one self p,
    (forall tb, snd (hilbert_distance one self tb p) = tb) /\
    (forall k1 k2 items1 items2,
        map (to_float one) items1 = map (to_float one) items2 ->
        fst (hilbert_distance one self (Some {| sq_kind := k1; sq_items := items1 |}) p)
        = fst (hilbert_distance one self (Some {| sq_kind := k2; sq_items := items2 |}) p)).
Proof.
  exact (fun one self p => conj (fun tb => argument_unchanged one self tb p)
                                (fun k1 k2 i1 i2 => sequence_type_irrelevant one self k1 k2 i1 i2 p)).
Qed.
Print Assumptions C08_argument.

(* non-vacuity: a 16 x 16 extent (unit 1/2), p = 2: centre, inner point, missing row, upper corner *)
Example C08_ex1 :
  hilbert_distance 2
    {| av_bounds := [(Some 4, Some 4, Some 4, Some 4); (Some 0, Some 0, Some 16, Some 16);
                     (None, None, None, None); (Some 32, Some 32, Some 32, Some 32)];
       av_total := (Some 0, Some 0, Some 32, Some 32) |} None 2
  = (Returned [Some 0%N; Some 2%N; None; Some 10%N], None).
Proof. vm_compute. reflexivity. Qed.
(* a list of ints with zero width is accepted, widened, and comes back unchanged *)
Example C08_ex2 :
  let tb := Some {| sq_kind := KList; sq_items := [PyInt 3; PyInt 0; PyInt 3; PyInt 8] |} in
  hilbert_distance 2 {| av_bounds := [(Some 6, Some 2, Some 6, Some 2)];
                        av_total := (Some 6, Some 2, Some 6, Some 2) |} tb 3
  = (Returned [Some 1%N], tb).
Proof. vm_compute. reflexivity. Qed.

(* ---- the bit-exact binary64 model (Model/FloatData2Coord.v: primitive floats, compared with the
   real code on arbitrary float64 inputs with no tolerance by harness/c08_float.py) ---- *)
From Coq Require PrimFloat.
From SP Require Import Model.FloatData2Coord Proofs.FloatData2CoordProofs.

(* the cell coordinate lies in [0, 2^p - 1] for ALL floats v, lo, hi and every p, with no exception
   case: NaN, infinities, overflowing intermediate results and a range without extent included *)
Theorem C08_f_data2coord_range : forall (v lo hi : PrimFloat.float) (p : nat),
    0 <= f_data2coord v lo hi (2 ^ Z.of_nat p) <= 2 ^ Z.of_nat p - 1.
Proof. exact f_data2coord_range. Qed.
Print Assumptions C08_f_data2coord_range.

(* on floats that are images z * 2^e of integers in the exact-scaling regime of C08_cell (operands
   below 2^52 units, |hi - lo| a power of two) the float model computes exactly what the exact
   rational model computes: [Fdy e f z] = "f is finite and its real value is z * 2^e" *)
Theorem C08_f_data2coord_exact_regime : forall e p fv flo fhi v lo hi,
    -900 <= e <= 900 -> 1 <= p <= 31 ->
    Fdy e fv v -> Fdy e flo lo -> Fdy e fhi hi ->
    small v = true -> small lo = true -> small hi = true ->
    is_pow2 (Z.abs (hi - lo)) = true ->
    f_data2coord fv flo fhi (2 ^ p) = data2coord1 v lo (hi - lo) (2 ^ p).
Proof. exact f_data2coord_exact_regime. Qed.
Print Assumptions C08_f_data2coord_exact_regime.

(* one row, both axes, with the mid-point (x0 + x1) / 2.0 and the zero-extent widening + 1.0 done
   in floating point: a row the exact model answers gets the same Hilbert distance from the
   float model *)
Theorem C08_f_hd1_exact_regime :
  forall s p ftx0 fty0 ftx1 fty1 fx0 fy0 fx1 fy1 tx0 ty0 tx1 ty1 x0 y0 x1 y1 d,
    0 <= s <= 900 -> (1 <= p <= 31)%nat ->
    Fdy (- s) ftx0 tx0 -> Fdy (- s) fty0 ty0 -> Fdy (- s) ftx1 tx1 -> Fdy (- s) fty1 ty1 ->
    Fdy (- s) fx0 x0 -> Fdy (- s) fy0 y0 -> Fdy (- s) fx1 x1 -> Fdy (- s) fy1 y1 ->
    hd1 (2 ^ s) (tx0, ty0, tx1, ty1) p (Some x0, Some y0, Some x1, Some y1) = Some d ->
    f_hd1 (ftx0, fty0, ftx1, fty1) p (fx0, fy0, fx1, fy1) = d.
Proof. exact f_hd1_exact_regime. Qed.
Print Assumptions C08_f_hd1_exact_regime.

(* C08_cell about the bit-exact float model *)
Theorem C08_f_cell :
  forall s p ftx0 fty0 ftx1 fty1 fx0 fy0 fx1 fy1 tx0 ty0 tx1 ty1 x0 y0 x1 y1 d,
    0 <= s <= 900 -> (1 <= p <= 31)%nat ->
    Fdy (- s) ftx0 tx0 -> Fdy (- s) fty0 ty0 -> Fdy (- s) ftx1 tx1 -> Fdy (- s) fty1 ty1 ->
    Fdy (- s) fx0 x0 -> Fdy (- s) fy0 y0 -> Fdy (- s) fx1 x1 -> Fdy (- s) fy1 y1 ->
    let xr := widen (2 ^ s) (tx0, tx1) in
    let yr := widen (2 ^ s) (ty0, ty1) in
    fst xr < snd xr -> fst yr < snd yr ->
    hd1 (2 ^ s) (tx0, ty0, tx1, ty1) p (Some x0, Some y0, Some x1, Some y1) = Some d ->
    exists cx cy,
      f_hd1 (ftx0, fty0, ftx1, fty1) p (fx0, fy0, fx1, fy1)
      = distance_from_coordinate p [Z.to_N cx; Z.to_N cy] /\
      cell_index_spec (fst xr) (snd xr - fst xr) p (x0 + x1) cx /\
      cell_index_spec (fst yr) (snd yr - fst yr) p (y0 + y1) cy.
Proof. exact f_cell_of_centre. Qed.
Print Assumptions C08_f_cell.

(* PARTIAL (extra hypotheses: finite v, v', lo, hi, finite non-negative factor n / (hi - lo), no overflow
   of v - lo and of the product): a larger value never gets a smaller cell - subtraction,
   multiplication by a non-negative constant, the clips and the truncation are all monotone *)
Theorem C08_f_data2coord_monotone_partial : forall v v' lo hi p, 1 <= p <= 31 ->
    let c := PrimFloat.div (Z2float (2 ^ p)) (PrimFloat.sub hi lo) in
    PrimFloat.is_finite v = true -> PrimFloat.is_finite v' = true -> PrimFloat.is_finite lo = true ->
    PrimFloat.is_finite hi = true ->
    PrimFloat.is_finite c = true -> PrimFloat.leb PrimFloat.zero c = true ->
    PrimFloat.is_finite (PrimFloat.sub v lo) = true -> PrimFloat.is_finite (PrimFloat.sub v' lo) = true ->
    PrimFloat.is_finite (PrimFloat.mul (PrimFloat.sub v lo) c) = true ->
    PrimFloat.is_finite (PrimFloat.mul (PrimFloat.sub v' lo) c) = true ->
    PrimFloat.leb v v' = true ->
    f_data2coord v lo hi (2 ^ p) <= f_data2coord v' lo hi (2 ^ p).
Proof. exact f_data2coord_monotone_partial. Qed.
Print Assumptions C08_f_data2coord_monotone_partial.

(* a range without extent (hi - lo == 0.0: where the zero-extent widening + 1.0 is absorbed,
   |coordinate| >= 2^53): no exception; cell 0 iff not (v > hi) - so also for a NaN centre -,
   otherwise the last cell *)
Theorem C08_f_zero_width : forall v lo hi p, 1 <= p ->
    PrimFloat.eqb (PrimFloat.sub hi lo) PrimFloat.zero = true ->
    (f_data2coord v lo hi (2 ^ p) = 0 <-> PrimFloat.ltb hi v = false) /\
    (f_data2coord v lo hi (2 ^ p) = 2 ^ p - 1 <-> PrimFloat.ltb hi v = true).
Proof. exact f_zero_width_cells. Qed.
Print Assumptions C08_f_zero_width.

(* ... and the range is without extent exactly when lo and hi are the same finite number: for
   finite lo, hi,  hi - lo == 0.0  iff  hi == lo  (with gradual underflow the difference of two
   different floats never rounds to zero) - i.e. after the two widenings, exactly when + 1.0 was
   absorbed *)
Theorem C08_f_zero_width_when : forall lo hi,
    PrimFloat.is_finite lo = true -> PrimFloat.is_finite hi = true ->
    PrimFloat.eqb (PrimFloat.sub hi lo) PrimFloat.zero = PrimFloat.eqb hi lo.
Proof. exact zero_width_eqb. Qed.
Print Assumptions C08_f_zero_width_when.

Module C08FloatExamples.
Import Coq.Floats.PrimFloat.
(* non-vacuity: the float model on C08_ex1's data (unit 1/2: 2.0, 0.0 .. 8.0, NaN, 16.0 in a
   16 x 16 extent), evaluated by the kernel; the missing row (NaN) lands in cell (0, 0) *)
Example C08_f_ex1 :
  f_hilbert_distance
    [(2, 2, 2, 2); (0, 0, 8, 8); (PrimFloat.nan, PrimFloat.nan, PrimFloat.nan, PrimFloat.nan);
     (16, 16, 16, 16)]%float (0, 0, 16, 16)%float None 2
  = FReturned [0%N; 2%N; 0%N; 10%N].
Proof. vm_compute. reflexivity. Qed.
(* 0.1-multiples, extent 0.7 (not a power of two): outside the exact regime, still computed *)
Example C08_f_ex2 :
  f_hilbert_distance [(0x1.999999999999ap-4, 0x1.999999999999ap-3, 0x1.3333333333333p-2, 0x1.999999999999ap-2)]%float
    (0, 0, 0x1.6666666666666p-1, 0x1.6666666666666p-1)%float None 3
  = FReturned [11%N].
Proof. vm_compute. reflexivity. Qed.
(* a zero extent at 2^53: + 1.0 is absorbed, the range has no extent: rows at or below the value
   (and the missing row) in cell 0 of that axis, the row beyond it in the last cell *)
Example C08_f_ex3 :
  f_hilbert_distance [(0x1p53, 1, 0x1p53, 1); (0x1p52, 1, 0x1p52, 1); (nan, nan, nan, nan);
                      (0x1p54, 1, 0x1p54, 1)]%float (0x1p53, 1, 0x1p54, 1)%float
                     (Some [FPyFloat 0x1p53; FPyFloat 1; FPyFloat 0x1p53; FPyFloat 1]%float) 3
  = FReturned [0%N; 0%N; 0%N; 63%N].
Proof. vm_compute. reflexivity. Qed.
End C08FloatExamples.

(* ---- monotonicity of the cell in the centre, with NO regime hypothesis
   (Proofs/FloatData2CoordMono.v) ---- *)
From SP Require Import Proofs.FloatData2CoordMono.

(* for every finite lo < hi, n = 2^p (1 <= p <= 31) and every v <= v' (PrimFloat.leb: neither is
   NaN; +-infinity allowed): a larger centre never gets a smaller cell.  Nothing is assumed about
   the intermediate results: v - lo may overflow to +-inf, the width hi - lo may overflow to +inf
   (then n / inf = 0 and every cell is 0), the factor n / (hi - lo) may overflow to +inf (then
   0 * inf = NaN -> INT64_MIN -> cell 0, a negative difference -> -inf -> cell 0, a positive
   one -> +inf -> cell n - 1) *)
Theorem C08_f_data2coord_monotone : forall v v' lo hi p, 1 <= p <= 31 ->
    PrimFloat.is_finite lo = true -> PrimFloat.is_finite hi = true ->
    PrimFloat.ltb lo hi = true ->
    PrimFloat.leb v v' = true ->
    f_data2coord v lo hi (2 ^ p) <= f_data2coord v' lo hi (2 ^ p).
Proof. exact f_data2coord_monotone. Qed.
Print Assumptions C08_f_data2coord_monotone.

(* "outside -> border cell", lower side: a centre at or below lo (-infinity included) is in cell 0 *)
Theorem C08_f_data2coord_below : forall v lo hi p, 1 <= p <= 31 ->
    PrimFloat.is_finite lo = true -> PrimFloat.is_finite hi = true ->
    PrimFloat.ltb lo hi = true ->
    PrimFloat.leb v lo = true ->
    f_data2coord v lo hi (2 ^ p) = 0.
Proof. exact f_data2coord_below. Qed.
Print Assumptions C08_f_data2coord_below.

(* "outside -> border cell", upper side: a centre at or above hi (+infinity included) is in the
   last cell - provided the width hi - lo does not overflow (nothing else is assumed: the factor
   n / (hi - lo) may be subnormal or overflow to +inf, v - lo may overflow) *)
Theorem C08_f_data2coord_above : forall v lo hi p, 1 <= p <= 31 ->
    PrimFloat.is_finite lo = true -> PrimFloat.is_finite hi = true ->
    PrimFloat.ltb lo hi = true ->
    PrimFloat.is_finite (PrimFloat.sub hi lo) = true ->
    PrimFloat.leb hi v = true ->
    f_data2coord v lo hi (2 ^ p) = 2 ^ p - 1.
Proof. exact f_data2coord_above. Qed.
Print Assumptions C08_f_data2coord_above.

(* ... and that proviso is needed: with finite lo < hi whose difference overflows (hi - lo = +inf,
   n / inf = 0) the centre v = hi lands in cell 0, not in the last cell.  REFUTES the upper
   clamping clause of the property for extents wider than the largest float *)
Theorem C08_f_data2coord_above_overflow_refuted :
  exists v lo hi p, 1 <= p <= 31 /\
    PrimFloat.is_finite lo = true /\ PrimFloat.is_finite hi = true /\ PrimFloat.ltb lo hi = true /\
    PrimFloat.leb hi v = true /\
    PrimFloat.is_finite (PrimFloat.sub hi lo) = false /\
    f_data2coord v lo hi (2 ^ p) = 0 /\ 0 <> 2 ^ p - 1.
Proof. exact f_data2coord_above_overflow_refuted. Qed.
Print Assumptions C08_f_data2coord_above_overflow_refuted.

Module C08FloatMonoExamples.
Import Coq.Floats.PrimFloat.
(* a huge centre (1e308) and a tiny extent (the smallest subnormal): v - lo is finite, the factor
   8 / 2^-1074 overflows to +inf; lo itself gives 0 * inf = NaN and lands in cell 0 *)
Example C08_f_mono_ex1 :
  map (fun v => f_data2coord v 0 0x0.0000000000001p-1022 (2 ^ 3))
      [neg_infinity; (-0x1.1ccf385ebc8a0p+1023); 0; 0x0.0000000000001p-1022; 0x1.1ccf385ebc8a0p+1023;
       infinity]%float
  = [0; 0; 0; 7; 7; 7].
Proof. vm_compute. reflexivity. Qed.
(* an extent whose width overflows (hi - lo = +inf, n / inf = 0): every centre, hi and +infinity
   included, is in cell 0 - monotone, but the upper border cell is never reached *)
Example C08_f_mono_ex2 :
  map (fun v => f_data2coord v (-0x1.e42d130773b76p+1023) 0x1.e42d130773b76p+1023 (2 ^ 3))
      [neg_infinity; (-0x1.e42d130773b76p+1023); 0; 0x1.e42d130773b76p+1023; infinity]%float
  = [0; 0; 0; 0; 0].
Proof. vm_compute. reflexivity. Qed.
End C08FloatMonoExamples.
