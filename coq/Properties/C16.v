(* C16 -- derived arrays hold the same elements and behave like fresh ones.

   What is a theorem here (all closed under the global context):
   * the index logic of GeometryArray.__getitem__ / take / _concat_same_type /
     copy / iteration as transcribed in Model/Derive.v computes Python's list
     semantics (Spec/DeriveSpec.v): slices with any start/stop/step on both
     code paths, integer indexing, take with and without allow_fill, boolean
     masks, integer arrays, concatenation -- with the class of every error;
   * every buffer-level quantity modelled in Coq (bounds, total_bounds and its
     x/y projections, isna, len of Model/Bounds.v, Model/Arrow.v) is a function
     of the decoded element list only, for EVERY well-formed buffer
     representation (any offset, any parent buffers, any validity bitmap), and
     pyarrow's nested reading of the buffers agrees with the library's flat one;
   * every derivation step commutes with every slot-wise map, hence so does
     every finite history; errors included.
   Not theorems here (partial): that pyarrow's slice / take / concat_arrays
   produce well-formed buffers decoding to the model's element list is asserted
   on every run by harness/c16.py, not proved; length / area / intersects /
   intersects_bounds / hilbert_distance are array-is-map theorems of their own
   properties (C01, C02, C07, C08, C14) and are compared derived-vs-fresh by
   harness/c16.py, not re-proved here. *)
From Coq Require Import ZArith List Bool.
From SP Require Import Model.Num Model.Arrow Model.Bounds Spec.BoundsSpec
  Model.Derive Spec.DeriveSpec Proofs.BoundsProofs Proofs.DeriveProofs
  Proofs.DeriveSpecProofs Proofs.ArrowDecode Proofs.DeriveMain.
Import ListNotations.
Open Scope nat_scope.

(* ---- representation independence ---- *)
Theorem C16_representation_independence : forall a,
  wf_listarr a = true -> nulls_empty a = true ->
  la_bounds a = bounds_of_flat (decode_flat a) /\
  la_total_bounds a = total_bounds_of_flat (decode_flat a) /\
  la_isna a = isna (decode_flat a) /\
  la_len a = length (decode_flat a).
Proof. exact representation_independence_list. Qed.
Print Assumptions C16_representation_independence.

Theorem C16_representation_independence_points : forall a,
  wf_fixarr a = true ->
  fa_bounds a = bounds_of_points (fa_decode a) /\
  fa_total_bounds a = total_bounds_of_points (fa_decode a) /\
  fa_isna a = isna (fa_decode a) /\
  fa_len a = length (fa_decode a).
Proof. exact representation_independence_fixed. Qed.
Print Assumptions C16_representation_independence_points.

Theorem C16_same_decode_same_Q : forall a1 a2,
  wf_listarr a1 = true -> nulls_empty a1 = true ->
  wf_listarr a2 = true -> nulls_empty a2 = true ->
  decode_flat a1 = decode_flat a2 ->
  la_bounds a1 = la_bounds a2 /\ la_total_bounds a1 = la_total_bounds a2 /\
  la_total_bounds_x a1 = la_total_bounds_x a2 /\
  la_total_bounds_y a1 = la_total_bounds_y a2 /\
  la_isna a1 = la_isna a2 /\ la_len a1 = la_len a2.
Proof. exact same_decode_same_Q_list. Qed.
Print Assumptions C16_same_decode_same_Q.

Theorem C16_same_decode_same_Q_points : forall a1 a2,
  wf_fixarr a1 = true -> wf_fixarr a2 = true ->
  fa_decode a1 = fa_decode a2 ->
  fa_bounds a1 = fa_bounds a2 /\ fa_total_bounds a1 = fa_total_bounds a2 /\
  fa_isna a1 = fa_isna a2 /\ fa_len a1 = fa_len a2.
Proof. exact same_decode_same_Q_fixed. Qed.
Print Assumptions C16_same_decode_same_Q_points.

(* ---- histories ---- *)
(* any slot-wise quantity g (with g missing = naY) of the result of any finite
   history is the same history applied to the source's quantities; an error is
   the same error *)
Theorem C16_histories : forall (X Y : Type) (g : X -> Y) (naX : X) (naY : Y),
  g naX = naY ->
  forall steps l,
  run_steps naY steps (map g l) = pymap (map g) (run_steps naX steps l).
Proof. exact @run_steps_map. Qed.
Print Assumptions C16_histories.

Theorem C16_histories_bounds : forall steps (l : list (option elem)),
  run_steps nanbox steps (map elem_bbox l)
  = pymap (map elem_bbox) (run_steps None steps l).
Proof. exact histories_bounds. Qed.
Print Assumptions C16_histories_bounds.

Theorem C16_histories_isna : forall steps (l : list (option elem)),
  run_steps true steps (isna l) = pymap isna (run_steps None steps l).
Proof. exact histories_isna. Qed.
Print Assumptions C16_histories_isna.

(* ---- the nested decode (pyarrow's reading) and the flat decode (the
        library's offset arithmetic) see the same elements ---- *)
Theorem C16_decode_flat_of_nested : forall a,
  wf_listarr a = true -> length (la_offs a) <= 3 ->
  map (option_map flat_elem) (decode_nested a) = decode_flat a.
Proof. exact decode_flat_of_nested. Qed.
Print Assumptions C16_decode_flat_of_nested.

(* ---- the index logic is Python's list semantics ---- *)
Theorem C16_getitem_slice_spec : forall (X : Type) (na : X) start stop step l,
  getitem_slice na start stop step l = py_slice na l start stop step.
Proof. exact @getitem_slice_spec. Qed.
Print Assumptions C16_getitem_slice_spec.

Theorem C16_getitem_int_spec : forall (X : Type) (na : X) i l,
  getitem_int na i l =
  match py_getitem l i with Some x => Ok x | None => IndexError end.
Proof. exact @getitem_int_spec. Qed.
Print Assumptions C16_getitem_int_spec.

Theorem C16_take_spec : forall (X : Type) (na : X) ix af fv l r,
  take na ix af fv l = Ok r <->
  fill_ok af fv = true /\ py_take na ix af l = Some r.
Proof. exact @take_spec. Qed.
Print Assumptions C16_take_spec.

Theorem C16_take_error_class : forall (X : Type) (na : X) ix af fv l,
  let n := Z.of_nat (length l) in
  let oob := existsb (fun i => (n <=? i) || negb af && (i <? - n))%Z ix in
  take na ix af fv l =
  if (n =? 0)%Z && negb (Nat.eqb (length ix) 0)
     && (negb af || existsb (fun i => 0 <=? i)%Z ix) then IndexError
  else if negb (fill_ok af fv) then
         (match fv with FillStr => TypeError | _ => ValueError end)
  else if oob then IndexError
  else if af && existsb (fun i => i <? -1)%Z ix then ValueError
  else Ok (sel na af l ix).
Proof. exact @take_error_class. Qed.
Print Assumptions C16_take_error_class.

Theorem C16_getitem_mask_spec : forall (X : Type) (na : X) (m : list bool) l,
  m <> [] -> length m = length l ->
  getitem_index na (IBool (map Some m)) l = Ok (GArr (py_compress m l)).
Proof. exact @getitem_mask_spec. Qed.
Print Assumptions C16_getitem_mask_spec.

Theorem C16_getitem_mask_errors : forall (X : Type) (na : X) m (l : list X),
  length m <> 0 ->
  (length m <> length l -> getitem_index na (IBool m) l = IndexError) /\
  (length m = length l -> In None m -> getitem_index na (IBool m) l = ValueError).
Proof. exact @getitem_mask_errors. Qed.
Print Assumptions C16_getitem_mask_errors.

Theorem C16_getitem_ints_spec : forall (X : Type) (na : X) (ix : list Z) l,
  ix <> [] ->
  getitem_index na (IInts (map Some ix)) l =
  match py_take na ix false l with Some r => Ok (GArr r) | None => IndexError end.
Proof. exact @getitem_ints_spec. Qed.
Print Assumptions C16_getitem_ints_spec.

Theorem C16_concat_spec : forall (X : Type) (na : X) pieces l,
  run_step na (SConcat pieces) l =
  match pieces with
  | [] => ValueError
  | _ => Ok (concat (map (fun '(a, b) => py_slice1 na l a b) pieces))
  end.
Proof. exact @concat_spec. Qed.
Print Assumptions C16_concat_spec.

Theorem C16_iter_spec : forall (X : Type) (na : X) l, array_iter na l = Ok l.
Proof. exact @array_iter_spec. Qed.
Print Assumptions C16_iter_spec.

Theorem C16_slice_sanity : forall (X : Type) (na : X) (l : list X),
  run_step na (GetSlice None None None) l = Ok l /\
  run_step na Reverse l = Ok (rev l) /\
  run_step na SCopy l = Ok l.
Proof. exact (fun X na l => conj (getitem_full_slice na l)
                              (conj (reverse_spec na l) (copy_spec na l))). Qed.
Print Assumptions C16_slice_sanity.

(* ---- everything together: a = source, a' = ANY well-formed representation
        of the array the history produced ---- *)
Theorem C16_derived_quantities : forall a a' steps,
  wf_listarr a = true -> nulls_empty a = true -> length (la_offs a) <= 3 ->
  wf_listarr a' = true -> nulls_empty a' = true -> length (la_offs a') <= 3 ->
  run_steps None steps (decode_nested a) = Ok (decode_nested a') ->
  run_steps nanbox steps (la_bounds a) = Ok (la_bounds a') /\
  run_steps true steps (la_isna a) = Ok (la_isna a') /\
  la_total_bounds a' =
    total_bounds_of_flat (map (option_map flat_elem) (decode_nested a')).
Proof. exact derived_quantities_list. Qed.
Print Assumptions C16_derived_quantities.

Theorem C16_derived_quantities_points : forall a a' steps,
  wf_fixarr a = true -> wf_fixarr a' = true ->
  run_steps None steps (decode_point a) = Ok (decode_point a') ->
  run_steps nanbox steps (fa_bounds a) = Ok (fa_bounds a') /\
  run_steps true steps (fa_isna a) = Ok (fa_isna a').
Proof. exact derived_quantities_points. Qed.
Print Assumptions C16_derived_quantities_points.

(* ---- non-vacuity ---- *)
Definition ex_src : list (option elem) :=
  [Some (ECoords [Some 1; Some 2]%Z); None; Some (ECoords []);
   Some (ECoords [Some 3; Some 4; Some 5; Some 6]%Z)].

Example ex_history :
  run_steps None [Reverse; GetSlice (Some (-10)%Z) (Some 10%Z) (Some 2%Z);
                  TakeIdx [0; -1]%Z true] ex_src
  = Ok [Some (ECoords [Some 3; Some 4; Some 5; Some 6]%Z); None].
Proof. vm_compute; reflexivity. Qed.

Example ex_history_error :
  run_steps None [Rotate 1; Mask [true; false]] ex_src = IndexError.
Proof. vm_compute; reflexivity. Qed.

Example ex_take_empty :
  run_steps None [GetSlice None (Some 0%Z) None; TakeIdx [(-1)%Z; (-1)%Z] true] ex_src
  = Ok [None; None]
  /\ run_steps None [GetSlice None (Some 0%Z) None; TakeIdx [0%Z] true] ex_src = IndexError.
Proof. vm_compute; split; reflexivity. Qed.

(* a sliced two-level array (offset 1) and a fresh one holding the same elements *)
Definition ex_sliced : listarr :=
  {| la_off := 1%nat; la_len := 2%nat; la_valid := Some [true; false; true];
     la_offs := [[0; 1; 1; 3]; [0; 2; 2; 6]]%nat;
     la_vals := [Some 9; Some 9; Some 3; Some 4; Some 5; Some 6]%Z |}.
Definition ex_fresh : listarr :=
  {| la_off := 0%nat; la_len := 2%nat; la_valid := Some [false; true];
     la_offs := [[0; 0; 2]; [0; 0; 4]]%nat;
     la_vals := [Some 3; Some 4; Some 5; Some 6]%Z |}.

Example ex_py_slice :
  py_slice None ex_src (Some 5%Z) None (Some (-2)%Z)
  = Ok [Some (ECoords [Some 3; Some 4; Some 5; Some 6]%Z); None]
  /\ py_slice None ex_src None None (Some 0%Z) = ValueError
  /\ py_take None [(-1)%Z; 0%Z] true ex_src = Some [None; Some (ECoords [Some 1; Some 2]%Z)]
  /\ py_take None [(-2)%Z] true ex_src = None
  /\ py_take None [(-4)%Z] false ex_src = Some [Some (ECoords [Some 1; Some 2]%Z)]
  /\ py_take None [4%Z] false ex_src = None.
Proof. vm_compute. repeat split; reflexivity. Qed.

Example ex_same_decode :
  wf_listarr ex_sliced = true /\ nulls_empty ex_sliced = true /\
  wf_listarr ex_fresh = true /\ nulls_empty ex_fresh = true /\
  decode_flat ex_sliced = decode_flat ex_fresh /\
  decode_nested ex_sliced = [None; Some (EParts [[]; [Some 3; Some 4; Some 5; Some 6]%Z])].
Proof. vm_compute. repeat split; reflexivity. Qed.

(* ================================================================== *)
(* ---- several sources brought together (pd.concat of GeoSeries / frames whose
        geometry columns may differ in coordinate subtype or kind): Model/DeriveMulti.v.
        Whichever regime pandas chooses (same dtype: _concat_same_type; otherwise
        object arrays of the scalars), the elements are the concatenation of
        Python's slices of the sources; with any history after it, every slot-wise
        quantity of the result is the same selection of the sources' quantities.
        That pandas picks the object regime exactly when the dtypes differ, and what
        a scalar of another subtype becomes when it is put into an array, is checked
        on every run by harness/c16_mixed.py, not proved. ---- *)
From SP Require Import Model.DeriveMulti Proofs.DeriveMultiProofs.

Theorem C16_concat_sources_spec : forall (X : Type) (na : X) srcs ps,
  concat_pieces na srcs ps =
  pybind (collect (map (fun '(k, a, b, s) => py_slice na (nth k srcs []) a b s) ps))
         concat_same_type.
Proof. exact @concat_pieces_spec. Qed.
Print Assumptions C16_concat_sources_spec.

Theorem C16_concat_sources_nostep : forall (X : Type) (na : X) srcs
  (ps : list (nat * option Z * option Z)),
  concat_pieces na srcs (map (fun '(k, a, b) => (k, a, b, None)) ps) =
  match ps with
  | [] => ValueError
  | _ => Ok (concat (map (fun '(k, a, b) => py_slice1 na (nth k srcs []) a b) ps))
  end.
Proof. exact @concat_pieces_nostep. Qed.
Print Assumptions C16_concat_sources_nostep.

Theorem C16_concat_sources_object_regime : forall (X : Type) (na : X) srcs ps,
  concat_pieces_object na srcs ps = concat_pieces na srcs ps.
Proof. exact @concat_pieces_object_eq. Qed.
Print Assumptions C16_concat_sources_object_regime.

Theorem C16_multi_histories : forall (X Y : Type) (g : X -> Y) (naX : X) (naY : Y),
  g naX = naY ->
  forall srcs ps steps,
  run_multi naY (map (map g) srcs) ps steps
  = pymap (map g) (run_multi naX srcs ps steps).
Proof. exact @run_multi_map. Qed.
Print Assumptions C16_multi_histories.

Theorem C16_multi_bounds : forall srcs ps steps,
  run_multi nanbox (map (map elem_bbox) srcs) ps steps
  = pymap (map elem_bbox) (run_multi None srcs ps steps).
Proof. exact multi_bounds. Qed.
Print Assumptions C16_multi_bounds.

Theorem C16_multi_isna : forall (srcs : list (list (option elem))) ps steps,
  run_multi true (map isna srcs) ps steps
  = pymap isna (run_multi None srcs ps steps).
Proof. exact multi_isna. Qed.
Print Assumptions C16_multi_isna.

(* non-vacuity: an int64 source and a float64 source (values scaled as in Model/Num.v) *)
Definition ex_ints : list (option elem) :=
  [Some (EPoint (Some 1) (Some 2)); None; Some (EPoint (Some 3) (Some 4))]%Z.
Definition ex_floats : list (option elem) :=
  [Some (EPoint (Some 5) (Some 15)); None]%Z.

Example ex_multi :
  run_multi None [ex_ints; ex_floats]
    [(1, None, None, None); (0, None, None, Some (-1)%Z); (1, Some 5%Z, None, None)]%nat
    [TakeIdx [4; 0; (-1)]%Z false]
  = Ok [Some (EPoint (Some 1) (Some 2)); Some (EPoint (Some 5) (Some 15));
        Some (EPoint (Some 1) (Some 2))]%Z
  /\ concat_pieces None [ex_ints; ex_floats] [] = ValueError
  /\ concat_pieces None [ex_ints; ex_floats] [(0%nat, None, None, Some 0%Z)] = ValueError.
Proof. vm_compute. repeat split; reflexivity. Qed.
