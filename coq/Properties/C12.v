(* C12: stored partition bounds are the true extents; pruning never loses a row.
   The repository's logic: the bounds-metadata codec (string-keyed JSON), the
   alignment of bounds rows with part files (natural order; compaction in
   pack_partitions_to_parquet), the bounds= filter and the re-indexing. *)
From Coq Require Import ZArith NArith Arith List Bool Ascii String Permutation.
From SP Require Import Model.Num Model.Arrow Model.Bounds Spec.BoundsSpec Model.NatSort
                       Model.MetaCodec Spec.ParquetSpec
                       Proofs.NatSortProofs Proofs.MetaCodecProofs Proofs.ParquetPruneProofs
                       Proofs.ParquetAlignProofs Proofs.MetaCodecPermProofs.
Import ListNotations.
Local Open Scope nat_scope.

(* ---- the codec ---- *)

(* for every number of partitions, what is loaded is what was dumped, row for
   row: the string keys ("10" < "2" as text) cannot permute rows *)
Theorem C12_codec : forall bs, load (dump bs) = Some bs.
Proof. exact load_dump. Qed.
Print Assumptions C12_codec.

(* ... and the order in which the keys appear in the four JSON objects does not
   matter at all: any permutation of their entries loads to the same frame *)
Theorem C12_codec_any_key_order : forall bs e0 e1 e2 e3,
  Permutation e0 (dump_col bx0 bs) -> Permutation e1 (dump_col by0 bs) ->
  Permutation e2 (dump_col bx1 bs) -> Permutation e3 (dump_col by1 bs) ->
  load {| jx0 := e0; jy0 := e1; jx1 := e2; jy1 := e3 |} = Some bs.
Proof. exact load_dump_perm. Qed.
Print Assumptions C12_codec_any_key_order.

(* ---- alignment ---- *)

(* DaskGeoDataFrame.to_parquet: whatever order the directory is listed in, the
   j-th piece loaded is part.j.parquet and the j-th row loaded is the j-th row
   written (the extent of partition j, which Dask wrote to part.j.parquet) *)
Theorem C12_alignment : forall dir (bs : list bbox) listing,
  Permutation listing (seq 0 (List.length bs)) ->
  sort_pieces (map (fun i => part_path dir (N.of_nat i)) listing) =
    map (fun i => part_path dir (N.of_nat i)) (seq 0 (List.length bs)) /\
  load (dump bs) = Some bs.
Proof. exact to_parquet_alignment. Qed.
Print Assumptions C12_alignment.

(* pack_partitions_to_parquet: the non-empty output partitions become
   part.0 .. part.(m-1) in their order, and the bounds recorded for a column are
   theirs in the same order *)
Theorem C12_alignment_packed : forall {C} dir (wi : list (option (C * list (string * bbox)))),
  let '(files, all_bounds) := pack_layout dir wi in
  let m := List.length (somes wi) in
  map (fun f => snd (fst f)) files = map (fun k => part_path dir (N.of_nat k)) (seq 0 m) /\
  map snd files = map fst (somes wi) /\
  forall col, getl col all_bounds = flat_map (fun i => col_in col (snd i)) (somes wi).
Proof. exact @pack_alignment. Qed.
Print Assumptions C12_alignment_packed.

Theorem C12_alignment_packed_rows :
  forall {C} dir (wi : list (option (C * list (string * bbox)))) col
         (f : C * list (string * bbox) -> bbox),
  (forall i, In i (somes wi) -> col_in col (snd i) = [f i]) ->
  getl col (snd (pack_layout dir wi)) = map f (somes wi).
Proof. exact @pack_alignment_rows. Qed.
Print Assumptions C12_alignment_packed_rows.

(* ---- pruning ---- *)

(* one partition: kept iff its recorded extent overlaps the box (corners in
   either order; a NaN extent overlaps nothing) *)
Theorem C12_keep_iff : forall q b, keep q b = true <-> overlaps q b.
Proof. exact keep_iff. Qed.
Print Assumptions C12_keep_iff.

(* the whole read: the partitions kept are exactly those whose recorded extent
   of the active geometry overlaps the box, in loaded order -- and
   (C12_reindexed) the bounds reported afterwards are, for every geometry
   column, the rows of the kept partitions in that order *)
Theorem C12_prune_exact : forall {P} (d : P) q active pb (pieces : list P) rows pb' kept,
  cb_get active pb = Some rows ->
  prune (Some q) active pb pieces = Some (pb', kept) ->
  List.length rows = List.length pieces /\
  kept = at_positions d pieces (overlapping q rows) /\
  pb' = map (fun '(c, r) => (c, at_positions nanbox r (overlapping q rows))) pb.
Proof. exact @prune_exact. Qed.
Print Assumptions C12_prune_exact.

Theorem C12_reindexed : forall {P} (d : P) q active pb (pieces : list P) rows pb' kept c r,
  cb_get active pb = Some rows ->
  prune (Some q) active pb pieces = Some (pb', kept) ->
  In (c, r) pb ->
  In (c, at_positions nanbox r (overlapping q rows)) pb'.
Proof. exact @prune_reindexed. Qed.
Print Assumptions C12_reindexed.

Theorem C12_reported_when_kept : forall {P} (pb : colbounds) (kept : list P),
  pb <> [] -> kept <> [] -> expose pb kept = pb.
Proof. exact @expose_some. Qed.
Print Assumptions C12_reported_when_kept.

(* completeness: a partition holding an element whose bounds overlap the box is
   kept (list-backed kinds, then points).  That an element intersecting the box
   has bounds overlapping it is geometry (C01/C02); that the recorded row is the
   partition's total bounds is C12_codec + C12_alignment + C13. *)
Theorem C12_prune_complete : forall (parts : list listarr) q j i d,
  j < List.length parts ->
  let a := nth j parts d in
  wf_listarr a = true -> nulls_empty a = true -> even_outer a = true ->
  i < la_len a -> isna_at (la_valid a) (la_off a) i = false ->
  overlaps q (nth i (la_bounds a) nanbox) ->
  In j (overlapping q (map la_total_bounds parts)).
Proof. exact prune_complete_list. Qed.
Print Assumptions C12_prune_complete.

Theorem C12_prune_complete_points : forall (parts : list fixarr) q j i d,
  j < List.length parts ->
  let a := nth j parts d in
  wf_fixarr a = true -> i < fa_len a ->
  overlaps q (nth i (fa_bounds a) nanbox) ->
  In j (overlapping q (map fa_total_bounds parts)).
Proof. exact prune_complete_points. Qed.
Print Assumptions C12_prune_complete_points.

(* ---- non-vacuity ---- *)
Local Open Scope string_scope.

Definition ex_bs : list bbox :=
  map (fun i => (Some (Z.of_nat i), None, Some (Z.of_nat i + 5)%Z, Some 1%Z)) (seq 0 12).

Example ex_dump_keys :
  map fst (jx0 (dump ex_bs)) = ["0"; "1"; "2"; "3"; "4"; "5"; "6"; "7"; "8"; "9"; "10"; "11"].
Proof. vm_compute; reflexivity. Qed.

(* a document whose keys come in textual order (0, 1, 10, 11, 2, ...) loads in numeric order *)
Definition textual (e : entries) : entries :=
  sort_by (fun a b => String.ltb (fst a) (fst b)) e.
Example ex_load_textual :
  let j := dump ex_bs in
  map fst (textual (jx0 j)) = ["0"; "1"; "10"; "11"; "2"; "3"; "4"; "5"; "6"; "7"; "8"; "9"] /\
  load {| jx0 := textual (jx0 j); jy0 := textual (jy0 j);
          jx1 := textual (jx1 j); jy1 := textual (jy1 j) |} = Some ex_bs.
Proof. vm_compute; auto. Qed.

(* touching counts, one unit beyond does not, reversed corners are the same box,
   a NaN extent is never kept *)
Example ex_keep :
  map (fun q => keep q (Some 0, Some 0, Some 4, Some 4)%Z)
      [(Some 4, Some 4, Some 9, Some 9); (Some 5, Some 4, Some 9, Some 9);
       (Some 9, Some 9, Some 4, Some 4); (Some (-3), Some 1, Some (-1), Some 2);
       (None, Some 0, Some 1, Some 1)]%Z
  = [true; false; true; false; false] /\
  keep (Some (-100), Some (-100), Some 100, Some 100)%Z nanbox = false.
Proof. vm_compute; auto. Qed.

Example ex_prune :
  prune (Some (Some 3, Some 0, Some 1, Some 0)%Z) "a"
        [("a", [(Some 0, Some 0, Some 0, Some 0); (Some 1, Some 0, Some 2, Some 0);
                nanbox; (Some 3, Some 0, Some 9, Some 0)]%Z);
         ("b", [nanbox; (Some 7, Some 7, Some 7, Some 7)%Z; nanbox; nanbox])]
        [10; 11; 12; 13]
  = Some ([("a", [(Some 1, Some 0, Some 2, Some 0); (Some 3, Some 0, Some 9, Some 0)]%Z);
           ("b", [(Some 7, Some 7, Some 7, Some 7)%Z; nanbox])], [11; 13]).
Proof. vm_compute; reflexivity. Qed.

Example ex_pack :
  pack_layout "/d" [None; Some (1, [("a", nanbox)]); None;
                    Some (2, [("a", (Some 1, Some 1, Some 2, Some 2)%Z)])]
  = ([("/d/part.1.parquet", "/d/part.0.parquet", 1);
      ("/d/part.3.parquet", "/d/part.1.parquet", 2)],
     [("a", [nanbox; (Some 1, Some 1, Some 2, Some 2)%Z])]).
Proof. vm_compute; reflexivity. Qed.

(* ---- bounds values that are not integers (binary64 extents in general) ----
   The model never computes with a bounds value, it copies and compares: every
   function of the reader commutes with a strictly increasing renaming of the
   numbers (NaN stays NaN).  The correspondence run uses this to hand arbitrary
   binary64 extents to the model exactly: all numbers of a case multiplied by one
   power of two, or replaced by their ranks (harness/c12_util.py transport). *)
From SP Require Import Proofs.MetaCodecOrderProofs.

(* the table loaded from a document does not depend on what the numbers are (any f) *)
Theorem C12_load_values_parametric : forall (f : Z -> Z) j,
  load (jmap f j) = option_map (map (bmap f)) (load j).
Proof. exact load_mono. Qed.
Print Assumptions C12_load_values_parametric.

(* the bounds= test only looks at the order of the numbers *)
Theorem C12_keep_order_invariant : forall f, increasing f ->
  forall q b, keep (qmap f q) (bmap f b) = keep q b.
Proof. exact keep_mono. Qed.
Print Assumptions C12_keep_order_invariant.

(* read_parquet_dask(paths, geometry=active, bounds=q) on renamed numbers: the same
   partitions are kept and the bounds reported are the renamed bounds *)
Theorem C12_read_order_invariant : forall f, increasing f ->
  forall ds n active q,
  read_bounds (dsmap f ds) n active (option_map (qmap f) q)
  = option_map (fun r => (cbmap f (fst r), snd r)) (read_bounds ds n active q).
Proof. exact read_bounds_mono. Qed.
Print Assumptions C12_read_order_invariant.

(* multiplying by a power of two is such a renaming *)
Example ex_scaling_increasing : forall k : Z, (0 <= k)%Z -> increasing (fun z => z * 2 ^ k)%Z.
Proof. exact scaling_increasing. Qed.
