(* C15 — oriented() normalises ring direction without changing the shape.
   Theorem statements only; proofs are in Proofs/Orient*.v. *)
From Coq Require Import ZArith List Bool Arith.
From SP Require Import Model.Num Model.Arrow Model.Measures Model.Orient
  Proofs.BoundsProofs Spec.MeasuresSpec Proofs.MeasuresProofs Proofs.MeasuresMapProofs
  Proofs.MeasuresArrayProofs Spec.OrientSpec Proofs.OrientProofs Proofs.OrientArrayProofs
  Model.PointKernels Proofs.OrientWindingProofs.
Import ListNotations.
Local Open Scope nat_scope.

(* ---- each ring keeps its vertices in the same order or exactly reversed; nothing
        else in the values buffer changes (any ring offsets, any values, NaN included) ---- *)
Theorem C15_rings_same_or_reversed : forall vals po ro,
  mono ro = true -> last ro 0 <= length vals ->
  let v' := orient_polygons vals po ro in
  length v' = length vals /\
  (forall j, j < length ro - 1 ->
     ring_at v' ro j = if flips vals po ro j then rev_ring (ring_at vals ro j)
                       else ring_at vals ro j) /\
  firstn (getn ro 0) v' = firstn (getn ro 0) vals /\
  skipn (last ro 0) v' = skipn (last ro 0) vals.
Proof. exact OrientProofs.orient_rings. Qed.
Print Assumptions C15_rings_same_or_reversed.

(* [rev_ring] is the reversal of the vertex list *)
Theorem C15_rev_ring_is_reversal : forall r, Nat.even (length r) = true ->
  pairs (rev_ring r) = rev (pairs r).
Proof. exact OrientProofs.pairs_rev_ring. Qed.
Print Assumptions C15_rev_ring_is_reversal.

(* ---- structure: length, missing mask, every offsets level (hence parts and rings of
        every element) preserved, result well-formed; any buffer offsets / slicing ---- *)
Theorem C15_structure_polygon : forall a o0 o1,
  la_offs a = [o0; o1] -> wf_listarr a = true ->
  let b := polygon_oriented a in
  la_len b = la_len a /\ la_isna b = la_isna a /\
  buffer_offsets b = buffer_offsets a /\
  length (buffer_values b) = length (buffer_values a) /\
  wf_listarr b = true.
Proof. exact OrientArrayProofs.polygon_oriented_structure. Qed.
Print Assumptions C15_structure_polygon.

Theorem C15_structure_multipolygon : forall a o0 o1 o2,
  la_offs a = [o0; o1; o2] -> wf_listarr a = true ->
  let b := multipolygon_oriented a in
  la_len b = la_len a /\ la_isna b = la_isna a /\
  buffer_offsets b = buffer_offsets a /\
  length (buffer_values b) = length (buffer_values a) /\
  wf_listarr b = true.
Proof. exact OrientArrayProofs.multipolygon_oriented_structure. Qed.
Print Assumptions C15_structure_multipolygon.

(* every element keeps its rings (parts and ring counts follow from the preserved
   offsets), each ring the same or exactly reversed *)
Theorem C15_elements_polygon : forall a o0 o1,
  la_offs a = [o0; o1] -> wf_listarr a = true ->
  forall i, Forall2 same_or_rev (elem_rings (polygon_oriented a) i) (elem_rings a i).
Proof. exact OrientArrayProofs.polygon_oriented_elements. Qed.
Print Assumptions C15_elements_polygon.

Theorem C15_elements_multipolygon : forall a o0 o1 o2,
  la_offs a = [o0; o1; o2] -> wf_listarr a = true ->
  forall i, Forall2 same_or_rev (elem_rings (multipolygon_oriented a) i) (elem_rings a i).
Proof. exact OrientArrayProofs.multipolygon_oriented_elements. Qed.
Print Assumptions C15_elements_multipolygon.

(* ---- orientation: the rings treated as shells are exactly the first rings of the
        polygons ... ---- *)
Theorem C15_shell_is_first_ring : forall po ro j, j < length ro - 1 ->
  (nth j (expected_ccw po ro) false = true <-> is_shell po j).
Proof. exact OrientProofs.expected_ccw_shell. Qed.
Print Assumptions C15_shell_is_first_ring.

(* ... and after orient_polygons every ring in scope (finite and closed, or fewer than 3
   vertices) is the same ring or its reversal, a shell with non-zero area has area > 0,
   a hole has area <= 0, and zero-area rings are left as they are *)
Theorem C15_orientation : forall vals po ro j,
  mono ro = true -> last ro 0 <= length vals -> j < length ro - 1 ->
  ring_ok (ring_at vals ro j) ->
  let r' := ring_at (orient_polygons vals po ro) ro j in
  (length (ring_at vals ro j) < 6 /\ r' = ring_at vals ro j) \/
  (exists ps ps', ring_at vals ro j = flatz ps /\ closed ps /\
                  r' = flatz ps' /\ closed ps' /\ (ps' = ps \/ ps' = rev ps) /\
                  (nth j (expected_ccw po ro) false = true ->
                     (shoelace2 ps <> 0 -> 0 < shoelace2 ps')%Z /\
                     (shoelace2 ps = 0%Z -> ps' = ps)) /\
                  (nth j (expected_ccw po ro) false = false ->
                     (shoelace2 ps' <= 0)%Z /\ (shoelace2 ps = 0%Z -> ps' = ps))).
Proof. exact OrientProofs.orient_ring_ok. Qed.
Print Assumptions C15_orientation.

(* ---- idempotence ---- *)
Theorem C15_idempotent : forall vals po ro,
  mono ro = true -> last ro 0 <= length vals -> rings_closed vals ro ->
  orient_polygons (orient_polygons vals po ro) po ro = orient_polygons vals po ro.
Proof. exact OrientProofs.orient_idempotent. Qed.
Print Assumptions C15_idempotent.

Theorem C15_idempotent_polygon : forall a o0 o1,
  la_offs a = [o0; o1] -> wf_listarr a = true ->
  rings_closed (buffer_values a) o1 ->
  polygon_oriented (polygon_oriented a) = polygon_oriented a.
Proof. exact OrientArrayProofs.polygon_oriented_idempotent. Qed.
Print Assumptions C15_idempotent_polygon.

Theorem C15_idempotent_multipolygon : forall a o0 o1 o2,
  la_offs a = [o0; o1; o2] -> wf_listarr a = true ->
  rings_closed (buffer_values a) o2 ->
  multipolygon_oriented (multipolygon_oriented a) = multipolygon_oriented a.
Proof. exact OrientArrayProofs.multipolygon_oriented_idempotent. Qed.
Print Assumptions C15_idempotent_multipolygon.

(* the scope hypothesis is necessary: a shell whose area computation reads a NaN is
   reversed on every call, and so can an unclosed ring be *)
Theorem C15_idempotent_nan_refuted :
  exists vals po ro,
    orient_polygons (orient_polygons vals po ro) po ro <> orient_polygons vals po ro.
Proof. exact OrientProofs.orient_idempotent_nan_refuted. Qed.
Print Assumptions C15_idempotent_nan_refuted.

Theorem C15_idempotent_unclosed_refuted :
  exists ps po ro,
    orient_polygons (orient_polygons (flatz ps) po ro) po ro <> orient_polygons (flatz ps) po ro.
Proof. exact OrientProofs.orient_idempotent_unclosed_refuted. Qed.
Print Assumptions C15_idempotent_unclosed_refuted.

(* ---- areas: |area| of every ring unchanged; an oriented polygon has doubled area
        |shell| - sum |holes| (non-negative exactly when the holes are no larger than
        the shell, e.g. holes inside the shell) ---- *)
Theorem C15_area_magnitude : forall ps ps' : list (Z * Z), ps' = ps \/ ps' = rev ps ->
  Z.abs (shoelace2 ps') = Z.abs (shoelace2 ps).
Proof. exact OrientArrayProofs.abs_same_or_rev. Qed.
Print Assumptions C15_area_magnitude.

Theorem C15_area_valid : forall shell' holes' shell holes,
  (Z.abs (shoelace2 shell') = Z.abs (shoelace2 shell)) ->
  Forall2 (fun h' h => Z.abs (shoelace2 h') = Z.abs (shoelace2 h)) holes' holes ->
  (0 <= shoelace2 shell')%Z ->
  Forall (fun h => (shoelace2 h <= 0)%Z) holes' ->
  zsum (map shoelace2 (shell' :: holes')) =
  (Z.abs (shoelace2 shell) - zsum (map (fun h => Z.abs (shoelace2 h)) holes))%Z.
Proof. exact OrientArrayProofs.oriented_polygon_area. Qed.
Print Assumptions C15_area_valid.

(* ---- intersections ---- *)

(* reversing a ring negates its winding contribution at every point ... *)
Theorem C15_wn_rev : forall x y ps, wn_pts x y (rev ps) = (- wn_pts x y ps)%Z.
Proof. exact OrientWindingProofs.wn_rev. Qed.
Print Assumptions C15_wn_rev.

(* ... so when every ring of a polygon is reversed (what oriented() does to a polygon
   whose shell is clockwise and whose holes are counter-clockwise; none is reversed
   when it is already oriented) point_intersects_polygon answers the same everywhere.
   partial: that oriented() reverses all-or-none of the non-zero-area rings of an
   opposite-wound polygon, and the box kernels, are validated by the run, not proved. *)
Theorem C15_intersections_unchanged_partial : forall x y v0 v1 offs,
  map zpairs (rings_of v1 offs) = map (@rev (Z * Z)) (map zpairs (rings_of v0 offs)) ->
  point_intersects_polygon x y v1 offs = point_intersects_polygon x y v0 offs.
Proof. exact OrientWindingProofs.intersects_unchanged_all_reversed. Qed.
Print Assumptions C15_intersections_unchanged_partial.

(* for a hole wound the same way as its shell the statement is false (known finding
   oriented-changes-intersects:same-wound-hole) *)
Theorem C15_intersections_same_wound_refuted :
  exists vals po ro x y v0 v1,
    finite_vals vals = Some v0 /\
    finite_vals (orient_polygons vals po ro) = Some v1 /\
    point_intersects_polygon x y v0 ro = true /\
    point_intersects_polygon x y v1 ro = false.
Proof. exact OrientWindingProofs.intersections_same_wound_refuted. Qed.
Print Assumptions C15_intersections_same_wound_refuted.

(* ---- non-vacuity ---- *)
Example ex_flip : orient_polygons (flatz [(0,0); (0,2); (2,2); (2,0); (0,0)]%Z) [0; 1] [0; 10]
                  = flatz [(0,0); (2,0); (2,2); (0,2); (0,0)]%Z.
Proof. vm_compute. reflexivity. Qed.
Example ex_d6 : (* the zero-area hole of the repaired defect is not flipped *)
  orient_polygons (flatz [(0,0); (2,0); (2,2); (0,0); (1,1); (2,2); (3,3); (1,1)]%Z) [0; 2] [0; 8; 16]
  = flatz [(0,0); (2,0); (2,2); (0,0); (1,1); (2,2); (3,3); (1,1)]%Z.
Proof. vm_compute. reflexivity. Qed.
