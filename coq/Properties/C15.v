(* C15 — oriented() normalises ring direction without changing the shape.
   Theorem statements only; proofs are in Proofs/Orient*.v. *)
From Coq Require Import ZArith List Bool Arith.
From SP Require Import Model.Num Model.Arrow Model.Measures Model.Orient
  Proofs.BoundsProofs Spec.MeasuresSpec Proofs.MeasuresProofs Proofs.MeasuresMapProofs
  Proofs.MeasuresArrayProofs Spec.OrientSpec Proofs.OrientProofs Proofs.OrientArrayProofs
  Model.PointKernels Proofs.OrientWindingProofs.
Import ListNotations.
Local Open Scope nat_scope.

(* ---- each ring keeps its vertices in the same order or exactly reversed; nothing
        else in the values buffer changes (any ring offsets, any values, NaN included) ---- *)
Theorem C15_rings_same_or_reversed : forall vals po ro,
  mono ro = true -> last ro 0 <= length vals ->
  let v' := orient_polygons vals po ro in
  length v' = length vals /\
  (forall j, j < length ro - 1 ->
     ring_at v' ro j = if flips vals po ro j then rev_ring (ring_at vals ro j)
                       else ring_at vals ro j) /\
  firstn (getn ro 0) v' = firstn (getn ro 0) vals /\
  skipn (last ro 0) v' = skipn (last ro 0) vals.
Proof. exact OrientProofs.orient_rings. Qed.
Print Assumptions C15_rings_same_or_reversed.

(* [rev_ring] is the reversal of the vertex list *)
Theorem C15_rev_ring_is_reversal : forall r, Nat.even (length r) = true ->
  pairs (rev_ring r) = rev (pairs r).
Proof. exact OrientProofs.pairs_rev_ring. Qed.
Print Assumptions C15_rev_ring_is_reversal.

(* ---- structure: length, missing mask, every offsets level (hence parts and rings of
        every element) preserved, result well-formed; any buffer offsets / slicing ---- *)
Theorem C15_structure_polygon : forall a o0 o1,
  la_offs a = [o0; o1] -> wf_listarr a = true ->
  let b := polygon_oriented a in
  la_len b = la_len a /\ la_isna b = la_isna a /\
  buffer_offsets b = buffer_offsets a /\
  length (buffer_values b) = length (buffer_values a) /\
  wf_listarr b = true.
Proof. exact OrientArrayProofs.polygon_oriented_structure. Qed.
Print Assumptions C15_structure_polygon.

Theorem C15_structure_multipolygon : forall a o0 o1 o2,
  la_offs a = [o0; o1; o2] -> wf_listarr a = true ->
  let b := multipolygon_oriented a in
  la_len b = la_len a /\ la_isna b = la_isna a /\
  buffer_offsets b = buffer_offsets a /\
  length (buffer_values b) = length (buffer_values a) /\
  wf_listarr b = true.
Proof. exact OrientArrayProofs.multipolygon_oriented_structure. Qed.
Print Assumptions C15_structure_multipolygon.

(* every element keeps its rings (parts and ring counts follow from the preserved
   offsets), each ring the same or exactly reversed *)
Theorem C15_elements_polygon : forall a o0 o1,
  la_offs a = [o0; o1] -> wf_listarr a = true ->
  forall i, Forall2 same_or_rev (elem_rings (polygon_oriented a) i) (elem_rings a i).
Proof. exact OrientArrayProofs.polygon_oriented_elements. Qed.
Print Assumptions C15_elements_polygon.

Theorem C15_elements_multipolygon : forall a o0 o1 o2,
  la_offs a = [o0; o1; o2] -> wf_listarr a = true ->
  forall i, Forall2 same_or_rev (elem_rings (multipolygon_oriented a) i) (elem_rings a i).
Proof. exact OrientArrayProofs.multipolygon_oriented_elements. Qed.
Print Assumptions C15_elements_multipolygon.

(* ---- orientation: the rings treated as shells are exactly the first rings of the
        polygons ... ---- *)
Theorem C15_shell_is_first_ring : forall po ro j, j < length ro - 1 ->
  (nth j (expected_ccw po ro) false = true <-> is_shell po j).
Proof. exact OrientProofs.expected_ccw_shell. Qed.
Print Assumptions C15_shell_is_first_ring.

(* ... and after orient_polygons every ring in scope (finite and closed, or fewer than 3
   vertices) is the same ring or its reversal, a shell with non-zero area has area > 0,
   a hole has area <= 0, and zero-area rings are left as they are *)
Theorem C15_orientation : forall vals po ro j,
  mono ro = true -> last ro 0 <= length vals -> j < length ro - 1 ->
  ring_ok (ring_at vals ro j) ->
  let r' := ring_at (orient_polygons vals po ro) ro j in
  (length (ring_at vals ro j) < 6 /\ r' = ring_at vals ro j) \/
  (exists ps ps', ring_at vals ro j = flatz ps /\ closed ps /\
                  r' = flatz ps' /\ closed ps' /\ (ps' = ps \/ ps' = rev ps) /\
                  (nth j (expected_ccw po ro) false = true ->
                     (shoelace2 ps <> 0 -> 0 < shoelace2 ps')%Z /\
                     (shoelace2 ps = 0%Z -> ps' = ps)) /\
                  (nth j (expected_ccw po ro) false = false ->
                     (shoelace2 ps' <= 0)%Z /\ (shoelace2 ps = 0%Z -> ps' = ps))).
Proof. exact OrientProofs.orient_ring_ok. Qed.
Print Assumptions C15_orientation.

(* ---- idempotence ---- *)
Theorem C15_idempotent : forall vals po ro,
  mono ro = true -> last ro 0 <= length vals -> rings_closed vals ro ->
  orient_polygons (orient_polygons vals po ro) po ro = orient_polygons vals po ro.
Proof. exact OrientProofs.orient_idempotent. Qed.
Print Assumptions C15_idempotent.

Theorem C15_idempotent_polygon : forall a o0 o1,
  la_offs a = [o0; o1] -> wf_listarr a = true ->
  rings_closed (buffer_values a) o1 ->
  polygon_oriented (polygon_oriented a) = polygon_oriented a.
Proof. exact OrientArrayProofs.polygon_oriented_idempotent. Qed.
Print Assumptions C15_idempotent_polygon.

Theorem C15_idempotent_multipolygon : forall a o0 o1 o2,
  la_offs a = [o0; o1; o2] -> wf_listarr a = true ->
  rings_closed (buffer_values a) o2 ->
  multipolygon_oriented (multipolygon_oriented a) = multipolygon_oriented a.
Proof. exact OrientArrayProofs.multipolygon_oriented_idempotent. Qed.
Print Assumptions C15_idempotent_multipolygon.

(* the scope hypothesis is necessary: a shell whose area computation reads a NaN is
   reversed on every call, and so can an unclosed ring be *)
Theorem C15_idempotent_nan_refuted :
  exists vals po ro,
    orient_polygons (orient_polygons vals po ro) po ro <> orient_polygons vals po ro.
Proof. exact OrientProofs.orient_idempotent_nan_refuted. Qed.
Print Assumptions C15_idempotent_nan_refuted.

Theorem C15_idempotent_unclosed_refuted :
  exists ps po ro,
    orient_polygons (orient_polygons (flatz ps) po ro) po ro <> orient_polygons (flatz ps) po ro.
Proof. exact OrientProofs.orient_idempotent_unclosed_refuted. Qed.
Print Assumptions C15_idempotent_unclosed_refuted.

(* ---- areas: |area| of every ring unchanged; an oriented polygon has doubled area
        |shell| - sum |holes| (non-negative exactly when the holes are no larger than
        the shell, e.g. holes inside the shell) ---- *)
Theorem C15_area_magnitude : forall ps ps' : list (Z * Z), ps' = ps \/ ps' = rev ps ->
  Z.abs (shoelace2 ps') = Z.abs (shoelace2 ps).
Proof. exact OrientArrayProofs.abs_same_or_rev. Qed.
Print Assumptions C15_area_magnitude.

Theorem C15_area_valid : forall shell' holes' shell holes,
  (Z.abs (shoelace2 shell') = Z.abs (shoelace2 shell)) ->
  Forall2 (fun h' h => Z.abs (shoelace2 h') = Z.abs (shoelace2 h)) holes' holes ->
  (0 <= shoelace2 shell')%Z ->
  Forall (fun h => (shoelace2 h <= 0)%Z) holes' ->
  zsum (map shoelace2 (shell' :: holes')) =
  (Z.abs (shoelace2 shell) - zsum (map (fun h => Z.abs (shoelace2 h)) holes))%Z.
Proof. exact OrientArrayProofs.oriented_polygon_area. Qed.
Print Assumptions C15_area_valid.

(* ---- intersections ---- *)

(* reversing a ring negates its winding contribution at every point ... *)
Theorem C15_wn_rev : forall x y ps, wn_pts x y (rev ps) = (- wn_pts x y ps)%Z.
Proof. exact OrientWindingProofs.wn_rev. Qed.
Print Assumptions C15_wn_rev.

(* ... so when every ring of a polygon is reversed (what oriented() does to a polygon
   whose shell is clockwise and whose holes are counter-clockwise; none is reversed
   when it is already oriented) point_intersects_polygon answers the same everywhere.
   partial: that oriented() reverses all-or-none of the non-zero-area rings of an
   opposite-wound polygon, and the box kernels, are validated by the run, not proved. *)
Theorem C15_intersections_unchanged_partial : forall x y v0 v1 offs,
  map zpairs (rings_of v1 offs) = map (@rev (Z * Z)) (map zpairs (rings_of v0 offs)) ->
  point_intersects_polygon x y v1 offs = point_intersects_polygon x y v0 offs.
Proof. exact OrientWindingProofs.intersects_unchanged_all_reversed. Qed.
Print Assumptions C15_intersections_unchanged_partial.

(* for a hole wound the same way as its shell the statement is false (known finding
   oriented-changes-intersects:same-wound-hole) *)
Theorem C15_intersections_same_wound_refuted :
  exists vals po ro x y v0 v1,
    finite_vals vals = Some v0 /\
    finite_vals (orient_polygons vals po ro) = Some v1 /\
    point_intersects_polygon x y v0 ro = true /\
    point_intersects_polygon x y v1 ro = false.
Proof. exact OrientWindingProofs.intersections_same_wound_refuted. Qed.
Print Assumptions C15_intersections_same_wound_refuted.

(* ---- non-vacuity ---- *)
Example ex_flip : orient_polygons (flatz [(0,0); (0,2); (2,2); (2,0); (0,0)]%Z) [0; 1] [0; 10]
                  = flatz [(0,0); (2,0); (2,2); (0,2); (0,0)]%Z.
Proof. vm_compute. reflexivity. Qed.
Example ex_d6 : (* the zero-area hole of the repaired defect is not flipped *)
  orient_polygons (flatz [(0,0); (2,0); (2,2); (0,0); (1,1); (2,2); (3,3); (1,1)]%Z) [0; 2] [0; 8; 16]
  = flatz [(0,0); (2,0); (2,2); (0,0); (1,1); (2,2); (3,3); (1,1)]%Z.
Proof. vm_compute. reflexivity. Qed.

(* ==================================================================== *)
(* The same function with the arithmetic the code really performs and values of ANY type
   (Model/FloatOrient.v): the decision "flip ring j" is taken on the binary64 area computed by
   compute_area (Model/FloatMeasures.v, bit exact) on np.float64(values[i]) -- no tolerance,
   no threshold, whatever the magnitude of the area --, and the values moved are the array's
   own values (float32 / float64 bit patterns, int16 / int32 / int64 integers, also those that
   binary64 cannot hold).  Tied to /repo by harness/c15_float.py on coordinates that are not
   small integers.                                                                          *)
(* ==================================================================== *)
From Coq Require Import PrimFloat.
From SP Require Import Harness Model.FloatMeasures Model.FloatOrient Spec.FloatOrientSpec
  Proofs.FloatOrientProofs.

(* every ring is kept or exactly reversed, according to the decision [f_flips] taken on the
   binary64 areas of the ORIGINAL values; no value is created, rounded or altered; nothing
   else in the buffer moves.  Any value type A, any conversion to binary64, any values (NaN,
   infinities, -0.0, integers beyond 2^53), any ring offsets. *)
Theorem C15_float_rings_same_or_reversed :
  forall (A : Type) (to_f : A -> float) (vals : list A) po ro,
  mono ro = true -> last ro 0 <= length vals ->
  let v' := f_orient_polygons to_f vals po ro in
  length v' = length vals /\
  (forall j, j < length ro - 1 ->
     ring_at_g v' ro j = if f_flips to_f vals po ro j then rev_ring_g (ring_at_g vals ro j)
                         else ring_at_g vals ro j) /\
  firstn (getn ro 0) v' = firstn (getn ro 0) vals /\
  skipn (last ro 0) v' = skipn (last ro 0) vals.
Proof. exact (@FloatOrientProofs.f_orient_rings_any). Qed.
Print Assumptions C15_float_rings_same_or_reversed.

(* [rev_ring_g] is the reversal of the vertex list, at any value type *)
Theorem C15_float_rev_ring_is_reversal : forall (A : Type) (r : list A),
  Nat.even (length r) = true -> pairs_g (rev_ring_g r) = rev (pairs_g r).
Proof. exact (@FloatOrientProofs.pairs_rev_ring_g). Qed.
Print Assumptions C15_float_rev_ring_is_reversal.

(* the reversal loop never looks at a value: on the image [map g l] of a buffer it does what
   it does on [l] (in particular: through a conversion g that is not injective, such as
   int64 -> float64, the result is NOT the conversion of the exact result's preimage --
   the code must move the values themselves) *)
Theorem C15_float_reversal_natural : forall (A B : Type) (g : A -> B) flips ro (l : list A),
  orient_by (map g l) flips ro = map g (orient_by l flips ro).
Proof. exact (@FloatOrientProofs.orient_by_map). Qed.
Print Assumptions C15_float_reversal_natural.

(* whenever the binary64 area of a ring has the sign and the zero-ness of the exact doubled
   area z, the decision is the one of the integer model (Model/Orient.v, flip_test) *)
Theorem C15_float_decision_exact_partial : forall (a : float) (z : Z) (c : bool),
  PrimFloat.ltb zero a = (0 <? z)%Z -> PrimFloat.eqb a zero = (z =? 0)%Z ->
  f_flip_test a c = flip_test (Some z) c.
Proof. exact FloatOrientProofs.f_flip_test_exact. Qed.
Print Assumptions C15_float_decision_exact_partial.

(* ---- non-vacuity, by kernel evaluation of the binary64 model ---- *)
(* a clockwise square shell of side 2^-14 (a 7 m footprint in degrees; area 2^-28 = 3.7e-9,
   far below any "close to zero" tolerance) is reversed *)
Example ex_tiny_shell_flipped :
  eqbc (f_orient_polygons (fun x => x)
          [2; 1; 2; 0x1.0004p+0; 0x1.00008p+1; 0x1.0004p+0; 0x1.00008p+1; 1; 2; 1]%float [0; 1] [0; 10])
       [2; 1; 0x1.00008p+1; 1; 0x1.00008p+1; 0x1.0004p+0; 2; 0x1.0004p+0; 2; 1]%float = true.
Proof. vm_compute. reflexivity. Qed.
(* ... and so is one of side 2^-500 (area 2^-1000) *)
Example ex_1e300th_shell_flipped :
  eqbc (f_orient_polygons (fun x => x)
          [0; 0; 0; 0x1p-500; 0x1p-500; 0x1p-500; 0x1p-500; 0; 0; 0]%float [0; 1] [0; 10])
       [0; 0; 0x1p-500; 0; 0x1p-500; 0x1p-500; 0; 0x1p-500; 0; 0]%float = true.
Proof. vm_compute. reflexivity. Qed.
(* an int64 ring beyond 2^53 is reversed integer for integer (its float64 images collide) *)
Example ex_int64_ring_exact :
  f_orient_polygons f_of_Z
    [9007199254740993; 9007199254740995; 9007199254740993; 9007199254741011;
     9007199254741009; 9007199254741011; 9007199254741009; 9007199254740995;
     9007199254740993; 9007199254740995]%Z [0; 1] [0; 10]
  = [9007199254740993; 9007199254740995; 9007199254741009; 9007199254740995;
     9007199254741009; 9007199254741011; 9007199254740993; 9007199254741011;
     9007199254740993; 9007199254740995]%Z.
Proof. vm_compute. reflexivity. Qed.

(* ---- the limits of a binary64 area (finite inputs on which the orientation / idempotence
        clauses fail because the area is not what the exact area is; the harness counts
        these classes, float_area_unreliable:*, and compares model = code on them) ---- *)
(* overflow: a counter-clockwise square with corners about 1e200 and 2e200 (1.25 * 2^664, 1.25 * 2^665)
   has area inf - inf = NaN:
   it is reversed by every call, so oriented() is not idempotent on it *)
Example ex_overflow_not_idempotent :
  let v := [0x1.4p+664; 0x1.4p+664; 0x1.4p+665; 0x1.4p+664; 0x1.4p+665; 0x1.4p+665;
            0x1.4p+664; 0x1.4p+665; 0x1.4p+664; 0x1.4p+664]%float in
  let v1 := f_orient_polygons (fun x => x) v [0; 1] [0; 10] in
  let v2 := f_orient_polygons (fun x => x) v1 [0; 1] [0; 10] in
  eqbc v1 v = false /\ eqbc v2 v1 = false /\ eqbc v2 v = true.
Proof. vm_compute. repeat split; reflexivity. Qed.
(* underflow: a clockwise square of side 2^-540 has area 0.0 and stays clockwise *)
Example ex_underflow_not_flipped :
  let v := [0; 0; 0; 0x1p-540; 0x1p-540; 0x1p-540; 0x1p-540; 0; 0; 0]%float in
  eqbc (f_orient_polygons (fun x => x) v [0; 1] [0; 10]) v = true.
Proof. vm_compute. reflexivity. Qed.
(* rounding of int64 values: the clockwise triangle (2^53+1,0) (2^53+2,1) (2^53+4,2), exact
   doubled area -1, has float64 area 0.0 and stays clockwise *)
Example ex_int64_sign_lost :
  let v := [9007199254740993; 0; 9007199254740994; 1; 9007199254740996; 2; 9007199254740993; 0]%Z in
  f_orient_polygons f_of_Z v [0; 1] [0; 8] = v /\
  compute_area (map Some v) [0; 8] = Some (-1)%Z.
Proof. vm_compute. split; reflexivity. Qed.
