(* C19 -- transient filesystem faults never yield a silently wrong packed dataset.
   Statements only; proofs live in Proofs/. *)
From Coq Require Import ZArith List Bool Arith String.
From Coq Require Import Permutation.
From SP Require Import Harness Model.FS Model.PackFS Model.Retry Spec.PackSpec Proofs.PackExamples
  Proofs.RetryProofs Proofs.RetryRecoverInv Proofs.RetryRecoverRun Proofs.RetryRecover
  Proofs.RetryRecoverExamples.
Import ListNotations.

(* C19_all_or_error.  For EVERY retry budget K, EVERY fault schedule that contains no lying
   existence check -- i.e. any number of faults of the kinds raise-before-the-effect (OSError),
   FileNotFoundError, raise-after-the-complete-effect, raise-after-a-partial-effect (rm,
   makedirs, open-for-write), stale listing, at any of the filesystem calls of the run -- every
   prior tree, configuration (three temp modes, any task orders) and assignment matrix: if the
   fault-free run returns, the faulty run either raises or returns the same parts and leaves
   exactly the same tree.  [packF] is the model the correspondence run evaluates. *)
Theorem C19_all_or_error : forall K sched f0 cfg asg parts f1,
  ~ In (Some FLie) sched ->
  pack f0 cfg asg = OK parts f1 ->
  (exists s, packF K sched f0 cfg asg = Err s) \/
  (exists s, packF K sched f0 cfg asg = OK parts s /\ st_fs s = f1).
Proof. exact all_or_error_no_lie. Qed.
Print Assumptions C19_all_or_error.

(* the same for the instance of the model in which a lying stat call acts as a raising one,
   without any condition on the schedule *)
Theorem C19_all_or_error_gen : forall K sched f0 cfg asg parts f1,
  pack f0 cfg asg = OK parts f1 ->
  (exists s, packF_gen false K sched f0 cfg asg = Err s) \/
  (exists s, packF_gen false K sched f0 cfg asg = OK parts s /\ st_fs s = f1).
Proof. exact all_or_error. Qed.
Print Assumptions C19_all_or_error_gen.

(* wrapper_idempotent_*: one faulty attempt of a retried function, started in any state s
   from which the fault-free function would return (a, f'), either returns a leaving f', or
   raises leaving a state from which the fault-free function STILL returns (a, f') -- so
   re-executing it from whatever an interrupted attempt left reaches the fault-free
   post-state ([attempt_ok], Proofs/RetryProofs.v). *)
Theorem wrapper_idempotent_rm_retry : forall p,
  attempt_ok (body_rm (faulty_prims false) p) (body_rm pure_prims p).
Proof. exact attempt_rm. Qed.
Print Assumptions wrapper_idempotent_rm_retry.

Theorem wrapper_idempotent_mkdirs_retry : forall p,
  attempt_ok (body_mkdirs (faulty_prims false) p) (body_mkdirs pure_prims p).
Proof. exact (attempt_mkdirs false). Qed.
Print Assumptions wrapper_idempotent_mkdirs_retry.

(* write_partition, write_concatted_part, write_metadata_file: one open-write-close *)
Theorem wrapper_idempotent_write : forall p c,
  attempt_ok (p_write (faulty_prims false) p c) (p_write pure_prims p c).
Proof. exact (attempt_write false). Qed.
Print Assumptions wrapper_idempotent_write.

Theorem wrapper_idempotent_move_retry : forall p1 p2,
  attempt_ok (body_move (faulty_prims false) p1 p2) (body_move pure_prims p1 p2).
Proof. exact attempt_move. Qed.
Print Assumptions wrapper_idempotent_move_retry.

Theorem wrapper_idempotent_write_commonmetadata : forall d ps,
  attempt_ok (body_write_common (faulty_prims false) d ps) (body_write_common pure_prims d ps).
Proof. exact attempt_write_common. Qed.
Print Assumptions wrapper_idempotent_write_commonmetadata.

(* read_parquet_retry never touches the tree; when the fault-free one returns, a faulty
   attempt raises or returns the same rows (a stale listing fails the consistency check) *)
Theorem wrapper_idempotent_read_parquet_retry : forall tmp subs out,
  roc (body_read_parquet (faulty_prims false) tmp subs out) (body_read_parquet pure_prims tmp subs out).
Proof. exact read_parquet_roc. Qed.
Print Assumptions wrapper_idempotent_read_parquet_retry.

(* Bounded, decided by computation: on setup M (harness/c19.py; three temp modes, retry
   budget 3, prior dataset + overwrite) EVERY single fault of EVERY kind -- raise before the
   effect, FileNotFoundError, raise after the complete effect, raise after a partial effect,
   stale listing, lying existence check -- at every filesystem call of the run makes the call
   raise or leave exactly the fault-free tree and parts.  (Covers the three lying-exists
   schedules that broke the code before commit 89cec74.) *)
Theorem C19_single_faults_M_inside :
  forallb (fun pos => forallb (fun ft => outcome_ok 3 (single pos ft) TInside) all_kinds)
          (seq 0 130) = true.
Proof. exact single_faults_M_inside. Qed.
Print Assumptions C19_single_faults_M_inside.

Theorem C19_single_faults_M_flat :
  forallb (fun pos => forallb (fun ft => outcome_ok 3 (single pos ft) (TExternal [])) all_kinds)
          (seq 0 130) = true.
Proof. exact single_faults_M_flat. Qed.
Print Assumptions C19_single_faults_M_flat.

Theorem C19_single_faults_M_uuid :
  forallb (fun pos => forallb (fun ft => outcome_ok 3 (single pos ft) (TExternal uuid_parent)) all_kinds)
          (seq 0 130) = true.
Proof. exact single_faults_M_uuid. Qed.
Print Assumptions C19_single_faults_M_uuid.

(* With lying existence checks the unrestricted statement is false even after the repair of
   rm_retry: a FileNotFoundError injected at rm (taken for "already gone") followed by a lying
   exists makes rm_retry return without removing; over debris that does not collide with the
   new part directories the call returns normally with the debris inside the dataset. *)
Theorem C19_lie_pair_refuted :
  exists parts f1 parts' s,
    pack priorJ (cfgM (TExternal [])) asgM = OK parts f1 /\
    packF 3 lie_pair_sched priorJ (cfgM (TExternal [])) asgM = OK parts' s /\
    node_at f1 (ds ++ [NStr "notes.txt"%string]) = None /\
    node_at (st_fs s) (ds ++ [NStr "notes.txt"%string]) = Some (File (COpaque 7)).
Proof. exact lie_pair_defeats_rm_retry. Qed.
Print Assumptions C19_lie_pair_refuted.

(* C19_recover, bounded: with a retry budget of one attempt every single fault aborts the run
   where it strikes (all 75 calls, every fault kind incl. partial effects); from every such
   aborted tree of setup M a fault-free repeat with overwrite=True ends in exactly the
   fault-free tree (default and flat external temp directories). *)
Theorem C19_recover_M_inside :
  forallb (fun pos => forallb (fun ft => recover_ok 1 (single pos ft) TInside) all_kinds) (seq 0 130) = true.
Proof. exact recover_M_inside. Qed.
Print Assumptions C19_recover_M_inside.

Theorem C19_recover_M_flat :
  forallb (fun pos => forallb (fun ft => recover_ok 1 (single pos ft) (TExternal [])) all_kinds) (seq 0 130) = true.
Proof. exact recover_M_flat. Qed.
Print Assumptions C19_recover_M_flat.

Example C19_recover_M_runs_abort :
  forallb (fun pos => aborts 1 (single pos FRaise) TInside) (seq 0 75) = true /\
  forallb (fun pos => aborts 1 (single pos FRaise) (TExternal [])) (seq 0 75) = true.
Proof. exact aborts_M. Qed.

(* ================================================================== C19_recover, in general *)
(* C19_recover.  For EVERY prior tree, configuration (npartitions, input partitions, assignment
   matrix, task orders, default temp directories or ANY external temp parent -- C10_layout's
   hypotheses), EVERY retry budget and EVERY fault schedule -- any number of faults of all six
   modelled kinds (lying existence checks included) at any positions, within or beyond the
   budget -- such that the call ABORTS leaving the tree [st_fs s]: the fault-free repeat of the
   call with overwrite=True (same dataset path, npartitions and temp-directory locations;
   [recover_cfg]: any task orders) returns, and the tree it leaves is path by path
   [expected_node f0 cfg parts] -- the tree C10_layout gives for the call on the ORIGINAL prior
   tree f0: below the dataset path exactly part.0..part.(m-1), _metadata, _common_metadata;
   everywhere else the prior tree (plus the directories makedirs creates on the way).  In
   particular nothing the aborted run left -- under the dataset path or in the per-partition
   temp directories tmp_path cfg N -- survives.
   Scope: the repeat uses the SAME temp-directory paths (tempdir_format=None, or a format
   without a per-call component).  With a {uuid} in the format the repeat draws a new uuid:
   see C19_recover_fresh_tmp and C19_recover_uuid_debris_refuted below. *)
Theorem C19_recover : forall n sched f0 cfg asg io co s,
  prior_ok f0 cfg -> tmp_separate cfg -> wf_asg (c_k cfg) asg -> wf_orders cfg asg ->
  wf_orders (recover_cfg cfg io co) asg ->
  nonempty_outputs (c_k cfg) asg <> [] ->
  packF n sched f0 cfg asg = Err s ->
  exists parts f2,
    pack (st_fs s) (recover_cfg cfg io co) asg = OK parts f2 /\
    (forall q, node_at f2 q = expected_node f0 cfg parts q) /\
    Forall2 (fun p N => Permutation p (cells_of asg N)) parts (nonempty_outputs (c_k cfg) asg).
Proof. exact recover_general. Qed.
Print Assumptions C19_recover.

(* C19_recover_same_tree.  ... against the fault-free run itself: the fault-free call on the
   original prior tree returns (C10_layout), and the repeat after the aborted run ends in the
   same tree, node by node -- [tree_eqb_at] is the model's own equality of nodes ([onode_eqb],
   what the correspondence run compares trees with): the same directories, the same files, a
   data file holding the same rows as a bag (the order in which sub-parts are concatenated is
   not part of the model's notion of a file; the code sorts the rows afterwards). *)
Theorem C19_recover_same_tree : forall n sched f0 cfg asg io co s,
  prior_ok f0 cfg -> tmp_separate cfg -> wf_asg (c_k cfg) asg -> wf_orders cfg asg ->
  wf_orders (recover_cfg cfg io co) asg ->
  nonempty_outputs (c_k cfg) asg <> [] ->
  packF n sched f0 cfg asg = Err s ->
  exists parts1 f1 parts2 f2,
    pack f0 cfg asg = OK parts1 f1 /\
    pack (st_fs s) (recover_cfg cfg io co) asg = OK parts2 f2 /\
    Forall2 (@Permutation cell) parts2 parts1 /\
    forall q, tree_eqb_at f2 f1 q = true.
Proof. exact recover_same_tree. Qed.
Print Assumptions C19_recover_same_tree.

(* the same from whatever state a run leaves (returned or raised), either instance of the model *)
Theorem C19_recover_any_state : forall lies n sched f0 cfg asg io co,
  prior_ok f0 cfg -> tmp_separate cfg -> wf_asg (c_k cfg) asg -> wf_orders cfg asg ->
  wf_orders (recover_cfg cfg io co) asg ->
  nonempty_outputs (c_k cfg) asg <> [] ->
  forall s, (packF_gen lies n sched f0 cfg asg = Err s \/
             exists r, packF_gen lies n sched f0 cfg asg = OK r s) ->
  exists parts f2,
    pack (st_fs s) (recover_cfg cfg io co) asg = OK parts f2 /\
    (forall q, node_at f2 q = expected_node f0 cfg parts q) /\
    Forall2 (fun p N => Permutation p (cells_of asg N)) parts (nonempty_outputs (c_k cfg) asg).
Proof. exact recover_from_any_state. Qed.
Print Assumptions C19_recover_any_state.

(* the invariant behind it: every tree a run over the faulty filesystem leaves has unique
   paths, is a tree at the dataset path, equals the prior tree outside the paths the call owns
   (dataset path, per-partition temp directories) up to directories created on the way, and
   holds nothing in an external temp directory but sub-part files of the assignment *)
Theorem C19_aborted_tree_invariant : forall cfg asg f0,
  prior_ok f0 cfg -> tmp_separate cfg -> wf_asg (c_k cfg) asg ->
  (forall N, In N (c_corder cfg) -> N < c_k cfg) ->
  forall lies n sched,
  match packF_gen lies n sched f0 cfg asg with
  | OK _ s => Inv cfg asg f0 (st_fs s)
  | Err s => Inv cfg asg f0 (st_fs s)
  end.
Proof. exact packF_Inv. Qed.
Print Assumptions C19_aborted_tree_invariant.

(* C19_recover_faulty_repeat.  The repeat may ITSELF suffer faults (any schedule without a lying
   existence check, any budget): if it returns, the tree it leaves is again the tree of
   C10_layout for the original prior tree (C19_recover composed with C19_all_or_error). *)
Theorem C19_recover_faulty_repeat : forall n sched f0 cfg asg io co s n2 sched2 parts2 s2,
  prior_ok f0 cfg -> tmp_separate cfg -> wf_asg (c_k cfg) asg -> wf_orders cfg asg ->
  wf_orders (recover_cfg cfg io co) asg ->
  nonempty_outputs (c_k cfg) asg <> [] ->
  packF n sched f0 cfg asg = Err s ->
  ~ In (Some FLie) sched2 ->
  packF n2 sched2 (st_fs s) (recover_cfg cfg io co) asg = OK parts2 s2 ->
  (forall q, node_at (st_fs s2) q = expected_node f0 cfg parts2 q) /\
  Forall2 (fun p N => Permutation p (cells_of asg N)) parts2 (nonempty_outputs (c_k cfg) asg).
Proof. exact recover_faulty_repeat. Qed.
Print Assumptions C19_recover_faulty_repeat.

Theorem C19_recover_faulty_repeat_gen : forall lies n sched f0 cfg asg io co s n2 sched2 parts2 s2,
  prior_ok f0 cfg -> tmp_separate cfg -> wf_asg (c_k cfg) asg -> wf_orders cfg asg ->
  wf_orders (recover_cfg cfg io co) asg ->
  nonempty_outputs (c_k cfg) asg <> [] ->
  packF_gen lies n sched f0 cfg asg = Err s ->
  packF_gen false n2 sched2 (st_fs s) (recover_cfg cfg io co) asg = OK parts2 s2 ->
  (forall q, node_at (st_fs s2) q = expected_node f0 cfg parts2 q) /\
  Forall2 (fun p N => Permutation p (cells_of asg N)) parts2 (nonempty_outputs (c_k cfg) asg).
Proof. exact recover_faulty_repeat_gen. Qed.
Print Assumptions C19_recover_faulty_repeat_gen.

(* C19_recover_fresh_tmp.  tempdir_format with a per-call component ({uuid}): the repeat uses
   other per-partition temp directories <t2>/t<N>.  Provided these are fresh in the tree the
   first run left, the fault-free repeat with overwrite=True returns and leaves
   [expected_node (st_fs s) cfg2 parts]: below the dataset path exactly the fault-free dataset;
   everywhere else the tree AS THE ABORTED RUN LEFT IT, plus the directories on the way to the
   dataset path and to t2.  So the dataset is recovered, but the temp directories of the
   aborted run and the sub-part files in them stay: C19_recover_uuid_debris_refuted. *)
Theorem C19_recover_fresh_tmp : forall lies n sched f0 cfg asg t2 io co,
  prior_ok f0 cfg -> tmp_separate cfg -> wf_asg (c_k cfg) asg -> wf_orders cfg asg ->
  tmp_separate (retmp_cfg cfg t2 io co) -> wf_orders (retmp_cfg cfg t2 io co) asg ->
  nonempty_outputs (c_k cfg) asg <> [] ->
  forall s, (packF_gen lies n sched f0 cfg asg = Err s \/
             exists r, packF_gen lies n sched f0 cfg asg = OK r s) ->
  (forall q, on_the_way q t2 = true -> isfile_b (st_fs s) q = false) ->
  (forall N q, is_prefix (t2 ++ [NTmp N]) q = true -> node_at (st_fs s) q = None) ->
  exists parts f2,
    pack (st_fs s) (retmp_cfg cfg t2 io co) asg = OK parts f2 /\
    (forall q, node_at f2 q = expected_node (st_fs s) (retmp_cfg cfg t2 io co) parts q) /\
    Forall2 (fun p N => Permutation p (cells_of asg N)) parts (nonempty_outputs (c_k cfg) asg).
Proof. exact recover_fresh_tmp. Qed.
Print Assumptions C19_recover_fresh_tmp.

(* "after the repeat nothing of the aborted run is left" is FALSE for tempdir_format =
   tmp/{uuid}/t{partition}: setup M, the 31st call fails (budget 1); the repeat with a new uuid
   returns with the right dataset, and tmp/<uuid1>/t0/part1.parquet -- a copy of input rows that
   is neither in the prior tree nor in the fault-free tree -- is still there.  The real code
   shows it (fresh uuid4 per call): finding `recover-leaves-aborted-tempdirs`. *)
Theorem C19_recover_uuid_debris_refuted :
  exists s parts f2 parts1 f1 q,
    packF 1 sched_abort priorM (cfgM (TExternal uuid_parent)) asgM = Err s /\
    pack (st_fs s) (retmp_cfg (cfgM (TExternal uuid_parent)) uuid_parent2 io2 co2) asgM = OK parts f2 /\
    pack priorM (cfgM (TExternal uuid_parent)) asgM = OK parts1 f1 /\
    fs_eqb (filter (fun e => is_prefix ds (fst e)) f2) datasetM = true /\
    is_prefix ds q = false /\
    node_at priorM q = None /\ node_at f1 q = None /\
    node_at f2 q = Some (File (CRows [(1, 0)])).
Proof. exact uuid_debris_stays. Qed.
Print Assumptions C19_recover_uuid_debris_refuted.

(* non-vacuity of C19_recover: its premises hold for setup M with flat external temp
   directories; the run with budget 1 and a torn write at the 31st call ABORTS leaving a
   half-built dataset and sub-part files in t0/, t2/ outside the dataset; the repeat with
   overwrite=True (other task orders) ends in exactly keep/ + the fault-free dataset *)
Example C19_recover_example_flat :
  (prior_ok priorM (cfgM (TExternal [])) /\ tmp_separate (cfgM (TExternal [])) /\ wf_asg 4 asgM /\
   wf_orders (cfgM (TExternal [])) asgM /\ wf_orders (recover_cfg (cfgM (TExternal [])) io2 co2) asgM /\
   nonempty_outputs 4 asgM <> []) /\
  exists s parts f2,
    packF 1 sched_abort priorM (cfgM (TExternal [])) asgM = Err s /\
    node_at (st_fs s) [NTmp 0; NSub 1] = Some (File (CRows [(1, 0)])) /\
    node_at (st_fs s) [NTmp 2; NSub 1] = Some (File (CRows [(1, 2)])) /\
    node_at (st_fs s) (ds ++ [NPart 0]) = Some Dir /\
    node_at (st_fs s) (ds ++ [NMeta]) = None /\
    pack (st_fs s) (recover_cfg (cfgM (TExternal [])) io2 co2) asgM = OK parts f2 /\
    fs_eqb f2 (keepM ++ datasetM) = true /\
    node_at f2 [NTmp 0] = None /\ node_at f2 [NTmp 2; NSub 1] = None.
Proof. exact recover_example_flat. Qed.

Example C19_recover_example_inside :
  exists s parts f2,
    packF 1 sched_abort priorM (cfgM TInside) asgM = Err s /\
    node_at (st_fs s) (ds ++ [NPart 0; NSub 1]) = Some (File (CRows [(1, 0)])) /\
    pack (st_fs s) (recover_cfg (cfgM TInside) io2 co2) asgM = OK parts f2 /\
    fs_eqb f2 (keepM ++ datasetM) = true.
Proof. exact recover_example_inside. Qed.

(* ================================================= faults repeated up to the retry limit *)
From SP Require Import Proofs.RetryExhaust.

(* Bounded, decided by computation (setup M, budget 3, three temp modes): three raising faults
   at the three consecutive calls from EVERY position of the run on ([burst pos 3 FRaise]: each
   of them ends one attempt of the wrapper the call belongs to) -- the call raises or leaves the
   fault-free tree, and from the tree an aborted run leaves the fault-free repeat with
   overwrite=True ends in exactly the fault-free tree; the run RAISES at every position but the
   four where pyarrow's scanner puts two of the three faults into one attempt
   ([scanner_positions]; one more fault and it raises there too).  No wrapper gives up quietly
   once its budget is spent: what a "best effort" removal of a temp directory would break. *)
Theorem C19_exhaust_M :
  (forallb (fun pos => safe_and_recovers 3 (burst pos 3 FRaise) TInside) (seq 0 75) = true /\
   filter (fun pos => negb (aborts 3 (burst pos 3 FRaise) TInside)) (seq 0 75) = scanner_positions /\
   forallb (fun pos => aborts_and_recovers 3 (burst pos 4 FRaise) TInside) scanner_positions = true) /\
  (forallb (fun pos => safe_and_recovers 3 (burst pos 3 FRaise) (TExternal [])) (seq 0 75) = true /\
   filter (fun pos => negb (aborts 3 (burst pos 3 FRaise) (TExternal []))) (seq 0 75) = scanner_positions /\
   forallb (fun pos => aborts_and_recovers 3 (burst pos 4 FRaise) (TExternal [])) scanner_positions = true) /\
  (forallb (fun pos => outcome_ok 3 (burst pos 3 FRaise) (TExternal uuid_parent)) (seq 0 75) = true /\
   filter (fun pos => negb (aborts 3 (burst pos 3 FRaise) (TExternal uuid_parent))) (seq 0 75) = scanner_positions).
Proof. exact exhaust_raise_M. Qed.
Print Assumptions C19_exhaust_M.

(* ... and within the budget (two consecutive raising calls) the run RETURNS with the
   fault-free tree, at every one of the 63 retried calls *)
Theorem C19_within_budget_M :
  forallb (fun pos => returns_same 3 (burst pos 2 FRaise) TInside) (seq 0 63) = true /\
  forallb (fun pos => returns_same 3 (burst pos 2 FRaise) (TExternal [])) (seq 0 63) = true.
Proof. exact within_budget_M. Qed.
Print Assumptions C19_within_budget_M.

(* FileNotFoundError at rm on three consecutive attempts of rm_retry ([alt]: the honest
   existence re-check lies in between), at each of the 9 removals of the run.  With external
   temp directories every removal targets something that exists, so the call raises (and the
   repeat recovers) -- in particular at the removal of a partition's temp directory, which
   nothing else would remove.  With the default temp directories the second removal of a path
   finds it gone and returns: raises or fault-free tree. *)
Theorem C19_exhaust_fnf_rm_M :
  List.length (rm_positions (TExternal [])) = 9 /\
  forallb (fun pos => aborts_and_recovers 3 (alt pos 3 FNotFound) (TExternal [])) (rm_positions (TExternal [])) = true /\
  List.length (rm_positions (TExternal uuid_parent)) = 9 /\
  forallb (fun pos => aborts 3 (alt pos 3 FNotFound) (TExternal uuid_parent)) (rm_positions (TExternal uuid_parent)) = true /\
  List.length (rm_positions TInside) = 9 /\
  forallb (fun pos => outcome_ok 3 (alt pos 3 FNotFound) TInside && recover_ok 3 (alt pos 3 FNotFound) TInside)
          (rm_positions TInside) = true.
Proof. exact exhaust_fnf_rm_M. Qed.
Print Assumptions C19_exhaust_fnf_rm_M.
