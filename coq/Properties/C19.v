(* C19 -- transient filesystem faults never yield a silently wrong packed dataset.
   Statements only; proofs live in Proofs/. *)
From Coq Require Import ZArith List Bool Arith String.
From SP Require Import Harness Model.FS Model.PackFS Model.Retry Spec.PackSpec Proofs.PackExamples
  Proofs.RetryProofs.
Import ListNotations.

(* C19_all_or_error.  For EVERY retry budget K, EVERY fault schedule that contains no lying
   existence check -- i.e. any number of faults of the kinds raise-before-the-effect (OSError),
   FileNotFoundError, raise-after-the-complete-effect, raise-after-a-partial-effect (rm,
   makedirs, open-for-write), stale listing, at any of the filesystem calls of the run -- every
   prior tree, configuration (three temp modes, any task orders) and assignment matrix: if the
   fault-free run returns, the faulty run either raises or returns the same parts and leaves
   exactly the same tree.  [packF] is the model the correspondence run evaluates. *)
Theorem C19_all_or_error : forall K sched f0 cfg asg parts f1,
  ~ In (Some FLie) sched ->
  pack f0 cfg asg = OK parts f1 ->
  (exists s, packF K sched f0 cfg asg = Err s) \/
  (exists s, packF K sched f0 cfg asg = OK parts s /\ st_fs s = f1).
Proof. exact all_or_error_no_lie. Qed.
Print Assumptions C19_all_or_error.

(* the same for the instance of the model in which a lying stat call acts as a raising one,
   without any condition on the schedule *)
Theorem C19_all_or_error_gen : forall K sched f0 cfg asg parts f1,
  pack f0 cfg asg = OK parts f1 ->
  (exists s, packF_gen false K sched f0 cfg asg = Err s) \/
  (exists s, packF_gen false K sched f0 cfg asg = OK parts s /\ st_fs s = f1).
Proof. exact all_or_error. Qed.
Print Assumptions C19_all_or_error_gen.

(* wrapper_idempotent_*: one faulty attempt of a retried function, started in any state s
   from which the fault-free function would return (a, f'), either returns a leaving f', or
   raises leaving a state from which the fault-free function STILL returns (a, f') -- so
   re-executing it from whatever an interrupted attempt left reaches the fault-free
   post-state ([attempt_ok], Proofs/RetryProofs.v). *)
Theorem wrapper_idempotent_rm_retry : forall p,
  attempt_ok (body_rm (faulty_prims false) p) (body_rm pure_prims p).
Proof. exact attempt_rm. Qed.
Print Assumptions wrapper_idempotent_rm_retry.

Theorem wrapper_idempotent_mkdirs_retry : forall p,
  attempt_ok (body_mkdirs (faulty_prims false) p) (body_mkdirs pure_prims p).
Proof. exact (attempt_mkdirs false). Qed.
Print Assumptions wrapper_idempotent_mkdirs_retry.

(* write_partition, write_concatted_part, write_metadata_file: one open-write-close *)
Theorem wrapper_idempotent_write : forall p c,
  attempt_ok (p_write (faulty_prims false) p c) (p_write pure_prims p c).
Proof. exact (attempt_write false). Qed.
Print Assumptions wrapper_idempotent_write.

Theorem wrapper_idempotent_move_retry : forall p1 p2,
  attempt_ok (body_move (faulty_prims false) p1 p2) (body_move pure_prims p1 p2).
Proof. exact attempt_move. Qed.
Print Assumptions wrapper_idempotent_move_retry.

Theorem wrapper_idempotent_write_commonmetadata : forall d ps,
  attempt_ok (body_write_common (faulty_prims false) d ps) (body_write_common pure_prims d ps).
Proof. exact attempt_write_common. Qed.
Print Assumptions wrapper_idempotent_write_commonmetadata.

(* read_parquet_retry never touches the tree; when the fault-free one returns, a faulty
   attempt raises or returns the same rows (a stale listing fails the consistency check) *)
Theorem wrapper_idempotent_read_parquet_retry : forall tmp subs out,
  roc (body_read_parquet (faulty_prims false) tmp subs out) (body_read_parquet pure_prims tmp subs out).
Proof. exact read_parquet_roc. Qed.
Print Assumptions wrapper_idempotent_read_parquet_retry.

(* Bounded, decided by computation: on setup M (harness/c19.py; three temp modes, retry
   budget 3, prior dataset + overwrite) EVERY single fault of EVERY kind -- raise before the
   effect, FileNotFoundError, raise after the complete effect, raise after a partial effect,
   stale listing, lying existence check -- at every filesystem call of the run makes the call
   raise or leave exactly the fault-free tree and parts.  (Covers the three lying-exists
   schedules that broke the code before commit 89cec74.) *)
Theorem C19_single_faults_M_inside :
  forallb (fun pos => forallb (fun ft => outcome_ok 3 (single pos ft) TInside) all_kinds)
          (seq 0 130) = true.
Proof. exact single_faults_M_inside. Qed.
Print Assumptions C19_single_faults_M_inside.

Theorem C19_single_faults_M_flat :
  forallb (fun pos => forallb (fun ft => outcome_ok 3 (single pos ft) (TExternal [])) all_kinds)
          (seq 0 130) = true.
Proof. exact single_faults_M_flat. Qed.
Print Assumptions C19_single_faults_M_flat.

Theorem C19_single_faults_M_uuid :
  forallb (fun pos => forallb (fun ft => outcome_ok 3 (single pos ft) (TExternal uuid_parent)) all_kinds)
          (seq 0 130) = true.
Proof. exact single_faults_M_uuid. Qed.
Print Assumptions C19_single_faults_M_uuid.

(* With lying existence checks the unrestricted statement is false even after the repair of
   rm_retry: a FileNotFoundError injected at rm (taken for "already gone") followed by a lying
   exists makes rm_retry return without removing; over debris that does not collide with the
   new part directories the call returns normally with the debris inside the dataset. *)
Theorem C19_lie_pair_refuted :
  exists parts f1 parts' s,
    pack priorJ (cfgM (TExternal [])) asgM = OK parts f1 /\
    packF 3 lie_pair_sched priorJ (cfgM (TExternal [])) asgM = OK parts' s /\
    node_at f1 (ds ++ [NStr "notes.txt"%string]) = None /\
    node_at (st_fs s) (ds ++ [NStr "notes.txt"%string]) = Some (File (COpaque 7)).
Proof. exact lie_pair_defeats_rm_retry. Qed.
Print Assumptions C19_lie_pair_refuted.

(* C19_recover, bounded: with a retry budget of one attempt every single fault aborts the run
   where it strikes (all 75 calls, every fault kind incl. partial effects); from every such
   aborted tree of setup M a fault-free repeat with overwrite=True ends in exactly the
   fault-free tree (default and flat external temp directories). *)
Theorem C19_recover_M_inside :
  forallb (fun pos => forallb (fun ft => recover_ok 1 (single pos ft) TInside) all_kinds) (seq 0 130) = true.
Proof. exact recover_M_inside. Qed.
Print Assumptions C19_recover_M_inside.

Theorem C19_recover_M_flat :
  forallb (fun pos => forallb (fun ft => recover_ok 1 (single pos ft) (TExternal [])) all_kinds) (seq 0 130) = true.
Proof. exact recover_M_flat. Qed.
Print Assumptions C19_recover_M_flat.

Example C19_recover_M_runs_abort :
  forallb (fun pos => aborts 1 (single pos FRaise) TInside) (seq 0 75) = true /\
  forallb (fun pos => aborts 1 (single pos FRaise) (TExternal [])) (seq 0 75) = true.
Proof. exact aborts_M. Qed.
