(* C20: the active geometry column is honoured and survives frame operations. *)
From Coq Require Import List Bool String Arith.
From SP Require Import Model.GeoFrame Spec.GeoFrameSpec Proofs.GeoFrameProofs
                       Proofs.GeoFrameDaskProofs.
Import ListNotations.
Local Open Scope string_scope.
Local Open Scope list_scope.

(* ---- the spatial operations of a pandas frame read the active column ---- *)

Theorem C20_uses_active : forall f g, valid_active f g ->
  geometry f = Some g /\ cx_reads f = Some g /\ build_sindex_reads f = Some g.
Proof. exact uses_active. Qed.
Print Assumptions C20_uses_active.

Theorem C20_sjoin_uses_active : forall l r gl gr il ir,
  valid_active l gl -> valid_active r gr ->
  has_col (f_cols l) il = false -> has_col (f_cols r) ir = false ->
  sjoin_reads l r il ir = Some (gl, gr).
Proof. exact sjoin_uses_active. Qed.
Print Assumptions C20_sjoin_uses_active.

(* ---- one listed operation, then every sequence of them ---- *)

Theorem C20_step : forall o f g,
  valid_active f g -> keeps g (f_cols f) o = true ->
  exists f', apply_pop o f = Some f' /\ valid_active f' g.
Proof. exact step_keeps. Qed.
Print Assumptions C20_step.

Theorem C20_preserved : forall ops f g,
  valid_active f g -> ops_keep g f ops = true ->
  exists f', exec_pops f ops = Some f' /\ valid_active f' g /\ geometry f' = Some g.
Proof. exact preserved. Qed.
Print Assumptions C20_preserved.

(* the same, as the correspondence run sees it: after every step the result is a
   GeoDataFrame, _geometry = g and .geometry.name = g *)
Theorem C20_preserved_observed : forall ops f g,
  valid_active f g -> ops_keep g f ops = true ->
  Forall (fun o => exists cols, o = Some (true, Some g, Some g, cols)) (run_pops f ops).
Proof. exact preserved_observed. Qed.
Print Assumptions C20_preserved_observed.

(* ---- plain DataFrame exactly when no geometry column is left ---- *)

Theorem C20_plain_when_no_geometry : forall o f f',
  apply_pop o f = Some f' -> no_geometry f' -> f_cls f' = CPlain.
Proof. exact plain_when_no_geometry. Qed.
Print Assumptions C20_plain_when_no_geometry.

Theorem C20_geo_when_geometry : forall o f f',
  match pop_class o with Finalize | CtorOnly => True | _ => False end ->
  f_cls f = CGeo -> apply_pop o f = Some f' -> any_geom (f_cols f') = true -> f_cls f' = CGeo.
Proof. exact geo_when_geometry. Qed.
Print Assumptions C20_geo_when_geometry.

(* ---- concatenation ---- *)

Theorem C20_concat : forall objs g,
  objs <> [] -> Forall (fun f => valid_active f g) objs ->
  exists r, concat_frames objs = Some r /\ valid_active r g /\ f_cols r = concat_cols objs.
Proof. exact concat_agree. Qed.
Print Assumptions C20_concat.

(* what the code does when the geo frames disagree: nothing is propagated, the result is
   what pandas' constructor path gives (active geometry only if a single column is
   literally named "geometry") *)
Theorem C20_concat_disagree : forall s rest,
  (exists f1 f2, In f1 (s :: rest) /\ In f2 (s :: rest) /\
                 is_geo f1 = true /\ is_geo f2 = true /\ f_act f1 <> f_act f2) ->
  concat_frames (s :: rest) = Some (from_mgr s (concat_cols (s :: rest))).
Proof. exact concat_disagree. Qed.
Print Assumptions C20_concat_disagree.

(* ---- the constructor-only class (merge that re-indexes its left operand; sjoin's
   result): the active column is NOT kept unless it is literally named "geometry" ---- *)
Theorem C20_merge_loses_active : forall f g n f',
  g <> "geometry" -> apply_pop (OMerge n false) f = Some f' -> f_act f' <> Some g.
Proof. exact merge_loses_active. Qed.
Print Assumptions C20_merge_loses_active.

(* ---- Dask ---- *)

(* the spatial operations of a Dask frame: partition bounds / sindex key, the Hilbert key of
   pack_partitions(_to_parquet), sjoin's partition bounds, and both halves of cx (partition
   selection by the meta's column, row filter by each partition's own) read g *)
Theorem C20_dask_uses_active : forall d g, dvalid d g ->
  partition_sindex_key d = Some g /\ pack_key_reads d = Some g /\ dsjoin_reads d = Some g /\
  dcx_reads d = (Some g, map (fun _ => Some g) (d_parts d)).
Proof. exact dask_uses_active. Qed.
Print Assumptions C20_dask_uses_active.

Theorem C20_dask_from_pandas : forall f g n,
  valid_active f g -> exists d, from_pandas f n = Some d /\ dvalid d g /\
                                f_cols (d_meta d) = f_cols f /\ List.length (d_parts d) = n.
Proof. exact dask_from_pandas. Qed.
Print Assumptions C20_dask_from_pandas.

(* after set_geometry(g) the meta and every partition have g *)
Theorem C20_dask_partitions_agree : forall d g0 g,
  dvalid_wf d g0 ->
  is_geom_col (f_cols (d_meta d)) g = true -> Forall (part_has g) (d_parts d) ->
  exists d', apply_dop (DSetGeometry g) d = Some d' /\ dvalid_wf d' g /\
             f_cols (d_meta d') = f_cols (d_meta d).
Proof. exact dask_set_geometry_agree. Qed.
Print Assumptions C20_dask_partitions_agree.

(* after read_parquet_dask(geometry=g) the meta and every partition have g *)
Theorem C20_read_parquet_dask_agree : forall cs g n,
  wf_cols cs = true -> is_geom_col cs g = true -> truthy g = true ->
  exists d, read_parquet_dask cs (Some g) n = Some d /\ dvalid_wf d g /\
            f_cols (d_meta d) = cs /\ List.length (d_parts d) = n.
Proof. exact read_parquet_dask_agree. Qed.
Print Assumptions C20_read_parquet_dask_agree.

Theorem C20_read_parquet_dask_default : forall cs n,
  wf_cols cs = true -> any_geom cs = true ->
  exists d first, read_parquet_dask cs None n = Some d /\ first_geometry_col cs = Some first /\
                  dvalid_wf d first.
Proof. exact read_parquet_dask_default. Qed.
Print Assumptions C20_read_parquet_dask_default.

(* computing a Dask frame whose partitions agree on g *)
Theorem C20_dask_compute : forall d g,
  dvalid d g -> d_parts d <> [] -> exists f, dcompute d = Some f /\ valid_active f g.
Proof. exact dask_compute. Qed.
Print Assumptions C20_dask_compute.

(* dd.concat of frames agreeing on g *)
Theorem C20_dask_concat : forall d g,
  dvalid_wf d g -> exists d', apply_dop DConcatSelf d = Some d' /\ dvalid_wf d' g.
Proof. exact dask_concat_self. Qed.
Print Assumptions C20_dask_concat.

(* every listed Dask operation, then every sequence *)
Theorem C20_dask_step : forall o d g,
  dvalid_wf d g -> dkeeps_wf g d o = true ->
  exists d', apply_dop o d = Some d' /\ dvalid_wf d' g.
Proof. exact dstep_keeps. Qed.
Print Assumptions C20_dask_step.

Theorem C20_dask_preserved : forall ops d g,
  dvalid_wf d g -> dops_keep_wf g d ops = true ->
  exists d', exec_dops d ops = Some d' /\ dvalid_wf d' g.
Proof. exact dask_preserved. Qed.
Print Assumptions C20_dask_preserved.

(* ---- non-vacuity ---- *)

Definition ex_cols : list col :=
  [("a", KGeom 0); ("v", KPlain); ("b", KGeom 2); ("geometry", KGeom 5)].
Definition ex_frame : frame := mkFrame ex_cols CGeo (Some "b").

Example ex_valid : valid_active ex_frame "b".
Proof. unfold valid_active. vm_compute. auto. Qed.

(* GeoDataFrame(dict) picks the first geometry column; set_geometry switches *)
Example ex_init :
  run_pops (plain_of ex_cols) [OGeoInit; OSetGeometry "b" false] =
  [Some (true, Some "a", Some "a", [("a", true); ("v", false); ("b", true); ("geometry", true)]);
   Some (true, Some "b", Some "b", [("a", true); ("v", false); ("b", true); ("geometry", true)])].
Proof. vm_compute. reflexivity. Qed.

Example ex_sequence_kept :
  ops_keep "b" ex_frame
    [OIlocList; OSortValues; OSubset ["b"; "v"; "geometry"]; OCx; OPickle;
     OConcat [] [mkFrame [("b", KGeom 2); ("v", KPlain); ("geometry", KGeom 5)] CGeo (Some "b")];
     OCopyDeep] = true.
Proof. vm_compute. reflexivity. Qed.

(* merge: the active column "b" is lost and the column literally named "geometry" adopted *)
Example ex_merge_adopts_geometry :
  option_map f_act (apply_pop (OMerge "n" false) ex_frame) = Some (Some "geometry").
Proof. vm_compute. reflexivity. Qed.

(* dropping the active column leaves a GeoDataFrame whose .geometry raises *)
Example ex_subset_without_active :
  run_pops ex_frame [OSubset ["a"; "v"]] = [Some (true, Some "b", None, [("a", true); ("v", false)])].
Proof. vm_compute. reflexivity. Qed.

Example ex_subset_plain :
  run_pops ex_frame [OSubset ["v"]] = [Some (false, None, None, [("v", false)])].
Proof. vm_compute. reflexivity. Qed.

(* disagreeing frames: no active geometry (here: none named "geometry" exactly once... the
   literal column is adopted) *)
Example ex_concat_disagree :
  option_map f_act (concat_frames [ex_frame; mkFrame ex_cols CGeo (Some "a")]) = Some (Some "geometry")
  /\ option_map f_act (concat_frames [mkFrame [("a", KGeom 0); ("b", KGeom 2)] CGeo (Some "b");
                                      mkFrame [("a", KGeom 0); ("b", KGeom 2)] CGeo (Some "a")])
     = Some None.
Proof. vm_compute. auto. Qed.

(* the `or` of __init__: an empty first label is replaced by the next geometry column *)
Example ex_falsy_label :
  option_map f_act (gdf_init (plain_of [("", KGeom 0); ("x", KGeom 2)]) None) = Some (Some "x").
Proof. vm_compute. reflexivity. Qed.

(* Dask: from_pandas, set_geometry, subset, dd.concat, cx, pack, compute *)
Definition ex_dask_ops : list dop :=
  [DSetGeometry "b"; DSubset ["b"; "v"; "a"]; DMask; DConcatSelf; DCx [0; 3]; DPackPartitions 2;
   DMapIdentity; DPartitions [1]].

Example ex_dask_kept :
  match from_pandas (mkFrame ex_cols CGeo (Some "b")) 2 with
  | Some d => dops_keep_wf "b" d ex_dask_ops
  | None => false
  end = true.
Proof. vm_compute. reflexivity. Qed.

Example ex_dask_run :
  match from_pandas (mkFrame ex_cols CGeo (Some "a")) 2 with
  | Some d => match exec_dops d [DSetGeometry "b"; DConcatSelf] with
              | Some d' => (f_act (d_meta d'), map (option_map f_act) (d_parts d'),
                            option_map f_act (dcompute d'))
              | None => (None, [], None)
              end
  | None => (None, [], None)
  end = (Some "b", [Some (Some "b"); Some (Some "b"); Some (Some "b"); Some (Some "b")], Some (Some "b")).
Proof. vm_compute. reflexivity. Qed.

Example ex_read_parquet_dask :
  option_map (fun d => (f_act (d_meta d), map (option_map f_act) (d_parts d)))
             (read_parquet_dask ex_cols (Some "b") 2) =
  Some (Some "b", [Some (Some "b"); Some (Some "b")]).
Proof. vm_compute. reflexivity. Qed.

(* WIDE frames (more partitions than the fan-out 32 of Dask's task shuffle): the theorems above
   quantify over every partition count; here 33 partitions, really shuffled *)
Example ex_dask_wide_kept :
  match from_pandas (mkFrame ex_cols CGeo (Some "b")) 33 with
  | Some d => dops_keep_wf "b" d [DSortValues 32; DMapIdentity; DPackPartitions 8; DCx [0; 5]]
  | None => false
  end = true.
Proof. vm_compute. reflexivity. Qed.

Example ex_dask_wide_run :
  match from_pandas (mkFrame ex_cols CGeo (Some "b")) 33 with
  | Some d => match exec_dops d [DSortValues 32] with
              | Some d' => (f_act (d_meta d'), List.length (d_parts d'),
                            forallb (fun p => match p with
                                              | Some f => andb (is_geo f) (opt_eqb (f_act f) (Some "b"))
                                              | None => false end) (d_parts d'),
                            option_map f_act (dcompute d'))
              | None => (None, 0, false, None)
              end
  | None => (None, 0, false, None)
  end = (Some "b", 32, true, Some (Some "b")).
Proof. vm_compute. reflexivity. Qed.

(* a plain column is plain whatever stores it (numpy block or a pandas extension array that is
   not a geometry - str, category, Int64, tz-aware datetime ...: all KPlain): once every geometry
   column is dropped the result is a plain DataFrame, on pandas and in every Dask partition *)
Example ex_no_geometry_left_plain :
  run_pops (mkFrame [("a", KGeom 0); ("name_str", KPlain); ("b", KGeom 2); ("v", KPlain)] CGeo (Some "b"))
           [ODrop ["a"; "b"]]
  = [Some (false, None, None, [("name_str", false); ("v", false)])]
  /\ match from_pandas (mkFrame [("a", KGeom 0); ("name_str", KPlain); ("b", KGeom 2); ("v", KPlain)]
                               CGeo (Some "b")) 3 with
     | Some d => match exec_dops d [DSubset ["v"; "name_str"]] with
                 | Some d' => (f_cls (d_meta d'), map (option_map f_cls) (d_parts d'),
                               option_map f_cls (dcompute d'))
                 | None => (CGeo, [], None)
                 end
     | None => (CGeo, [], None)
     end = (CPlain, [Some CPlain; Some CPlain; Some CPlain], Some CPlain).
Proof. vm_compute. auto. Qed.
