"""C19 — transient filesystem faults never yield a silently wrong packed dataset.

Real runs of pack_partitions_to_parquet through the fault-injecting filesystem
(harness/fsrec.py) with `_retry_args=dict(wait_fixed=0, stop_max_attempt_number=K)`:
first a clean run records the filesystem call trace, then one run per (fault kind,
position); at EVERY position whose call is retried a fault that persists on the same call
until the budget is exhausted (r = K attempts: the call must raise -- and the repeat recover
from that crash point -- or leave the fault-free tree; a wrapper that gives up quietly when its
budget is spent shows only here); persistent faults within the budget on a seeded sample; a
seeded sample of pairs.  Then other configurations of the call on setup M (harness/c19_util.py):
no _retry_args, an s3fs-like filesystem (ls(refresh=), listing cache), a scheduler that
re-submits a failed task (reaches the already-done shortcut of read_parquet_retry), the
filesystem as a protocol string / an invalid value, and {uuid} temp directories with a repeat
that draws a fresh uuid.

Every run is judged on public observations (the PRIMARY verdict):
  * the call raised, or the whole scratch tree (every file classified by the rows it holds,
    metadata files by the parts they describe) equals the fault-free tree and the dataset
    reads back with exactly the input rows; after a raised run a repeat with overwrite=True
    and no faults must give the fault-free dataset; the fault-free tree itself must be the
    one Model/Retry.v predicts for the observed assignment.
  Fault positions are positions of the REAL run's own recorded call trace.
As an EXTRA (counted in the evidence, never a violation by itself) Model/Retry.v `packF` is
evaluated by the Coq kernel on the same schedule and its outcome class, final / aborted tree
and complete call trace are compared: `trace-differs-outcomes-agree` and
`model-outcome-differs-on-different-calls` stay 0 as long as the code makes exactly the calls
the model transcribes; a harmless rewrite (extra / reordered calls, eager or lazy retries)
moves runs into these counters.  Only when the model makes exactly the same calls as the real
run and still predicts another outcome is that a violation (`model-differs`).
"""
import json
import os
import re
import shutil

from . import c10_util as U
from . import c19_util as V
from . import common as C
from . import fsrec as F

ANCHOR_FILES = ['spatialpandas/dask.py', 'spatialpandas/io/parquet.py', 'spatialpandas/io/utils.py']
TRUSTED = ['fsspec LocalFileSystem semantics as transcribed in Model/FS.v (validated by C10 stream A)',
           'the fault injector harness/fsrec.py realises the fault kinds of Model/Retry.v',
           'retrying.retry(stop_max_attempt_number=K, wait_fixed=0) re-calls on any exception, K attempts',
           'the sequence of filesystem calls pyarrow / dask make inside read_parquet and '
           'read_parquet_dask (transcribed from recorded traces, compared on every run)']

IMPORTS = 'Model.FS Model.PackFS Model.Retry'
CASE_TY = 'bool * bool * nat * list (option fault) * fs * config * assignment * fs * list traced'
RES_TY = 'bool * bool * bool'
PK_CASE_TY = 'fs * config * assignment * fs * list (list cell)'
PK_RES_TY = 'option (bool * bool * bool)'

OPK = {'exists': 'KExists', 'isfile': 'KIsfile', 'isdir': 'KIsdir', 'info': 'KInfo', 'ls': 'KLs',
       'find': 'KFind', 'makedirs': 'KMakedirs', 'rm': 'KRm', 'open_w': 'KOpenW', 'open_r': 'KOpenR',
       'mv': 'KMove'}
KINDS = ('oserr', 'fnf', 'after', 'partial', 'stale', 'stale0', 'lie')


def fault_term(kind):
    return {'oserr': C.Rec('FRaise'), 'fnf': C.Rec('FNotFound'), 'after': C.Rec('FAfter'),
            'partial': C.Rec('FPartial', C.Nat(0)), 'stale': C.Rec('FStale', C.Nat(0)),
            'stale0': C.Rec('FStale', C.Nat(0)), 'lie': C.Rec('FLie')}[kind]


def sched_term(fired):
    """the positional schedule of the faults that actually fired"""
    if not fired:
        return []
    n = max(f[0] for f in fired)
    out = [None] * n
    for f in fired:
        out[f[0] - 1] = C.Some(fault_term(f[1]))
    return out


def trace_term(trace):
    out = []
    for t in trace:
        k = OPK.get(t[0])
        if k is None:
            return None
        out.append((C.Rec(k), F.path_term(t[1]), F.path_term(t[2]) if len(t) > 2 else []))
    return out


def applicable(kind, op):
    if kind in ('oserr', 'fnf'):
        return True
    if kind in ('after', 'partial'):
        return op in ('makedirs', 'rm', 'open_w', 'mv') and not (kind == 'partial' and op == 'mv')
    if kind in ('stale', 'stale0'):
        return op in F.LIST_OPS
    if kind == 'lie':
        return op in F.STAT_OPS
    return False


class Classifier(U.Classifier):
    """c10_util.Classifier, plus: a _metadata / _common_metadata file that is not a parquet
    footer at all (a write torn after its first bytes, left behind by a run that aborted
    there) has the model's torn content CPartial, like a torn data file"""

    def __call__(self, rp, ap):
        t = super().__call__(rp, ap)
        if os.path.basename(rp) in ('_metadata', '_common_metadata') and t.ctor == 'COpaque':
            import pyarrow.parquet as pq
            data = open(ap, 'rb').read()
            if not re.match(rb'^opaque:(\d+)$', data):
                try:
                    pq.read_metadata(ap)
                except Exception:  # noqa: BLE001
                    return C.Rec('CPartial')
        return t


class Setup:
    """one configuration: frame, partitioning, k, temp mode; knows how to (re)initialise the
    scratch directory and to run"""

    def __init__(self, rep, root, name, n, variant, cuts, k, mode, K):
        self.rep, self.root, self.name = rep, root, name
        self.n, self.variant, self.cuts, self.k, self.mode, self.K = n, variant, cuts, k, mode, K
        import random
        self.df = U.make_frame(n, variant, random.Random(7))
        self.want_rows = U.row_key(self.df)

    def meta(self):
        return {'setup': self.name, 'n': self.n, 'variant': self.variant, 'cuts': self.cuts, 'k': self.k,
                'mode': self.mode, 'K': self.K}

    def init_tree(self):
        import random
        F.set_tmp_prefix(U.leaf_prefix(self.mode))
        U.wipe(self.root)
        os.makedirs(os.path.join(self.root, 'keep'))
        with open(os.path.join(self.root, 'keep', 'other.bin'), 'wb') as f:
            f.write(b'opaque:5')
        U.synthetic_prior(self.root, random.Random(3), 2, junk=True)

    def run(self, plan=None, overwrite=True, variant=None, uuid_start=0):
        """variant (JSON-able, kept in the replay): {'fs': 'refresh'} the s3fs-like filesystem,
        {'retry': 'default'} no _retry_args, {'scheduler': 'resubmit'} a scheduler that re-submits
        a failed task, {'filesystem': <value>, 'storage_options': {...}} instead of an instance"""
        v = variant or {}
        kw = {}
        if v.get('fs') == 'refresh':
            kw['fs_cls'] = V.RecFSRefresh
        if v.get('scheduler') == 'resubmit':
            kw['scheduler'] = V.resubmitting_get
        if 'filesystem' in v:
            kw['filesystem'] = v['filesystem']
            kw['storage_options'] = v.get('storage_options')
        return V.run_pack(self.root, self.df, self.cuts, self.k, self.mode, 'snappy', overwrite=overwrite,
                          plan=plan, K=None if v.get('retry') == 'default' else self.K,
                          uuid_start=uuid_start, **kw)

    def snapshot(self, cells, ref=None):
        return F.fs_term(self.root, Classifier(self.root, self.df, cells, ref))

    def metadata_ref(self, tree):
        """{basename: (bytes, content term)} of the dataset's metadata files"""
        out = {}
        for base, ctor in (('_metadata', 'NMeta'), ('_common_metadata', 'NCommon')):
            ap = os.path.join(self.root, U.DS, base)
            for pth, node in tree:
                if len(pth) == 2 and pth[1].ctor == ctor and node.ctor == 'File' and os.path.isfile(ap):
                    out[base] = (open(ap, 'rb').read(), node.args[0])
        return out

    def config(self, o, overwrite=True):
        asg, iorder = U.assignment_of(o, len(self.cuts) - 1, self.mode)
        corder = U.concat_order(o, self.k, self.mode)
        return asg, U.config_term(self.k, self.mode, o.tmp_parent, overwrite, iorder, corder)


def norm_tree(term):
    """a classified tree as a canonical JSON string"""
    return json.dumps(sorted(json.dumps(C.jsonable(e), sort_keys=True) for e in term))


def ds_only(term):
    return [e for e in term if e[0] and C.jsonable(e[0][0]) == {'NStr': [U.DS]}]


def comparable(kind, op, path, in_final, mode):
    """(class, tree, trace) comparable with the model?  The model is not meant to predict what
    pyarrow / dask do when a stat call lies or a listing is stale *inside their own code*;
    spatialpandas' own calls are all modelled."""
    if kind in ('oserr', 'fnf', 'after', 'partial'):
        return True
    base = path.split('/')[-1] if path else ''
    explicit_stat = (op == 'exists') or \
        (op == 'isfile' and re.match(r'^part\.\d+\.parquet$', base) and not in_final) or \
        (op == 'isdir' and not in_final and not re.match(r'^part\d+\.parquet$', base))
    if kind == 'lie':
        return bool(explicit_stat) and not in_final
    if kind in ('stale', 'stale0'):
        return op == 'ls' and not in_final
    return False


RX_PART = re.compile(r'^%s/part\.\d+\.parquet$' % U.DS)


def site_of(f, trace, mode='flat'):
    """where in the procedure the call of a fired fault sits, read off the run's own trace:
    <kind>@<op>:<path class>[:<enclosing function>]"""
    pos, kind, op, path = f[0], f[1], f[2], f[3]
    base = path.split('/')[-1]
    if path == U.DS:
        cls = 'dataset'
    elif RX_PART.match(path):
        cls = 'part'
    elif mode != 'inside' and U.tmp_dir_rx(mode).match(path):
        cls = 'tmpdir'
    elif re.match(r'^part\d+\.parquet$', base):
        cls = 'subpart'
    elif base in ('_metadata', '_common_metadata'):
        cls = base
    else:
        cls = 'other'
    where = ''
    j = pos - 1
    finals = [i for i, t in enumerate(trace) if t[0] == 'exists' and t[1] == U.DS and i > 2]
    later = trace[j + 1:]
    if finals and j >= finals[-1] and not any(t[0] in ('rm', 'makedirs', 'open_w') for t in later):
        where = 'final-read'
    elif op == 'exists':
        prev = trace[j - 1] if j else ('',)
        where = 'rm_retry' if (prev[0] == 'rm' and prev[1] == path) else 'move_retry'
    return f'{kind}@{op}:{cls}' + (f':{where}' if where else '')


def mechanism(sites):
    """the one recorded way in which a non-raising fault gets past the retry logic: a stale
    listing inside the final, un-retried read_parquet_dask (the dataset on disk is right, the
    returned lazy frame lacks a partition)"""
    if sites and all(s_.startswith('stale') and '@find:dataset:final-read' in s_ for s_ in sites):
        return 'stale-final-listing'
    return None


class Collector:
    def __init__(self):
        self.cases, self.results, self.metas, self.raw = [], [], [], []
        self.pk_cases, self.pk_metas = [], []


def judge(rep, st, col, clean, o, label, plan_desc, variant=None, compare_model=True):
    """property + correspondence for one faulted run"""
    meta = {**st.meta(), 'plan': plan_desc, 'fired': [list(f) for f in o.fired], 'label': label}
    if variant:
        meta['call_variant'] = variant
    rep.evaluations += 1
    raised = o.raised is not None
    rep.count('raised' if raised else 'returned')
    for f in o.fired:
        rep.count(f'fired:{f[1]}:{f[2]}')
    tree = st.snapshot(clean['cells'], clean['ref'])
    sites = {site_of(f, o.trace, st.mode) for f in o.fired}
    kinds = '+'.join(sorted(sites)) or 'none'
    mech = mechanism(sites)

    stale_final = any(s_.startswith('stale') and '@find:dataset:final-read' in s_ for s_ in sites)
    pair_rm = any(s_.startswith('fnf@rm:') for s_ in sites) and \
        any(s_.startswith('lie@exists:') and s_.endswith(':rm_retry') for s_ in sites)

    def sig(symptom):
        # recorded mechanisms get one signature each; every other failure keeps its own
        # symptom:site signature and is an alarm
        if mech:
            return mech
        if symptom.startswith('returned-frame') and tree_same and stale_final:
            # only the lazily built returned frame is affected; the dataset on disk is right
            return 'stale-final-listing'
        if pair_rm and len(o.fired) >= 2:
            # two faults inside one rm_retry attempt: rm raises FileNotFoundError (taken for
            # "already gone") and the existence re-check lies (C19_lie_pair_refuted)
            return 'fnf-rm+lying-exists'
        return f'{symptom}:{kinds}'
    in_final = any(f[0] - 1 >= clean['final_start'] for f in o.fired)
    tree_same = norm_tree(tree) == clean['norm']
    # ---- the property itself
    if not raised:
        if not tree_same:
            extra = sorted(set(map(json.dumps, C.jsonable(tree))) - set(map(json.dumps, C.jsonable(clean['tree']))))
            missing = sorted(set(map(json.dumps, C.jsonable(clean['tree']))) - set(map(json.dumps, C.jsonable(tree))))
            rep.violation(sig('silent-different-tree'),
                          'the call returned normally but the tree differs from the fault-free one '
                          f'(faults {o.fired})', {**meta, 'extra': extra[:10], 'missing': missing[:10]})
        # an independent read of the dataset: always when the tree differs, else on a sample
        # (an identical classified tree means every part file holds the same rows as in the
        # fault-free run, which was read back)
        if not tree_same or rep.evaluations % 4 == 0:
            rep.count('reread-checks')
            try:
                from spatialpandas.io import read_parquet_dask
                got = read_parquet_dask(os.path.join(st.root, U.DS)).compute()
                if U.row_key(got) != st.want_rows:
                    rep.violation(sig('silent-wrong-rows'), 'the call returned normally but the dataset does '
                                  f'not read back with the input rows (faults {o.fired})', {**meta, 'n_got': len(got)})
            except Exception as e:  # noqa: BLE001
                rep.violation(sig('silent-unreadable'), f'the call returned normally but the dataset cannot be '
                              f'read: {type(e).__name__} {str(e)[-160:]}', meta)
        # the returned (lazy) frame was built from listings made during the call
        if not tree_same or in_final or rep.evaluations % 4 == 1:
            rep.count('returned-frame-checks')
            try:
                got = o.frame.compute()
                if U.row_key(got) != st.want_rows:
                    rep.violation(sig('returned-frame-rows'),
                                  'the call returned normally but the returned frame does not hold the input rows '
                                  f'(faults {o.fired})', {**meta, 'n_got': len(got)})
            except Exception as e:  # noqa: BLE001
                rep.violation(sig('returned-frame-raises'), f'computing the returned frame raised '
                              f'{type(e).__name__} {str(e)[-160:]}', meta)
    # ---- correspondence with the model
    asg, cfg = st.config(o)
    tt = trace_term(o.trace)
    if not compare_model:
        # task re-submission is not part of Model/Retry.v: judged by the property only
        rep.count('not-compared-with-model:variant')
    elif tt is None:
        # a filesystem method the model has no name for: the run is judged by the property only
        rep.count('not-compared-with-model:unmodelled-call')
    else:
        cmp_all = all(comparable(f[1], f[2], f[3], f[0] > clean['final_start'], st.mode) for f in o.fired)
        partial_rm_abort = raised and any(f[1] == 'partial' and f[2] == 'rm' for f in o.fired)
        if cmp_all:
            col.cases.append((not partial_rm_abort, True, C.Nat(st.K), sched_term(o.fired), clean['f0'], cfg,
                              U.asg_term(asg), tree, tt))
            col.results.append((not raised, True, True))
            col.metas.append(meta)
            col.raw.append(o.trace)
        else:
            rep.count('not-compared-with-model')
    # ---- after an aborted run: repeat with overwrite=True, no faults
    if raised:
        o2 = st.run(plan=None, overwrite=True)
        rep.count('recover-runs')
        if o2.raised is not None:
            rep.violation(sig('recover-raises'), 'after an aborted run the repeat with overwrite=True raised '
                          f'{type(o2.raised).__name__}: {str(o2.raised)[:200]}', meta)
        else:
            tree2 = st.snapshot(clean['cells'], clean['ref'])
            a, b = norm_tree(ds_only(tree2)), norm_tree(ds_only(clean['tree']))
            if st.mode in ('flat', 'sib'):
                a, b = norm_tree(tree2), clean['norm']
            if a != b:
                rep.violation(sig('recover-differs'), 'after an aborted run the repeat with overwrite=True left '
                              'a tree different from the fault-free one', meta)
            asg2, cfg2 = st.config(o2)
            parts = [e for e in ds_only(tree2)]
            col.pk_cases.append((tree, cfg2, U.asg_term(asg2), tree2, clean['parts']))
            col.pk_metas.append({**meta, 'phase': 'recover'})
    return raised


def _flags(case, cmp_tree, cmp_trace):
    return (bool(case[0]) and cmp_tree, cmp_trace) + tuple(case[2:])


def model_verdicts(rep, col):
    """Model/Retry.v against the real runs.  PRIMARY (a violation): the model's final tree for
    the fault-free run, and any run on which the model makes exactly the same filesystem calls
    as the real code yet predicts another outcome.  EXTRA (counted, never a violation): the
    exact call trace, and the outcome class (raised / returned) of a faulted run whose calls
    differ from the model's -- a harmless rewrite may add, drop or reorder calls and may retry
    more or less eagerly; what it must keep is judged by the property checks in `judge`."""
    cases, results = col.cases, col.results
    b1 = C.coq_mismatches(IMPORTS, 'packF_check', CASE_TY, RES_TY, cases, results, shard=40)
    # ignore the trace: which of them still disagree on the outcome (class or tree)?
    c2 = [_flags(cases[i], True, False) for i in b1]
    b2 = [b1[j] for j in C.coq_mismatches(IMPORTS, 'packF_check', CASE_TY, RES_TY, c2, [results[i] for i in b1], shard=40)]
    rep.count('trace-differs-outcomes-agree', len(b1) - len(b2))
    # for those: does the model at least make the same calls?
    c3 = [_flags(cases[i], False, True) for i in b2]
    t_a = set(C.coq_mismatches(IMPORTS, 'packF_check', CASE_TY, RES_TY, c3, [(True, True, True)] * len(c3), shard=40))
    t_b = set(C.coq_mismatches(IMPORTS, 'packF_check', CASE_TY, RES_TY, c3, [(False, True, True)] * len(c3), shard=40))
    seen = set()
    for j, i in enumerate(b2):
        m = col.metas[i]
        trace_ok = not (j in t_a and j in t_b)
        clean = m.get('label') == 'clean'
        if not clean and not trace_ok:
            rep.count('model-outcome-differs-on-different-calls')
            continue
        kinds = '+'.join(sorted({f[1] + ':' + f[2] for f in m.get('fired', [])})) or 'clean'
        sig = ('clean-run-model-differs' if clean else f'model-differs:{kinds}')
        if sig in seen or len(seen) >= 8:
            continue
        seen.add(sig)
        c = cases[i]
        model = C.coq_eval(IMPORTS, f'packF_check {C.coq(c)}')
        mtrace = C.coq_eval(IMPORTS, f'packF_trace {C.coq(c[2])} {C.coq(c[3])} {C.coq(c[4])} {C.coq(c[5])} {C.coq(c[6])}')
        rep.violation(sig, ('the tree left by the fault-free run differs from Model/Retry.v ' if clean else
                            'the model makes the same filesystem calls as the faulted real run but predicts '
                            'another outcome ') +
                      f'(real returned={results[i][0]}; model says (returned, tree ok, trace ok) = {model})',
                      {**m, 'model_trace': mtrace[:4000],
                       'real_trace': ['%d %s' % (k + 1, ' '.join(t)) for k, t in enumerate(col.raw[i])]})


def find_setups(rep, root, tier):
    K = 3
    # M: 5 rows with duplicate keys, inputs [0:2], [2:5], npartitions=4 -> assignment
    # [[0, 3], [0, 2, 3]]: outputs fed by two sub-parts, an empty output in front of non-empty
    # ones (compaction moves 2 -> 1 and 3 -> 2)
    out = [Setup(rep, root, 'M-inside', 5, 'dup', [0, 2, 5], 4, 'inside', K),
           Setup(rep, root, 'M-flat', 5, 'dup', [0, 2, 5], 4, 'flat', K)]
    if tier != 'quick':
        out += [Setup(rep, root, 'M-uuid', 5, 'dup', [0, 2, 5], 4, 'uuid', K),
                Setup(rep, root, 'M-sib', 5, 'dup', [0, 2, 5], 4, 'sib', K),
                Setup(rep, root, 'A-inside', 6, 'plain', [0, 3, 6], 3, 'inside', K),
                Setup(rep, root, 'A-flat', 6, 'plain', [0, 3, 6], 3, 'flat', K),
                Setup(rep, root, 'B-inside', 4, 'dup', [0, 2, 4], 5, 'inside', K),
                Setup(rep, root, 'B-flat', 4, 'dup', [0, 2, 4], 5, 'flat', K),
                Setup(rep, root, 'B-uuid', 4, 'dup', [0, 2, 4], 5, 'uuid', K),
                Setup(rep, root, 'C-inside', 9, 'miss', [0, 2, 2, 9], 6, 'inside', 2),
                Setup(rep, root, 'C-flat', 9, 'miss', [0, 2, 2, 9], 6, 'flat', 4)]
    return out


def clean_run(rep, st, col):
    """the fault-free run of a setup: (clean, o), or (None, o) when it raised"""
    st.init_tree()
    f0 = F.fs_term(st.root, U.prior_classifier)
    o = st.run()
    meta = st.meta()
    if o.raised is not None:
        rep.violation('clean-run-raises', f'the fault-free run raised {o.raised!r}', meta)
        return None, o
    asg, cfg = st.config(o)
    tree = st.snapshot(o.cells)
    nonempty = sorted({N for outs in asg for N in outs})
    rep.count('setup-with-compaction' if nonempty != list(range(len(nonempty))) else 'setup-without-compaction')
    cl = U.Classifier(st.root, st.df, o.cells)
    parts = [F.cells_term(pc[0]) for _, pc in cl.dataset_parts(os.path.join(st.root, U.DS))]
    L = len(o.trace)
    final_start = max([j for j, t in enumerate(o.trace) if t[0] == 'exists' and t[1] == U.DS], default=len(o.trace))
    clean = {'f0': f0, 'tree': tree, 'norm': norm_tree(tree), 'cells': dict(o.cells), 'trace': o.trace,
             'final_start': final_start, 'parts': parts, 'ref': st.metadata_ref(tree)}
    got = o.frame.compute()
    if U.row_key(got) != st.want_rows:
        rep.violation('clean-run-rows', 'the fault-free run does not return the input rows', meta)
    col.cases.append((True, True, C.Nat(st.K), [], f0, cfg, U.asg_term(asg), tree, trace_term(o.trace) or []))
    col.results.append((True, True, True))
    col.metas.append({**meta, 'plan': 'none', 'label': 'clean'})
    col.raw.append(o.trace)
    rep.evaluations += 1
    rep.nontrivial((st.name, 'clean'))
    rep.extra.setdefault('trace_lengths', {})[st.name] = L
    rep.sample({**meta, 'trace_length': L, 'assignment': asg}, cap=8)
    return clean, o


def run_setup(rep, st, col, tier):
    rng = rep.rng
    clean, o = clean_run(rep, st, col)
    if clean is None:
        return None, o
    L = len(o.trace)

    def go(plan, label):
        st.init_tree()
        o1 = st.run(plan=plan)
        rep.nontrivial((st.name, label, json.dumps(sorted((k, str(v)) for k, v in plan.items()))))
        raised = judge(rep, st, col, clean, o1, label, {str(k): v for k, v in plan.items()})
        return raised, len(o1.fired)

    # ---- always-run corpus: the recorded double fault that defeats rm_retry (C19_lie_pair_refuted,
    #      known finding fnf-rm+lying-exists): rm of an external temp directory raises
    #      FileNotFoundError and the existence re-check lies
    if st.mode != 'inside':
        for j, t in enumerate(o.trace[:-1]):
            nxt = o.trace[j + 1]
            if t[0] == 'rm' and U.tmp_dir_rx(st.mode).match(t[1]) and nxt[:2] == ('exists', t[1]):
                rep.count('corpus:fnf-rm+lying-exists')
                go({j + 1: 'fnf', j + 2: 'lie'}, 'corpus')
                break
    # the three single lying-exists schedules that broke the code before commit 89cec74 (at the
    # existence checks of rm_retry(tmp), rm_retry(placeholder), move_retry) are part of the
    # enumeration below: every position x 'lie'
    # ---- every single position, every kind that applies to the call at that position
    single = {}
    for pos in range(1, L + 1):
        op = o.trace[pos - 1][0]
        for kind in KINDS:
            if not applicable(kind, op):
                continue
            if tier == 'quick' and kind == 'stale0' and op != 'find':
                continue
            if tier == 'quick' and kind == 'fnf' and op in ('makedirs', 'mv', 'open_w'):
                continue     # quick: FileNotFoundError only where a caller could tell it from OSError
            single[(pos, kind)] = go({pos: kind}, 'single')
    # ---- faults that persist until the retry budget is exhausted: the SAME call (same op, same
    #      path) fails on r = K consecutive attempts, at EVERY position of the trace whose call
    #      is retried (where one fault alone already aborted the run, the persistent fault is the
    #      same run: skipped).  The call must raise -- and the repeat with overwrite=True must
    #      recover from that crash point -- or leave exactly the fault-free tree; a wrapper that
    #      gives up quietly when its budget is spent (a "best effort" clean-up, a skipped
    #      sub-part, a compaction move that is not made) shows here and nowhere else.
    #      Kinds: OSError at every call; FileNotFoundError at every rm (rm_retry answers it with
    #      its existence re-check); stale listing at every ls; at the mutating calls
    #      raise-after-partial-effect and raise-after-complete-effect (quick: one of the two per
    #      position, drawn from rep.rng; thorough: both, and r = K + 1 on a seeded sample).
    def retried(pos, kind):
        got = single.get((pos, kind))
        return got is None or not (got[0] and got[1] == 1)

    # thorough: r = K + 1 as well, at these positions
    beyond = set(rng.sample(range(1, L + 1), min(L, 12))) if tier != 'quick' else set()
    for pos in range(1, L + 1):
        op = o.trace[pos - 1][0]
        kinds = ['oserr']
        if op == 'rm':
            kinds.append('fnf')
        if op == 'ls':
            kinds.append('stale')
        eff = [k for k in ('partial', 'after') if applicable(k, op)]
        if eff:
            kinds += eff if tier != 'quick' else [rng.choice(eff)]
        for kind in kinds:
            if not retried(pos, kind):
                rep.count('exhaust-skipped:single-fault-already-aborts')
                continue
            for r in ((st.K,) if tier == 'quick' or kind != 'oserr' or pos not in beyond else (st.K, st.K + 1)):
                raised, nfired = go({pos: (kind, r)}, f'exhaust{r}')
                rep.count(f'exhaust:{kind}:{op}:' + ('raised' if raised else 'returned'))
                if nfired < min(r, st.K) and kind != 'after':
                    rep.count('exhaust:call-not-repeated-K-times')
    # ---- faults that persist over r < K attempts (within the budget) on a seeded sample
    positions = list(range(1, L + 1))
    sample = rng.sample(positions, min(len(positions), 8 if tier == 'quick' else 25))
    for pos in sample:
        op = o.trace[pos - 1][0]
        kinds = [k for k in ('oserr', 'after', 'partial', 'lie', 'stale') if applicable(k, op)]
        kind = rng.choice(kinds)
        for r in sorted({2, st.K - 1}) + ([st.K] if kind in ('lie',) else []):
            if r >= 2:
                go({pos: (kind, r)}, f'repeat{r}')
    # ---- pairs
    for _ in range(20 if tier == 'quick' else 120):
        p1, p2 = sorted(rng.sample(positions, 2))
        plan = {}
        for p in (p1, p2):
            op = o.trace[p - 1][0]
            plan[p] = rng.choice([k for k in ('oserr', 'fnf', 'after', 'partial', 'lie', 'stale') if applicable(k, op)])
        go(plan, 'pair')
    return clean, o


# ---------------------------------------------------------------------------------------
# configurations of the call other than "RecFS instance + explicit _retry_args + synchronous
# scheduler + the same uuid in the repeat"
# ---------------------------------------------------------------------------------------
def go_variant(rep, st, col, clean, plan, label, variant, compare_model=True):
    st.init_tree()
    o1 = st.run(plan=plan, variant=variant)
    rep.nontrivial((st.name, label, json.dumps(variant, sort_keys=True),
                    json.dumps(sorted((k, str(v)) for k, v in plan.items()))))
    rep.count(f'variant:{label}')
    raised = judge(rep, st, col, clean, o1, label, {str(k): v for k, v in plan.items()}, variant=variant,
                   compare_model=compare_model)
    return raised, o1


def positions_of(trace, pred):
    return [j + 1 for j, t in enumerate(trace) if pred(t)]


def run_variants(rep, st, col, clean, o, tier):
    """on one setup whose fault-free run `o` / `clean` is known"""
    rng = rep.rng
    tr = o.trace
    rx_tmp = U.tmp_dir_rx(st.mode)
    rm_tmp = positions_of(tr, lambda t: t[0] == 'rm' and rx_tmp.match(t[1]))
    ls_pos = positions_of(tr, lambda t: t[0] == 'ls')
    w_part = positions_of(tr, lambda t: t[0] == 'open_w' and RX_PART.match(t[1]))
    w_sub = positions_of(tr, lambda t: t[0] == 'open_w' and re.match(r'^part\d+\.parquet$', t[1].split('/')[-1]))
    final_start = clean['final_start']
    retried = [p for p in range(1, final_start + 1)]
    # ---- (1) the library's default retry arguments (no _retry_args): fault-free, and one
    #      transient fault at a retried call (the default budget must retry it; first wait 0.2 s)
    v = {'retry': 'default'}
    raised, _ = go_variant(rep, st, col, clean, {}, 'default-retry', v)
    if raised:
        rep.violation('clean-run-raises:default-retry', 'the fault-free run without _retry_args raised', st.meta())
    if rm_tmp:
        raised, _ = go_variant(rep, st, col, clean, {rm_tmp[0]: 'oserr'}, 'default-retry', v)
        if raised:
            rep.violation('default-retry-does-not-retry', 'one transient OSError at the removal of a temp '
                          'directory aborts the call made without _retry_args (default budget: 24 attempts)',
                          {**st.meta(), 'plan': {str(rm_tmp[0]): 'oserr'}, 'call_variant': v, 'label': 'default-retry'})
    # ---- (2) a filesystem whose ls has a `refresh` parameter and a listing cache (s3fs-like)
    v = {'fs': 'refresh'}
    raised, o1 = go_variant(rep, st, col, clean, {}, 'refresh-fs', v)
    if raised:
        rep.violation('clean-run-raises:refresh-fs', 'the fault-free run on a filesystem with ls(refresh=...) and '
                      f'a listing cache raised {o1.raised!r}'[:300], {**st.meta(), 'plan': {}, 'call_variant': v, 'label': 'refresh-fs'})
    rep.count('refresh-fs:ls-called-with-refresh=True', int(True in o1.fs.refresh_seen))
    rep.count('refresh-fs:listings-served-from-cache', o1.fs.cache_hits)
    for pos in ls_pos:
        for f in ('stale', 'oserr', ('stale', st.K)):
            go_variant(rep, st, col, clean, {pos: f}, 'refresh-fs', v)
    for pos in w_sub[:1]:
        go_variant(rep, st, col, clean, {pos: 'partial'}, 'refresh-fs', v)
    # ---- (3) a scheduler that re-submits a task that raised (distributed's retries=1): a task
    #      whose wrapper spent its budget runs again over what its first run left -- for
    #      concat_parts after the part file was written and the temp directory removed, this is
    #      the "work has already been done" shortcut of read_parquet_retry.  Not in the model:
    #      judged by the property (raised, or exactly the fault-free tree and rows).
    v = {'scheduler': 'resubmit'}
    go_variant(rep, st, col, clean, {}, 'resubmit', v, compare_model=False)
    plans = [{p: ('after', st.K)} for p in w_part]
    plans += [{p: ('oserr', st.K)} for p in (rm_tmp if tier != 'quick' else rm_tmp[:2])]
    plans += [{p: ('partial', st.K)} for p in w_sub[:1] + w_part[:1]]
    plans += [{p: ('oserr', st.K)} for p in rng.sample(retried, 3 if tier == 'quick' else 12)]
    for plan in plans:
        raised, o1 = go_variant(rep, st, col, clean, plan, 'resubmit', v, compare_model=False)
        rep.count('resubmit:tasks-resubmitted', o1.resubmitted)
        rep.count('resubmit:' + ('raised' if raised else 'returned'))


def run_fs_argument(rep, st, clean):
    """(4) the filesystem given as a protocol string with storage_options, and an invalid value"""
    v = {'filesystem': 'file', 'storage_options': {'auto_mkdir': False}}
    meta = {**st.meta(), 'kind': 'fs-argument', 'call_variant': v}
    st.init_tree()
    o1 = st.run(variant=v)
    rep.evaluations += 1
    rep.nontrivial((st.name, 'fs-string'))
    rep.count('variant:fs-string')
    if o1.raised is not None:
        rep.violation('clean-run-raises:fs-string', "the fault-free run with filesystem='file' and storage_options "
                      f'raised {o1.raised!r}'[:300], meta)
    else:
        tree = st.snapshot(clean['cells'], clean['ref'])
        if norm_tree(tree) != clean['norm']:
            rep.violation('fs-string-different-tree', "filesystem='file' + storage_options leaves a tree different "
                          'from the one the same call leaves with a filesystem instance', meta)
        if U.row_key(o1.frame.compute()) != st.want_rows:
            rep.violation('fs-string-rows', "filesystem='file': the returned frame does not hold the input rows", meta)
    for bad in ('no-such-protocol-c19', 12345):
        v = {'filesystem': bad}
        meta = {**st.meta(), 'kind': 'fs-argument', 'call_variant': v}
        st.init_tree()
        before = norm_tree(F.fs_term(st.root, U.prior_classifier))
        o1 = st.run(variant=v)
        rep.evaluations += 1
        rep.nontrivial((st.name, 'fs-invalid', repr(bad)))
        rep.count('variant:fs-invalid')
        after = norm_tree(F.fs_term(st.root, U.prior_classifier))
        if o1.raised is None:
            rep.violation('invalid-filesystem-accepted', f'filesystem={bad!r} did not raise', meta)
        elif not isinstance(o1.raised, ValueError):
            rep.violation('invalid-filesystem-error-class', f'filesystem={bad!r} raised '
                          f'{type(o1.raised).__name__}, not the ValueError the argument check gives', meta)
        if before != after:
            rep.violation('invalid-filesystem-touches-tree', f'filesystem={bad!r}: the tree was changed', meta)


FRESH = 1000      # the uuid4 counter of a repeat that draws a fresh uuid


def _under(entry, prefix):
    return [C.jsonable(c) for c in entry[0][:len(prefix)]] == prefix


def check_fresh_uuid(rep, st, col, clean, plan, label='fresh-uuid'):
    """an aborted run, then the repeat with overwrite=True under a FRESH uuid (the real library
    draws uuid4 per call; c10_util.deterministic_uuid restarts per call).  Promised
    (C19_recover_fresh_tmp): the repeat returns, the dataset path holds exactly the fault-free
    dataset, the repeat's own temp directories hold no leftovers; Model/PackFS.v run on the
    aborted tree predicts the whole tree.  What the aborted run left under tmp/<old uuid>/
    stays (C19_recover_uuid_debris_refuted): counted, not a violation."""
    meta = {**st.meta(), 'kind': 'fresh-uuid', 'plan': {str(k): v for k, v in plan.items()}, 'label': label}
    st.init_tree()
    o1 = st.run(plan=plan)
    rep.evaluations += 1
    rep.nontrivial((st.name, label, json.dumps(sorted((k, str(v)) for k, v in plan.items()))))
    meta['fired'] = [list(f) for f in o1.fired]
    if o1.raised is None:
        rep.count('fresh-uuid:first-run-returned')
        return judge(rep, st, col, clean, o1, label, meta['plan'])
    tree_ab = st.snapshot(clean['cells'], clean['ref'])
    o2 = st.run(plan=None, overwrite=True, uuid_start=FRESH)
    rep.count('fresh-uuid:recover-runs')
    if o2.raised is not None:
        rep.violation('recover-raises:fresh-uuid', 'after an aborted run the repeat with overwrite=True (fresh '
                      f'uuid) raised {type(o2.raised).__name__}: {str(o2.raised)[:200]}', meta)
        return True
    tree2 = st.snapshot(clean['cells'], clean['ref'])
    old_p = [C.jsonable(c) for c in F.path_term('tmp/' + U.UUID1)]
    new_p = [C.jsonable(c) for c in F.path_term('tmp/' + V.uuid_of(FRESH))]
    tmp_p = [C.jsonable(c) for c in F.path_term('tmp')]
    if norm_tree(ds_only(tree2)) != norm_tree(ds_only(clean['tree'])):
        rep.violation('recover-differs:fresh-uuid', 'after an aborted run the repeat with overwrite=True (fresh uuid) '
                      'left a dataset different from the fault-free one', meta)
    if U.row_key(o2.frame.compute()) != st.want_rows:
        rep.violation('recover-rows:fresh-uuid', 'the repeat (fresh uuid) does not return the input rows', meta)
    # the repeat's own temp directories: what the fault-free run leaves in its own (renamed)
    mine = [(e[0][len(new_p):], e[1]) for e in tree2 if _under(e, new_p)]
    ref = [(e[0][len(old_p):], e[1]) for e in clean['tree'] if _under(e, old_p)]
    if norm_tree(mine) != norm_tree(ref):
        rep.violation('recover-leaves-tempfiles:fresh-uuid', 'the repeat (fresh uuid) returned but left entries in its '
                      'own temp directories', {**meta, 'left': [C.jsonable(e) for e in mine][:10]})
    # nothing outside the dataset and the temp parent is touched by the repeat
    out2 = [e for e in tree2 if not _under(e, tmp_p) and e not in ds_only(tree2)]
    out1 = [e for e in tree_ab if not _under(e, tmp_p) and e not in ds_only(tree_ab)]
    if norm_tree(out2) != norm_tree(out1):
        rep.violation('recover-touches-unrelated:fresh-uuid', 'the repeat changed entries outside the dataset and '
                      'the temp parent', meta)
    # measured extra: debris of the aborted run under the OLD uuid
    debris = [e for e in tree2 if _under(e, old_p) and e[1].ctor == 'File']
    rep.count('fresh-uuid:repeat-leaves-old-tempdir-files', int(bool(debris)))
    rep.count('fresh-uuid:old-tempdir-files-left', len(debris))
    # the model on the aborted tree with the new temp parent predicts the whole tree; the old
    # uuid's directory, which neither the model nor the promise speaks about, is left out on
    # both sides (a library that removed that debris as well would not be an alarm)
    nin = len(st.cuts) - 1
    asg2, iorder = V.assignment_of(o2, nin, o2.tmp_parent)
    corder = V.concat_order(o2, st.k, o2.tmp_parent)
    cfg2 = U.config_term(st.k, st.mode, o2.tmp_parent, True, iorder, corder)
    col.pk_cases.append(([e for e in tree_ab if not _under(e, old_p)], cfg2, U.asg_term(asg2),
                         [e for e in tree2 if not _under(e, old_p)], clean['parts']))
    col.pk_metas.append({**meta, 'phase': 'recover-fresh-uuid'})
    return True


def run_fresh_uuid(rep, root, col, tier):
    st = Setup(rep, root, 'M-uuid', 5, 'dup', [0, 2, 5], 4, 'uuid', 3)
    clean, o = clean_run(rep, st, col)
    if clean is None:
        return
    rng = rep.rng
    fs_ = clean['final_start']
    w_sub = positions_of(o.trace, lambda t: t[0] == 'open_w' and re.match(r'^part\d+\.parquet$', t[1].split('/')[-1]))
    rm_tmp = positions_of(o.trace, lambda t: t[0] == 'rm' and U.tmp_dir_rx('uuid').match(t[1]))
    plans = [{p: ('partial', st.K)} for p in w_sub[-1:]] + [{p: ('partial', st.K)} for p in rm_tmp[:1]]
    plans += [{p: ('oserr', st.K)} for p in (rng.sample(range(1, fs_ + 1), 5) if tier == 'quick' else range(1, fs_ + 1))]
    plans += [{min(len(o.trace), fs_ + 3): 'oserr'}]
    for plan in plans:
        check_fresh_uuid(rep, st, col, clean, plan)


def run(rep):
    import dask
    tier = getattr(rep, 'tier_run', rep.tier)
    rep.rule = ('setups: 5 rows with duplicate keys / 2 input partitions / npartitions=4 (assignment [[0,3],[0,2,3]]: '
                'outputs fed by two sub-parts, an empty output in front of non-empty ones, so compaction moves '
                'happen), with the temp directories inside the dataset and outside it (thorough: + {uuid} parent, '
                '+ 6 rows / npartitions=3 without empty outputs, + 4 rows / npartitions=5, + 9 rows / 3 input '
                'partitions one of them empty / budgets 2 and 4), always over a prior '
                'dataset with overwrite=True; retry budget K attempts, no waiting.  Faults: every position of '
                'the recorded call trace x every kind applicable to the call there (OSError before, '
                'FileNotFoundError before, OSError after the effect, OSError after a partial effect, stale '
                'listing, lying exists/isfile/isdir); at EVERY position whose call is retried a fault that '
                'persists until the budget is exhausted (r = K attempts of the same call; OSError everywhere, '
                'FileNotFoundError at rm, stale at ls, partial / after effects at the mutating calls; thorough '
                'also r = K+1), each followed by the recovery check from that crash point; persistent faults '
                'within the budget on a seeded sample; seeded pairs.  Other configurations of the call (setup '
                'M): no _retry_args (library default), a filesystem with ls(refresh=) and a listing cache, a '
                'scheduler that re-submits a failed task (reaches the already-done shortcut), filesystem given '
                'as a protocol string + storage_options / an invalid value, {uuid} temp directories with a '
                'repeat that draws a FRESH uuid.  distinct non-trivial = distinct (setup, configuration, fault plan)')
    root = U.scratch()
    col = Collector()
    try:
        with dask.config.set(scheduler='synchronous'):
            for st in find_setups(rep, root, tier):
                clean, o = run_setup(rep, st, col, tier)
                if clean is not None and st.name in ('M-inside', 'M-flat'):
                    run_variants(rep, st, col, clean, o, tier)
                    if st.name == 'M-flat':
                        run_fs_argument(rep, st, clean)
            run_fresh_uuid(rep, root, col, tier)
    finally:
        shutil.rmtree(root, ignore_errors=True)
    import time
    t_runs = time.time() - rep.t0
    model_verdicts(rep, col)
    rep.extra['seconds_real_runs'] = round(t_runs, 1)
    rep.extra['seconds_model_eval'] = round(time.time() - rep.t0 - t_runs, 1)
    recover_verdicts(rep, col)
    rep.extra['model_cases'] = len(col.cases)
    rep.extra['recover_cases'] = len(col.pk_cases)


def recover_verdicts(rep, col):
    bad = C.coq_mismatches(U.PK_IMPORTS, 'pack_check', PK_CASE_TY, PK_RES_TY, col.pk_cases,
                           [C.Some((True, True, True))] * len(col.pk_cases), shard=40)
    seen = set()
    for i in bad:
        m = col.pk_metas[i]
        sig = 'recover-model-differs' + (':fresh-uuid' if m.get('phase') == 'recover-fresh-uuid' else '')
        if sig in seen:
            continue
        seen.add(sig)
        rep.violation(sig, 'the repeat after an aborted run differs from Model/PackFS.v run on the aborted tree', m)


def replay(rep, rp):
    import dask
    root = U.scratch()
    col = Collector()
    try:
        with dask.config.set(scheduler='synchronous'):
            st = Setup(rep, root, rp['setup'], rp['n'], rp['variant'], rp['cuts'], rp['k'], rp['mode'], rp['K'])
            clean, o = clean_run(rep, st, col)
            plan = {}
            for k, v in (rp.get('plan') or {}).items() if isinstance(rp.get('plan'), dict) else []:
                plan[int(k)] = tuple(v) if isinstance(v, list) else v
            cv = rp.get('call_variant')
            if clean is None:
                pass
            elif rp.get('kind') == 'fs-argument':
                run_fs_argument(rep, st, clean)
            elif rp.get('kind') == 'fresh-uuid':
                check_fresh_uuid(rep, st, col, clean, plan, 'replay')
            else:
                st.init_tree()
                o1 = st.run(plan=plan, variant=cv)
                print('fired:', o1.fired, 'raised:', repr(o1.raised)[:200])
                judge(rep, st, col, clean, o1, 'replay', rp.get('plan'), variant=cv,
                      compare_model=not (cv or {}).get('scheduler'))
    finally:
        shutil.rmtree(root, ignore_errors=True)
    model_verdicts(rep, col)
    recover_verdicts(rep, col)
    for v in rep.violations:
        print(v['signature'], '-', v['what'])
    print('counts:', {k: v for k, v in rep.hist.items() if 'differs' in k or 'compared' in k})
    return not rep.violations
