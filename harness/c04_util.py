"""Enumerators, exporters and extractors of the C04 check (.cx)."""
import itertools
import json

import numpy as np

from . import common as C
from . import geomgen as G

SCALE = 2                       # the half grid becomes integral
CTOR = {'point': 'GPoint', 'multipoint': 'GMultiPoint', 'line': 'GLine', 'ring': 'GLine',
        'multiline': 'GMultiLine', 'polygon': 'GPolygon', 'multipolygon': 'GMultiPolygon'}

CASE_TY = 'garr * option (list nat * nat) * list (axis_key * axis_key)'
RES_TY = 'list (nat + list nat)'
BRES_TY = 'list (option (num * num * num * num))'
IMPORTS = 'Model.Num Model.Arrow Model.Bounds Model.Intersect Model.Rtree Model.Cx'


def N(x):
    return C.Nat(int(x))


# ----------------------------------------------------------------------------
# arrays
# ----------------------------------------------------------------------------
def arrow_of(arr):
    """the pyarrow array behind a geometry array, through the public Arrow protocol
    (__arrow_array__), not through an attribute name"""
    import pyarrow as pa
    return pa.array(arr)


def _bits(buf, nbits):
    if buf is None:
        return None
    by = np.frombuffer(buf, dtype=np.uint8)
    return [bool((by[i // 8] >> (i % 8)) & 1) for i in range(min(nbits, len(by) * 8))]


def _zval(v):
    return C.num(float(v) * SCALE)


def export_garr(kind, arr):
    """the model's view of the array: the buffers pyarrow exports (same layout as
    common.export_listarr / export_fixarr, but read through __arrow_array__ and with the
    nesting depth taken from the Arrow type)"""
    import pyarrow as pa
    data = arrow_of(arr)
    bufs = data.buffers()
    off, n = data.offset, len(data)
    if kind == 'point':
        valid = _bits(bufs[0], off + n)
        vals = np.frombuffer(bufs[1], dtype='float64') if bufs[1] is not None else np.array([])
        vals = [_zval(v) for v in vals[:2 * (off + n)]]
        rec = C.Rec('Build_fixarr', N(off), N(n), None if valid is None else C.Some(valid), vals)
        return C.Rec(CTOR[kind], rec)
    t, nlev = data.type, 0
    while pa.types.is_list(t) or pa.types.is_large_list(t):
        t, nlev = t.value_type, nlev + 1
    if len(bufs) < 3 or nlev == 0:
        raise ValueError('null-typed array: not modelled')
    if not pa.types.is_float64(t):
        raise ValueError('only float64 elements are exported by this check')
    valid = _bits(bufs[0], off + n)
    offs = []
    for lev in range(nlev):
        b = bufs[1 + 2 * lev]
        ob = np.frombuffer(b, dtype=np.uint32) if b is not None else np.array([0], dtype=np.uint32)
        offs.append([N(x) for x in ob])
    need = off + n
    trimmed = []
    for o in offs:
        o = o[:need + 1] if len(o) > need + 1 else o
        trimmed.append(o)
        need = int(o[-1]) if o else 0
    vb = bufs[-1]
    vals = np.frombuffer(vb, dtype='float64') if vb is not None else np.array([])
    vals = [_zval(v) for v in vals[:need]]
    rec = C.Rec('Build_listarr', N(off), N(n), None if valid is None else C.Some(valid), trimmed, vals)
    return C.Rec(CTOR[kind], rec)


def modelled(kind, garr):
    """the part of Spec/CxSpec.v g_modelled that the model itself does not report as
    'outside the domain': every innermost offset is even (each part of each element starts
    on an (x, y) pair boundary of the values buffer)"""
    if kind == 'point':
        return True
    rec = garr.args[0]
    offs = rec.args[3]
    return all(int(x) % 2 == 0 for x in offs[-1])


def pylist(arr):
    """the elements of an array as hashable keys (None = missing)"""
    out = []
    for v in arrow_of(arr).to_pylist():
        out.append(None if v is None else v.hex() if isinstance(v, bytes) else json.dumps(v))
    return out


LO, HI = 0, 4


def menu(kind):
    """a small menu of shapes per kind: missing, empty, a one-vertex / flat / generic shape"""
    sq = [1, 1, 3, 1, 3, 3, 1, 3, 1, 1]
    hole = [2, 2, 2, 2, 2, 2, 2, 2]          # degenerate ring
    if kind == 'point':
        return [None, [0, 0], [2, 2], [2, 3], [4, 1]]
    if kind == 'multipoint':
        return [None, [], [2, 2], [0, 0, 4, 4], [1, 3, 3, 1, 2, 2]]
    if kind in ('line', 'ring'):
        return [None, [], [2, 2], [0, 2, 4, 2], [2, 0, 2, 4], [0, 0, 4, 4], sq]
    if kind == 'multiline':
        return [None, [], [[]], [[2, 2]], [[0, 2, 4, 2], [2, 0, 2, 4]], [[0, 0, 4, 4], []], [sq]]
    if kind == 'polygon':
        return [None, [], [[]], [sq], [[0, 0, 4, 0, 4, 4, 0, 4, 0, 0], [1, 1, 1, 3, 3, 3, 3, 1, 1, 1]],
                [[0, 0, 4, 0, 0, 4, 0, 0]], [hole]]
    if kind == 'multipolygon':
        return [None, [], [[]], [[sq]], [[[0, 0, 2, 0, 2, 2, 0, 2, 0, 0]], [[3, 3, 4, 3, 4, 4, 3, 3]]],
                [[[0, 0, 4, 0, 4, 4, 0, 4, 0, 0], [1, 1, 1, 3, 3, 3, 3, 1, 1, 1]], []]]
    raise ValueError(kind)


def gen_elements(rng, kind, n):
    """n elements with integer coordinates in LO..HI, missing / empty elements and duplicates"""
    mode = rng.random()
    if mode < 0.25:
        els = [rng.choice(menu(kind)) for _ in range(n)]
    else:
        mp = rng.choice([0.0, 0.15, 0.4])
        ep = rng.choice([0.0, 0.1, 0.3])
        els = G.rand_elements(rng, kind, n, lo=LO, hi=HI, nan_p=0.0, missing_p=mp, empty_p=ep,
                              nmax=rng.choice([2, 4]))
    if n >= 2 and rng.random() < 0.4:        # duplicates
        for _ in range(rng.randint(1, max(1, n // 2))):
            els[rng.randrange(n)] = els[rng.randrange(n)]
    if n and rng.random() < 0.05:
        els = [None] * n
    if n and rng.random() < 0.04 and kind != 'point':
        els = [rng.choice([None, []]) for _ in range(n)]
    return els


def labels_for(rng, n):
    """shuffled, non-unique index labels"""
    style = rng.choice(['int', 'str', 'neg'])
    pool = max(1, (n + 1) // 2)
    if style == 'int':
        lab = [rng.randrange(pool) * 3 for _ in range(n)]
    elif style == 'neg':
        lab = [rng.randrange(pool) - 2 for _ in range(n)]
    else:
        lab = ['k%d' % rng.randrange(pool) for _ in range(n)]
    rng.shuffle(lab)
    return lab


# ----------------------------------------------------------------------------
# keys
# ----------------------------------------------------------------------------
AXIS_PATTERNS = ['both', 'rev', 'start', 'stop', 'none']
HALF = [x / 2.0 for x in range(2 * (LO - 1), 2 * (HI + 1) + 1)]


def _val(rng, v):
    """every end goes in as a float: the jitted kernels are specialised on the type of the
    bounds tuple, and each int/float mix would cost a fresh compilation (seconds)"""
    return float(v)


def _axis(rng, pat, lo, hi):
    """(python slice, model key) of one axis; lo/hi: the data extent on the axis (or None)"""
    # ends biased to the extent and its neighbourhood, so that ties and flat boxes occur
    cand = list(HALF)
    if lo is not None:
        cand += [lo, hi, lo, hi, lo - 0.5, hi + 0.5, lo + 0.5, hi - 0.5]
    a, b = rng.choice(cand), rng.choice(cand)
    while a == b:
        b = rng.choice(HALF)
    a, b = min(a, b), max(a, b)
    if pat == 'both':
        s = (a, b)
    elif pat == 'rev':
        s = (b, a)
    elif pat == 'start':
        # mostly left of the far end so that the box stays positive; sometimes beyond it
        v = rng.choice([x for x in HALF if hi is None or x < hi] or HALF) if rng.random() < 0.75 \
            else rng.choice(cand)
        s = (v, None)
    elif pat == 'stop':
        v = rng.choice([x for x in HALF if lo is None or x > lo] or HALF) if rng.random() < 0.75 \
            else rng.choice(cand)
        s = (None, v)
    else:
        s = (None, None)
    py = slice(None if s[0] is None else _val(rng, s[0]), None if s[1] is None else _val(rng, s[1]))
    return py, s


def zopt(v):
    if v is None:
        return None
    z = v * SCALE
    assert z == int(z)
    return C.Some(int(z))


def mk_slice(s, step=None):
    return C.Rec('KSlice', zopt(s[0]), zopt(s[1]), None if step is None else C.Some(int(step)))


def gen_keys(rng, extent, per_pattern=1, extra=True):
    """[(python key, model key, tag)]: all 25 axis-pattern pairs (which contain the 16
    present/omitted patterns of the four ends, each two-ended axis also reversed), scalar
    keys, and keys with a step"""
    xlo, ylo, xhi, yhi = extent
    out = []
    for px, py_ in itertools.product(AXIS_PATTERNS, AXIS_PATTERNS):
        for _ in range(per_pattern):
            kx, sx = _axis(rng, px, xlo, xhi)
            ky, sy = _axis(rng, py_, ylo, yhi)
            out.append(((kx, ky), (mk_slice(sx), mk_slice(sy)), f'{px}/{py_}'))
    if extra:
        ints = list(range(LO, HI + 1))
        # scalar keys: scalar/scalar, scalar/slice, slice/scalar
        x, y = rng.choice(HALF), rng.choice(HALF)
        out.append(((_val(rng, x), _val(rng, y)),
                    (C.Rec('KScalar', int(x * SCALE)), C.Rec('KScalar', int(y * SCALE))), 'scalar/scalar'))
        x = rng.choice(ints)
        ky, sy = _axis(rng, rng.choice(AXIS_PATTERNS), ylo, yhi)
        out.append(((float(x), ky), (C.Rec('KScalar', int(x * SCALE)), mk_slice(sy)), 'scalar/slice'))
        y = rng.choice(ints)
        kx, sx = _axis(rng, rng.choice(AXIS_PATTERNS), xlo, xhi)
        out.append(((kx, float(y)), (mk_slice(sx), C.Rec('KScalar', int(y * SCALE))), 'slice/scalar'))
        # a step (even 1) is rejected
        kx, sx = _axis(rng, rng.choice(AXIS_PATTERNS), xlo, xhi)
        ky, sy = _axis(rng, rng.choice(AXIS_PATTERNS), ylo, yhi)
        st = rng.choice([1, 2, -1])
        if rng.random() < 0.5:
            out.append(((slice(kx.start, kx.stop, st), ky), (mk_slice(sx, st), mk_slice(sy)), 'step'))
        else:
            out.append(((kx, slice(ky.start, ky.stop, st)), (mk_slice(sx), mk_slice(sy, st)), 'step'))
    return out


def key_json(k):
    def one(a):
        if isinstance(a, slice):
            return {'slice': [a.start, a.stop, a.step]}
        return a
    return [one(k[0]), one(k[1])]


def key_unjson(j):
    def one(a):
        if isinstance(a, dict):
            return slice(*a['slice'])
        return a
    return (one(j[0]), one(j[1]))


def model_key_of(pykey):
    def one(a):
        if isinstance(a, slice):
            return C.Rec('KSlice', zopt(a.start), zopt(a.stop),
                         None if a.step is None else C.Some(int(a.step)))
        return C.Rec('KScalar', int(a * SCALE))
    return (one(pykey[0]), one(pykey[1]))


# ----------------------------------------------------------------------------
# running .cx and reading the result back as row positions
# ----------------------------------------------------------------------------
class Bad(Exception):
    """the result is not an order-preserving selection of unchanged rows"""

    def __init__(self, sig, what):
        super().__init__(what)
        self.sig, self.what = sig, what


def positions_from_elements(src_keys, res_keys):
    """the result of an array / series is a list of elements; equal elements intersect the
    same boxes, so a correct selection holds every copy of each selected element: the
    positions are those of the source elements that occur in the result -- provided the
    result really is that sub-sequence"""
    rs = set(res_keys)
    pos = [i for i, e in enumerate(src_keys) if e in rs]
    if [src_keys[i] for i in pos] != list(res_keys):
        raise Bad('not-a-row-selection',
                  'the result is not the order-preserving selection of all copies of the selected '
                  'elements')
    return pos


def run_cx(obj, pykey):
    """('ok', result) | ('ValueError', msg) | ('raised', type, msg)"""
    try:
        return ('ok', obj.cx[pykey[0], pykey[1]])
    except ValueError as e:
        return ('ValueError', str(e)[:120])
    except Exception as e:  # noqa
        return ('raised', type(e).__name__, str(e)[:200])


def read_array(src, src_keys, res):
    if type(res) is not type(src):
        raise Bad('result-type', f'array .cx returned {type(res).__name__}, not {type(src).__name__}')
    if res.dtype != src.dtype:
        raise Bad('result-type', f'array .cx changed the dtype {src.dtype} -> {res.dtype}')
    return positions_from_elements(src_keys, pylist(res))


def read_series(src, src_keys, labels, res):
    from spatialpandas import GeoSeries
    if type(res) is not GeoSeries:
        raise Bad('result-type', f'GeoSeries.cx returned {type(res).__name__}')
    if res.dtype != src.dtype or res.name != src.name:
        raise Bad('result-type', 'GeoSeries.cx changed dtype or name')
    pos = positions_from_elements(src_keys, pylist(res.array))
    if list(res.index) != [labels[i] for i in pos]:
        raise Bad('labels', 'index labels of the selected rows changed or moved')
    return pos


def geometry_name(df):
    """name of the active geometry column, through the public .geometry property"""
    return df.geometry.name


def _is_geometry(arr):
    from spatialpandas.geometry import GeometryArray
    return isinstance(arr, GeometryArray)


def read_frame(src, src_keys, labels, res):
    from spatialpandas import GeoDataFrame
    if type(res) is not GeoDataFrame:
        raise Bad('result-type', f'GeoDataFrame.cx returned {type(res).__name__}')
    gname = geometry_name(src)
    if list(res.columns) != list(src.columns):
        raise Bad('result-type', 'GeoDataFrame.cx changed the columns')
    try:
        rname = geometry_name(res)
    except Exception:  # noqa
        rname = None
    if rname != gname:
        raise Bad('result-type', 'GeoDataFrame.cx changed the active geometry')
    pos = [int(x) for x in res['rid'].tolist()]
    if any(p < 0 or p >= len(src_keys) for p in pos):
        raise Bad('payload', 'row id payload out of range')
    if list(res.index) != [labels[i] for i in pos]:
        raise Bad('labels', 'index labels of the selected rows changed or moved')
    if pylist(res[gname].array) != [src_keys[i] for i in pos]:
        raise Bad('payload', 'geometry of a selected row changed')
    for col in src.columns:
        if col in ('rid', gname):
            continue
        sv = src[col]
        if _is_geometry(sv.array):
            a, b = pylist(res[col].array), pylist(sv.array)
        else:
            a, b = res[col].tolist(), sv.tolist()
        if a != [b[i] for i in pos]:
            raise Bad('payload', f'payload column {col!r} of a selected row changed')
        if res[col].dtype != sv.dtype:
            raise Bad('payload', f'payload column {col!r} changed dtype')
    return pos


def internal_index(arr):
    """OPTIONAL look at the private index slot of a geometry array:
    ('unavailable',) when the attribute is not there, else ('none',) / ('built', rtree)"""
    if not hasattr(arr, '_sindex'):
        return ('unavailable',)
    t = arr._sindex
    return ('none',) if t is None else ('built', t)


def model_state(n, page_size):
    """the model's index state for an index this check built itself with `page_size`
    (None = never built).  The permutation is the identity: by C04_index_config_irrelevant
    the answer does not depend on it, so the index's private key array is not needed."""
    if page_size is None:
        return None
    return C.Some(([N(k) for k in range(n)], N(max(1, page_size))))


def py_box(pykey, extent):
    """the box (x0, x1, y0, y1) a key denotes on data of the given extent (Spec/CxSpec.v
    spec_box, with NaN extents allowed); None for a key with a step"""
    xs, ys = pykey
    xs = xs if isinstance(xs, slice) else slice(xs, xs)
    ys = ys if isinstance(ys, slice) else slice(ys, ys)
    if xs.step is not None or ys.step is not None:
        return None
    xmin, ymin, xmax, ymax = extent
    x0 = xs.start if xs.start is not None else xmin
    x1 = xs.stop if xs.stop is not None else xmax
    y0 = ys.start if ys.start is not None else ymin
    y1 = ys.stop if ys.stop is not None else ymax
    if x1 < x0:
        x0, x1 = x1, x0
    if y1 < y0:
        y0, y1 = y1, y0
    return (float(x0), float(x1), float(y0), float(y1))


def model_result(r):
    """a python-side result in the model's result type"""
    if r[0] == 'pos':
        return C.Rec('inr', [N(i) for i in r[1]])
    if r[0] == 'ValueError':
        return C.Rec('inl', N(0))
    return C.Rec('inl', N(99))       # an unexpected exception never equals the model


def model_bounds(b):
    """impl _get_bounds (x0, x1, y0, y1) -> option (num*num*num*num)"""
    if b is None:
        return None
    return C.Some(tuple(C.fnum(v, SCALE) for v in b))
