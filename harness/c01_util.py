"""Enumerators, exporters and the independent exact oracle of the C01 check."""
import itertools
from fractions import Fraction

import numpy as np

from . import common as C

# ----------------------------------------------------------------------------
# boxes
# ----------------------------------------------------------------------------


def boxes_pos(lo, hi):
    """every box x0<x1, y0<y1 with integer edges in lo..hi, canonical corner order"""
    r = range(lo, hi + 1)
    xs = [(a, b) for a in r for b in r if a < b]
    return [(x0, y0, x1, y1) for (x0, x1) in xs for (y0, y1) in xs]


def reorder(b, k):
    """k = 0: as is; 1: x swapped; 2: y swapped; 3: both"""
    x0, y0, x1, y1 = b
    if k & 1:
        x0, x1 = x1, x0
    if k & 2:
        y0, y1 = y1, y0
    return (x0, y0, x1, y1)


def boxes_all(lo, hi):
    """all (hi-lo+1)^4 corner pairs: reversed and degenerate ones included"""
    r = range(lo, hi + 1)
    return [(x0, y0, x1, y1) for x0 in r for x1 in r for y0 in r for y1 in r]


def boxes_degenerate(lo, hi):
    return [b for b in boxes_all(lo, hi) if b[0] == b[2] or b[1] == b[3]]


def orient(b):
    x0, y0, x1, y1 = b
    if x1 < x0:
        x0, x1 = x1, x0
    if y1 < y0:
        y0, y1 = y1, y0
    return (x0, y0, x1, y1)


# ----------------------------------------------------------------------------
# the TYPE of the box argument (the values are unchanged)
# ----------------------------------------------------------------------------
BOXTYPES = ['tuple-int', 'list-float', 'tuple-np.float32', 'tuple-np.float64', 'tuple-np.int32',
            'tuple-np.int64', 'ndarray-float32', 'ndarray-float64', 'ndarray-int64', 'mixed']


def boxarg(b, typ):
    """the box b (numbers exactly representable in float32) as an argument of the given type;
    integer types are replaced by the corresponding float type when a corner is not whole"""
    whole = all(float(c) == int(c) for c in b)
    if not whole:
        typ = {'tuple-int': 'list-float', 'tuple-np.int32': 'tuple-np.float32',
               'tuple-np.int64': 'tuple-np.float64', 'ndarray-int64': 'ndarray-float32'}.get(typ, typ)
    if typ == 'tuple-int':
        return tuple(int(c) for c in b)
    if typ == 'list-float':
        return [float(c) for c in b]
    if typ.startswith('tuple-np.'):
        t = getattr(np, typ[len('tuple-np.'):])
        return tuple(t(c) for c in b)
    if typ.startswith('ndarray-'):
        return np.array([float(c) for c in b]).astype(typ[len('ndarray-'):])
    if typ == 'mixed':
        if whole:
            return (int(b[0]), np.float32(b[1]), float(b[2]), np.int64(int(b[3])))
        return (np.float32(b[0]), float(b[1]), np.float64(b[2]), np.float32(b[3]))
    raise ValueError(typ)


def boxes_raw(boxes):
    return C.Raw('[' + '; '.join('(%d,%d,%d,%d)' % tuple(b) for b in boxes) + ']%Z')


# ----------------------------------------------------------------------------
# shapes
# ----------------------------------------------------------------------------
def grid_points(vals):
    return [(x, y) for x in vals for y in vals]


def flat(pts):
    return [c for p in pts for c in p]


def polylines(vals, nmax):
    """every vertex sequence of 1..nmax vertices over the grid (repeats included)"""
    P = grid_points(vals)
    out = []
    for n in range(1, nmax + 1):
        for seq in itertools.product(P, repeat=n):
            out.append(flat(seq))
    return out


def _cross(o, a, b):
    return (a[0] - o[0]) * (b[1] - o[1]) - (a[1] - o[1]) * (b[0] - o[0])


def _on_seg(a, b, p):
    return (_cross(a, b, p) == 0 and min(a[0], b[0]) <= p[0] <= max(a[0], b[0])
            and min(a[1], b[1]) <= p[1] <= max(a[1], b[1]))


def _segs_meet(a, b, c, d):
    d1, d2 = _cross(a, b, c), _cross(a, b, d)
    d3, d4 = _cross(c, d, a), _cross(c, d, b)
    if ((d1 > 0) != (d2 > 0)) and d1 != 0 and d2 != 0 and ((d3 > 0) != (d4 > 0)) and d3 != 0 and d4 != 0:
        return True
    return _on_seg(a, b, c) or _on_seg(a, b, d) or _on_seg(c, d, a) or _on_seg(c, d, b)


def area2(pts):
    return sum(pts[i][0] * pts[(i + 1) % len(pts)][1] - pts[(i + 1) % len(pts)][0] * pts[i][1]
               for i in range(len(pts)))


def is_simple(pts):
    """simple closed polygon (vertices pts, implicitly closed): distinct vertices,
    non-adjacent edges disjoint, adjacent edges meet only at the shared vertex, non-zero area"""
    n = len(pts)
    if len(set(pts)) != n or area2(pts) == 0:
        return False
    for i in range(n):
        a, b = pts[i], pts[(i + 1) % n]
        for j in range(i + 1, n):
            c, d = pts[j], pts[(j + 1) % n]
            if j == i + 1 or (i == 0 and j == n - 1):
                # adjacent: must not overlap (fold back)
                shared = b if j == i + 1 else a
                other1 = a if j == i + 1 else b
                other2 = d if j == i + 1 else c
                if _cross(shared, other1, other2) == 0 and \
                        (other1[0] - shared[0]) * (other2[0] - shared[0]) + \
                        (other1[1] - shared[1]) * (other2[1] - shared[1]) > 0:
                    return False
            elif _segs_meet(a, b, c, d):
                return False
    return True


def simple_rings(vals, sizes=(3, 4)):
    """every simple ring with len in sizes over the grid, one representative per cyclic
    vertex set+order, counter-clockwise, as an open vertex list"""
    P = grid_points(vals)
    seen, out = set(), []
    for n in sizes:
        for sub in itertools.combinations(P, n):
            first = sub[0]
            for perm in itertools.permutations(sub[1:]):
                pts = (first,) + perm
                if area2(pts) <= 0:
                    continue
                if pts in seen:
                    continue
                if is_simple(list(pts)):
                    seen.add(pts)
                    out.append(list(pts))
    return out


def close(pts, cw=False, rot=0):
    """closed interleaved coordinate list of the ring, optionally reversed / rotated"""
    pts = list(pts)
    if cw:
        pts = pts[::-1]
    pts = pts[rot % len(pts):] + pts[:rot % len(pts)]
    return flat(pts + [pts[0]])


# ----------------------------------------------------------------------------
# arrays
# ----------------------------------------------------------------------------
def build(kind, elements, subtype, derivation):
    from . import geomgen as G
    big = any(abs(c) > 2 ** 24 for e in elements for c in G.flat_coords(e))
    arr = G.make_array(kind, to_float(elements) if big and subtype.startswith('float') else elements, subtype)
    for d in derivation:
        if d[0] == 'slice':
            arr = arr[d[1]:d[2]]
        elif d[0] == 'take':
            arr = arr.take(np.array(d[1], dtype='int64'))
        elif d[0] == 'rotate':
            arr = type(arr)._concat_same_type([arr[d[1]:], arr[:d[1]]])
        elif d[0] == 'mask':
            arr = arr[np.array(d[1], dtype=bool)]
        elif d[0] == 'rev':
            arr = arr[::-1]
    return arr


def apply_logical(elements, derivation):
    """the element list the derived array should hold"""
    els = list(elements)
    for d in derivation:
        if d[0] == 'slice':
            els = els[d[1]:d[2]]
        elif d[0] == 'take':
            els = [els[i] for i in d[1]]
        elif d[0] == 'rotate':
            els = els[d[1]:] + els[:d[1]]
        elif d[0] == 'mask':
            els = [e for e, m in zip(els, d[1]) if m]
        elif d[0] == 'rev':
            els = els[::-1]
    return els


def to_float(e):
    if e is None:
        return None
    if isinstance(e, (list, tuple)):
        return [to_float(x) for x in e]
    return float(e)


def scale_el(e, k):
    """the element with every coordinate multiplied by the integer k"""
    if e is None or k == 1:
        return e
    if isinstance(e, (list, tuple)):
        return [scale_el(x, k) for x in e]
    return e * k


def arrow_of(arr):
    """the pyarrow array behind a public geometry array"""
    d = getattr(arr, 'data', None)
    if d is None:
        d = arr.__arrow_array__()
    return d


def export_array(kind, arr, scale=1):
    """buffers() of a public list-backed geometry array as the model's [listarr]; the number of
    offset levels comes from the kind, the value dtype from the arrow type (no private attribute)"""
    from . import geomgen as G
    data = arrow_of(arr)
    bufs = data.buffers()
    off, n = data.offset, len(data)
    nlev = G.LEVELS[kind]
    if len(bufs) < 1 + 2 * nlev + 1:
        raise ValueError('null-typed array: not modelled')
    t = data.type
    for _ in range(nlev):
        t = t.value_type
    dt = np.dtype(t.to_pandas_dtype())
    valid = C._bits(bufs[0], off + n)
    need, trimmed = off + n, []
    for lev in range(nlev):
        b = bufs[1 + 2 * lev]
        ob = np.frombuffer(b, dtype=np.uint32) if b is not None else np.array([0], dtype=np.uint32)
        o = [C.Nat(int(x)) for x in ob[:need + 1]]
        trimmed.append(o)
        need = int(o[-1]) if o else 0
    vb = bufs[-1]
    vals = np.frombuffer(vb, dtype=dt)[:need] if vb is not None else np.array([], dtype=dt)
    isf = np.issubdtype(dt, np.floating)
    vals = [C.num(float(v) * scale) if isf else C.Some(int(v) * scale) for v in vals]
    return C.Rec('Build_listarr', C.Nat(off), C.Nat(n), None if valid is None else C.Some(valid),
                 trimmed, vals)


def export_points(arr, scale=1):
    """buffers() of a public PointArray as the model's [fixarr]; coordinate dtype from the public
    dtype name 'point[<subtype>]'"""
    import re
    data = arrow_of(arr)
    bufs = data.buffers()
    off, n = data.offset, len(data)
    m = re.search(r'\[(\w+)\]', str(arr.dtype))
    dt = np.dtype(m.group(1)) if m else np.dtype(arr.numpy_dtype)
    valid = C._bits(bufs[0], off + n)
    vals = np.frombuffer(bufs[1], dtype=dt) if bufs[1] is not None else np.array([], dtype=dt)
    vals = vals[:2 * (off + n)]
    isf = np.issubdtype(dt, np.floating)
    vals = [C.num(float(v) * scale) if isf else C.Some(int(v) * scale) for v in vals]
    return C.Rec('Build_fixarr', C.Nat(off), C.Nat(n), None if valid is None else C.Some(valid), vals)


def export_scalar(el, scale=1):
    """(nbuf, listarr) of a GeometryList scalar's own listarray (one nesting level less
    than its array class; NullArray for an empty element); coordinates times `scale`"""
    la = el.listarray
    bufs = la.buffers()
    nbuf = len(bufs)
    off, n = la.offset, len(la)
    if nbuf < 2:
        return C.Nat(nbuf), C.Rec('Build_listarr', C.Nat(0), C.Nat(0), None, [], [])
    dt = el.numpy_dtype
    nlev = (nbuf - 1) // 2
    offs = []
    for lev in range(nlev):
        b = bufs[1 + 2 * lev]
        ob = np.frombuffer(b, dtype=np.uint32) if b is not None else np.array([0], dtype=np.uint32)
        offs.append([C.Nat(int(x)) for x in ob])
    need = off + n
    trimmed = []
    for o in offs:
        o = o[:need + 1] if len(o) > need + 1 else o
        trimmed.append(o)
        need = int(o[-1]) if o else 0
    vb = bufs[-1]
    vals = np.frombuffer(vb, dtype=dt) if vb is not None else np.array([], dtype=dt)
    vals = [C.num(float(v) * scale) for v in vals[:need]]
    return C.Nat(nbuf), C.Rec('Build_listarr', C.Nat(off), C.Nat(n), None, trimmed, vals)


def pack(bits):
    """same packing as Model/Intersect.v pack_bits: leading 1 then the bits"""
    v = 1
    for b in bits:
        v = (v << 1) | (1 if b else 0)
    return v


def pack_np(a):
    a = np.asarray(a, dtype=bool)
    if a.size == 0:
        return 1
    return (1 << a.size) | int.from_bytes(np.packbits(a, bitorder='big').tobytes(), 'big') >> ((-a.size) % 8)


def unpack(v):
    s = bin(v)[3:]
    return [c == '1' for c in s]


# ----------------------------------------------------------------------------
# the independent exact oracle (Fractions; clipping + slanted-ray crossing count)
# ----------------------------------------------------------------------------
D_SLOPE = 2147483647   # prime > 2^27: the ray P + s*(D_SLOPE, 1), s > 0, from a lattice point
                       # passes through no other lattice point with |coordinate| <= 2^25


def seg_meets_box(A, B, box):
    """closed segment AB meets the closed (oriented) box: Liang-Barsky clipping, exact"""
    x0, y0, x1, y1 = box
    t0, t1 = Fraction(0), Fraction(1)
    dx, dy = B[0] - A[0], B[1] - A[1]
    for p, q in ((-dx, A[0] - x0), (dx, x1 - A[0]), (-dy, A[1] - y0), (dy, y1 - A[1])):
        if p == 0:
            if q < 0:
                return False
        else:
            r = Fraction(q, p)
            if p < 0:
                t0 = max(t0, r)
            else:
                t1 = min(t1, r)
            if t0 > t1:
                return False
    return True


def pts_of(coords):
    return [(coords[i], coords[i + 1]) for i in range(0, len(coords) - 1, 2)]


def polyline_meets_box(coords, box):
    P = pts_of(coords)
    if any(box[0] <= x <= box[2] and box[1] <= y <= box[3] for x, y in P):
        return True
    return any(seg_meets_box(P[i], P[i + 1], box) for i in range(len(P) - 1))


def winding_slanted(rings, P):
    """winding number of the lattice point P (not on any ring) by signed proper
    crossings of the ray P + s*(D,1), s > 0"""
    d = (D_SLOPE, 1)
    wn = 0
    for ring in rings:
        V = pts_of(ring)
        for A, B in zip(V, V[1:]):
            oa = d[0] * (A[1] - P[1]) - d[1] * (A[0] - P[0])
            ob = d[0] * (B[1] - P[1]) - d[1] * (B[0] - P[0])
            if oa == 0 or ob == 0:
                raise AssertionError('ray through a vertex')
            if (oa > 0) == (ob > 0):
                continue
            # parameter s of the crossing along the ray: sign of cross(A-P, B-A)/cross(d, B-A)
            e = (B[0] - A[0], B[1] - A[1])
            num = (A[0] - P[0]) * e[1] - (A[1] - P[1]) * e[0]
            den = d[0] * e[1] - d[1] * e[0]
            if Fraction(num, den) > 0:
                wn += 1 if ob > 0 else -1
    return wn


def polygon_meets_box(rings, box):
    """region := ring boundaries + {winding number != 0}; box oriented, closed"""
    if any(polyline_meets_box(r, box) for r in rings):
        return True
    return winding_slanted(rings, (box[0], box[1])) != 0


def oracle(kind, el, box):
    """does the closed point set of the element meet the closed box (None = not judged)"""
    box = orient(box)
    if el is None:
        return False
    if kind == 'point':
        return box[0] <= el[0] <= box[2] and box[1] <= el[1] <= box[3]
    if kind == 'multipoint':
        return any(box[0] <= x <= box[2] and box[1] <= y <= box[3] for x, y in pts_of(el))
    if kind in ('line', 'ring'):
        return polyline_meets_box(el, box)
    if kind == 'multiline':
        return any(polyline_meets_box(l, box) for l in el)
    if kind == 'polygon':
        return polygon_meets_box(el, box)
    if kind == 'multipolygon':
        return any(polygon_meets_box(p, box) for p in el)
    raise ValueError(kind)


def classify(kind, el, box):
    """coarse geometric class of (element, positive box) for the evidence histogram"""
    box = orient(box)
    if el is None:
        return 'missing'
    if len(el) == 0:
        return 'empty'
    x0, y0, x1, y1 = box
    if kind in ('polygon', 'multipolygon'):
        polys = [el] if kind == 'polygon' else el
        rings = [r for p in polys for r in p]
    elif kind == 'multiline':
        rings = el
    elif kind in ('line', 'ring'):
        rings = [el]
    else:
        return 'points'
    V = [p for r in rings for p in pts_of(r)]
    if not V:
        return 'empty'
    inside = [x0 <= x <= x1 and y0 <= y <= y1 for x, y in V]
    if all(inside):
        return 'box_contains_element'
    onb = [(x in (x0, x1) and y0 <= y <= y1) or (y in (y0, y1) and x0 <= x <= x1) for x, y in V]
    strict = [x0 < x < x1 and y0 < y < y1 for x, y in V]
    if any(strict):
        return 'vertex_strictly_inside_box'
    if any(onb):
        return 'box_touches_vertex'
    # no vertex in the box
    E = [(a, b) for r in rings for a, b in zip(pts_of(r), pts_of(r)[1:])]
    for a, b in E:
        if (a[0] == b[0] and a[0] in (x0, x1) and min(a[1], b[1]) <= y1 and max(a[1], b[1]) >= y0) or \
           (a[1] == b[1] and a[1] in (y0, y1) and min(a[0], b[0]) <= x1 and max(a[0], b[0]) >= x0):
            return 'edge_collinear_with_box_edge'
    if any(seg_meets_box(a, b, box) for a, b in E):
        corners = [(x0, y0), (x1, y0), (x1, y1), (x0, y1)]
        if any(_on_seg(a, b, c) for a, b in E for c in corners):
            return 'edge_through_box_corner'
        return 'edge_crosses_box'
    if kind in ('polygon', 'multipolygon'):
        for p in polys:
            if p and winding_slanted(p, (x0, y0)) != 0:
                return 'box_strictly_inside_polygon'
        for p in polys:
            if len(p) > 1 and winding_slanted(p[:1], (x0, y0)) != 0:
                return 'box_inside_hole'
    bx = (min(v[0] for v in V), min(v[1] for v in V), max(v[0] for v in V), max(v[1] for v in V))
    if bx[0] > x1 or bx[2] < x0 or bx[1] > y1 or bx[3] < y0:
        return 'bbox_disjoint'
    return 'bbox_overlaps_no_contact'


# ----------------------------------------------------------------------------
# the object-history stream (harness/c01.py history_stream): elements, boxes, histories
# ----------------------------------------------------------------------------
_DEPTH = {'point': 0, 'multipoint': 0, 'line': 0, 'ring': 0, 'multiline': 1, 'polygon': 1, 'multipolygon': 2}
_RINGS = {}


def shift(e, dx, dy, depth):
    """the element moved by (dx, dy); depth = nesting above the interleaved coordinate lists"""
    if e is None:
        return None
    if depth:
        return [shift(x, dx, dy, depth - 1) for x in e]
    return [c + (dy if i & 1 else dx) for i, c in enumerate(e)]


def _rings(vals):
    if vals not in _RINGS:
        _RINGS[vals] = simple_rings(list(vals), (3, 4))
    return _RINGS[vals]


def _history_polygon(rng):
    """one valid polygon with integer vertices in -2..26: a small simple ring, a square with a hole
    wound the other way, or a frame around the whole scene (a box then lies in its hole) / a slab
    over it (a box then lies strictly inside it)"""
    r = rng.random()
    cw = rng.random() < .5
    if r < .08:        # frame: the queries fall into the hole or onto the rim
        a, b = rng.choice([0, 1, 2]), rng.choice([3, 5, 9])
        return [close([(-2, -2), (26, -2), (26, 26), (-2, 26)], cw=cw, rot=rng.randrange(4)),
                close([(a, a), (26 - b, a), (26 - b, 26 - b), (a, 26 - b)], cw=not cw, rot=rng.randrange(4))]
    if r < .14:        # slab
        a = rng.choice([0, 2, 6])
        return [close([(-2 + a, -1), (26 - a, -1), (26 - a, 25), (-2 + a, 25)], cw=cw, rot=rng.randrange(4))]
    if r < .34:
        dx, dy = 2 * rng.randint(0, 8), 2 * rng.randint(0, 8)
        h = rng.choice(_rings((2, 4, 6)))
        return shift([close([(0, 0), (8, 0), (8, 8), (0, 8)], cw=cw, rot=rng.randrange(4)),
                      close(h, cw=not cw, rot=rng.randrange(len(h)))], dx, dy, 1)
    dx, dy = 2 * rng.randint(0, 10), 2 * rng.randint(0, 10)
    s = rng.choice(_rings((0, 2, 4)))
    return shift([close(s, cw=cw, rot=rng.randrange(len(s)))], dx, dy, 1)


def history_elements(rng, kind, n, q=1):
    """n elements of the kind scattered over [0,24]^2 (integer vertices, exact in every subtype),
    missing and empty ones among them; polygons are valid, so that the point-set oracle applies.
    q > 1: the same in units of 1/q, each element moved off the integer lattice by a multiple of 1/q"""
    if q != 1:
        depth = _DEPTH[kind]
        return [None if e is None else shift(scale_el(e, q), rng.randint(0, q - 1), rng.randint(0, q - 1), depth)
                for e in history_elements(rng, kind, n)]
    out = []
    for i in range(n):
        r = rng.random()
        if r < .1 or i == 3:
            out.append(None)
            continue
        if r < .17 and kind != 'point':
            out.append([])
            continue
        dx, dy = rng.randint(0, 18), rng.randint(0, 18)

        def coords(k):
            return [rng.randint(0, 6) for _ in range(2 * k)]
        if kind == 'point':
            e = [rng.randint(0, 24), rng.randint(0, 24)]
        elif kind == 'multipoint':
            e = shift(coords(rng.randint(1, 3)), dx, dy, 0)
        elif kind == 'line':
            e = shift(coords(rng.randint(1, 4)), dx, dy, 0)
        elif kind == 'ring':
            c = coords(rng.randint(2, 3))
            e = shift(c + c[:2], dx, dy, 0)
        elif kind == 'multiline':
            e = shift([coords(rng.randint(0 if rng.random() < .1 else 1, 3)) for _ in range(rng.randint(1, 3))],
                      dx, dy, 1)
        elif kind == 'polygon':
            e = _history_polygon(rng)
        else:
            e = [_history_polygon(rng) for _ in range(rng.randint(1, 2))]
            if rng.random() < .1:
                e.insert(rng.randrange(len(e) + 1), [])
        out.append(e)
    return out


def history_boxes(rng, kind, q=1):
    """canonical boxes (medium, small, large, far away, two random ones; for points and multipoints
    also a vertical line and a single point), each followed by its three other corner orders.
    q > 1: in units of 1/q, corners off the integer lattice"""
    def span(lo, hi, wmin, wmax):
        w = rng.randint(wmin, wmax)
        a = rng.randint(lo, hi - w)
        return a * q + rng.randint(0, q - 1), (a + w) * q + rng.randint(0, q - 1)
    canon = []
    for (wmin, wmax) in ((4, 12), (1, 2), (20, 26), (4, 12), (2, 16)):
        x0, x1 = span(-1, 26, wmin, wmax)
        y0, y1 = span(-1, 26, wmin, wmax)
        canon.append((x0, y0, x1, y1))
    canon.append((30 * q, 29 * q, 34 * q + q // 2, 33 * q))
    if kind in ('point', 'multipoint'):
        x = rng.randint(2, 22) * q + rng.randint(0, q - 1)
        canon.append((x, 0, x, 24 * q))
        canon.append((x, x, x, x))
    rng.shuffle(canon)
    return [reorder(b, k) for b in canon for k in range(4)]


HISTORIES = ['build_sindex()', '.sindex', 'build_sindex(page_size=4)', 'build_sindex(p=3, page_size=1)',
             'GeoSeries.sindex', 'GeoSeries.build_sindex(page_size=2)', 'GeoDataFrame.build_sindex()',
             'GeoSeries of an indexed array', 'queried before', 'bounds computed before',
             'indexed, then derived', 'derived, then indexed', 'cx on the indexed array']


def history_params(rng, n):
    perm = list(range(n))
    rng.shuffle(perm)
    return {'k': rng.randint(1, max(1, n // 3)), 'perm': perm + perm[:3],
            'mask': [rng.random() < .7 for _ in range(n)]}


def _derived(arr, prm):
    """[(label, derived array, positions of its elements in the parent)]"""
    import pickle
    n, k = len(arr), prm['k']
    perm = prm['perm']
    mask = prm['mask']
    return [(f'[{k}:]', arr[k:], list(range(k, n))),
            ('[::-1]', arr[::-1], list(range(n - 1, -1, -1))),
            ('.take(perm)', arr.take(np.array(perm, dtype='int64')), list(perm)),
            ('.copy()', arr.copy(), list(range(n))),
            ('pickle round trip', pickle.loads(pickle.dumps(arr)), list(range(n))),
            (f'concat([a[{k}:], a[:{k}]])', type(arr)._concat_same_type([arr[k:], arr[:k]]),
             list(range(k, n)) + list(range(k))),
            ('[mask]', arr[np.array(mask, dtype=bool)], [i for i in range(n) if mask[i]])]


def history_objects(hist, arr, prm, far=(30, 29, 34, 33)):
    """perform the named sequence of PUBLIC operations on the freshly built array `arr`;
    -> [(label, array to query, GeoSeries to query or None, positions of its elements in arr)]"""
    from spatialpandas import GeoDataFrame, GeoSeries
    n = len(arr)
    ident = list(range(n))
    labels = [f'r{i}' for i in range(n)]
    if hist == 'none':
        return [('', arr, None, ident)]
    if hist == 'build_sindex()':
        r = arr.build_sindex()
        return [('', arr, None, ident)] + ([('returned object', r, None, ident)] if r is not arr and r is not None else [])
    if hist == '.sindex':
        arr.sindex
        arr.sindex
        return [('', arr, None, ident)]
    if hist == 'build_sindex(page_size=4)':
        arr.build_sindex(page_size=4)
        return [('', arr, None, ident)]
    if hist == 'build_sindex(p=3, page_size=1)':
        arr.build_sindex(p=3, page_size=1)
        arr.build_sindex()          # a second request keeps the first index
        return [('', arr, None, ident)]
    if hist == 'GeoSeries.sindex':
        s = GeoSeries(arr, index=labels)
        s.sindex
        return [('', s.array, s, ident), ('the array the series was made from', arr, None, ident)]
    if hist == 'GeoSeries.build_sindex(page_size=2)':
        s = GeoSeries(arr, index=labels)
        s.build_sindex(page_size=2)
        return [('', s.array, s, ident)]
    if hist == 'GeoDataFrame.build_sindex()':
        df = GeoDataFrame({'geometry': GeoSeries(arr, index=labels), 'v': np.arange(n)})
        df.build_sindex()
        s = df.geometry
        return [('', s.array, s, ident)]
    if hist == 'GeoSeries of an indexed array':
        arr.build_sindex()
        s = GeoSeries(arr, index=labels)
        return [('', s.array, s, ident), ('the array', arr, None, ident)]
    if hist == 'queried before':
        arr.intersects_bounds(far)
        arr.intersects_bounds(reorder((3, 2, 17, 11), 3))
        arr.intersects_bounds(reorder((3, 2, 17, 11), 1), np.array(prm['perm'][:5], dtype='int64'))
        if n:
            arr[n // 2]
        return [('', arr, None, ident)]
    if hist == 'bounds computed before':
        arr.bounds
        arr.total_bounds
        arr.isna()
        return [('', arr, None, ident)]
    if hist == 'indexed, then derived':
        arr.build_sindex()
        return [(lab, d, None, pos) for lab, d, pos in _derived(arr, prm)] + [('the parent', arr, None, ident)]
    if hist == 'derived, then indexed':
        out = []
        for lab, d, pos in _derived(arr, prm):
            d.build_sindex(page_size=3)
            out.append((lab, d, None, pos))
        return out + [('the parent', arr, None, ident)]
    if hist == 'cx on the indexed array':
        arr.build_sindex(page_size=4)
        arr.cx[3:17, 11:2]
        arr.cx[:, 5:]
        return [('', arr, None, ident)]
    raise ValueError(hist)
