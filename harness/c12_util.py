"""C12 helpers for coordinates that are NOT small integers.

The C12 model (Model/MetaCodec.v) never computes with a bounds value: it copies values (dump / load /
select) and compares them (num_gtb / num_geb / num_leb).  A finite binary64 number is a dyadic rational,
so a case (stored JSON + query box + reported bounds) is handed to the Coq kernel EXACTLY by multiplying
every number in it by one power of two 2^k that makes them all integers (k is chosen per case; 0 for
the integral datasets, so those cases are unchanged).  No rounding, no tolerance: two floats are equal
iff their scaled integers are, and ordered the same way.  (-0.0 and 0.0 are the same number, as for the
IEEE comparisons the library performs; NaN is None; +-inf are outside the modelled scope, as before.)

  Fl, gnum, transport, coq_mismatches, coq_term              exact transport of floats
  COORD_MODES, coord_tables, map_coords                      value classes for float datasets
  fine_boxes                                                 boxes touching a float extent exactly / 1 ulp beyond
  float_synth_docs                                           synthetic metadata documents with float values
"""
import math
import random

import numpy as np

from . import common as C
from . import c11_util as U
from . import geomgen as G

INF = float('inf')


# --------------------------------------------------------------------------
# exact transport of binary64 values into the option-Z model
# --------------------------------------------------------------------------
class Fl(float):
    """a finite float64 bounds value on its way to the model (compared by value, JSON-able as a float)"""
    __slots__ = ()

    def __repr__(self):
        return float.__repr__(self)


def gnum(x):
    """JSON number / pandas float -> model number: None for NaN / inf / null, else the exact value"""
    if x is None:
        return None
    xf = float(x)
    if not math.isfinite(xf):
        return None
    return Fl(xf)


def _mant_exp(x):
    """finite x != 0 -> (M, e) with x = M * 2^e, M an odd integer (sign included)"""
    m, e = math.frexp(x)
    M = int(m * (1 << 53))
    e -= 53
    tz = (M & -M).bit_length() - 1
    return M >> tz, e + tz


def dyadic_exp(x):
    """smallest k >= 0 with x * 2^k integral"""
    if x == 0:
        return 0
    _, e = _mant_exp(x)
    return max(0, -e)


def scaled(x, k):
    """the integer x * 2^k (exact; k >= dyadic_exp(x))"""
    if x == 0:
        return 0
    M, e = _mant_exp(x)
    assert e + k >= 0, (x, k)
    return M << (e + k)


def _floats_in(obj):
    out = []
    stack = [obj]
    while stack:
        v = stack.pop()
        if isinstance(v, Fl):
            out.append(float(v))
        elif isinstance(v, C.Some):
            stack.append(v.v)
        elif isinstance(v, C.Rec):
            stack.extend(v.args)
        elif isinstance(v, (list, tuple)):
            stack.extend(v)
    return out


def _subst(obj, f):
    """obj with every Fl x replaced by Some (f x)"""
    if isinstance(obj, Fl):
        return C.Some(f(float(obj)))
    if isinstance(obj, C.Some):
        return C.Some(_subst(obj.v, f))
    if isinstance(obj, C.Rec):
        return C.Rec(obj.ctor, *[_subst(a, f) for a in obj.args])
    if isinstance(obj, list):
        return [_subst(a, f) for a in obj]
    if isinstance(obj, tuple):
        return tuple(_subst(a, f) for a in obj)
    return obj


MAXBITS = 256       # Coq reads a decimal literal in quadratic time: keep the scaled integers short


def transport(obj):
    """(obj with its floats turned into integers, how).  how = ('scale', k): every number multiplied by
    2^k (exact; k = 0 for integral data).  When that would need integers beyond MAXBITS bits (subnormals
    next to 1e300) how = ('rank', values): every number replaced by its rank among the distinct numbers
    of this very case (0, 1, 2, ... in increasing order) -- the model only copies and compares bounds
    values, so it commutes with any strictly increasing renaming of the numbers of a case, and a value
    the implementation reports that is not one of the case's numbers gets a rank of its own."""
    vals = _floats_in(obj)
    k = max([dyadic_exp(x) for x in vals] or [0])
    bits = max([abs(scaled(x, k)).bit_length() for x in vals] or [0])
    if bits <= MAXBITS:
        return _subst(obj, lambda x: scaled(x, k)), ('scale', k)
    distinct = sorted(set(0.0 if x == 0 else x for x in vals))
    rank = {x: i for i, x in enumerate(distinct)}
    return _subst(obj, lambda x: rank[0.0 if x == 0 else x]), ('rank', distinct)


def coq_mismatches(imports, fn, case_ty, res_ty, cases, results, **kw):
    """common.coq_mismatches after turning the floats of each (case, result) pair into integers"""
    rc, rr = [], []
    for c, r in zip(cases, results):
        (c2, r2), _ = transport((c, r))
        rc.append(c2)
        rr.append(r2)
    return C.coq_mismatches(imports, fn, case_ty, res_ty, rc, rr, **kw)


def coq_term(obj):
    """(Gallina text of obj with integers for its floats, how they were obtained)"""
    o2, how = transport(obj)
    return C.coq(o2), how


def bbox_rows(frame):
    """a bounds DataFrame (x0,y0,x1,y1) -> list of model bbox tuples, in row order (exact values)"""
    return [tuple(gnum(v) for v in row)
            for row in frame[['x0', 'y0', 'x1', 'y1']].to_numpy(dtype='float64').tolist()]


def json_cols_term(cols):
    """[(x0, entries), ...] -> Build_bounds_json term"""
    d = dict(cols)
    ent = lambda k: [(str(key), gnum(v)) for key, v in d.get(k, [])]
    return C.Rec('Build_bounds_json', ent('x0'), ent('y0'), ent('x1'), ent('y1'))


def dataset_term(raw):
    """raw_spatial_metadata result -> option (list (string * bounds_json))"""
    if raw is None:
        return None
    return C.Some([(str(col), json_cols_term(cols)) for col, cols in raw])


def qbox_term(box):
    return None if box is None else C.Some(tuple(gnum(v) for v in box))


# --------------------------------------------------------------------------
# value classes
# --------------------------------------------------------------------------
# The integer coordinate v in [-LIM, LIM] that the shared generators draw is replaced by table[v]; the
# tables are strictly increasing, so shapes keep their combinatorics.  Each mode is one CLASS of
# coordinates whose decimal text is not trivially round-tripped:
COORD_MODES = [
    'dec',       # ordinary decimals with 1..15 places, |v| < 10       (0.89466711421, 0.7, -4.81)
    'r53',       # 53 random mantissa bits, |v| < 10: 16-17 significant digits (lon/lat-like near the origin)
    'frac',      # thirds / sevenths / tenths of integers, 0.1+0.2     (0.3333333333333333, 0.30000000000000004)
    'tiny',      # magnitudes around 1e-11 .. 1e-9 (exponent notation in JSON)
    'mid',       # projected-coordinate magnitudes 1e2 .. 1e7 with 53-bit mantissas
    'rel',       # extents tiny relative to the magnitude: base + j ulps, base ~ 1e8 .. 1e15
    'e16',       # integers around 2^53 and 1e16 (spacing 1 / 2; 16-17 digit integers, '1e+16' notation)
    'e22',       # 1e21 .. 1e23 (beyond every exact power of ten of a fast parser)
    'f32',       # float32-representable values (what a float32 geometry array holds)
    'zero',      # values straddling zero with -0.0 as a coordinate and +-1e-300 next to it
]
LIM = 10


def _sorted_distinct(vals):
    out = sorted(set(vals))
    return out


def coord_table(rng, mode):
    """{v: float} for v in -LIM..LIM, strictly increasing in v"""
    n = 2 * LIM + 1
    if mode == 'dec':
        vals = set()
        while len(vals) < n:
            vals.add(round(rng.uniform(-10, 10), rng.choice((1, 2, 3, 5, 8, 11, 12, 13, 15))))
    elif mode == 'r53':
        vals = set()
        while len(vals) < n:
            vals.add(rng.uniform(-10, 10))
    elif mode == 'frac':
        d = rng.choice((3.0, 7.0, 10.0))
        off = rng.choice((0.0, 0.1 + 0.2, 1.0 / 7.0))
        vals = {v / d + off for v in range(-LIM, LIM + 1)}
    elif mode == 'tiny':
        vals = set()
        while len(vals) < n:
            vals.add(rng.uniform(1e-11, 9e-9) * rng.choice((1, -1)))
    elif mode == 'mid':
        sc = 10.0 ** rng.randint(2, 7)
        vals = set()
        while len(vals) < n:
            vals.add(rng.uniform(-sc, sc))
    elif mode == 'rel':
        base = rng.uniform(1.0, 9.0) * 10.0 ** rng.randint(8, 15) * rng.choice((1, -1))
        vals, x = set(), base
        step = rng.choice((1, 1, 2, 5))
        for _ in range(n):
            vals.add(x)
            for _ in range(step):
                x = math.nextafter(x, INF)
    elif mode == 'e16':
        base = rng.choice((2.0 ** 53 - 2 * n, 1e16 - n, 1e16, 2.0 ** 53 - n // 2, -2.0 ** 53, 1e15 + 0.5))
        vals, x = set(), base
        for _ in range(n):
            vals.add(x)
            x = math.nextafter(x, INF) if rng.random() < 0.5 else max(math.nextafter(x, INF), x + 1.0)
    elif mode == 'e22':
        vals = set()
        while len(vals) < n:
            vals.add(rng.uniform(1e21, 1e23) * rng.choice((1, -1)))
    elif mode == 'f32':
        vals = set()
        while len(vals) < n:
            vals.add(float(np.float32(rng.uniform(-10, 10) * 10.0 ** rng.choice((0, 0, -3, 4)))))
    elif mode == 'zero':
        neg = set()
        while len(neg) < LIM - 1:
            neg.add(-rng.uniform(1e-3, 10))
        pos = set()
        while len(pos) < LIM - 1:
            pos.add(rng.uniform(1e-3, 10))
        lst = sorted(neg) + [-1e-300, -0.0, 1e-300] + sorted(pos)
        return {v: lst[v + LIM] for v in range(-LIM, LIM + 1)}
    else:
        raise ValueError(mode)
    lst = _sorted_distinct(vals)
    assert len(lst) == n, (mode, len(lst))
    return {v: lst[v + LIM] for v in range(-LIM, LIM + 1)}


def coord_tables(seed, modes):
    """(x table, y table) of a dataset spec: modes = (mode for x, mode for y)"""
    rng = random.Random(seed)
    return coord_table(rng, modes[0]), coord_table(rng, modes[1])


def _map_flat(flat, tx, ty):
    out = []
    for i, c in enumerate(flat):
        t = tx if i % 2 == 0 else ty
        out.append(t[int(c)])
    return out


def _map_el(el, tx, ty):
    if el is None:
        return None
    if len(el) and isinstance(el[0], (list, tuple)):
        return [_map_el(e, tx, ty) for e in el]
    return _map_flat(el, tx, ty)


def map_coords(arr, tx, ty, subtype='float64'):
    """the geometry array with every integer coordinate v replaced by the table value (x: tx, y: ty)"""
    kind = U.kind_of_dtype(arr.dtype)
    els = U.array_pylist(arr)
    if kind == 'point':
        # a point array is a fixed-size binary array: one element = the bytes of (x, y)
        els = [None if e is None else [float(c) for c in np.frombuffer(e, dtype=arr.numpy_dtype)] for e in els]
    return G.make_array(kind, [_map_el(e, tx, ty) for e in els], subtype)


# --------------------------------------------------------------------------
# boxes around float extents
# --------------------------------------------------------------------------
def up(v):
    return math.nextafter(v, INF)


def dn(v):
    return math.nextafter(v, -INF)


def far(v, s):
    """a value clearly beyond v in direction s (finite for every |v| <= 1e300)"""
    return v + s * max(1.0, abs(v)) * 0.25


def fine_boxes(rng, rows, nrandom):
    """query boxes for extents that are arbitrary floats: touching an extent EXACTLY (the same binary64
    number), one ulp beyond / inside, reversed corners, degenerate, disjoint from everything, covering
    everything, NaN; plus boxes with corners drawn among the extents' own coordinates"""
    fin = [r for r in rows if all(math.isfinite(v) for v in r)]
    nan = float('nan')
    out = [(nan, 0.0, 1.0, 1.0), (0.0, 0.0, 0.0, 0.0)]
    if not fin:
        return out + [(-1.0, -1.0, 1.0, 1.0)]
    lox, loy = min(r[0] for r in fin), min(r[1] for r in fin)
    hix, hiy = max(r[2] for r in fin), max(r[3] for r in fin)
    out += [(far(hix, 1), far(hiy, 1), far(far(hix, 1), 1), far(far(hiy, 1), 1)),      # disjoint
            (far(lox, -1), far(loy, -1), far(hix, 1), far(hiy, 1)),                    # covering
            (hix, hiy, far(hix, 1), far(hiy, 1)),                                      # touches the far corner
            (up(hix), loy, far(hix, 1), hiy),                                          # one ulp beyond all
            (far(lox, -1), loy, dn(lox), hiy)]
    for r in (rng.sample(fin, min(2, len(fin)))):
        x0, y0, x1, y1 = r
        out += [(x1, y0, far(x1, 1), y1), (up(x1), y0, far(x1, 1), y1), (dn(x1), y0, far(x1, 1), y1),
                (x1, y1, far(x1, 1), far(y1, 1)), (up(x1), up(y1), far(x1, 1), far(y1, 1)),
                (far(x0, -1), far(y0, -1), x0, y0), (far(x0, -1), far(y0, -1), dn(x0), dn(y0)),
                (far(x1, 1), y1, x1, y0), (far(x0, -1), y1, x0, y0),
                (x0, up(y1), x1, far(y1, 1)), (x0, y1, x1, far(y1, 1)),
                (x0, dn(y0), x1, far(y0, -1)), (x0, y0, x1, far(y0, -1)),
                (x0, y0, x0, y0), (x1, y1, x1, y1), (dn(x0), y0, dn(x0), y1), (x0, y1, x1, y1),
                (x0, up(y1), x1, up(y1))]
    xs = [r[0] for r in fin] + [r[2] for r in fin]
    ys = [r[1] for r in fin] + [r[3] for r in fin]
    for _ in range(nrandom):
        out.append((rng.choice(xs), rng.choice(ys), rng.choice(xs), rng.choice(ys)))
    return out


# --------------------------------------------------------------------------
# synthetic metadata documents with float values
# --------------------------------------------------------------------------
HARD = [0.89466711421, 0.0301648954347, 0.7175438957824, 0.1 + 0.2, 1.0 / 3.0, 2.0 / 3.0, 0.1, 0.7, -4.81,
        -4.3888485785072655, 5e-324, 2.2250738585072014e-308, 2.225073858507201e-308, 1.7976931348623157e308,
        9007199254740993.0, 9007199254740992.0, 9007199254740991.0, 1e16, 1.0000000000000002e16, 1e22, 1e23,
        8.41e21, 9.5e-9, 1.2345678901234567e-11, 123456789012345.67, 0.1 + 0.7, 4.35, 0.000001, 1e-7,
        1.5e-5, 100.0, 1e21, 123456.789e3, 2.0 ** 63, 2.0 ** 64, -2.0 ** 63, 18446744073709551615.0,
        9223372036854775807.0, 4.9406564584124654e-324, 1e-320, 3.14159, 299792458.0, 6.02214076e23]


def float_value(rng):
    r = rng.random()
    if r < 0.12:
        return rng.choice(HARD) * rng.choice((1, 1, -1))
    if r < 0.40:
        return round(rng.uniform(-10, 10), rng.choice((1, 2, 3, 5, 8, 11, 12, 13, 15)))
    if r < 0.55:
        return rng.uniform(-10, 10)
    if r < 0.63:
        return rng.uniform(1e-11, 9e-9) * rng.choice((1, -1))
    if r < 0.72:
        return rng.uniform(-1, 1) * 10.0 ** rng.randint(2, 15)
    if r < 0.80:
        return float(2 ** 53 - rng.randrange(64)) if rng.random() < 0.5 else 1e16 + 2.0 * rng.randrange(2000)
    if r < 0.86:
        return rng.uniform(1e21, 1e23)
    if r < 0.92:
        return float(np.float32(rng.uniform(-1000, 1000)))
    if r < 0.96:
        return math.ldexp(1.0 + rng.getrandbits(52) / 2.0 ** 52, rng.randint(-1060, 1000)) * rng.choice((1, -1))
    return rng.choice((float('nan'), -0.0, 0.0, float(rng.randint(-9, 9))))


def float_synth_docs(rng, n, parts):
    """metadata documents whose bounds values are floats of every class above (keys in shuffled order
    for half of them); two geometry columns with different values"""
    docs = []
    for _ in range(n):
        nrows = rng.choice(parts)
        keys = [str(i) for i in range(nrows)]
        doc = []
        for col in ('ga', 'gb'):
            ks = list(keys)
            if rng.random() < 0.5:
                rng.shuffle(ks)
            doc.append((col, [(c, [(k, float_value(rng)) for k in ks]) for c in ('x0', 'y0', 'x1', 'y1')]))
        docs.append(('floats', doc))
    return docs
