"""C02 -- point versus shape `intersects` is exact.

Correspondence: every point of a 7x7 doubled grid (shape vertices on even coordinates, points
on every integer of -1..5, so points fall on, between and beyond vertices), some far points
and missing slots, against small shapes of the six kinds enumerated exhaustively (see
c02_util.py), through

  * the array form           PointArray.intersects(shape)            (all five subtypes)
  * the positions form       PointArray.intersects(shape, inds)      (repeats, missing slots)
  * the scalar form          Point.intersects(shape)                 (every non-missing element)
  * the positions form again with `inds` in every form a caller may give it (narrow / unsigned
    integer arrays holding positions beyond half the type's range on arrays of 400 and 33 100
    points, list, tuple, negative, empty, read-only, strided), element by element against the
    array form and the scalar form

  * the point array and the shape stored in DIFFERENT coordinate subtypes (all 20 ordered pairs
    of float64 / float32 / int64 / int32 / int16), coordinates that coincide only after rounding
    to the narrower type (1 + 2^-30 against 1, 2^24 + 1 against 2^24, 2.5 against 2, 65538 against
    2, 0.1 against float32(0.1)), all six kinds, all three forms and GeoSeries.intersects:
    harness/c02_mixed.py (the model and the oracle work on the coordinates scaled by 2^60)

compared with Model/PointShape.v (three_forms) evaluated by the Coq kernel on the exported
buffers of the very same point array and scalar shape; and both the implementation and the
model compared with an independent exact oracle (Fractions; ray of slope 1/D) on every
(point, shape) pair that is not exactly on a polygon ring.
"""
import itertools

import numpy as np

from . import c02_util as U
from . import common as C
from . import geomgen as G

ANCHOR_FILES = ['spatialpandas/geometry/point.py',
                'spatialpandas/geometry/_algorithms/intersection.py',
                'spatialpandas/geometry/baselist.py', 'spatialpandas/geometry/basefixed.py']
TRUSTED = ['model input of a scalar shape = zero-offset buffer rebuilt from its public nested '
           'coordinate lists (library-built scalars are zero-offset); the shape\'s own buffers are an '
           'optional internal extra (counted, never an alarm by itself)',
           'numpy slicing / strided views / fancy indexing as transcribed in Model/PointShape.v',
           'pyarrow buffers() export of the point array and of the scalar shape '
           '(harness/common.py export_fixarr, harness/c02_util.py export_shape)',
           'A-FLOAT: float32/int arithmetic on the enumerated small integers is exact (float64: a theorem, '
           'C02_*_float_exact, about Model/FloatKernels.v, which harness/cfloat_util.py compares with the '
           'real kernels on arbitrary float64 inputs)',
           'mixed coordinate subtypes (harness/c02_mixed.py): the values are chosen so that every difference and '
           'product the kernels form is exact in the arithmetic it is carried out in; the Z model is evaluated on '
           'the coordinates scaled by 2^60 (the predicate is invariant under scaling); int64 coordinates beyond '
           '2^53 against float64 ones are outside (the code converts int64 to binary64: recorded in the '
           'evidence as beyond_binary64, not demanded)',
           'numba.set_num_threads(1) during the run (the kernels hold no prange loop; scheduling only)']

IMPORTS = 'Model.Num Model.Arrow Model.PointKernels Model.PointShape Model.PointShapeHarness'

Nat, Rec, Some, Raw = C.Nat, C.Rec, C.Some, C.Raw


# --------------------------------------------------------------------------
# point arrays
# --------------------------------------------------------------------------
def grid_elements(lo, hi, far):
    g = [(x, y) for y in range(lo, hi + 1) for x in range(lo, hi + 1)]
    return g[:10] + [None] + g[10:] + list(far) + [None]


SMALL = grid_elements(-1, 5, [(-3, 2), (8, 2), (2, -4), (2, 9), (7, 7)])
BIG = grid_elements(-1, 9, [(-5, 4), (13, 4), (4, 12)])
NEST = grid_elements(-1, 15, [(-4, 7), (20, 7)])


class Variant:
    def __init__(self, name, subtype, arr, pts):
        self.name, self.subtype, self.arr, self.pts = name, subtype, arr, pts
        assert len(arr) == len(pts)
        self.els = [arr[i] for i in range(len(arr))]
        assert all((e is None) == (p is None) for e, p in zip(self.els, pts))
        self.rec, self.rec_source = U.export_points(arr, pts)
        self.n = len(pts)
        # float64 twins of the elements (same slots, same integers) for the scalar form
        self.twin_els = self.els if subtype == 'float64' else \
            [t for t in (lambda a: [a[i] for i in range(len(a))])(_parr(pts, 'float64'))]


def _parr(elems, st):
    return G.make_array('point', [None if e is None else list(e) for e in elems], st)


def build_variants():
    import random
    vs = []
    for st in G.SUBTYPES:
        vs.append(Variant('base:' + st, st, _parr(SMALL, st), list(SMALL)))
    junk = [(4, 4), None, (0, 0)]
    vs.append(Variant('sliced:float64', 'float64', _parr(junk + SMALL, 'float64')[3:], list(SMALL)))
    vs.append(Variant('sliced:int16', 'int16', _parr(junk + SMALL + junk, 'int16')[3:3 + len(SMALL)],
                      list(SMALL)))
    perm = list(range(len(SMALL)))
    random.Random(7).shuffle(perm)
    vs.append(Variant('taken:int32', 'int32',
                      _parr(SMALL, 'int32').take(np.array(perm, dtype='int64')), [SMALL[i] for i in perm]))
    nomiss = [e for e in SMALL if e is not None]
    vs.append(Variant('nomissing:float32', 'float32', _parr(nomiss, 'float32'), nomiss))
    vs.append(Variant('empty:float64', 'float64', _parr([], 'float64'), []))
    vs.append(Variant('big:float64', 'float64', _parr(BIG, 'float64'), list(BIG)))
    vs.append(Variant('big:int32', 'int32', _parr(BIG, 'int32'), list(BIG)))
    vs.append(Variant('nest:float64', 'float64', _parr(NEST, 'float64'), list(NEST)))
    vs.append(Variant('nest:int32', 'int32', _parr(NEST, 'int32'), list(NEST)))
    return vs


ROUND_ROBIN = ['base:float64', 'base:float32', 'base:int64', 'base:int32', 'base:int16',
               'sliced:float64', 'sliced:int16', 'taken:int32', 'nomissing:float32']


# --------------------------------------------------------------------------
# shapes
# --------------------------------------------------------------------------
def poly_coords(rings):
    return [U.flat(r, close=True) for r in rings]


def gen_shapes(rep, tier):
    """yields dict(kind, coords, sem) -- sem is what the oracle needs (None: no oracle)"""
    rng = rep.rng
    quick = tier == 'quick'
    rings3 = U.all_simple_rings(3)
    rings4 = U.all_simple_rings(4)
    canon = sorted(set(U.canonical(r) for r in rings3 + rings4))
    # (1) every simple 3-4-vertex ring on the 3x3 sub-grid, every start vertex, both windings
    for r in rings3 + rings4:
        yield dict(kind='polygon', coords=poly_coords([r]), sem=[r], cls='polygon:shell')
    if not quick:      # every simple 5-vertex ring (every start vertex, both windings)
        for r in U.all_simple_rings(5):
            yield dict(kind='polygon', coords=poly_coords([r]), sem=[r], cls='polygon:shell5')
    # (2) one hole wound opposite to the shell, both ways round
    for c in canon:
        shell = list(c)
        for h in U.holes_for(shell, (3,) if quick else (3, 4)):
            yield dict(kind='polygon', coords=poly_coords([shell, h]), sem=[shell, h], cls='polygon:hole')
            yield dict(kind='polygon', coords=poly_coords([shell[::-1], h[::-1]]),
                       sem=[shell[::-1], h[::-1]], cls='polygon:hole_reversed')
    # two disjoint holes in the big square / big triangle
    square = [(0, 0), (4, 0), (4, 4), (0, 4)]
    hs = U.holes_for(square, (3,))
    pairs = [(a, b) for a, b in itertools.combinations(hs, 2) if not U.rings_touch(a, b)]
    for a, b in (rng.sample(pairs, min(len(pairs), 60 if quick else 1500))):
        for rings in ([square, a, b], [square[::-1], a[::-1], b[::-1]]):
            yield dict(kind='polygon', coords=poly_coords(rings), sem=rings, cls='polygon:two_holes')
    # (3) multipolygons: one part; two parts touching / far apart
    allr = rings3 + rings4
    for r in allr[::4 if quick else 1]:
        yield dict(kind='multipolygon', coords=[poly_coords([r])], sem=[[r]], cls='multipolygon:1part')
    tris = [list(c) for c in canon if len(c) == 3]
    tpairs = []
    for a, b in itertools.combinations(tris, 2):
        if U.interiors_disjoint(a, b):
            tpairs.append((a, b, 'touching' if U.rings_touch(a, b) else 'apart'))
    # far apart: the second part translated out of the first one's bounding box
    for a, b, how in rng.sample(tpairs, min(len(tpairs), 500 if quick else len(tpairs))):
        if rng.random() < 0.5:
            b = b[::-1]
        if rng.random() < 0.3:
            a, b = b, a
        yield dict(kind='multipolygon', coords=[poly_coords([a]), poly_coords([b])], sem=[[a], [b]],
                   cls='multipolygon:2parts_' + how)
    for a in rng.sample(tris, 40 if quick else len(tris)):
        b = [(v[0] + 6, v[1] + 2) for v in rng.choice(tris)]
        yield dict(kind='multipolygon', coords=[poly_coords([a]), poly_coords([b])], sem=[[a], [b]],
                   cls='multipolygon:2parts_far')
    for c in rng.sample(canon, 30 if quick else len(canon)):
        shell = list(c)
        hh = U.holes_for(shell, (3,))
        if hh:
            h = rng.choice(hh)
            b = [(v[0] + 6, v[1]) for v in rng.choice(tris)]
            yield dict(kind='multipolygon', coords=[poly_coords([shell, h]), poly_coords([b])],
                       sem=[[shell, h], [b]], cls='multipolygon:hole_and_part')
    # (4) lines: every vertex sequence of <= 3 vertices (repeats: zero-length segments)
    lines = U.polylines(3)
    for vs in lines:
        yield dict(kind='line', coords=U.flat(vs), sem=vs, cls='line')
    n4 = 300 if quick else 4000
    for _ in range(n4):
        vs = [rng.choice(U.GRID3) for _ in range(rng.choice([4, 4, 5]))]
        yield dict(kind='line', coords=U.flat(vs), sem=vs, cls='line:long')
    short = U.polylines(2)
    for _ in range(500 if quick else 6000):
        parts = [rng.choice(short if rng.random() < .7 else lines) for _ in range(rng.choice([1, 2, 2, 3]))]
        yield dict(kind='multiline', coords=[U.flat(p) for p in parts], sem=parts, cls='multiline')
    # (5) multipoints and points
    for vs in U.polylines(2):
        yield dict(kind='multipoint', coords=U.flat(vs), sem=vs, cls='multipoint')
    for _ in range(100 if quick else 1000):
        vs = [rng.choice(U.GRID3 + [(1, 1), (3, 5), (-1, -1)]) for _ in range(rng.randint(3, 5))]
        yield dict(kind='multipoint', coords=U.flat(vs), sem=vs, cls='multipoint')
    for v in U.GRID3 + [(1, 1), (-1, 5), (7, 7), (0, 0), (-3, 2)]:
        yield dict(kind='point', coords=list(v), sem=v, cls='point')
    # (6) seeded random stream: simple rings with 5-7 vertices on a 5x5 even grid, big point grid
    grid5 = [(x, y) for x in (0, 2, 4, 6, 8) for y in (0, 2, 4, 6, 8)]
    want, tries = (150 if quick else 3000), 0
    while want and tries < 400000:
        tries += 1
        r = rng.sample(grid5, rng.choice([5, 5, 6, 7]))
        if not U.is_simple(r):
            continue
        want -= 1
        rings = [r]
        if rng.random() < 0.5:
            hh = [p for p in U.interior_lattice_points(r)]
            if len(hh) >= 3:
                for _ in range(20):
                    h = rng.sample(hh, 3)
                    if U.is_simple(h) and U.hole_fits(r, h):
                        if (U.area2(h) > 0) == (U.area2(r) > 0):
                            h = h[::-1]
                        rings.append(h)
                        break
        yield dict(kind='polygon', coords=poly_coords(rings), sem=rings, cls='polygon:random', big=True)
    # (7) nested multipolygons (an island part inside a hole of another part)
    yield from gen_nested(rng, quick)
    # (8) large multipoints (> 16 points)
    yield from gen_big_multipoints(rng, quick)


def _rect(a, b, c, d):
    return [(a, b), (c, b), (c, d), (a, d)]          # counter-clockwise


def gen_nested(rng, quick):
    """multipolygons in which one part lies, as an island, inside a hole of another part
    (coordinates 0..14, tested on every integer point of -1..15): island with its own hole,
    two islands, island inside an island's hole, island listed first / last, every winding
    combination of the parts.  Each configuration is validated with the exact helpers."""
    outer_shells = [_rect(0, 0, 14, 14), [(0, 0), (14, 0), (14, 14), (7, 12), (0, 14)]]
    holes = [_rect(2, 2, 12, 12), [(2, 2), (12, 2), (7, 11)], _rect(2, 2, 12, 7), _rect(1, 3, 13, 11)]
    islands = [[_rect(4, 4, 10, 10)], [_rect(5, 5, 9, 9)], [_rect(3, 3, 6, 6)], [_rect(8, 3, 11, 6)],
               [[(4, 3), (10, 3), (7, 8)]], [_rect(6, 3, 8, 6)], [_rect(3, 4, 11, 6)],
               [_rect(4, 4, 10, 10), _rect(6, 6, 8, 8)[::-1]],          # island with a hole
               [_rect(3, 3, 11, 6), [(5, 4), (9, 4), (7, 5)][::-1]],
               [_rect(3, 3, 11, 11), _rect(4, 4, 10, 10)[::-1]]]
    out = []

    def ok_inside(ring, container):
        return U.hole_fits(container, ring)

    def emit(parts, cls):
        orders = [parts, parts[::-1]] + ([parts[1:] + parts[:1]] if len(parts) > 2 else [])
        for o in orders:
            for flips in ([False] * len(o), [True] * len(o), [i % 2 == 0 for i in range(len(o))],
                          [i % 2 == 1 for i in range(len(o))]):
                ps = [[r[::-1] for r in part] if f else part for part, f in zip(o, flips)]
                out.append(dict(kind='multipolygon', coords=[poly_coords(p) for p in ps], sem=ps,
                                cls=cls, nest=True))

    for sh in outer_shells:
        for h in holes:
            if not ok_inside(h, sh):
                continue
            outer = [sh, h[::-1]]
            fit = [isl for isl in islands if ok_inside(isl[0], h)]
            for isl in fit:
                emit([outer, isl], 'multipolygon:island_in_hole' + ('_with_hole' if len(isl) > 1 else ''))
            # two islands side by side in the same hole
            for a, b in itertools.combinations(fit, 2):
                if not U.rings_touch(a[0], b[0]) and U.interiors_disjoint(a[0], b[0]) \
                        and not ok_inside(a[0], b[0]) and not ok_inside(b[0], a[0]):
                    emit([outer, a, b], 'multipolygon:two_islands')
            # an island inside the hole of an island (three levels)
            for isl in fit:
                if len(isl) > 1:
                    for inner in ([_rect(6, 6, 8, 8)], [_rect(5, 5, 9, 9)], [[(6, 4), (8, 4), (7, 5)]]):
                        if ok_inside(inner[0], isl[1]):
                            emit([outer, isl, inner], 'multipolygon:island_in_island_hole')
    # random rectangles: hole in the shell, island in the hole
    for _ in range(40 if quick else 600):
        a, b = sorted(rng.sample(range(1, 14), 2))
        c, d = sorted(rng.sample(range(1, 14), 2))
        if b - a < 4 or d - c < 4:
            continue
        e, f = sorted(rng.sample(range(a + 1, b), 2))
        g, hh = sorted(rng.sample(range(c + 1, d), 2))
        emit([[_rect(0, 0, 14, 14), _rect(a, c, b, d)[::-1]], [_rect(e, g, f, hh)]],
             'multipolygon:island_in_hole_random')
    if quick:
        fixed = [o for o in out if 'random' not in o['cls']]
        keep = fixed[::2] + [o for o in out if 'random' in o['cls']][::4]
        return keep
    return out


def gen_big_multipoints(rng, quick):
    """multipoints of 17..300 points on the integer grid 0..8 squared (tested on every
    integer point of -1..9): staircases whose columns start where the previous one ended,
    few columns with many points (many repeated x), full and random grid subsets, repeats,
    in sorted and shuffled order"""
    out = []

    def emit(vs, cls):
        for order in ('asis', 'shuffled', 'rev'):
            ws = list(vs)
            if order == 'shuffled':
                rng.shuffle(ws)
            elif order == 'rev':
                ws = ws[::-1]
            out.append(dict(kind='multipoint', coords=U.flat(ws), sem=ws, cls=cls, big=True))

    # staircases: column x holds y in [x*h, x*h + h), the next column starts one above
    for h in (2, 3, 4):
        for x0 in (0, 1):
            vs = [(x0 + x, y) for x in range(0, 9 - x0) for y in range(x * h, min(9, x * h + h))]
            while len(vs) < 17:
                vs = vs + vs
            emit(vs, 'multipoint:staircase')
            emit([(y, x) for x, y in vs], 'multipoint:staircase_transposed')
            emit([(x, 8 - y) for x, y in vs], 'multipoint:staircase_down')
    # few columns, many rows
    for cols in ((0, 1), (0, 4, 8), (3,), (0, 1, 2, 3)):
        vs = [(x, y) for x in cols for y in range(0, 9) if (x + y) % 3 != 2]
        while len(vs) < 17:
            vs = vs + [(x, y) for x, y in vs]
        emit(vs, 'multipoint:few_columns')
        emit([(y, x) for x, y in vs], 'multipoint:few_rows')
    full = [(x, y) for x in range(9) for y in range(9)]
    emit(full, 'multipoint:full_grid')
    emit([p for p in full if (p[0] + p[1]) % 2 == 0], 'multipoint:checkerboard')
    for _ in range(25 if quick else 500):
        n = rng.choice([17, 18, 20, 33, 64, 81, 150, 300])
        xs = rng.sample(range(9), rng.randint(1, 9))
        cand = [p for p in full if p[0] in xs]
        vs = [rng.choice(cand) for _ in range(n)] if rng.random() < .5 else \
            (rng.sample(cand, min(len(cand), n)) + [rng.choice(cand) for _ in range(max(0, 17 - len(cand)))])
        emit(vs, 'multipoint:random_%s' % ('many' if n > 81 else 'some'))
    return out[::1] if not quick else out


def gen_degenerate():
    """shapes outside the property's quantifier: model = code is still demanded
    (empty shapes, empty sub-lines, more rings than values, single-vertex rings)"""
    yield dict(kind='line', coords=[], cls='degenerate:empty')
    yield dict(kind='multipoint', coords=[], cls='degenerate:empty')
    yield dict(kind='multiline', coords=[], cls='degenerate:empty')
    yield dict(kind='polygon', coords=[], cls='degenerate:empty')
    yield dict(kind='multipolygon', coords=[], cls='degenerate:empty')
    # empty sub-lines contribute nothing (they used to raise: fix 4f9ad7e)
    for coords in ([[1, 2, 3, 4], []], [[], [1, 2, 3, 4]], [[]], [[], [2, 2]], [[2, 2], []],
                   [[2, 2], [], []], [[0, 0, 4, 4], [], [], [2, 2]], [[5, 5, 5, 5], [], [], [2, 2]],
                   [[], [], [2, 2]], [[], []]):
        sem = [[(c[i], c[i + 1]) for i in range(0, len(c), 2)] for c in coords]
        yield dict(kind='multiline', coords=coords, sem=sem, cls='degenerate:empty_subline')
    yield dict(kind='polygon', coords=[[], [], [], [], [0, 0, 0, 2]], cls='degenerate:rings_gt_values')
    yield dict(kind='polygon', coords=[[0, 0, 0, 2]], cls='degenerate:open_ring')
    yield dict(kind='polygon', coords=[[0, 0, 4, 0, 4, 4]], cls='degenerate:open_ring')
    yield dict(kind='polygon', coords=[[2, 2]], cls='degenerate:open_ring')
    yield dict(kind='polygon', coords=[[], [0, 0, 4, 0, 4, 4, 0, 0]], cls='degenerate:empty_ring')
    yield dict(kind='multipolygon', coords=[[], [[0, 0, 4, 0, 4, 4, 0, 0]]], cls='degenerate:empty_part')
    yield dict(kind='multipolygon', coords=[[[0, 0, 4, 0, 4, 4, 0, 0]], []], cls='degenerate:empty_part')
    yield dict(kind='line', coords=[2, 2], cls='degenerate:one_vertex_line')
    yield dict(kind='multiline', coords=[[2, 2], [0, 0]], cls='degenerate:one_vertex_line')


def arrow_scalar_shapes():
    """scalars built *directly* from a pyarrow scalar of an array (the public constructors
    accept one and keep it as is, so the scalar's buffers have a non-zero offset).  The
    library itself never does this.  (kind, shape, coords, sem); sem = None where the code is
    known to read the wrong values (a 0-level scalar -- Line, MultiPoint -- ignores the
    offset): those two are outside the quantifier and compared with the model on the
    shape's own buffers only (an internal extra).  A shape that cannot be built this way is
    returned as None."""
    sq = [0, 0, 4, 0, 4, 4, 0, 4, 0, 0]
    sqv = [(0, 0), (4, 0), (4, 4), (0, 4)]
    hole = [(1, 1), (1, 2), (2, 1)]
    tri = [(9, 9), (8, 8), (9, 8)]
    specs = [
        ('polygon', [[[9, 9, 8, 8, 9, 8, 9, 9]], None, [sq, [1, 1, 1, 2, 2, 1, 1, 1]]], 2, [sqv, hole]),
        ('polygon', [[[9, 9, 8, 8, 9, 8, 9, 9]], None, [sq, [1, 1, 1, 2, 2, 1, 1, 1]]], 0, [tri]),
        ('multipolygon', [[[[9, 9, 8, 8, 9, 8, 9, 9]]], [[sq], [[6, 6, 8, 6, 8, 8, 6, 6]]]], 1,
         [[sqv], [[(6, 6), (8, 6), (8, 8)]]]),
        ('multiline', [[[9, 9, 8, 8]], [[0, 0, 4, 4], [2, 0, 2, 4]]], 1, [[(0, 0), (4, 4)], [(2, 0), (2, 4)]]),
        ('line', [[9, 9, 8, 8], [0, 0, 4, 4, 4, 0]], 1, None),
        ('multipoint', [[9, 9, 8, 8], [0, 0, 4, 4, 4, 0]], 1, None),
    ]
    out = []
    for kind, elems, i, sem in specs:
        try:
            a = G.make_array(kind, elems, 'float64')
            shape = G.scalar_class(kind)(a.__arrow_array__()[i])
        except Exception:  # noqa: BLE001
            shape = None
        out.append((kind, shape, elems[i], sem))
    return out


# --------------------------------------------------------------------------
# implementation side
# --------------------------------------------------------------------------
def _is_empty_line_error(e):
    # by class only: builtin min([]) raises ValueError, numba's min(empty array) StopIteration
    return isinstance(e, (StopIteration, ValueError))


def call(f):
    """-> ('ok', value) | ('empty',) | ('raised', name, text)"""
    try:
        return ('ok', f())
    except Exception as e:  # noqa: BLE001
        if _is_empty_line_error(e):
            return ('empty',)
        return ('raised', type(e).__name__, str(e)[:200])


def bools(a):
    return [bool(x) for x in np.asarray(a).tolist()]


def impl_three_forms(v, shape, sc_els, sc_shape, inds):
    """{'arr': [bool] | 'empty', 'inds': ..., 'scalars': [None | bool | 'empty']} or ('raised', ..)"""
    r1 = call(lambda: v.arr.intersects(shape))
    r2 = call(lambda: v.arr.intersects(shape, np.array(inds, dtype='int64')))
    r3 = [None if e is None else call(lambda e=e: e.intersects(sc_shape)) for e in sc_els]
    for r in [r1, r2] + [r for r in r3 if r is not None]:
        if r[0] == 'raised':
            return r
    for r in (r1, r2):
        if r[0] == 'ok' and np.asarray(r[1]).dtype != np.bool_:
            return ('raised', 'dtype', 'result is not a boolean array')
    return {'arr': 'empty' if r1[0] == 'empty' else bools(r1[1]),
            'inds': 'empty' if r2[0] == 'empty' else bools(r2[1]),
            'scalars': [None if r is None else ('empty' if r[0] == 'empty' else bool(r[1])) for r in r3]}


def enc_out(x):
    return -1 if x == 'empty' else U.enc_bools(x)


def enc_scalars(l):
    z, w = 0, 1
    for r in l:
        z += w * (0 if r is None else 1 if r == 'empty' else 3 if r else 2)
        w *= 4
    return z + w


def oracle_row(kind, sem, pts):
    """per point: True / False / None (= exactly on a polygon ring: outside the guarantee)"""
    out = []
    for p in pts:
        if p is None:
            out.append(False)
        elif kind == 'point':
            out.append(p == tuple(sem))
        elif kind == 'multipoint':
            out.append(U.oracle_points(p, sem))
        elif kind == 'line':
            out.append(U.oracle_line(p, sem))
        elif kind == 'multiline':
            out.append(any(U.oracle_line(p, vs) for vs in sem))
        else:
            c = U.classify_polygon(p, sem) if kind == 'polygon' else U.classify_multipolygon(p, sem)
            out.append(None if c == 'on' else c == 'in')
    return out


def count_classes(rep, kind, sem, pts, orow):
    for p, o in zip(pts, orow):
        if p is None:
            rep.count('missing_point')
            continue
        if kind in ('polygon', 'multipolygon'):
            rings = sem if kind == 'polygon' else [r for part in sem for r in part]
            rep.count({None: 'on_ring', True: 'strictly_inside', False: 'strictly_outside'}[o])
            if o is not None:
                for c in U.ray_classes(p, rings):
                    rep.count(c)
                xs = [v[0] for r in rings for v in r]
                ys = [v[1] for r in rings for v in r]
                if p[0] < min(xs) or p[0] > max(xs) or p[1] < min(ys) or p[1] > max(ys):
                    rep.count('outside_bbox')
        elif kind in ('line', 'multiline'):
            parts = [sem] if kind == 'line' else sem
            if not o and any(U.collinear_beyond(p, vs) for vs in parts):
                rep.count('collinear_beyond_segment_end')
            if o:
                rep.count('on_line')
            if any(vs[i] == vs[i + 1] for vs in parts for i in range(len(vs) - 1)):
                rep.count('point_vs_line_with_zero_length_segment')


class Batch:
    def __init__(self, variants):
        self.variants = variants
        arrs = '[' + '; '.join(C.coq(v.rec) for v in variants) + ']'
        self.fn = f"harness_eval {arrs}"
        self.cases, self.res, self.meta = [], [], []

    def wire(self, vidx, w, inds, known, value):
        code, off, ln, offs, vals = w
        return Raw(f"({vidx}, {code}, {off}, {ln}, {U.zlist(offs)}, {U.zlist(vals)}, "
                   f"{U.zlist(inds)}, {known}, {value})%Z")


def check_one(rep, batch, vidx, kind, shape, inds, meta, sem=None, subtypes_all=None,
              sc_els=None, sc_shape=None, internal_only=False, use_internal=True):
    """run the three forms of one shape on one point array; queue the model comparison;
    compare with the oracle.  Returns False when a violation was reported.

    The model's input is rebuilt from the PUBLIC nested coordinate lists (meta['coords']) as
    a fresh zero-offset buffer.  The shape's own internal buffers are exported as well when
    that is possible; when they differ from the public rebuild an extra, internal case is
    queued whose disagreement alone is counted, never reported.  internal_only: the shape is
    outside the quantifier and only the internal comparison is meaningful.
    meta['model_coords'] (c02_mixed.py): the public coordinates scaled by a power of two to
    integers -- what the model and the oracle (sem, v.pts: scaled alike) work on; the internal
    buffers are not looked at then (use_internal=False)."""
    v = batch.variants[vidx]
    ok = True
    res = impl_three_forms(v, shape, v.els if sc_els is None else sc_els,
                           shape if sc_shape is None else sc_shape, inds)
    if isinstance(res, tuple):
        rep.violation(f'raises:{kind}:{res[1]}', f'intersects({kind}) raised {res[1]}: {res[2]}',
                      {**meta, 'impl': list(res)})
        return False
    got = res['arr']
    # every subtype gives the same answers (the exported integers are the same)
    if subtypes_all is not None:
        for name, other in subtypes_all.items():
            if other != got:
                rep.violation(f'subtype-differs:{kind}', f'{name} answers differently from {v.name}',
                              {**meta, 'other_variant': name, 'other': other, 'this': got})
                ok = False
    known = value = 0
    orow = None
    if sem is not None:
        orow = oracle_row(kind, sem, v.pts)
        count_classes(rep, kind, sem, v.pts, orow)
        known = sum(1 << i for i, o in enumerate(orow) if o is not None)
        value = sum(1 << i for i, o in enumerate(orow) if o)
        if got != 'empty':
            bad = [i for i, (g, o) in enumerate(zip(got, orow)) if o is not None and g != o]
            if bad or len(got) != len(orow):
                i = bad[0] if bad else -1
                what = 'length' if not bad else 'missing' if v.pts[i] is None else \
                    'inside' if orow[i] else 'outside'
                shown = (meta['points_exact'][i] if 'points_exact' in meta else v.pts[i]) if bad else None
                rep.violation(f'oracle:{kind}:{what}',
                              f'{kind}: point {shown} is {what} by exact arithmetic, '
                              f'intersects says {got[i] if bad else got}',
                              {**meta, 'point_index': i, 'point': v.pts[i] if bad else None,
                               'oracle': orow, 'impl': res})
                ok = False
        else:
            rep.violation(f'oracle:{kind}:raises', f'{kind}: a shape of the quantifier raises',
                          {**meta, 'impl': res})
            ok = False
    expected = Some((enc_out(res['arr']), enc_out(res['inds']), enc_scalars(res['scalars']), True))
    pub = U.wire_from_coords(kind, meta.get('model_coords', meta['coords']))
    internal = None
    if use_internal:
        try:
            internal = U.wire_shape(kind, shape)
        except Exception:  # noqa: BLE001  (attribute renamed, layout changed, ...)
            rep.count('internal-unavailable:scalar-shape-buffers')
    pub_index = None
    if not internal_only:
        pub_index = len(batch.cases)
        batch.cases.append(batch.wire(vidx, pub, inds, known, value))
        batch.res.append(expected)
        batch.meta.append({**meta, 'impl': res, 'oracle': orow, 'internal': False})
    if internal is not None and (internal_only or internal != pub):
        rep.count('internal-buffers-case')
        batch.cases.append(batch.wire(vidx, internal, inds, 0, 0))
        batch.res.append(expected)
        batch.meta.append({**meta, 'impl': res, 'oracle': None, 'internal': True, 'public_index': pub_index})
    return ok


def decode_model(txt, n, ninds):
    """the model's printed (z1, z2, z3, agrees) -> readable"""
    import re
    m = re.match(r'\s*Some\s*\(\s*(-?\d+)\s*,\s*(-?\d+)\s*,\s*(-?\d+)\s*,\s*(true|false)\s*\)', txt)
    if not m:
        return {'raw': txt}

    def bits(z):
        z = int(z)
        if z < 0:
            return 'empty'
        out = []
        while z > 1:
            out.append(bool(z & 1))
            z >>= 1
        return out
    z3, sc = int(m.group(3)), []
    while z3 > 1:
        sc.append([None, 'empty', False, True][z3 & 3])
        z3 >>= 2
    return {'arr': bits(m.group(1)), 'inds': bits(m.group(2)), 'scalars': sc,
            'agrees_with_oracle': m.group(4) == 'true'}


def flush(rep, batch):
    bad = C.coq_mismatches(IMPORTS, batch.fn, 'wire_case', 'option (Z * Z * Z * bool)',
                           batch.cases, batch.res, shard=400)
    badset = set(bad)
    for i in bad:
        m = batch.meta[i]
        if m['internal'] and m['public_index'] not in badset:
            # only the model run on the shape's internal buffers differs
            rep.count('internal-differs-public-agrees')
    for i in [i for i in bad if not batch.meta[i]['internal']][:12]:
        m = batch.meta[i]
        txt = C.coq_eval(IMPORTS, f'{batch.fn} {C.coq(batch.cases[i])}')
        model = decode_model(txt, 0, 0)
        impl = m['impl']
        same = all(model.get(k) == impl[k] for k in ('arr', 'inds', 'scalars'))
        if not same:
            which = [k for k in ('arr', 'inds', 'scalars') if model.get(k) != impl[k]]
            rep.violation(f"model-differs:{m['kind']}:{'+'.join(which)}",
                          f"{m['kind']}: the {'/'.join(which)} form(s) differ from the Coq model",
                          {**m, 'model': model})
        if model.get('agrees_with_oracle') is False:
            rep.violation(f"model-vs-oracle:{m['kind']}",
                          f"{m['kind']}: the Coq model disagrees with the exact oracle off the rings",
                          {**m, 'model': model})
        if same and model.get('agrees_with_oracle') is not False:
            rep.violation(f"model-differs:{m['kind']}:unparsed", 'model result not understood',
                          {**m, 'model': model})


def rand_inds(rng, n):
    if n == 0:
        return []
    k = rng.choice([0, 1, 3, 7, 12])
    inds = [rng.randrange(n) for _ in range(k)]
    if k >= 3:
        inds[0] = 10 if n > 10 else 0      # the missing slot of the base arrays
        inds[1] = inds[2]                  # a repeat
    return inds


def scalar_side(variants, v, tier, kind, coords, shape):
    """which Point elements / shape the scalar form runs on.  thorough: the array's own
    elements and the very shape.  quick: float64 twins of both (same slots, same integers)
    unless the array is int32 -- this bounds the number of numba specialisations compiled."""
    if tier != 'quick' or v.subtype in ('float64', 'int32') or coords is None:
        return None, None
    return v.twin_els, U.make_shape(kind, coords, 'array:float64')


def _single_thread(rep):
    try:
        import numba
        numba.set_num_threads(1)
    except Exception:  # noqa: BLE001
        rep.count('internal-unavailable:numba-threads')


def run(rep):
    tier = getattr(rep, 'tier_run', rep.tier)
    _single_thread(rep)
    rep.rule = ('shape vertices on even coordinates of a 3x3 sub-grid, points on every integer of '
                '-1..5 squared plus 5 far points plus 2 missing slots; every simple ring of 3-4 '
                'vertices (thorough: 5; every start vertex, both windings), 0-2 holes wound opposite, multipolygons '
                'of 1-2 parts (touching / apart / far), every polyline of <=3 vertices with repeats, '
                'multilines, multipoints, points; seeded random 5-7-vertex rings on a 5x5 grid; nested '
                'multipolygons (island parts inside holes of other parts, 0..14, points -1..15); multipoints of '
                '17-300 points on 0..8 squared (staircases, few columns, grid subsets; points -1..9); each '
                'shape through array / inds / scalar forms, all 5 subtypes; the positions form also with inds '
                'as int8/uint8/int16/uint16/int32/uint32/int64 arrays beyond half the type\'s range (400 and '
                '33100 points), list, tuple, negative, empty, read-only, strided, against each shape kind, '
                'element by element against the array and the scalar form; point array and shape in different '
                'coordinate subtypes (20 ordered pairs; values coinciding only after rounding to the narrower type: '
                'k+-2^-30, k+-2^-20, halves, 2^24+j, 65536+j, 2^32+j, 0.1 vs float32(0.1); x or y axis; six kinds, '
                'typed scalars built from numpy arrays / arrow scalars; array, positions, scalar and GeoSeries '
                'forms; quick: compiled kernels for 6 of the pairs, kind point and scalar multipoint for all); '
                'a case is one shape x one '
                'point array (56 slots); non-trivial = the answers contain both True and False; '
                'distinct = distinct (kind, coordinates)')
    variants = build_variants()
    names = [v.name for v in variants]
    batch = Batch(variants)
    base = {st: variants[names.index('base:' + st)] for st in G.SUBTYPES}
    rr = [names.index(n) for n in ROUND_ROBIN]
    big = [names.index('big:float64'), names.index('big:int32')]
    nest = [names.index('nest:float64'), names.index('nest:int32')]
    empty_idx = names.index('empty:float64')
    rng = rep.rng
    pairs = 0
    routes_cross = ['direct'] + ['array:' + st for st in G.SUBTYPES]
    k = 0
    for sh in gen_shapes(rep, tier):
        kind, coords, sem = sh['kind'], sh['coords'], sh['sem']
        k += 1
        vidx = nest[k % 2] if sh.get('nest') else big[k % 2] if sh.get('big') else rr[k % len(rr)]
        v = variants[vidx]
        # the shape has the subtype of the point array (one compiled specialisation per
        # subtype); int64 points also meet the scalar built directly from the nested list
        route = 'direct' if (v.subtype == 'int64' and k % 2) else 'array:' + v.subtype
        if tier != 'quick' and k % 11 == 0:
            route = rng.choice(routes_cross)
        meta = {'kind': kind, 'coords': coords, 'route': route, 'variant': v.name, 'sem': sem}
        try:
            shape = U.make_shape(kind, coords, route)
        except Exception as e:  # noqa: BLE001
            rep.violation(f'construct:{kind}', f'cannot build {kind}: {type(e).__name__} {e}', meta)
            continue
        inds = rand_inds(rng, v.n)
        meta['inds'] = inds
        # all five subtypes, array form (the base arrays hold the same slots in the same order)
        others = None
        if v.name.startswith('base:'):
            others = {}
            for st, bv in base.items():
                if st != v.subtype:
                    s2 = U.make_shape(kind, coords, 'array:' + st)
                    r = call(lambda: bv.arr.intersects(s2))
                    others[bv.name] = bools(r[1]) if r[0] == 'ok' else r[0] if r[0] == 'empty' else r
        sc_els, sc_shape = scalar_side(variants, v, tier, kind, coords, shape)
        nbefore = len(batch.cases)
        check_one(rep, batch, vidx, kind, shape, inds, meta, sem=sem, subtypes_all=others,
                  sc_els=sc_els, sc_shape=sc_shape)
        rep.evaluations += 1
        pairs += v.n * (1 + (len(others) if others else 0))
        rep.count(sh['cls'])
        rep.count('route:' + route.split(':')[0])
        rep.count('points:' + v.name)
        if len(batch.cases) > nbefore:
            got = batch.meta[-1]['impl']['arr']
            if got != 'empty' and any(got) and not all(got):
                rep.nontrivial((kind, repr(coords)))
        rep.sample({'kind': kind, 'coords': coords, 'variant': v.name, 'inds': inds}, cap=5)
        if k % 97 == 0:       # the empty point array
            check_one(rep, batch, empty_idx, kind, U.make_shape(kind, coords, 'array:float64'), [],
                      {**meta, 'variant': 'empty:float64', 'inds': [], 'route': 'array:float64', 'sem': None})
            rep.evaluations += 1
    # degenerate shapes and scalars built from pyarrow scalars: model = code only
    f64 = [i for i in rr if variants[i].subtype == 'float64'] + [rr[ROUND_ROBIN.index('base:int32')]]
    for j, sh in enumerate(gen_degenerate()):
        for vidx in (f64[j % len(f64)], f64[(j + 1) % len(f64)], empty_idx):
            v = variants[vidx]
            route = 'array:' + v.subtype
            meta = {'kind': sh['kind'], 'coords': sh['coords'], 'route': route, 'variant': v.name}
            try:
                shape = U.make_shape(sh['kind'], sh['coords'], route)
            except Exception as e:  # noqa: BLE001
                rep.count('degenerate_not_constructible:' + type(e).__name__)
                continue
            inds = rand_inds(rng, v.n)
            meta['inds'] = inds
            check_one(rep, batch, vidx, sh['kind'], shape, inds, {**meta, 'sem': sh.get('sem')},
                      sem=sh.get('sem'))
            rep.evaluations += 1
            rep.count(sh['cls'])
    for j, (kind, shape, coords, sem) in enumerate(arrow_scalar_shapes()):
        if shape is None:
            rep.count('internal-unavailable:scalar-from-arrow-scalar')
            continue
        vidx = f64[j % 2]
        inds = rand_inds(rng, variants[vidx].n)
        check_one(rep, batch, vidx, kind, shape, inds,
                  {'kind': kind, 'coords': coords, 'route': 'arrow_scalar', 'sem': sem,
                   'variant': variants[vidx].name, 'inds': inds, 'arrow_scalar_index': j}, sem=sem,
                  internal_only=sem is None)
        rep.evaluations += 1
        rep.count('arrow_scalar_offset' if sem else 'degenerate:arrow_scalar_offset_0level')
    flush(rep, batch)
    inds_forms_section(rep, tier)
    mixed_subtypes(rep, tier)
    rep.extra['point_shape_pairs'] = pairs
    rep.extra['model_cases'] = len(batch.cases)
    rep.extra['point_buffers_source'] = {v.name: v.rec_source for v in variants}
    rep.extra['model_vs_oracle_cases'] = sum(1 for m in batch.meta if m['oracle'] is not None)
    run_float_model(rep)


# --------------------------------------------------------------------------
# the positions form with `inds` given in every way a caller may give it
# --------------------------------------------------------------------------
def _wide_points(n, width, missing):
    return [None if i in missing else [float(i % width), float(i // width)] for i in range(n)]


def _wide_shapes(rng, width, height, marks):
    """shapes of the six kinds over the grid 0..width-1 x 0..height-1 whose answers vary from
    point to point (so that a position read from the wrong slot is noticed); `marks` are grid
    points that must be hit (the Point shapes, vertices of the multipoint, ...)"""
    W, H = float(width), float(height)
    out = [('point', list(m)) for m in marks]
    mp = [c for m in marks for c in m]
    for _ in range(60):
        mp += [float(rng.randrange(width)), float(rng.randrange(height))]
    out.append(('multipoint', mp))
    # diagonal zigzags through lattice points
    zig = []
    x, y, k = 0.0, 0.0, 0
    while y < H - 1 and len(zig) < 80:
        zig += [x, y]
        step = min(W - 1 - x if k % 2 == 0 else x, H - 1 - y)
        if step <= 0:
            break
        x, y, k = (x + step if k % 2 == 0 else x - step), y + step, k + 1
    zig += [x, y]
    out.append(('line', zig))
    out.append(('multiline', [[0.0, H - 1, min(W, H) - 1, H - min(W, H)], [c for m in marks for c in m] * 2,
                              [W - 1, 0.0, W - 1, H - 1, 0.0, H - 1]]))
    poly = [2.5, -1.0, W - 3.5, 3.5, W / 2, H + 0.5, W / 3, H / 2 + 0.25, 1.5, H / 2, 2.5, -1.0]
    hole = [W / 2 - 1.5, H / 3, W / 2 + 2.25, H / 3 + 0.5, W / 2, H / 3 + 3.25, W / 2 - 1.5, H / 3]
    out.append(('polygon', [poly, hole]))
    out.append(('multipolygon', [[[0.5, 0.5, W / 4, 1.5, W / 5, H / 2, 0.5, 0.5]],
                                 [[W / 2, H / 2 - 0.5, W + 1, H / 2 + 0.25, W / 2 + 0.5, H + 1, W / 2, H / 2 - 0.5]]]))
    return out


def inds_forms_section(rep, tier):
    """PointArray.intersects(shape, inds) with the positions given as int8 / uint8 / int16 /
    uint16 / int32 / uint32 / int64 arrays holding values beyond half the type's range (arrays of
    400 and of 33 100 points), as a list, a list of numpy integers, a tuple, with negative
    positions, empty, read-only, strided: every answer equal, element by element, to the array
    form at that position AND to the scalar form Point.intersects(shape) of that element"""
    import time
    t0 = time.time()
    rng = rep.rng
    specs = [('wide400:missing', 400, 20, {5, 100, 128, 399}, 'float64'),
             ('wide400:full', 400, 20, set(), 'float64'),
             ('wide33100:missing', 33100, 200, {64, 16384, 32800}, 'float64')]
    if tier != 'quick':
        specs += [('wide400:int32', 400, 20, {7, 130}, 'int32'), ('wide33100:float32', 33100, 200, set(), 'float32')]
    for name, n, width, missing, st in specs:
        pts = _wide_points(n, width, missing)
        arr = _parr(pts, st)
        height = (n + width - 1) // width
        # positions whose own coordinates are used for the Point shapes / vertices: one beyond
        # half the range of each narrow type
        mark_pos = [p for p in (101, 201, 20001, 32901) if p < n]
        marks = [pts[p] for p in mark_pos]
        shapes = _wide_shapes(rng, width, height, marks)
        for kind, coords in shapes:
            if st != 'float64' and kind != 'point':
                coords = _intify(coords)
            shape = U.make_shape(kind, coords, 'array:' + st)
            meta = {'family': 'inds-forms', 'array': name, 'n': n, 'width': width, 'missing': sorted(missing),
                    'subtype': st, 'kind': kind, 'coords': coords}
            r = call(lambda: arr.intersects(shape))
            if r[0] != 'ok':
                rep.violation(f'inds-form:{kind}:array-form-raises', f'intersects({kind}) raised on {name}',
                              {**meta, 'impl': list(r)})
                continue
            full = np.asarray(r[1])
            cache = {}

            def scalar_at(p):
                if p not in cache:
                    e = arr[p]
                    cache[p] = False if e is None else bool(e.intersects(shape))
                return cache[p]
            forms = U.inds_forms(rng, n, tuples=True, must=mark_pos)
            probs = U.check_inds_forms(forms, lambda inds: arr.intersects(shape, inds), full, scalar_at)
            rep.evaluations += len(forms)
            rep.count('inds-forms:calls', len(forms))
            rep.count(f'inds-forms:{kind}')
            vals = [bool(full[p]) for _, _, pos in forms for p in pos]
            if any(vals) and not all(vals):
                rep.count('inds-forms:answers-vary')
                rep.nontrivial(('inds-forms', name, kind))
            seen = set()
            for fname, problem, detail in probs:
                sig = f'inds-form:{kind}:{problem}'
                if sig in seen:
                    continue
                seen.add(sig)
                rep.violation(sig, f'PointArray.intersects({kind}, inds) with the positions given as '
                              f'{fname}: {problem} ({detail})',
                              {**meta, 'form': fname, 'detail': detail,
                               'all_problems': [[a, b] for a, b, _ in probs][:40]})
    rep.extra['inds_forms_seconds'] = round(time.time() - t0, 1)


def _intify(coords):
    if isinstance(coords, list):
        return [_intify(c) for c in coords]
    return int(round(coords))


def tuplify(x):
    """nested lists read back from JSON -> vertices as tuples"""
    return tuple(x) if x and not isinstance(x[0], list) else [tuplify(y) for y in x]


def mixed_subtypes(rep, tier):
    """the point array and the shape in DIFFERENT coordinate subtypes, values that coincide only
    after rounding to the narrower one: harness/c02_mixed.py"""
    try:
        from . import c02_mixed
        c02_mixed.mixed_subtypes_section(rep, tier)
    except C.ModelUnavailable:
        raise
    except Exception as e:  # noqa: BLE001
        import traceback
        rep.violation('mixed-subtypes-harness-error',
                      f'the mixed-subtypes section could not run: {type(e).__name__} {e}',
                      {'family': 'mixed-subtypes', 'probe': 'harness-error',
                       'error': traceback.format_exc()[-1500:]})


def run_float_model(rep):
    """the binary64 model (Model/FloatKernels.v: segment_intersects_point,
    point_intersects_polygon) against the real kernels on arbitrary float64 inputs; on the
    integers |z| <= 2^25 that model is PROVED equal to the integer model (C02_*_float_exact)"""
    try:
        from . import cfloat_util
        cfloat_util.run_float_kernels(rep)
    except C.ModelUnavailable:
        raise
    except Exception as e:  # noqa: BLE001
        rep.violation('float-kernel-harness-error',
                      f'the float-kernel correspondence could not run: {type(e).__name__} {e}',
                      {'float_kernel': 'harness-error', 'error': f'{type(e).__name__}: {e}'})


def replay(rep, rp):
    _single_thread(rep)
    if rp.get('float_kernel'):
        from . import cfloat_util
        return cfloat_util.replay(rep, rp)
    if rp.get('family') == 'mixed-subtypes':
        from . import c02_mixed
        if rp.get('probe') == 'harness-error':
            print(rp.get('error'))
            c02_mixed.mixed_subtypes_section(rep, 'quick')
            return not rep.violations
        return c02_mixed.replay(rep, rp)
    if rp.get('family') == 'inds-forms':
        # the section is deterministic given the seed: run it again
        inds_forms_section(rep, 'quick' if rp.get('subtype') == 'float64' else 'thorough')
        for vio in rep.violations:
            print('  ', vio['signature'], '-', vio['what'])
        return not rep.violations
    variants = build_variants()
    names = [v.name for v in variants]
    batch = Batch(variants)
    vidx = names.index(rp['variant'])
    kind = rp['kind']
    if rp.get('route') == 'arrow_scalar':
        kind, shape, _, _ = arrow_scalar_shapes()[rp['arrow_scalar_index']]
    else:
        shape = U.make_shape(kind, rp['coords'], rp['route'])
    sem = rp.get('sem')
    if sem is not None:
        sem = tuplify(sem)
    meta = {'kind': kind, 'coords': rp['coords'], 'route': rp.get('route'), 'variant': rp['variant'],
            'inds': rp['inds']}
    ok = check_one(rep, batch, vidx, kind, shape, rp['inds'], meta, sem=sem,
                   internal_only=(rp.get('route') == 'arrow_scalar' and sem is None))
    if batch.cases:
        print('shape :', type(shape).__name__, rp['coords'], 'points:', rp['variant'])
        print('impl  :', batch.meta[0]['impl'])
        print('model :', decode_model(C.coq_eval(IMPORTS, f'{batch.fn} {C.coq(batch.cases[0])}'), 0, 0))
        if sem is not None:
            print('oracle:', batch.meta[0]['oracle'])
        flush(rep, batch)
    for vio in rep.violations:
        print('  ', vio['signature'], '-', vio['what'])
    return ok and not rep.violations
