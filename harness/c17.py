"""C17 — missing and empty geometries are inert.

Metamorphic correspondence (needs no oracle, so arbitrary non-exact floats are
used): for every geometry kind a random base array / frame *without* inert rows
is built and every operation named by the property is computed; then inert rows
(missing `None`, empty `[]`, `[[]]`-style empties, NaN-only, inf-only and
mixed NaN / +inf / -inf elements: for points every mixture per coordinate) are inserted (first, last, a whole R-tree page, a whole Dask partition,
interleaved, random positions, all rows) and the operation is recomputed:

  (i)  inert rows: NaN bounds, NaN measures when missing (0 when empty), predicate
       False, never selected, never matched, never returned by the index;
  (ii) the remaining rows give exactly the base result (bitwise-equal floats, same
       selected labels, same join rows, same Hilbert keys).

Operations: bounds, total_bounds(_x/_y), length, area, intersects_bounds (array and
scalar form, with and without `inds`), PointArray.intersects against every shape
kind (inert point rows; inert shapes), HilbertRtree.intersects / covers_overlaps /
total_bounds on `.bounds` with page sizes 1, 2, 3, n, 512, `.cx` of array /
GeoSeries / GeoDataFrame with and without a built index, sjoin (inert rows on either
side, how = inner / left / right), hilbert_distance, and on Dask: cx, cx_partitions,
total_bounds, partition_bounds, sjoin, pack_partitions with entire partitions of
inert rows.

On integer-valued inputs the same real results are also compared with the Coq
models the C17 theorems are about (Model/Inert.v over Model/Arrow.v, Bounds.v,
Rtree.v), evaluated by the Coq kernel: the inert flags of the exported buffers,
bounds rows, total_bounds with and without the inert rows, and the R-tree answers
with NaN rows against the renumbered answers of the tree without them.
"""
import math
import time
import traceback

import numpy as np

from . import common as C
from . import geomgen as G
from . import c17_util as U

ANCHOR_FILES = ['spatialpandas/geometry/basefixed.py', 'spatialpandas/geometry/baselist.py',
                'spatialpandas/geometry/point.py', 'spatialpandas/spatialindex/rtree.py',
                'spatialpandas/geometry/base.py', 'spatialpandas/dask.py',
                'spatialpandas/tools/sjoin.py',
                'spatialpandas/geometry/_algorithms/intersection.py',
                'spatialpandas/geometry/_algorithms/bounds.py',
                'spatialpandas/geometry/_algorithms/measures.py']
TRUSTED = ['pandas / dask frame plumbing (merge, from_pandas, set_index) is exercised, not modelled',
           'pyarrow buffers() export (harness/common.py export_listarr/export_fixarr)',
           'the metamorphic relation is checked on sampled inputs; the Coq theorems cover the '
           'buffer-level models (bounds, total_bounds, measures, predicates, R-tree) only']

IMPORTS = 'Model.Num Model.Arrow Model.Bounds Model.Rtree Model.Inert'
LA_FN = 'c17_la_case'
LA_TY = 'listarr * listarr'
LA_RES = 'option (list bool * list bbox * bbox * (bool * bool * bool))'
FA_FN = 'c17_fa_case'
FA_TY = 'fixarr * fixarr'
RT_FN = 'c17_rtree_case'
RT_TY = 'nat * list (list (option Z)) * list nat * list nat * nat * list (list Z)'
RT_RES = 'list (list nat * list nat * list nat) * bool'

BASE_LABEL = 100
INERT_LABEL = 9000


def N(x):
    return C.Nat(int(x))


# --------------------------------------------------------------------------
# one trial: a base array and the same array with inert rows inserted
# --------------------------------------------------------------------------
class Trial:
    def __init__(self, kind, base, full, mask, exact, pattern, block, derived=False):
        self.kind, self.base, self.full, self.mask = kind, base, full, list(mask)
        self.exact, self.pattern, self.block, self.derived = exact, pattern, block, derived
        self.pos = [i for i, m in enumerate(mask) if not m]
        self.inert = [i for i, m in enumerate(mask) if m]
        self.cls = [U.classify(e) for e in full]
        assert [full[i] for i in self.pos] == list(base) or True
        self.base_arr = G.make_array(kind, base, 'float64')
        if derived and len(full) > 0:
            # the same elements through take(): non-zero offsets, nulls produced by pyarrow
            pool = G.make_array(kind, list(full) + list(base[::-1]), 'float64')
            self.full_arr = pool.take(np.arange(len(full), dtype='int64'))
        else:
            self.full_arr = G.make_array(kind, full, 'float64')
        # labels: base row i -> 100 + i; j-th inert row -> 9000 + j
        self.base_labels = [BASE_LABEL + i for i in range(len(base))]
        lab, bi, ii = [], 0, 0
        for m in mask:
            if m:
                lab.append(INERT_LABEL + ii)
                ii += 1
            else:
                lab.append(BASE_LABEL + bi)
                bi += 1
        self.full_labels = lab

    def meta(self):
        return {'kind': self.kind, 'base': self.base, 'full': self.full, 'mask': self.mask,
                'exact': self.exact, 'pattern': self.pattern, 'block': self.block,
                'derived': self.derived}

    @staticmethod
    def from_meta(m):
        return Trial(m['kind'], U.un_json(m['base']), U.un_json(m['full']), m['mask'], m['exact'],
                     m['pattern'], m['block'], m.get('derived', False))

    def series(self, which):
        from spatialpandas import GeoSeries
        arr = self.base_arr if which == 'base' else self.full_arr
        lab = self.base_labels if which == 'base' else self.full_labels
        # a fresh array object: a spatial index built on one frame must not leak into another
        arr = arr[0:len(arr)]
        return GeoSeries(arr, index=lab)

    def frame(self, which, col='v'):
        from spatialpandas import GeoDataFrame
        s = self.series(which)
        return GeoDataFrame({'geometry': s, col: [x * 10 for x in s.index]}, index=s.index)


class Ctx:
    """collects the violations of one family on one trial"""

    def __init__(self, rep, t, family, params):
        self.rep, self.t, self.family, self.params = rep, t, family, params
        self.found = []

    def fail(self, sig, what, **extra):
        self.found.append(sig)
        self.rep.violation(sig, what, {**self.t.meta(), 'family': self.family,
                                       'params': self.params, **extra})

    def guard(self, op, f):
        """run f; an exception is a violation (the property says inert rows are harmless)"""
        try:
            return True, f()
        except Exception as e:  # noqa: BLE001
            self.fail(f'raises:{op}:{type(e).__name__}',
                      f'{op} raised {type(e).__name__}: {str(e)[:200]} with inert rows present',
                      traceback=traceback.format_exc()[-1500:])
            return False, None


def _inert_tag(t, i):
    return f'{t.kind}:{t.cls[i]}'


# --------------------------------------------------------------------------
# family: array-level quantities
# --------------------------------------------------------------------------
def fam_array(cx):
    t, P = cx.t, cx.params
    A, F = t.base_arr, t.full_arr
    pos = np.array(t.pos, dtype='int64')
    # bounds
    ok, fb = cx.guard('bounds', lambda: np.asarray(F.bounds, dtype='float64'))
    ok2, bb = cx.guard('bounds', lambda: np.asarray(A.bounds, dtype='float64'))
    if ok and ok2:
        if fb.shape != (len(t.full), 4):
            cx.fail(f'bounds-shape:{t.kind}', 'bounds has not one row per element', impl=fb.shape)
        else:
            if not U.same_floats(fb[pos], bb):
                cx.fail(f'others-changed:bounds:{t.kind}',
                        'bounds rows of the other elements change when inert rows are inserted',
                        base=bb, full=fb)
            for i in t.inert:
                if not U.all_nan(fb[i]):
                    cx.fail(f'inert-bounds-not-nan:{_inert_tag(t, i)}',
                            'the bounds row of an inert element is not NaN x4', row=i, impl=fb[i])
                    break
    # total bounds
    for name in ('total_bounds', 'total_bounds_x', 'total_bounds_y'):
        ok, fv = cx.guard(name, lambda: tuple(float(x) for x in getattr(F, name)))
        ok2, bv = cx.guard(name, lambda: tuple(float(x) for x in getattr(A, name)))
        if ok and ok2 and not U.same_floats(fv, bv):
            cx.fail(f'total-changed:{name}:{t.kind}',
                    f'{name} changes when inert rows are inserted', base=bv, full=fv)
    # measures
    for name in ('length', 'area'):
        ok, fv = cx.guard(name, lambda: np.asarray(getattr(F, name), dtype='float64'))
        ok2, bv = cx.guard(name, lambda: np.asarray(getattr(A, name), dtype='float64'))
        if not (ok and ok2):
            continue
        if fv.shape != (len(t.full),):
            cx.fail(f'measure-shape:{name}:{t.kind}', f'{name} has not one value per element')
            continue
        if not U.same_floats(fv[pos], bv):
            cx.fail(f'others-changed:{name}:{t.kind}',
                    f'{name} of the other elements changes when inert rows are inserted',
                    base=bv, full=fv)
        for i in t.inert:
            c = t.cls[i]
            if c == 'missing' and not math.isnan(fv[i]):
                cx.fail(f'missing-measure-not-nan:{name}:{t.kind}',
                        f'{name} of a missing element is not NaN', row=i, impl=float(fv[i]))
                break
            if c == 'empty' and not fv[i] == 0.0:
                cx.fail(f'empty-measure-not-zero:{name}:{t.kind}',
                        f'{name} of an empty element is not 0', row=i, impl=float(fv[i]))
                break
    # intersects_bounds, whole array and restricted to inds
    inds_b = np.array(P['inds'], dtype='int64') % max(1, len(t.base)) if len(t.base) else None
    for box in P['boxes']:
        ok, fv = cx.guard('intersects_bounds', lambda: np.asarray(F.intersects_bounds(tuple(box))))
        ok2, bv = cx.guard('intersects_bounds', lambda: np.asarray(A.intersects_bounds(tuple(box))))
        if not (ok and ok2):
            break
        if fv.dtype.kind != 'b' or fv.shape != (len(t.full),):
            cx.fail(f'ib-shape:{t.kind}', 'intersects_bounds is not one boolean per element')
            break
        if not np.array_equal(fv[pos], bv):
            cx.fail(f'others-changed:intersects_bounds:{t.kind}',
                    'intersects_bounds of the other elements changes when inert rows are inserted',
                    box=box, base=bv, full=fv)
            break
        hit = [i for i in t.inert if fv[i]]
        if hit:
            cx.fail(f'inert-true:intersects_bounds:{_inert_tag(t, hit[0])}',
                    'an inert element intersects a box', box=box, row=hit[0])
            break
        if bv.any() and not bv.all():
            cx.rep.count('ib:some')
        # inds form: the same base rows addressed through their new positions + every inert row
        if inds_b is not None:
            inds_f = np.concatenate([pos[inds_b], np.array(t.inert, dtype='int64')])
            ok, fi = cx.guard('intersects_bounds[inds]',
                              lambda: np.asarray(F.intersects_bounds(tuple(box), inds_f)))
            ok2, bi = cx.guard('intersects_bounds[inds]',
                               lambda: np.asarray(A.intersects_bounds(tuple(box), inds_b)))
            if ok and ok2:
                if not np.array_equal(fi[:len(inds_b)], bi):
                    cx.fail(f'others-changed:intersects_bounds-inds:{t.kind}',
                            'intersects_bounds(inds) of the other elements changes', box=box)
                    break
                if fi[len(inds_b):].any():
                    cx.fail(f'inert-true:intersects_bounds-inds:{t.kind}',
                            'an inert element addressed through inds intersects a box', box=box)
                    break
    # hilbert_distance: rows kept, other rows' keys unchanged (explicit and default total_bounds)
    for tb in (P['hilbert_tb'], None):
        p = P['p']
        ok, fv = cx.guard('hilbert_distance',
                          lambda: np.asarray(F.hilbert_distance(total_bounds=tb, p=p)))
        ok2, bv = cx.guard('hilbert_distance',
                           lambda: np.asarray(A.hilbert_distance(total_bounds=tb, p=p)))
        if ok and ok2:
            if fv.shape != (len(t.full),):
                cx.fail(f'hilbert-rows-lost:{t.kind}', 'hilbert_distance drops rows')
            elif not np.array_equal(fv[pos], bv):
                cx.fail(f'others-changed:hilbert_distance:{t.kind}',
                        'Hilbert keys of the other rows change when inert rows are inserted',
                        total_bounds=tb, p=p, base=bv, full=fv)


# --------------------------------------------------------------------------
# family: PointArray.intersects(shape) with inert point rows; inert shapes
# --------------------------------------------------------------------------
def _shape(kind, el):
    arr = G.make_array(kind, [el], 'float64')
    return arr[0]


def fam_point_rows(cx):
    t, P = cx.t, cx.params
    if t.kind != 'point':
        return
    A, F = t.base_arr, t.full_arr
    pos = np.array(t.pos, dtype='int64')
    for skind, sel in P['shapes']:
        ok, s = cx.guard('getitem', lambda: _shape(skind, sel))
        if not ok or s is None:
            continue
        ok, fv = cx.guard(f'intersects:{skind}', lambda: np.asarray(F.intersects(s)))
        ok2, bv = cx.guard(f'intersects:{skind}', lambda: np.asarray(A.intersects(s)))
        if not (ok and ok2):
            continue
        if fv.shape != (len(t.full),) or fv.dtype.kind != 'b':
            cx.fail('intersects-shape', 'intersects is not one boolean per point')
            continue
        if not np.array_equal(fv[pos], bv):
            cx.fail(f'others-changed:intersects:{skind}',
                    'intersects of the other points changes when inert points are inserted',
                    shape=[skind, sel], base=bv, full=fv)
        hit = [i for i in t.inert if fv[i]]
        if hit:
            cx.fail(f'inert-true:intersects:{skind}:{t.cls[hit[0]]}',
                    'an inert point intersects a shape', shape=[skind, sel], row=hit[0])
        if bv.any():
            cx.rep.count('pt-intersects:hit')
        # scalar form: the inert (not missing) point taken out of the array
        for i in t.inert[:12]:
            if t.cls[i] == 'missing':
                continue
            ok, r = cx.guard(f'scalar-intersects:{skind}', lambda: F[i].intersects(s))
            if ok and bool(r):
                cx.fail(f'inert-true:scalar-intersects:{skind}:{t.cls[i]}',
                        'an inert point, as a scalar, intersects a shape', shape=[skind, sel], row=i)
                break
        # inds form
        if len(t.base):
            inds_b = np.array(P['inds'], dtype='int64') % len(t.base)
            inds_f = np.concatenate([pos[inds_b], np.array(t.inert, dtype='int64')])
            ok, fi = cx.guard(f'intersects[inds]:{skind}', lambda: np.asarray(F.intersects(s, inds_f)))
            ok2, bi = cx.guard(f'intersects[inds]:{skind}', lambda: np.asarray(A.intersects(s, inds_b)))
            if ok and ok2:
                if not np.array_equal(fi[:len(inds_b)], bi):
                    cx.fail(f'others-changed:intersects-inds:{skind}',
                            'intersects(inds) of the other points changes', shape=[skind, sel])
                if fi[len(inds_b):].any():
                    cx.fail(f'inert-true:intersects-inds:{skind}',
                            'an inert point addressed through inds intersects a shape',
                            shape=[skind, sel])


def fam_inert_shapes(cx):
    """an inert element taken out of the array as a scalar satisfies no predicate"""
    t, P = cx.t, cx.params
    F = t.full_arr
    probe = G.make_array('point', P['probe_points'], 'float64')
    for i in t.inert[:5]:
        ok, s = cx.guard('getitem', lambda: F[i])
        if not ok:
            continue
        if t.cls[i] == 'missing':
            if s is not None:
                cx.fail(f'missing-not-none:{t.kind}', 'a missing element is not returned as None')
            continue
        if s is None:
            cx.fail(f'nonmissing-is-none:{t.kind}', 'a non-missing element is returned as None')
            continue
        if t.kind != 'ring':
            ok, r = cx.guard(f'intersects:{t.kind}', lambda: np.asarray(probe.intersects(s)))
            if ok and r.any():
                cx.fail(f'inert-shape-true:intersects:{_inert_tag(t, i)}',
                        'a point intersects an inert shape', row=i)
            # the scalar form: each probe point against the inert shape
            for j in range(len(probe)):
                ok, r1 = cx.guard(f'scalar-intersects:{t.kind}', lambda: probe[j].intersects(s))
                if ok and bool(r1):
                    cx.fail(f'inert-shape-true:scalar-intersects:{_inert_tag(t, i)}',
                            'a point, as a scalar, intersects an inert shape', row=i, probe=j)
                    break
            # the positions form
            inds = np.arange(len(probe) - 1, -1, -1, dtype='int64')
            ok, r2 = cx.guard(f'intersects[inds]:{t.kind}', lambda: np.asarray(probe.intersects(s, inds)))
            if ok and r2.any():
                cx.fail(f'inert-shape-true:intersects-inds:{_inert_tag(t, i)}',
                        'a point addressed through inds intersects an inert shape', row=i)
        for box in P['boxes']:
            ok, r = cx.guard(f'scalar-intersects_bounds:{t.kind}', lambda: s.intersects_bounds(tuple(box)))
            if ok and bool(r):
                cx.fail(f'inert-true:scalar-intersects_bounds:{_inert_tag(t, i)}',
                        'an inert scalar intersects a box', row=i, box=box)
                break
        if t.cls[i] == 'empty':
            for name in ('length', 'area'):
                ok, v = cx.guard(f'scalar-{name}:{t.kind}', lambda: float(getattr(s, name)))
                if ok and v != 0.0:
                    cx.fail(f'empty-measure-not-zero:scalar-{name}:{t.kind}',
                            f'scalar {name} of an empty element is not 0', row=i, impl=v)


# --------------------------------------------------------------------------
# family: HilbertRtree on .bounds
# --------------------------------------------------------------------------
def _page_sizes(t):
    out = []
    for ps in (1, 2, 3, len(t.full), 512, t.block):
        if ps >= 1 and ps not in out:
            out.append(ps)
    return out


def fam_rtree(cx):
    from spatialpandas.spatialindex import HilbertRtree
    t, P = cx.t, cx.params
    ok, fb = cx.guard('bounds', lambda: np.asarray(t.full_arr.bounds, dtype='float64'))
    ok2, bb = cx.guard('bounds', lambda: np.asarray(t.base_arr.bounds, dtype='float64'))
    if not (ok and ok2):
        return
    pos = t.pos
    back = {p: i for i, p in enumerate(pos)}
    nanrow = set(int(i) for i in np.nonzero(np.isnan(fb).any(axis=1))[0])
    for ps in _page_sizes(t):
        ok, tf = cx.guard('rtree-build', lambda: HilbertRtree(fb.copy(), p=P['p'], page_size=ps))
        ok2, tbse = cx.guard('rtree-build', lambda: HilbertRtree(bb.copy(), p=P['p'], page_size=ps))
        if not (ok and ok2):
            return
        try:  # optional statistic from an internal attribute: never a violation
            leafs = np.asarray(tf._bounds_tree)
            if len(leafs) and np.isnan(leafs[(len(leafs) + 1) // 2 - 1:, 0]).any() and len(t.base):
                cx.rep.count('rtree:nan-leaf')
        except Exception:  # noqa: BLE001
            cx.rep.count('internal-unavailable:_bounds_tree')
        ok, ftb = cx.guard('rtree-total_bounds', lambda: tuple(float(x) for x in tf.total_bounds))
        ok2, btb = cx.guard('rtree-total_bounds', lambda: tuple(float(x) for x in tbse.total_bounds))
        if ok and ok2 and len(t.base) and not U.same_floats(ftb, btb):
            cx.fail('rtree-total-changed', 'the index total_bounds changes when NaN rows are inserted',
                    page_size=ps, base=btb, full=ftb)
        if ok and len(t.base) == 0 and not U.all_nan(ftb):
            cx.fail('rtree-total-not-nan', 'the total_bounds of an index of NaN rows only is not NaN',
                    page_size=ps, full=ftb)
        for q in P['boxes']:
            q = tuple(float(x) for x in q)
            ok, r = cx.guard('rtree-query', lambda: (
                [int(x) for x in tf.intersects(q)],
                [[int(x) for x in part] for part in tf.covers_overlaps(q)]))
            ok2, rb = cx.guard('rtree-query', lambda: (
                [int(x) for x in tbse.intersects(q)],
                [[int(x) for x in part] for part in tbse.covers_overlaps(q)]))
            if not (ok and ok2):
                return
            names = ('intersects', 'covers', 'overlaps')
            got = (r[0], r[1][0], r[1][1])
            exp = (rb[0], rb[1][0], rb[1][1])
            bad = False
            for name, g, e in zip(names, got, exp):
                ret_nan = [i for i in g if i in nanrow]
                if ret_nan:
                    cx.fail(f'rtree-returns-nan-row:{name}',
                            f'{name} returns a row whose bounds are NaN', page_size=ps, query=q,
                            impl=sorted(g), nan_rows=sorted(nanrow))
                    bad = True
                    break
                if any(i not in back for i in g):
                    cx.fail(f'rtree-returns-unknown-row:{name}', f'{name} returns an inserted row',
                            page_size=ps, query=q, impl=sorted(g))
                    bad = True
                    break
                if sorted(back[i] for i in g) != sorted(e):
                    cx.fail(f'rtree-others-changed:{name}',
                            f'{name} answers differently for the other rows when NaN rows are inserted',
                            page_size=ps, query=q, base=sorted(e),
                            full_renumbered=sorted(back[i] for i in g))
                    bad = True
                    break
            if bad:
                return
            if exp[0] and len(exp[0]) < len(t.base):
                cx.rep.count('rtree:q-some')


# --------------------------------------------------------------------------
# family: cx on array / GeoSeries / GeoDataFrame, with and without an index
# --------------------------------------------------------------------------
def _cx_key(box, open_sides):
    x0, y0, x1, y1 = box
    xs = slice(None if 'x0' in open_sides else x0, None if 'x1' in open_sides else x1)
    ys = slice(None if 'y0' in open_sides else y0, None if 'y1' in open_sides else y1)
    return xs, ys


def fam_cx(cx):
    t, P = cx.t, cx.params
    inert_labels = set(l for l, m in zip(t.full_labels, t.mask) if m)
    for ps in [None] + P['cx_pages']:
        def mk(which, frame):
            o = t.frame(which) if frame else t.series(which)
            if ps is not None:
                o.build_sindex(page_size=ps)
            return o
        for frame in (False, True):
            ok, fo = cx.guard('build_sindex', lambda: mk('full', frame))
            ok2, bo = cx.guard('build_sindex', lambda: mk('base', frame))
            if not (ok and ok2):
                return
            for box, opn in zip(P['boxes'], P['open']):
                key = _cx_key(box, opn)
                ok, fr = cx.guard('cx', lambda: fo.cx[key[0], key[1]])
                ok2, br = cx.guard('cx', lambda: bo.cx[key[0], key[1]])
                if not (ok and ok2):
                    return
                fl, bl = list(fr.index), list(br.index)
                sel_inert = [l for l in fl if l in inert_labels]
                what = ('GeoDataFrame' if frame else 'GeoSeries') + \
                    ('' if ps is None else f' with a built index')
                if sel_inert:
                    i = t.full_labels.index(sel_inert[0])
                    cx.fail(f'cx-selects-inert:{_inert_tag(t, i)}:{"index" if ps else "noindex"}',
                            f'cx of a {what} selects an inert row', box=box, open=opn, page_size=ps,
                            selected=fl)
                    return
                if len(t.base) and sorted(fl) != sorted(bl):
                    cx.fail(f'cx-others-changed:{t.kind}:{"index" if ps else "noindex"}',
                            f'cx of a {what} selects other rows when inert rows are inserted',
                            box=box, open=opn, page_size=ps, base=sorted(bl), full=sorted(fl))
                    return
                if bl and len(bl) < len(t.base):
                    cx.rep.count('cx:some')
    # the bare array: compare the selected elements through their bounds
    box = P['boxes'][0]
    for ps in (None, P['cx_pages'][0] if P['cx_pages'] else 2):
        def sel(arr):
            arr = arr[0:len(arr)]
            if ps is not None:
                arr.build_sindex(page_size=ps)
            b = np.asarray(arr.cx[box[0]:box[2], box[1]:box[3]].bounds, dtype='float64')
            b = b.reshape(-1, 4)
            return b[np.lexsort(b.T[::-1])] if len(b) else b      # a multiset of rows
        ok, fr = cx.guard('cx-array', lambda: sel(t.full_arr))
        ok2, br = cx.guard('cx-array', lambda: sel(t.base_arr))
        if ok and ok2 and len(t.base) and not U.same_floats(fr, br):
            cx.fail(f'cx-array-changed:{t.kind}', 'cx of the bare array selects differently with inert '
                    'rows inserted', box=box, page_size=ps)


# --------------------------------------------------------------------------
# family: sjoin (pandas), inert rows on either side
# --------------------------------------------------------------------------
def _pairs(df, how):
    """join rows as sorted (left label, right label) pairs; None where unmatched"""
    def lab(v):
        return None if (v is None or (isinstance(v, float) and v != v)) else int(v)
    if how == 'right':
        return sorted(((lab(l), lab(r)) for r, l in zip(df.index, df['index_left'])),
                      key=lambda p: (p[0] is None, p[0] or 0, p[1] is None, p[1] or 0))
    return sorted(((lab(l), lab(r)) for l, r in zip(df.index, df['index_right'])),
                  key=lambda p: (p[0] is None, p[0] or 0, p[1] is None, p[1] or 0))


def _check_join(cx, how, got, exp, l_inert, r_inert, where, **extra):
    """got = pairs with inert rows present, exp = pairs of the base frames"""
    matched = [p for p in got if (p[0] in l_inert and p[1] is not None)
               or (p[1] in r_inert and p[0] is not None)]
    if matched:
        cx.fail(f'sjoin-matches-inert:{how}:{where}', 'sjoin matches an inert row',
                how=how, pair=matched[0], **extra)
        return False
    rest = [p for p in got if p[0] not in l_inert and p[1] not in r_inert]
    if rest != exp:
        cx.fail(f'sjoin-others-changed:{how}:{where}',
                'sjoin gives other join rows for the remaining rows when inert rows are inserted',
                how=how, base=exp, full=rest, **extra)
        return False
    kept = [p for p in got if p[0] in l_inert or p[1] in r_inert]
    want = sorted(l_inert) if how == 'left' else sorted(r_inert) if how == 'right' else []
    have = sorted(p[0] if how == 'left' else p[1] for p in kept) if how != 'inner' else \
        [p for p in kept]
    if have != want:
        cx.fail(f'sjoin-inert-rows:{how}:{where}',
                'an outer sjoin does not keep every inert row exactly once, unmatched',
                how=how, kept=kept, **extra)
        return False
    return True


def _sjoin_sides(cx):
    """(left trial, right trial): the trial's kind decides its side"""
    t, P = cx.t, cx.params
    other = Trial.from_meta(P['other'])
    return (t, other) if t.kind == 'point' else (other, t)


def fam_sjoin(cx):
    from spatialpandas import sjoin
    P = cx.params
    lt, rt = _sjoin_sides(cx)
    l_inert = set(l for l, m in zip(lt.full_labels, lt.mask) if m)
    r_inert = set(l for l, m in zip(rt.full_labels, rt.mask) if m)
    for how in ('inner', 'left', 'right'):
        ok, base = cx.guard('sjoin-base', lambda: sjoin(lt.frame('base', 'a'), rt.frame('base', 'b'), how=how))
        if not ok:
            return
        exp = _pairs(base, how)
        if exp and any(p[0] is not None and p[1] is not None for p in exp):
            cx.rep.count('sjoin:matches')
        for where, lw, rw in (('both', 'full', 'full'), ('left', 'full', 'base'),
                              ('right', 'base', 'full')):
            if where != 'both' and (where not in P['sjoin_sides'] or how != P.get('sjoin_how', how)):
                continue
            ok, got = cx.guard(f'sjoin:{how}', lambda: sjoin(lt.frame(lw, 'a'), rt.frame(rw, 'b'), how=how))
            if not ok:
                return
            if not _check_join(cx, how, _pairs(got, how), exp,
                               l_inert if lw == 'full' else set(),
                               r_inert if rw == 'full' else set(), where, right_kind=rt.kind):
                return


# --------------------------------------------------------------------------
# family: Dask — entire partitions of inert rows
# --------------------------------------------------------------------------
def _ddf(frame, chunk):
    import dask.dataframe as dd
    frame = frame.reset_index().rename(columns={'index': 'label'})
    return dd.from_pandas(frame, chunksize=chunk, sort=False)


def fam_dask(cx):
    import dask
    from spatialpandas import sjoin
    t, P = cx.t, cx.params
    chunk = max(1, t.block)
    inert_labels = set(l for l, m in zip(t.full_labels, t.mask) if m)
    with dask.config.set(scheduler='synchronous'):
        ok, fd = cx.guard('dask-from_pandas', lambda: _ddf(t.frame('full'), chunk))
        ok2, bd = cx.guard('dask-from_pandas', lambda: _ddf(t.frame('base'), chunk)
                           if len(t.base) else None)
        if not (ok and ok2):
            return
        # partitions made of inert rows only
        ok, pb = cx.guard('dask-partition_bounds', lambda: np.asarray(fd.geometry.partition_bounds, dtype='float64'))
        if not ok:
            return
        if len(t.base) and np.isnan(pb).all(axis=1).any():
            cx.rep.count('dask:inert-partition')
        # total_bounds
        ok, ftb = cx.guard('dask-total_bounds', lambda: tuple(float(x) for x in fd.geometry.total_bounds))
        if ok:
            etb = tuple(float(x) for x in t.base_arr.total_bounds)
            if not U.same_floats(ftb, etb):
                cx.fail(f'dask-total-changed:{t.kind}',
                        'Dask total_bounds changes when inert rows / partitions are inserted',
                        base=etb, full=ftb, chunk=chunk)
        # per-row quantities through Dask
        ok, fbnd = cx.guard('dask-bounds', lambda: np.asarray(fd.geometry.bounds.compute(), dtype='float64'))
        if ok and not U.same_floats(fbnd[np.array(t.pos, dtype='int64')] if len(t.pos) else fbnd[:0],
                                    np.asarray(t.base_arr.bounds, dtype='float64')):
            cx.fail(f'dask-bounds-changed:{t.kind}', 'Dask bounds rows of the other elements change')
        # cx and cx_partitions
        for box, opn in zip(P['boxes'][:3], P['open'][:3]):
            key = _cx_key(box, opn)
            ok, fr = cx.guard('dask-cx', lambda: fd.cx[key[0], key[1]].compute())
            if not ok:
                return
            fl = [int(x) for x in fr['label']] if len(fr) else []
            bf = t.frame('base')
            ok2, br = cx.guard('cx', lambda: bf.cx[key[0], key[1]])
            if not ok2:
                return
            bl = [int(x) for x in br.index]
            sel_inert = [l for l in fl if l in inert_labels]
            if sel_inert:
                i = t.full_labels.index(sel_inert[0])
                cx.fail(f'dask-cx-selects-inert:{_inert_tag(t, i)}',
                        'Dask cx returns an inert row', box=box, open=opn, chunk=chunk, selected=fl)
                return
            if len(t.base) and sorted(fl) != sorted(bl):
                cx.fail(f'dask-cx-others-changed:{t.kind}',
                        'Dask cx selects other rows when inert rows / partitions are inserted',
                        box=box, open=opn, chunk=chunk, base=sorted(bl), full=sorted(fl))
                return
            if bd is not None:
                ok, bdr = cx.guard('dask-cx', lambda: bd.cx[key[0], key[1]].compute())
                if ok and sorted(int(x) for x in bdr['label']) != sorted(bl):
                    cx.fail(f'dask-cx-vs-pandas:{t.kind}', 'Dask cx of the base frame differs from '
                            'pandas cx', box=box, open=opn, chunk=chunk)
                    return
            # cx_partitions must keep every partition holding a selected row
            ok, fp = cx.guard('dask-cx_partitions', lambda: fd.cx_partitions[key[0], key[1]].compute())
            if ok:
                pl = set(int(x) for x in fp['label']) if len(fp) else set()
                if not set(bl) <= pl:
                    cx.fail(f'dask-cx_partitions-loses:{t.kind}',
                            'cx_partitions drops a partition that holds a selected row',
                            box=box, open=opn, chunk=chunk)
                    return
        # sjoin with the Dask frame on the left (points only)
        if t.kind == 'point' and 'other' in P:
            rt = Trial.from_meta(P['other'])
            r_inert = set(l for l, m in zip(rt.full_labels, rt.mask) if m)
            for how in P.get('dask_hows', ('inner', 'left')):
                ok, base = cx.guard('sjoin-base', lambda: sjoin(t.frame('base', 'a'), rt.frame('base', 'b'), how=how))
                if not ok:
                    return
                exp = _pairs(base, how)
                import dask.dataframe as dd
                lf = t.frame('full', 'a')
                dl = dd.from_pandas(lf, chunksize=chunk, sort=False)
                ok, got = cx.guard(f'dask-sjoin:{how}', lambda: sjoin(dl, rt.frame('full', 'b'), how=how).compute())
                if not ok:
                    return
                if not _check_join(cx, how, _pairs(got, how), exp, inert_labels, r_inert, 'dask',
                                   right_kind=rt.kind, chunk=chunk):
                    return
        # pack_partitions: every row kept, the other rows' Hilbert keys unchanged.  A call that
        # raises (dask's repartition assertion when many rows share one key: C09's recorded
        # findings) claims nothing: skipped and counted, in either run.
        if P.get('pack'):
            npart, p = P['pack']

            def pack(d):
                try:
                    return d.pack_partitions(npartitions=npart, p=p).compute()
                except Exception:  # noqa: BLE001
                    return None
            fpk = pack(fd)
            bpk = pack(bd) if bd is not None else None
            if fpk is None or (bd is not None and bpk is None):
                cx.rep.count('pack_raises_ties')
                return
            got = sorted((int(l), int(k)) for k, l in zip(fpk.index, fpk['label']))
            if sorted(l for l, _ in got) != sorted(t.full_labels):
                cx.fail(f'pack-rows-lost:{t.kind}', 'pack_partitions drops or duplicates rows '
                        'when inert rows are present', chunk=chunk, npartitions=npart,
                        labels=sorted(l for l, _ in got))
                return
            if bpk is not None:
                exp = sorted((int(l), int(k)) for k, l in zip(bpk.index, bpk['label']))
                rest = [x for x in got if x[0] not in inert_labels]
                if rest != exp:
                    cx.fail(f'pack-keys-changed:{t.kind}',
                            'pack_partitions gives other Hilbert keys to the remaining rows when inert '
                            'rows are inserted (total_bounds is unchanged)', chunk=chunk,
                            npartitions=npart, p=p, base=exp, full=rest)
                    return
                cx.rep.count('dask:pack')


FAMILIES = {'array': fam_array, 'point_rows': fam_point_rows, 'inert_shapes': fam_inert_shapes,
            'rtree': fam_rtree, 'cx': fam_cx, 'sjoin': fam_sjoin, 'dask': fam_dask}


# --------------------------------------------------------------------------
# generation
# --------------------------------------------------------------------------
def gen_trial(rng, kind, pattern, exact, with_inf, nmax=7):
    block = rng.choice([1, 2, 3, 4])
    n = 0 if pattern == 'all' else rng.randint(1, nmax)
    base = [U.rand_base_element(rng, kind, exact) for _ in range(n)]
    pool = U.inert_pool(kind, with_inf=with_inf)
    if rng.random() < 0.25:
        pool = [rng.choice(pool)]            # a single class of inert rows
    full, mask = U.place(rng, base, pool, pattern, block)
    return Trial(kind, base, full, mask, exact, pattern, block, derived=rng.random() < 0.35)


def gen_params(rng, t, families):
    exact = t.exact
    tb = None
    try:
        tb = [float(x) for x in t.base_arr.total_bounds]
    except Exception:  # noqa: BLE001
        pass
    boxes = [list(U.rand_box(rng, exact, tb)) for _ in range(6)]
    boxes[0] = [-1e7, -1e7, 1e7, 1e7]
    opens = [rng.choice([[], [], [], ['x0'], ['x1', 'y1'], ['x0', 'x1', 'y0', 'y1']]) for _ in range(6)]
    P = {'boxes': boxes, 'open': opens, 'inds': [rng.randint(0, 50) for _ in range(rng.randint(0, 4))],
         'p': rng.choice([1, 3, 5, 10, 15]),
         'hilbert_tb': [-8.0, -8.0, 8.0, 8.0] if rng.random() < 0.7 else [0.0, 0.0, 0.0, 5.0],
         'cx_pages': [ps for ps in (1, 2, 3, t.block, 512) if rng.random() < 0.5] or [2],
         'probe_points': [[0.0, 0.0], [1.0, 1.0]] + [U.rand_pts(rng, 1, exact) for _ in range(3)],
         'sjoin_sides': rng.choice([['left'], ['right'], []]),
         'sjoin_how': rng.choice(['inner', 'left', 'right']),
         'dask_hows': [rng.choice(['inner', 'left'])]}
    if 'point_rows' in families and t.kind == 'point':
        shapes = []
        for sk in ('point', 'multipoint', 'line', 'multiline', 'polygon', 'multipolygon'):
            if sk == 'point' and t.base and rng.random() < 0.7:
                shapes.append((sk, list(rng.choice(t.base))))
            elif sk == 'point':
                shapes.append((sk, [0.0, 0.0]))      # the placeholder bytes of a null slot
            else:
                shapes.append((sk, U.rand_base_element(rng, sk, exact)))
        # shapes through / around the origin, where the placeholder of a missing point lies
        shapes.append(('multipoint', [0.0, 0.0, 1.0, 1.0]))
        shapes.append(('line', [-1.0, -1.0, 1.0, 1.0]))
        shapes.append(('polygon', [[-2.0, -2.0, 2.0, -2.0, 2.0, 2.0, -2.0, 2.0, -2.0, -2.0]]))
        P['shapes'] = shapes
    if 'sjoin' in families or ('dask' in families and t.kind == 'point'):
        if t.kind == 'point':
            ok = rng.choice(['point', 'multipoint', 'line', 'multiline', 'polygon', 'multipolygon',
                             'polygon', 'multipolygon'])
        else:
            ok = 'point'
        o = gen_trial(rng, ok, rng.choice(['first', 'last', 'interleaved', 'random', 'all', 'page']),
                      exact, rng.random() < 0.3, nmax=5)
        P['other'] = o.meta()
    if 'dask' in families:
        P['pack'] = [rng.choice([1, 2, 3]), rng.choice([3, 8, 15])] if rng.random() < 0.5 else None
    return P


def plan(rep, tier):
    """(kind, pattern, exact, families) of every trial"""
    rng = rep.rng
    out = []
    reps = 2 if tier == 'quick' else 24
    for kind in G.KINDS:
        for pattern in U.PATTERNS:
            for r in range(reps):
                exact = (r % 2 == 1)
                fams = ['array', 'inert_shapes', 'rtree']
                if kind == 'point':
                    fams.append('point_rows')
                fams.append('cx')
                if tier != 'quick' or r == 0 or pattern in ('first', 'all', 'interleaved'):
                    fams.append('sjoin')
                if tier != 'quick' or r == 0 or pattern in ('partition', 'all'):
                    fams.append('dask')
                out.append((kind, pattern, exact, fams))
    return out


# --------------------------------------------------------------------------
# the Coq side (integer-valued trials)
# --------------------------------------------------------------------------
def _row(r):
    return [None if x != x else C.Some(int(round(float(x) * 2))) for x in r]


def coq_cases(rep, trials):
    """compare the real results on integer-valued trials with Model/Inert.v"""
    from spatialpandas.spatialindex import HilbertRtree
    la, la_res, la_meta = [], [], []
    fa, fa_res, fa_meta = [], [], []
    rt, rt_res, rt_meta = [], [], []
    for t in trials:
        if not t.exact:
            continue
        try:
            fb = np.asarray(t.full_arr.bounds, dtype='float64')
            tbf = tuple(C.fnum(v) for v in t.full_arr.total_bounds)
            tbb = tuple(C.fnum(v) for v in t.base_arr.total_bounds)
            res = C.Some(([bool(m) for m in t.mask],
                          [tuple(C.fnum(v) for v in row) for row in fb.tolist()], tbf,
                          (tbf == tbb, True, True)))
            if t.kind == 'point':
                fa.append((C.export_fixarr(t.full_arr), C.export_fixarr(t.base_arr)))
                fa_res.append(res)
                fa_meta.append(t)
            else:
                fa_or = (C.export_listarr(t.full_arr), C.export_listarr(t.base_arr))
                la.append(fa_or)
                la_res.append(res)
                la_meta.append(t)
        except ValueError:
            rep.count('internal-unavailable:export:null-typed')
        except Exception as e:  # noqa: BLE001
            rep.count('internal-unavailable:export:' + type(e).__name__)
        # the R-tree with NaN rows against the renumbered tree without them
        if len(t.full) <= 12:
            try:
                fb = np.asarray(t.full_arr.bounds, dtype='float64')
                bb = np.asarray(t.base_arr.bounds, dtype='float64')
                for ps in (1, 2, 3):
                    tf = HilbertRtree(fb.copy(), p=4, page_size=ps)
                    tbs = HilbertRtree(bb.copy(), p=4, page_size=ps)
                    qs = []
                    for _ in range(5):
                        x0, x1 = sorted((rep.rng.randint(-9, 9) / 2.0, rep.rng.randint(-9, 9) / 2.0))
                        y0, y1 = sorted((rep.rng.randint(-9, 9) / 2.0, rep.rng.randint(-9, 9) / 2.0))
                        qs.append((x0, y0, x1, y1))
                    qs.append((-5.0, -5.0, 5.0, 5.0))
                    per = []
                    for q in qs:
                        it = sorted(int(x) for x in tf.intersects(q))
                        cv, ov = tf.covers_overlaps(q)
                        per.append(([N(x) for x in it], [N(x) for x in sorted(int(x) for x in cv)],
                                    [N(x) for x in sorted(int(x) for x in ov)]))
                    rt.append((N(2), [_row(r) for r in fb.tolist()], [N(k) for k in range(len(fb))],
                               [N(k) for k in range(len(bb))], N(ps),
                               [[int(v * 2) for v in q] for q in qs]))
                    rt_res.append((per, True))
                    rt_meta.append((t, ps, qs))
            except Exception as e:  # noqa: BLE001
                rep.count('internal-unavailable:rtree-case:' + type(e).__name__)
    for fn, ty, cases, ress, metas in ((LA_FN, LA_TY, la, la_res, la_meta),
                                       (FA_FN, FA_TY, fa, fa_res, fa_meta)):
        bad = C.coq_mismatches(IMPORTS, fn, ty, LA_RES, cases, ress)
        rep.extra.setdefault('coq_cases', {})[fn] = len(cases)
        for i in bad[:10]:
            model = C.coq_eval(IMPORTS, f'{fn} {C.coq(cases[i])}')
            rep.violation(f'model-differs:{fn}:{metas[i].kind}',
                          'inert flags / bounds rows / total_bounds (with and without the inert rows) '
                          'differ from Model/Inert.v',
                          {**metas[i].meta(), 'family': 'coq', 'impl': ress[i], 'model': model})
    bad = C.coq_mismatches(IMPORTS, RT_FN, RT_TY, RT_RES, rt, rt_res)
    rep.extra.setdefault('coq_cases', {})[RT_FN] = len(rt)
    for i in bad[:10]:
        t, ps, qs = rt_meta[i]
        model = C.coq_eval(IMPORTS, f'{RT_FN} {C.coq(rt[i])}')
        rep.violation('model-differs:rtree-nan-rows',
                      'R-tree answers with NaN rows differ from Model/Rtree.v, or the model\'s answers '
                      'are not the renumbered answers of the tree without the NaN rows',
                      {**t.meta(), 'family': 'coq', 'page_size': ps, 'queries': qs,
                       'impl': rt_res[i], 'model': model})
    rep.evaluations += len(la) + len(fa) + len(rt)


# --------------------------------------------------------------------------
# entry points
# --------------------------------------------------------------------------
def run(rep):
    tier = getattr(rep, 'tier_run', rep.tier)
    rep.rule = ('per kind (7) x placement of the inert rows (first, last, a whole R-tree page, a whole '
                'Dask partition, interleaved, all rows, random) x {arbitrary floats, integer-valued}: a '
                'random base array of 1-7 elements with finite coordinates, inert rows drawn from the '
                'kind\'s catalogue (None, [], [[]]-style empties, NaN-only, inf-only, NaN and +-inf mixed '
                'per coordinate and per vertex), built directly '
                'or through take(); every family of operations (array, scalar shapes, point-vs-shape, '
                'R-tree with page sizes 1,2,3,n,512, cx with/without index, sjoin x 3 hows x sides, Dask '
                'cx/total_bounds/sjoin/pack_partitions) recomputed with and without the inert rows; a '
                'case is non-trivial when the base array is non-empty and at least one inert row was '
                'inserted; distinct = distinct (kind, full element list); plus an always-run corpus: per '
                'kind, fixed rows interleaved with EVERY element without a finite coordinate that mixes '
                'NaN, +inf and -inf (points: all 9 mixtures) through every family, against asymmetric '
                'shapes of each kind, sjoin with the inert rows on either side')
    trials = []
    try:
        # the kernels are tiny here: a few threads keep the parallel regions from spinning on a
        # busy machine (scheduling independence is C18's business)
        import numba
        numba.set_num_threads(min(2, numba.config.NUMBA_NUM_THREADS))
    except Exception:  # noqa: BLE001
        pass
    witness(rep)
    t0 = time.time()
    trials += mixture_corpus(rep)
    rep.extra['mixture_corpus_wall_s'] = round(time.time() - t0, 1)
    cpu = {}
    for kind, pattern, exact, fams in plan(rep, tier):
        with_inf = rep.rng.random() < 0.3
        try:
            t = gen_trial(rep.rng, kind, pattern, exact, with_inf)
        except Exception as e:  # noqa: BLE001
            rep.violation(f'raises:construct:{kind}:{type(e).__name__}',
                          f'constructing a {kind} array with inert elements raised: {str(e)[:200]}',
                          {'kind': kind, 'pattern': pattern, 'family': 'construct'})
            continue
        trials.append(t)
        P = gen_params(rep.rng, t, fams)
        rep.count(f'kind:{kind}')
        rep.count(f'pattern:{pattern}')
        for c in set(t.cls) - {None}:
            rep.count(f'inert:{c}')
        if t.base and t.inert:
            rep.nontrivial((kind, repr(t.full)))
        rep.sample({'kind': kind, 'pattern': pattern, 'full': t.full, 'mask': t.mask}, cap=5)
        for fam in fams:
            cx = Ctx(rep, t, fam, P)
            t0 = time.process_time()
            try:
                FAMILIES[fam](cx)
            except Exception as e:  # noqa: BLE001  (a crash of the harness itself)
                rep.violation(f'harness-crash:{fam}:{type(e).__name__}',
                              f'family {fam} crashed: {traceback.format_exc()[-800:]}',
                              {**t.meta(), 'family': fam, 'params': P})
            cpu[fam] = cpu.get(fam, 0.0) + time.process_time() - t0
            rep.evaluations += 1
            rep.count(f'family:{fam}')
    t0 = time.time()
    coq_cases(rep, trials)
    rep.extra['family_cpu_s'] = {k: round(v, 1) for k, v in cpu.items()}
    rep.extra['coq_wall_s'] = round(time.time() - t0, 1)


def witness(rep):
    """always-run corpus: an all-infinite polygon (no finite coordinate, NaN bounds: an ordinary
    inert element; it used to be reported as holding every point, repaired in /repo 2a2a476)
    against points lying inside its 'ring', directly (array, inds, scalar forms) and through
    sjoin"""
    inf = float('inf')
    sq = [[-1.0, -1.0, 2.0, -1.0, 2.0, 2.0, -1.0, 2.0, -1.0, -1.0]]
    ip = [[-inf, -inf, inf, -inf, inf, inf, -inf, -inf]]
    t = Trial('polygon', [sq], [sq, ip], [False, True], True, 'last', 2)
    pts = Trial('point', [[0.0, 0.0], [1.0, 1.0], [5.0, 4.0]], [[0.0, 0.0], None, [1.0, 1.0], [5.0, 4.0]],
                [False, True, False, False], True, 'random', 2)
    P = {'boxes': [[-1e7, -1e7, 1e7, 1e7], [0.0, 0.0, 1.0, 1.0]], 'open': [[], []], 'inds': [0],
         'p': 5, 'hilbert_tb': [-8.0, -8.0, 8.0, 8.0], 'cx_pages': [2],
         'probe_points': [[0.0, 0.0], [1.0, 1.0], [5.0, 4.0]], 'sjoin_sides': ['right'],
         'other': pts.meta(), 'pack': None}
    mixed = [[-inf, float('nan'), inf, float('nan'), inf, inf, -inf, float('nan')]]
    tm = Trial('multipolygon', [[sq]], [[ip], [sq], [mixed], [ip, mixed]], [True, False, True, True],
               True, 'interleaved', 2)
    tp = Trial('polygon', [sq], [sq, ip, mixed, ip + mixed], [False, True, True, True], True, 'last', 2)
    for tt in (t, tp, tm):
        for fam in ('inert_shapes', 'sjoin'):
            FAMILIES[fam](Ctx(rep, tt, fam, P))
            rep.evaluations += 1
    rep.count('witness:inf-polygon')
    # a frame of inert points only, one of them infinite, queried with every end omitted
    # (total_bounds is NaN, so the query box is NaN)
    t2 = Trial('point', [], [[inf, -inf], None, [float('nan'), float('nan')]], [True, True, True],
               True, 'all', 2)
    P2 = dict(P, boxes=[[-1e7, -1e7, 1e7, 1e7], [0.0, 0.0, 1.0, 1.0]],
              open=[['x0', 'x1', 'y0', 'y1'], ['x0', 'y1']])
    for fam in ('array', 'cx', 'dask'):
        FAMILIES[fam](Ctx(rep, t2, fam, P2))
        rep.evaluations += 1
    rep.count('witness:all-inert-open-ends')


# --------------------------------------------------------------------------
# always-run corpus: every mixture of NaN / +inf / -inf, every kind, every family
# --------------------------------------------------------------------------
# asymmetric shapes: the winding number the ray loop computes for a point such as (-inf, NaN)
# is the number of ascending minus descending edges it does not skip, which is non-zero for a
# triangle like (0,0) (2,1) (1,3) and zero for an axis-parallel box
TRI = [0.0, 0.0, 2.0, 1.0, 1.0, 3.0, 0.0, 0.0]
TRI_R = [0.0, 0.0, 1.0, 3.0, 2.0, 1.0, 0.0, 0.0]
QUAD = [-3.0, -2.0, 4.0, -1.0, 5.0, 5.0, -1.0, 2.0, -3.0, -2.0]
HOLE = [0.5, 0.5, 0.5, 1.0, 1.0, 0.5, 0.5, 0.5]
MIX_SHAPES = [('point', [0.0, 0.0]), ('point', [1.0, 1.0]),
              ('multipoint', [0.0, 0.0, 1.0, 1.0, 5.0, 4.0]),
              ('line', [-1.0, -1.0, 1.0, 1.0, 5.0, 4.0]), ('line', [0.0, -5.0, 0.5, 7.0]),
              ('multiline', [[-1.0, -1.0, 1.0, 1.0], [0.0, 3.0, 5.0, 4.0, 2.0, -2.0]]),
              ('polygon', [TRI]), ('polygon', [TRI_R]), ('polygon', [QUAD, HOLE]),
              ('multipolygon', [[TRI]]), ('multipolygon', [[TRI_R], [[6.0, 6.0, 9.0, 7.0, 7.0, 9.0, 6.0, 6.0]]]),
              ('multipolygon', [[QUAD, HOLE], [TRI]])]
MIX_BASE = {
    'point': [[0.0, 0.0], [1.0, 1.0], [1.0, 2.0], [5.0, 4.0], [0.75, 0.75], [-2.0, 3.5]],
    'multipoint': [[0.0, 0.0, 1.0, 1.0], [5.0, 4.0], [-2.0, 3.5, 1.0, 2.0, 1.0, 2.0]],
    'line': [[-1.0, -1.0, 1.0, 1.0], [0.0, 3.0, 5.0, 4.0, 2.0, -2.0], [6.0, 6.0, 7.0, 9.0]],
    'ring': [TRI, QUAD, [6.0, 6.0, 9.0, 7.0, 7.0, 9.0, 6.0, 6.0]],
    'multiline': [[[-1.0, -1.0, 1.0, 1.0], [0.0, 3.0, 5.0, 4.0]], [[6.0, 6.0, 7.0, 9.0]]],
    'polygon': [[TRI], [QUAD, HOLE], [[6.0, 6.0, 9.0, 7.0, 7.0, 9.0, 6.0, 6.0]]],
    'multipolygon': [[[TRI]], [[QUAD, HOLE], [[6.0, 6.0, 9.0, 7.0, 7.0, 9.0, 6.0, 6.0]]]],
}
MIX_BOXES = [[-1e7, -1e7, 1e7, 1e7], [0.0, 0.0, 1.0, 1.0], [-3.0, -2.0, 9.0, 9.0], [1.0, 2.0, 1.0, 2.0],
             [0.5, 0.5, 6.5, 6.5], [9.0, 9.0, 6.0, 6.0]]
MIX_OPEN = [[], ['x0', 'x1', 'y0', 'y1'], ['x0'], [], ['x1', 'y1'], []]


def _mix_trial(kind, derived):
    """the fixed base rows of the kind with every element of the mixed pool (points: all nine
    mixtures) and a missing row interleaved; the first two rows and the last row are inert"""
    base = MIX_BASE[kind]
    mixed = U.mixed_pool(kind) + [None]
    full, mask = [], []
    # two leading inert rows, then one after each base row round-robin, the rest at the end
    queue = list(mixed)
    for _ in range(2):
        full.append(queue.pop(0))
        mask.append(True)
    for e in base:
        full.append(e)
        mask.append(False)
        if queue:
            full.append(queue.pop(0))
            mask.append(True)
    while queue:
        full.append(queue.pop(0))
        mask.append(True)
    return Trial(kind, base, full, mask, True, 'interleaved', 2, derived=derived)


def mixture_corpus(rep):
    """every element without a finite coordinate that mixes NaN, +inf and -inf (points: each of
    the nine mixtures), of every kind, through EVERY family of operations: bounds /
    total_bounds / measures / intersects_bounds (array, inds, scalar) / hilbert_distance, the
    point-vs-shape predicates against asymmetric shapes of each kind (array and inds forms),
    the R-tree, cx with and without an index, sjoin with the inert rows on the left and on the
    right (3 hows), and the Dask versions.  Returns the trials (their integer-valued buffers
    are also compared with Model/Inert.v)."""
    trials = []
    for k, kind in enumerate(G.KINDS):
        t = _mix_trial(kind, derived=(k % 2 == 1))
        trials.append(t)
        if kind == 'point':
            others = [_mix_trial(ok, derived=False) for ok in ('polygon', 'multipolygon', 'line', 'multipoint')]
        else:
            others = [_mix_trial('point', derived=(k % 2 == 0))]
        for j, o in enumerate(others):
            P = {'boxes': [list(b) for b in MIX_BOXES], 'open': [list(o_) for o_ in MIX_OPEN],
                 'inds': [0, 1, 2, 1, 7], 'p': [5, 10, 15, 3][(k + j) % 4],
                 'hilbert_tb': [-8.0, -8.0, 8.0, 8.0], 'cx_pages': [2, 512] if j == 0 else [1],
                 'probe_points': [list(p) for p in MIX_BASE['point']],
                 'sjoin_sides': ['left', 'right'], 'dask_hows': ['inner', 'left'],
                 'shapes': list(MIX_SHAPES), 'other': o.meta(), 'pack': [2, 8] if j == 0 else None}
            fams = ['array', 'inert_shapes', 'rtree', 'point_rows', 'cx', 'sjoin', 'dask'] if j == 0 \
                else ['sjoin', 'dask']
            for fam in fams:
                if fam == 'point_rows' and kind != 'point':
                    continue
                if fam == 'dask' and j > 0:
                    continue
                cx = Ctx(rep, t, fam, P)
                try:
                    FAMILIES[fam](cx)
                except Exception as e:  # noqa: BLE001  (a crash of the harness itself)
                    rep.violation(f'harness-crash:{fam}:{type(e).__name__}',
                                  f'family {fam} crashed: {traceback.format_exc()[-800:]}',
                                  {**t.meta(), 'family': fam, 'params': P})
                rep.evaluations += 1
                rep.count(f'mixture-corpus:{fam}')
        rep.count(f'mixture-corpus:kind:{kind}')
        rep.nontrivial((kind, repr(t.full)))
    rep.count('mixture-corpus:point-mixtures', len(U.point_mixtures()))
    return trials


def replay(rep, rp):
    t = Trial.from_meta(rp)
    fam = rp.get('family')
    print('kind', t.kind, 'pattern', t.pattern, 'family', fam)
    print('full', t.full)
    print('mask', t.mask)
    if fam == 'coq':
        coq_cases(rep, [t])
    elif fam in FAMILIES:
        P = rp['params']
        P = {k: (U.un_json(v) if k in ('boxes', 'probe_points', 'shapes', 'hilbert_tb') else v)
             for k, v in P.items()}
        if 'shapes' in P:
            P['shapes'] = [tuple(s) for s in P['shapes']]
        FAMILIES[fam](Ctx(rep, t, fam, P))
    else:
        print('nothing to replay')
        return False
    for v in rep.violations:
        print('  still:', v['signature'], '-', v['what'])
    return not rep.violations
