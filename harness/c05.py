"""C05 — sjoin(left, right, how) returns exactly the intersecting (left, right) pairs.

Correspondence: the real `spatialpandas.sjoin` on left point frames x right frames of every
geometry kind x how x suffixes against Model/Sjoin.v evaluated by the Coq kernel on the exported
buffers (sorted output rows as (left position | missing, right position | missing), column
names in order, index names, surviving geometry column, the right bounds rows, the error
class).  Independently of the model: (a) the pandas contracts — every value / index label of
an output row is the value of the source rows it names; (b) the pair set by brute force with
the scalar Point.intersects(shape) and the row multiset each `how` must produce from it;
(c) result type and geometry dtype; (d) argument validation.  Coordinates that are not small
integers - near-ties at magnitude up to 2^25, the same frames under exact maps v -> v*2^k + t,
arbitrary float64 frames against the binary64 pair-table model Model/SjoinFloat.v - are in
harness/c05_float.py (called at the end of run()).
"""
import itertools

import numpy as np

from . import common as C
from . import geomgen as G
from . import c05_util as U
from . import c05_float as F

ANCHOR_FILES = ['spatialpandas/tools/sjoin.py', 'spatialpandas/geometry/point.py',
                'spatialpandas/spatialindex/rtree.py']
TRUSTED = ['pandas merge / set_index / drop / reset_index: modelled by their contract (relational '
           'join up to row order, suffix rule, KeyError rules); the contract is checked against the '
           'real pandas on every run (values and index labels of every output row)',
           'pyarrow buffers() export of the left PointArray and of the scalars right_geom[i] '
           '(harness/common.py export_fixarr, harness/c02_util.py export_shape)',
           'the R-tree answers as a set (Model/Sjoin.v cand_scan; C03 proves it of the tree)']

IMPORTS = ('Model.Num Model.Arrow Model.Bounds Model.PointKernels Model.PointShape Model.Sjoin '
           'Model.SjoinWf Model.SjoinHarness')
CASE_TY = 'how * string * string * fmeta * fmeta * fixarr * list (option shape)'
RES_TY = 'option (nat + (list orow * list string * list (option string) * string * list bbox))'
FN = 'sjoin_case'
VERDICT = 'sjoin_verdict'       # Model/SjoinHarness.v: 0 agree, 1 differ, 2 excluded input, 3 column order only
Nat, Rec, Some, Raw = C.Nat, C.Rec, C.Some, C.Raw


# --------------------------------------------------------------------------
# geometry catalogues
# --------------------------------------------------------------------------
def sq(x0, y0, x1, y1, cw=False):
    r = [x0, y0, x1, y0, x1, y1, x0, y1, x0, y0]
    if cw:
        pts = [(r[i], r[i + 1]) for i in range(0, len(r), 2)][::-1]
        r = [c for p in pts for c in p]
    return r


GRID5 = [(x, y) for y in range(0, 5) for x in range(0, 5)]
LEFT_GRID = GRID5[:12] + [None] + GRID5[12:] + [(1, 1), (2, 2), None, (4, 4), (0, 0), (9, 9), (-3, 2)]

CATALOGUE = {
    'point': [[0, 0], [4, 4], [2, 2], [1, 3], [9, 9], [7, 0], [-3, 2], [2, 5]],
    'multipoint': [[0, 0, 4, 4], [2, 2], [1, 3, 3, 1, 1, 3], [], [9, 9, -3, 2], [0, 4, 4, 0, 2, 2],
                   [5, 5, 6, 6], [4, 2]],
    'line': [[0, 0, 4, 4], [0, 2, 4, 2], [2, 0, 2, 4], [1, 1, 1, 1], [0, 0, 4, 2], [], [1, 0, 3, 4],
             [0, 0, 2, 2, 0, 2, 2, 0], [4, 4, 0, 0, 4, 4], [5, 5, 8, 8], [0, 4, 4, 4], [4, 0, 4, 4],
             [3, 3, 9, 9], [-3, 2, 0, 2]],
    'ring': [[0, 0, 4, 0, 4, 4, 0, 0], [1, 1, 3, 1, 3, 3, 1, 3, 1, 1], [], [2, 2, 2, 2],
             [0, 0, 0, 4, 4, 4, 4, 0, 0, 0]],
    'multiline': [[[0, 0, 4, 4], [0, 4, 4, 0]], [[1, 1, 3, 1]], [], [[0, 2, 4, 2], [2, 0, 2, 4], [9, 9, 8, 8]],
                  [[0, 0, 0, 4, 4, 4], [4, 4, 4, 0]], [[2, 2, 2, 2], [5, 5, 6, 6]], [[-3, 2, 9, 9]],
                  [[]], [[0, 0, 2, 2], []], [[], [1, 1, 3, 1], []]],
    'polygon': [[sq(0, 0, 2, 2)], [sq(1, 1, 3, 3)], [sq(0, 0, 4, 4)], [sq(0, 0, 4, 4), sq(1, 1, 3, 3, cw=True)],
                [], [[0, 0, 4, 0, 2, 4, 0, 0]], [sq(5, 5, 8, 8)], [sq(2, 2, 4, 4, cw=True)],
                [[0, 0, 4, 4, 4, 0, 0, 4, 0, 0]], [sq(-4, -4, 10, 10)], [[1, 0, 3, 0, 4, 2, 3, 4, 1, 4, 0, 2, 1, 0]],
                [sq(0, 0, 4, 4), sq(1, 1, 2, 2, cw=True), sq(2, 2, 3, 3, cw=True)], [[]], [sq(1, 1, 3, 3), []]],
    'multipolygon': [[[sq(0, 0, 1, 1)], [sq(3, 3, 4, 4)]], [[sq(0, 0, 4, 4), sq(1, 1, 3, 3, cw=True)], [sq(2, 2, 3, 3)]],
                     [], [[sq(0, 0, 2, 2)], [sq(1, 1, 3, 3)]], [[sq(5, 5, 6, 6)], [sq(7, 7, 9, 9)]],
                     [[[0, 0, 4, 0, 2, 4, 0, 0]]], [[sq(0, 0, 2, 4)], [sq(2, 0, 4, 4)]], [[]], [[[]]],
                     [[sq(0, 0, 2, 2)], []]],
}
KINDS = list(CATALOGUE)


def negzero(el, which):
    """the element with every zero x ('x'), y ('y') or both ('xy') coordinate written -0.0
    (IEEE: -0.0 == 0.0; the model sees the integer 0 either way)"""
    if el is None:
        return None
    if el and isinstance(el[0], (list, tuple)):
        return [negzero(e, which) for e in el]
    out = []
    for i, c in enumerate(el):
        axis = 'x' if i % 2 == 0 else 'y'
        out.append(-0.0 if (c == 0 and axis in which) else c)
    return out


def has_zero(el):
    return el is not None and any(c == 0 for c in G.flat_coords(el))


def rand_points(rng, n, lo=-1, hi=6, missing_p=0.15, dup_p=0.25):
    out = []
    for _ in range(n):
        r = rng.random()
        if r < missing_p:
            out.append(None)
        elif out and r < missing_p + dup_p:
            prev = [p for p in out if p is not None]
            out.append(list(rng.choice(prev)) if prev else [rng.randint(lo, hi), rng.randint(lo, hi)])
        else:
            out.append([rng.randint(lo, hi), rng.randint(lo, hi)])
    return out


def rand_closed_ring(rng, lo, hi, shift=0):
    n = rng.randint(3, 6)
    pts = [(rng.randint(lo, hi) + shift, rng.randint(lo, hi) + shift) for _ in range(n)]
    if rng.random() < 0.5:     # an axis-parallel box: many points inside
        x0, x1 = sorted(rng.sample(range(lo, hi + 1), 2))
        y0, y1 = sorted(rng.sample(range(lo, hi + 1), 2))
        return sq(x0 + shift, y0 + shift, x1 + shift, y1 + shift, cw=rng.random() < 0.5)
    pts.append(pts[0])
    return [c for p in pts for c in p]


def rand_right_element(rng, kind, left_pts, lo=-1, hi=6):
    r = rng.random()
    if r < 0.12:
        return None
    if kind != 'point' and r < 0.22:
        return []
    shift = 20 if rng.random() < 0.1 else 0      # far away: matches nothing
    present = [p for p in left_pts if p is not None]

    def vertex():
        if present and rng.random() < 0.5:
            p = rng.choice(present)
            return [p[0] + shift, p[1] + shift]
        return [rng.randint(lo, hi) + shift, rng.randint(lo, hi) + shift]

    def polyline(nmin=1, nmax=4):
        return [c for _ in range(rng.randint(nmin, nmax)) for c in vertex()]
    if kind == 'point':
        return vertex()
    if kind == 'multipoint':
        return polyline(1, 4)
    if kind == 'line':
        return polyline(1, 4)
    if kind == 'ring':
        vs = polyline(2, 4)
        return vs + vs[:2]
    if kind == 'multiline':
        return [polyline(1, 4) for _ in range(rng.randint(1, 3))]
    if kind == 'polygon':
        return [rand_closed_ring(rng, lo, hi, shift) for _ in range(rng.randint(1, 2))]
    if kind == 'multipolygon':
        return [[rand_closed_ring(rng, lo, hi, shift) for _ in range(rng.randint(1, 2))]
                for _ in range(rng.randint(1, 3))]
    raise ValueError(kind)


# --------------------------------------------------------------------------
# frame metadata
# --------------------------------------------------------------------------
# a pd.RangeIndex whose labels are not the row positions: given directly, or what
# df.iloc[12:] / df.tail(n) / df.iloc[1::2] / df.iloc[3:..:3] leave behind (frame sliced out of a
# longer one: also non-zero buffer offsets in the geometry column)
RANGE_STYLES = {'range-offset': (['rangeindex', 5, 3, None], None),
                'range-named': (['rangeindex', 2, 1, 'rx'], None),
                'range-negative': (['rangeindex', -4, 2, None], None),
                'iloc-tail': (['rangeindex', 12, 1, None], [12, 1, 0]),
                'iloc-step': (['rangeindex', 1, 2, None], [1, 2, 1]),
                'iloc-mid': (['rangeindex', 3, 3, None], [3, 3, 4])}


def left_index(style, n):
    if style in RANGE_STYLES:
        return list(RANGE_STYLES[style][0])
    if style == 'range':
        return ['range']
    if style == 'named-int':
        return ['plain', 'li', [7 + i // 2 for i in range(n)]]
    if style == 'unnamed-str':
        return ['plain', None, ['k' + str(i % 3) for i in range(n)]]
    if style == 'named-like-column':
        return ['plain', 'a', [10 * (i % 2) for i in range(n)]]
    if style == 'multi2':
        return ['multi', ['k1', None], [[i // 2, 'm' + str(i % 2)] for i in range(n)]]
    if style == 'multi3':
        return ['multi', ['k1', 'k2', 'k3'], [[i // 3, 'm' + str(i % 2), i % 3] for i in range(n)]]
    if style == 'multi1':
        return ['multi', ['k1'], [[i // 2] for i in range(n)]]
    raise ValueError(style)


def right_index(style, n):
    if style in RANGE_STYLES:
        return list(RANGE_STYLES[style][0])
    if style == 'range':
        return ['range']
    if style == 'named-str':
        return ['plain', 'ri', ['r' + str(i // 2) for i in range(n)]]
    if style == 'unnamed-int':
        return ['plain', None, [100 - (i % 2) for i in range(n)]]
    if style == 'multi2':
        return ['multi', ['r1', 'r2'], [['x' + str(i % 2), i // 2] for i in range(n)]]
    if style == 'multi1':
        return ['multi', ['r1'], [['y' + str(i // 2)] for i in range(n)]]
    raise ValueError(style)


# (left index, left geom name, left geom position, left cols, right index, right geom name,
#  right geom position, right cols, lsuffix, rsuffix)
META = [
    ('range', 'geometry', 0, ['a'], 'range', 'geometry', 0, ['a', 'c'], 'left', 'right'),
    ('named-int', 'geometry', 1, ['a', 'b'], 'named-str', 'geometry', 2, ['a', 'c'], 'left', 'right'),
    ('unnamed-str', 'pt', 9, ['a', 'b', 'c'], 'unnamed-int', 'shape', 0, ['c', 'd', 'a'], 'x', 'y'),
    ('multi2', 'geometry', 0, ['v'], 'multi2', 'geometry', 9, ['v'], 'left', 'right'),
    ('multi3', 'pt', 1, ['a', 'geometry'], 'named-str', 'geometry', 1, ['pt', 'a'], 'L', 'R'),
    ('named-like-column', 'geometry', 0, ['a', 'index_x'], 'multi2', 'geometry', 0, ['index_y', 'b'], '', 'r'),
    ('range', 'geometry', 0, [], 'range', 'geometry', 0, [], 'left', 'right'),
    ('named-int', 'g', 0, ['a', 'b', 'c', 'v'], 'unnamed-int', 'g', 1, ['a', 'b', 'c', 'v'], 'x', 'y'),
    # name clashes with the generated index columns -> ValueError
    ('range', 'geometry', 0, ['index_right'], 'range', 'geometry', 0, ['a'], 'left', 'right'),
    ('range', 'geometry', 0, ['a'], 'named-str', 'geometry', 0, ['index_left'], 'left', 'right'),
    ('range', 'geometry', 0, ['index_right0'], 'multi2', 'geometry', 0, ['a'], 'left', 'right'),
    ('multi2', 'geometry', 0, ['a'], 'range', 'geometry', 0, ['index_left1'], 'left', 'right'),
    # not a clash: the generated names differ
    ('range', 'geometry', 0, ['index_right'], 'multi2', 'geometry', 0, ['index_left'], 'left', 'right'),
    ('range', 'geometry', 0, ['index_left'], 'range', 'geometry', 0, ['index_right'], 'x', 'y'),
    # equal suffixes -> ValueError
    ('range', 'geometry', 0, ['a'], 'range', 'geometry', 0, ['a'], 's', 's'),
    ('multi2', 'geometry', 0, ['index_s0'], 'range', 'geometry', 0, ['a'], 's', 's'),
    # pandas: a suffixed name collides with an existing column -> MergeError
    ('range', 'geometry', 0, ['a', 'a_right'], 'range', 'geometry', 0, ['a'], 'left', 'right'),
    ('range', 'geometry', 0, ['a'], 'named-str', 'geometry', 0, ['a', 'a_left'], 'left', 'right'),
    # suffixed name equal to an unrelated, non-clashing name on the same side is fine? (no: MergeError too)
    ('range', 'geometry', 0, ['b'], 'range', 'geometry', 0, ['b', 'b_right'], 'left', 'right'),
]
# RangeIndex labels != positions, on the left, on the right, on both
META_RANGE = [
    ('range-offset', 'geometry', 0, ['a'], 'range', 'geometry', 0, ['a', 'c'], 'left', 'right'),
    ('range', 'geometry', 0, ['a'], 'range-offset', 'geometry', 0, ['a', 'c'], 'left', 'right'),
    ('iloc-tail', 'geometry', 1, ['a', 'b'], 'iloc-step', 'geometry', 0, ['c'], 'left', 'right'),
    ('iloc-step', 'pt', 0, ['a'], 'iloc-tail', 'shape', 1, ['a'], 'x', 'y'),
    ('iloc-mid', 'geometry', 0, [], 'named-str', 'geometry', 0, ['a'], 'left', 'right'),
    ('named-int', 'geometry', 0, ['a'], 'iloc-mid', 'geometry', 2, ['a', 'b'], 'left', 'right'),
    ('range-named', 'geometry', 0, ['a'], 'range-negative', 'geometry', 0, ['a'], 'L', 'R'),
    ('range-negative', 'geometry', 0, ['v'], 'range-named', 'geometry', 0, ['v'], 'left', 'right'),
]
META = META + META_RANGE
# the configurations the geometry scopes (A), (B) cycle through
META_GEOM = META[:8] + META_RANGE
# pending the decision on findings F1 (1-level MultiIndex loses its name) and F2 (suffix 'x' /
# 'x0' with a MultiIndex -> KeyError): modelled faithfully and compared with the model
META_FINDINGS = [
    ('multi1', 'geometry', 0, ['a'], 'range', 'geometry', 0, ['a'], 'left', 'right'),
    ('range', 'geometry', 0, ['a'], 'multi1', 'geometry', 0, ['a'], 'left', 'right'),
    ('multi2', 'geometry', 0, ['a'], 'range', 'geometry', 0, ['c'], 'x', 'x0'),
    ('range', 'geometry', 0, ['a'], 'multi2', 'geometry', 0, ['c'], 'y1', 'y'),
]


def make_specs(meta, left_elems, lsub, kind, right_elems, rsub):
    (lix, lg, lgp, lcols, rix, rg, rgp, rcols, ls, rs) = meta
    lspec = {'kind': 'point', 'subtype': lsub, 'elems': left_elems, 'geom': lg, 'gpos': lgp,
             'cols': list(lcols), 'id': 'lid', 'index': left_index(lix, len(left_elems))}
    rspec = {'kind': kind, 'subtype': rsub, 'elems': right_elems, 'geom': rg, 'gpos': rgp,
             'cols': list(rcols), 'id': 'rid', 'index': right_index(rix, len(right_elems))}
    for spec, style in ((lspec, lix), (rspec, rix)):
        if style in RANGE_STYLES and RANGE_STYLES[style][1] is not None:
            spec['slice'] = list(RANGE_STYLES[style][1])
    return lspec, rspec, ls, rs


# --------------------------------------------------------------------------
# one sjoin call
# --------------------------------------------------------------------------
class Frames:
    """the real frames of a (lspec, rspec) pair and what is derived from them once"""

    def __init__(self, lspec, rspec, boxes_oracle=False, export=True):
        # export=False: coordinates the integer model cannot take (harness/c05_float.py); such
        # frames are never compared with Model/Sjoin.v (run_call(model=False))
        self.lspec, self.rspec = lspec, rspec
        self.ldf, self.lorder = U.build_frame(lspec, 'L')
        self.rdf, self.rorder = U.build_frame(rspec, 'R')
        self.larr = self.ldf[lspec['geom']].array
        self.rarr = self.rdf[rspec['geom']].array
        self.lrec = C.export_fixarr(self.larr) if export else None
        self.rshapes = U.export_right(self.rarr, rspec['kind']) if export else None
        self.lmeta = U.fmeta_term(lspec, self.lorder)
        self.rmeta = U.fmeta_term(rspec, self.rorder)
        self.closed = U.rings_closed(rspec['kind'], rspec['elems'])
        def nz(arr):
            v = np.asarray(arr.flat_values, dtype='float64') if len(arr) else np.zeros(0)
            return bool(np.any(np.signbit(v) & (v == 0)))
        self.negzero = ('left' if nz(self.larr) else '') + ('right' if nz(self.rarr) else '')
        self._brute = False
        if boxes_oracle:
            self._brute = boxes_pairs(lspec['elems'], rspec['elems'])

    def brute(self):
        if self._brute is False:
            self._brute = U.brute_pairs(self.larr, self.rarr)
        return self._brute


def boxes_pairs(points, boxes):
    """pair set for right elements that are single axis-parallel squares sq(x0, y0, x1, y1) and
    points none of which lies on a square's boundary: numpy comparison of coordinates (used where
    the scalar brute force would need > 10^6 calls)"""
    px = np.array([np.nan if p is None else p[0] for p in points], dtype='float64')
    py = np.array([np.nan if p is None else p[1] for p in points], dtype='float64')
    out = []
    for r, b in enumerate(boxes):
        if not b:
            continue
        ring = b[0]
        xs, ys = ring[0::2], ring[1::2]
        x0, x1, y0, y1 = min(xs), max(xs), min(ys), max(ys)
        assert len(b) == 1 and sorted(set(xs)) == [x0, x1] and sorted(set(ys)) == [y0, y1]
        assert not np.any(((px == x0) | (px == x1)) & (py >= y0) & (py <= y1))
        assert not np.any(((py == y0) | (py == y1)) & (px >= x0) & (px <= x1))
        for l in np.nonzero((px > x0) & (px < x1) & (py > y0) & (py < y1))[0]:
            out.append((int(l), r))
    return sorted(out)


def expected_rows(how, pairs, nl, nr):
    rows = [(l, r) for l, r in pairs]
    if how == 'left':
        hit = {l for l, _ in pairs}
        rows += [(l, None) for l in range(nl) if l not in hit]
    elif how == 'right':
        hit = {r for _, r in pairs}
        rows += [(None, r) for r in range(nr) if r not in hit]
    return sorted(rows, key=U.orow_key)


def gen_index_names(spec, suffix):
    ix = spec['index']
    if ix[0] == 'multi' and len(ix[1]) > 1:
        return [f'index_{suffix}{l}' for l in range(len(ix[1]))]
    return [f'index_{suffix}']


def run_call(rep, fr, how, ls, rs, batch, meta_desc, model=True):
    """run the real sjoin once; direct checks; queue the model comparison.
    Returns the joined rows [(left position | None, right position | None)], sorted, when sjoin
    returned a frame that was judged; None otherwise"""
    assert fr.lrec is not None or not model
    from spatialpandas import GeoDataFrame, sjoin
    lspec, rspec = fr.lspec, fr.rspec
    replay = {'left': lspec, 'right': rspec, 'how': how, 'lsuffix': ls, 'rsuffix': rs}
    if not model:
        replay['model'] = False
    rep.evaluations += 1
    rep.count('how:' + how)
    rep.count('right:' + rspec['kind'])
    if fr.negzero:
        rep.count('has_negative_zero:' + fr.negzero)
    il, ir = gen_index_names(lspec, ls), gen_index_names(rspec, rs)
    excl = U.excluded_input(how, ls, rs, lspec, fr.lorder, rspec, fr.rorder, il, ir)
    try:
        out = sjoin(fr.ldf, fr.rdf, how=how, lsuffix=ls, rsuffix=rs)
    except Exception as e:  # noqa: BLE001
        code = U.classify_exception(e)
        rep.count('raised:' + U.ERR_CLASS[code])
        if excl:
            rep.count('excluded-input:' + excl)
        else:
            rep.nontrivial(('err', code, how, repr(meta_desc)))
        res = Some(Raw(f'(inl {code}%nat)'))
        batch.append((fr, how, ls, rs, res, {**replay, 'raised': f'{type(e).__name__}: {str(e)[:200]}'}))
        return
    if excl:
        # outside the property: whatever comes back is not judged (the kernel verdict agrees: 2)
        rep.count('excluded-input:' + excl)
        batch.append((fr, how, ls, rs, None, replay))
        return
    # --- result type and shape
    if not isinstance(out, GeoDataFrame):
        rep.violation('not-geodataframe', f'sjoin returned {type(out).__name__}', replay)
        return
    try:
        rows = U.read_rows(out)
    except Exception as e:  # noqa: BLE001
        rep.violation('id-columns-lost', f'cannot read the joined rows: {e}', replay)
        return
    nl, nr = len(fr.larr), len(fr.rarr)
    # --- which geometry survives, with its dtype
    src_geom, src_df = (lspec['geom'], fr.ldf) if how != 'right' else (rspec['geom'], fr.rdf)
    geom_cols = [c for c in out.columns if U._is_geom(out[c])]
    if len(geom_cols) != 1 or out[geom_cols[0]].dtype != src_df[src_geom].dtype:
        rep.violation(f'geometry-dtype:{how}',
                      f'geometry columns of the result {geom_cols!r} / dtype differ from the kept frame',
                      replay)
        return
    try:
        active = out.geometry.name
    except Exception:  # noqa: BLE001
        active = None
    if active != geom_cols[0]:
        rep.violation(f'active-geometry:{how}', f'active geometry {active!r}, geometry column {geom_cols[0]!r}',
                      replay)
    # --- pandas contracts: values and labels of every row
    bad = U.check_values(out, rows, how, ls, rs, fr.ldf, lspec, fr.lorder, fr.rdf, rspec, fr.rorder, il, ir)
    if bad:
        rep.violation(f'values:{how}', 'a joined row does not carry its source rows\' values: ' + '; '.join(bad),
                      replay)
    # --- index names (property level); a 1-level MultiIndex is finding F1 (decision pending)
    kept = lspec if how != 'right' else rspec
    if list(out.index.names) != U.index_names_of(kept):
        rep.violation(f'index-names:{how}',
                      f'index names {list(out.index.names)!r}, kept frame has {U.index_names_of(kept)!r}',
                      replay)
    # --- brute force: scalar Point.intersects, no index, no boxes
    if fr.closed:
        bp = fr.brute()
        if bp is not None:
            want = expected_rows(how, bp, nl, nr)
            got = sorted(rows, key=U.orow_key)
            if got != want:
                missing = [r for r in want if r not in got][:4]
                extra = [r for r in got if r not in want][:4]
                rep.violation(f'rows-bruteforce:{how}',
                              f'joined rows differ from the brute-force pair set: missing {missing}, extra {extra}',
                              {**replay, 'rows': got, 'expected': want})
            if bp:
                rep.count('has_pairs')
            cnt = {}
            for l, _ in bp:
                cnt[l] = cnt.get(l, 0) + 1
            if any(v > 1 for v in cnt.values()):
                rep.count('one_point_many_shapes')
    else:
        rep.count('unclosed_ring(model only)')
    if any(a is None or b is None for a, b in rows):
        rep.count('has_unmatched_rows')
    if not model:
        rep.count('bruteforce_only(large)')
        rep.nontrivial((how, ls, rs, 'large', len(fr.larr),
                        repr(fr.rshapes) if fr.rshapes is not None else repr((lspec['elems'], rspec['elems'])),
                        repr(meta_desc)))
        return sorted(rows, key=U.orow_key)
    # --- model comparison (queued)
    res = Some(Raw('(inr ' + C.coq((U.rows_term(rows), [str(c) for c in out.columns],
                                    [None if n is None else Some(str(n)) for n in out.index.names],
                                    str(geom_cols[0]), U.bounds_term(fr.rdf[rspec['geom']].bounds.values)))
                   + ')'))
    batch.append((fr, how, ls, rs, res, replay))
    rep.nontrivial((how, ls, rs, repr(fr.lrec), repr(fr.rshapes), repr(meta_desc)))
    if len(lspec['elems']) <= 40:
        rep.sample({'how': how, 'left': lspec['elems'], 'right_kind': rspec['kind'], 'right': rspec['elems'],
                    'rows': rows, 'columns': list(out.columns), 'index_names': list(out.index.names)}, cap=4)
    return sorted(rows, key=U.orow_key)


def case_term(fr, how, ls, rs):
    return (Raw(U.HOWS[how]), ls, rs, fr.lmeta, fr.rmeta, fr.lrec, fr.rshapes)


def check_guards(rep, frames):
    """the guards of the theorems (Model/SjoinWf.v), evaluated by the kernel on every real right
    geometry: well-formed scalar buffers always; rings closed exactly when the generator closed them"""
    if not frames:
        return
    cases = [fr.rshapes for fr in frames]
    ress = [[(True, True) if sh is None else
             (True, fr.closed or U.rings_closed(fr.rspec['kind'], [el]))
             for sh, el in zip(fr.rshapes, fr.rspec['elems'])] for fr in frames]
    bad = C.coq_mismatches(IMPORTS, 'shapes_wf_case', 'list (option shape)', 'list (bool * bool)',
                           cases, ress, shard=400)
    for i in bad[:5]:
        fr = frames[i]
        model = C.coq_eval(IMPORTS, f'shapes_wf_case {C.coq(cases[i])}')
        rep.violation(f'guards:{fr.rspec["kind"]}',
                      'a real right geometry does not satisfy the well-formedness / closed-ring guard '
                      'of the theorems as expected',
                      {'right': fr.rspec, 'guards_only': True, 'expected': ress[i], 'model': model})
    rep.extra['guard_checks'] = rep.extra.get('guard_checks', 0) + len(frames)
    frames.clear()


def flush(rep, batch):
    """kernel verdicts (Model/SjoinHarness.v sjoin_verdict) on the queued calls"""
    if not batch:
        return
    cases = [(case_term(fr, how, ls, rs), res) for fr, how, ls, rs, res, _ in batch]
    ty = f'({CASE_TY}) * ({RES_TY})'
    nonzero = C.coq_mismatches(IMPORTS, VERDICT, ty, 'nat', cases, [Nat(0)] * len(cases), shard=150)
    if nonzero:
        sub = [cases[i] for i in nonzero]
        not2 = set(C.coq_mismatches(IMPORTS, VERDICT, ty, 'nat', sub, [Nat(2)] * len(sub), shard=150))
        rest = [nonzero[k] for k in sorted(not2)]
        rep.count('kernel:excluded-input', len(nonzero) - len(rest))
        order_only = set()
        if rest:
            sub = [cases[i] for i in rest]
            not3 = set(C.coq_mismatches(IMPORTS, VERDICT, ty, 'nat', sub, [Nat(3)] * len(sub), shard=150))
            order_only = {rest[k] for k in range(len(rest)) if k not in not3}
        rep.count('column-order-differs(names agree; order is not promised)', len(order_only))
        shown = 0
        for i in rest:
            fr, how, ls, rs, res, replay = batch[i]
            if i in order_only:
                continue
            if res is None:
                # the harness's own statement of "excluded input" disagrees with the model's: nothing
                # was observed about the implementation
                rep.count('internal-unavailable:exclusion-predicate')
                continue
            if shown >= 10:
                break
            shown += 1
            model = C.coq_eval(IMPORTS, f'{FN} {C.coq(cases[i][0])}')
            sig = (f'raises:{replay["raised"].split(":")[0]}' if 'raised' in replay
                   else f'model-differs:{how}:{fr.rspec["kind"]}')
            rep.violation(sig, 'sjoin differs from the model (row multiset / column names / index names / '
                               'geometry column / bounds / exception class)',
                          {**replay, 'impl': C.coq(res), 'model': model})
    batch.clear()


# --------------------------------------------------------------------------
# generation
# --------------------------------------------------------------------------
HOW3 = ['inner', 'left', 'right']
SUBS = ['float64', 'float32', 'int64', 'int32', 'int16']


def gen_cases(rep, tier):
    """yields (lspec, rspec, ls, rs, hows, meta_desc)"""
    rng = rep.rng
    quick = tier == 'quick'
    k = 0
    # (A) bounding-box edges: the whole 5x5 grid (+ duplicates, missing, far points) against
    #     every catalogue shape alone and in frames of three (shape, missing/empty, shape)
    for kind in KINDS:
        cat = CATALOGUE[kind]
        frames = [[e] for e in cat]
        frames += [[cat[i], None, cat[(i + 1) % len(cat)]] for i in range(len(cat))]
        frames.append(list(cat))
        frames.append([None] * 2)
        frames.append([])
        for j, els in enumerate(frames):
            meta = META_GEOM[k % len(META_GEOM)]
            k += 1
            lsub = SUBS[k % 5]
            rsub = 'float64' if kind == 'point' else SUBS[(k // 5) % 5]
            hows = HOW3 if (not quick or j % 3 == 0) else [HOW3[k % 3]]
            yield (*make_specs(meta, [None if p is None else list(p) for p in LEFT_GRID], lsub, kind, els, rsub),
                   hows, meta)
    # (B) small scopes: every left array of <= 2 (quick) / 3 slots over {missing, 3 points} against
    #     every right frame of <= 2 rows over {missing, empty, 3 shapes} of every kind
    psub = [None, [0, 0], [2, 2], [4, 2]]
    nleft = 2 if quick else 3
    lefts = [list(t) for n in range(nleft + 1) for t in itertools.product(psub, repeat=n)]
    for kind in KINDS:
        cat = CATALOGUE[kind]
        sub = [None] + ([[]] if kind != 'point' else []) + cat[:3]
        rights = [list(t) for n in range(3) for t in itertools.product(sub, repeat=n)]
        combos = [(le, ri) for le in lefts for ri in rights]
        if quick:
            combos = rng.sample(combos, min(len(combos), 110))
        for le, ri in combos:
            meta = META_GEOM[k % len(META_GEOM)]
            k += 1
            yield (*make_specs(meta, le, 'float64', kind, ri, 'float64'), [HOW3[k % 3]] if quick else HOW3, meta)
    # (C) metadata: every META row (and the rows of the pending findings) x every how on a fixed
    #     small geometry, plus empty frames on either side
    geoms = [([[1, 1], [1, 1], None, [5, 5], [3, 3]], 'polygon', [[sq(0, 0, 2, 2)], [sq(0, 0, 4, 4)], None, [], [sq(7, 7, 8, 8)]]),
             ([], 'polygon', [[sq(0, 0, 2, 2)]]),
             ([[1, 1]], 'line', []),
             ([], 'multipoint', [])]
    for meta in META + META_FINDINGS:
        for le, kind, ri in (geoms if not quick else geoms[:2] + [geoms[2 + k % 2]]):
            k += 1
            yield (*make_specs(meta, le, 'float64', kind, ri, 'float64'), HOW3, meta)
    # (D) seeded random structured stream
    nrand = 330 if quick else 4500
    for _ in range(nrand):
        kind = rng.choice(KINDS)
        le = rand_points(rng, rng.choice([0, 1, 2, 3, 5, 8]), missing_p=rng.choice([0, 0.15, 0.4]))
        ri = [rand_right_element(rng, kind, le) for _ in range(rng.choice([0, 1, 2, 3, 5]))]
        meta = rng.choice(META) if rng.random() < 0.9 else rng.choice(META_FINDINGS)
        lsub = rng.choice(SUBS)
        rsub = 'float64' if kind == 'point' else rng.choice(SUBS)
        if lsub.startswith('float') and rng.random() < 0.3:
            le = [negzero(p, rng.choice(['x', 'y', 'xy'])) for p in le]
        if rsub.startswith('float') and rng.random() < 0.3:
            ri = [negzero(e, rng.choice(['x', 'y', 'xy'])) for e in ri]
        hows = HOW3 if not quick else [rng.choice(HOW3)]
        yield (*make_specs(meta, le, lsub, kind, ri, rsub), hows, meta)
    # (F) signed zeros: coinciding points / vertices / segment end points / polygon vertices whose
    #     zero coordinate is -0.0 on one side and +0.0 on the other (x, y, both; float64, float32)
    zleft = [[0, 0], [0, 2], [2, 0], [4, 4], None, [0, 0], [1, 1], [0, 4], [4, 0], [2, 2], [0, 1], [3, 0]]
    modes = [('x', ''), ('y', ''), ('xy', ''), ('', 'x'), ('', 'y'), ('', 'xy'), ('x', 'y'), ('xy', 'xy')]
    for kind in KINDS:
        zs = [e for e in CATALOGUE[kind] if has_zero(e)][:5]
        for (lw, rw), sub in itertools.product(modes, ['float64', 'float32']):
            le = [negzero(p, lw) for p in zleft]
            ri = [negzero(e, rw) for e in zs] + [None]
            meta = META_GEOM[k % len(META_GEOM)]
            k += 1
            hows = HOW3 if (not quick or k % 4 == 0) else [HOW3[k % 3]]
            yield (*make_specs(meta, le, sub, kind, ri, sub), hows, ('signed-zero', lw, rw, sub))
    # (E) polygons whose rings are not closed: compared with the model only (the scalar
    #     Point.intersects may report a hit outside the bounding box there)
    for ring in ([0, 0, 0, 2], [0, 0, 4, 0, 4, 4], [1, 1, 3, 1, 3, 3, 1, 3]):
        meta = META[0]
        yield (*make_specs(meta, [[-5, 1], [2, 1], [5, 1], [2, 2]], 'float64', 'polygon', [[ring]], 'float64'),
               HOW3, meta)


def large_cases(tier):
    """left frames longer than the default page size (512) of the spatial index that sjoin builds:
    multi-page trees, pages holding only missing points, NaN internal nodes.
    yields (lspec, rspec, ls, rs, [(how, compare with the model?)], meta)"""
    def grid(n, w=40):
        return [[i % w, i // w] for i in range(n)]
    right = [[sq(0, 0, 4, 4)], [sq(3, 3, 10, 8)], None, [sq(100, 100, 101, 101)], [],
             [sq(30, 20, 45, 40), sq(32, 22, 34, 24, cw=True)], [sq(-5, -5, 60, 60)]]
    v300 = grid(300, 20)
    lefts = [
        ('600 missing + 300 valid', [None] * 600 + v300, True),
        ('300 valid + 600 missing', v300 + [None] * 600, False),
        ('1500 valid + 700 missing (interleaved blocks)',
         [p for b in range(7) for p in (grid(1500)[b * 215:(b + 1) * 215] + [None] * 100)][:2200], False),
        ('1100 valid', grid(1100), False),
        ('513 missing + 1 valid', [None] * 513 + [[2, 2]], False),
        ('1030 valid, all one point + 520 missing', [[3, 3]] * 1030 + [None] * 520, False),
    ]
    metas = [META[0], META_RANGE[2], META[1]]
    for k, (name, le, with_model) in enumerate(lefts if tier != 'quick' else lefts[:5]):
        meta = metas[k % len(metas)]
        ri = right if k != 5 else right[:4]
        hows = [('inner', with_model), ('left', False), ('right', with_model)]
        yield (*make_specs(meta, le, 'float64', 'polygon', ri, 'float64'), hows, ('large', name))


def validation_checks(rep):
    """argument validation of sjoin (outside the model: how / op / frame types)"""
    import pandas as pd
    from spatialpandas import sjoin
    lspec, rspec, _, _ = make_specs(META[0], [[1, 1]], 'float64', 'polygon', [[sq(0, 0, 2, 2)]], 'float64')
    fr = Frames(lspec, rspec)
    probes = [('how', dict(how='outer')), ('how', dict(how='cross')), ('op', dict(op='within')),
              ('op', dict(op='contains'))]
    for what, kw in probes:
        rep.evaluations += 1
        try:
            sjoin(fr.ldf, fr.rdf, **kw)
            rep.violation(f'validation:{what}', f'sjoin accepted {kw!r}', {'kwargs': kw, 'validation': True})
        except ValueError:
            rep.count('validation-rejected')
        except Exception as e:  # noqa: BLE001
            rep.violation(f'validation:{what}', f'sjoin({kw!r}) raised {type(e).__name__}', {'kwargs': kw, 'validation': True})
    for what, args in (('left-type', (pd.DataFrame(fr.ldf), fr.rdf)), ('right-type', (fr.ldf, pd.DataFrame({'a': [1]})))):
        rep.evaluations += 1
        try:
            sjoin(*args)
            rep.violation(f'validation:{what}', 'sjoin accepted a plain DataFrame', {'validation': True, 'which': what})
        except ValueError:
            rep.count('validation-rejected')
        except Exception as e:  # noqa: BLE001
            rep.violation(f'validation:{what}', f'raised {type(e).__name__}', {'validation': True, 'which': what})


def run(rep):
    import numba
    numba.set_num_threads(1)     # the parallel region start-up dominates on a loaded machine
    tier = getattr(rep, 'tier_run', rep.tier)
    rep.rule = ('left point frames (5x5 grid with duplicates / missing / far points; every array of <=2-3 '
                'slots over {missing, 3 points}; random n<=8 with duplicates and missing; 5 subtypes) x right '
                'frames of the 7 geometry kinds (catalogue shapes alone and in threes with missing / empty '
                'rows, overlapping and nested polygons, far shapes, zero rows; every frame of <=2 rows over '
                '{missing, empty, 3 shapes}; random structured) x how in {inner,left,right} x 27 metadata '
                'configurations (index kinds incl. RangeIndex whose labels are not the positions - offset / '
                'stepped / negative / named, and frames cut out of longer ones by iloc[12:], iloc[1::2], '
                'iloc[3::3] on either side; geometry column name/position, clashing payload names, suffix '
                'choices, generated-name clashes, equal suffixes, MergeError); left frames longer than the '
                'default index page size 512 (600 missing + 300 valid, 1500 valid + 700 missing, 1100 valid, '
                '513 missing + 1 valid; 1140 scattered points each queried by its own square) against the '
                'brute-force pair set; coordinates that are not small integers: near-ties (cross product '
                '+-1) on primitive segments / triangle edges of magnitude 2^8..2^25 (float64, int64, int32) '
                'against the model, every catalogue frame and a random stream under the exact maps '
                'v -> v*2^k + t (k = -200..200, dyadic t up to 2^50: tiny extents, tiny extents at large '
                'offsets, huge extents) against its own base run, and arbitrary float64 frames (decimal '
                'degrees in 1e-6 steps, 0.1-grids, 1e-7-sized, 2^-20 steps around integers, random doubles; '
                'points interpolated on segments +-2 ulps, inside a segment box off the segment) against '
                'the binary64 pair-table model Model/SjoinFloat.v bit for bit; a case is non-trivial when '
                'sjoin returned a frame or a modelled error; distinct = distinct (how, suffixes, exported '
                'buffers, metadata)')
    validation_checks(rep)
    batch, frames = [], []
    for lspec, rspec, ls, rs, hows, meta in gen_cases(rep, tier):
        try:
            fr = Frames(lspec, rspec)
        except Exception as e:  # noqa: BLE001
            rep.count('construct_error:' + type(e).__name__)
            continue
        frames.append(fr)
        for how in hows:
            run_call(rep, fr, how, ls, rs, batch, meta)
        if len(batch) >= 1200:
            flush(rep, batch)
            check_guards(rep, frames)
    # one tiny square around every one of 1100 scattered points (+ 40 missing): every row of a
    # three-page tree has to be found by its own query
    pts = [[4 * ((i * 389) % 1103), 4 * ((i * 733) % 1103)] for i in range(1100)]
    lspec, rspec, ls, rs = make_specs(META[0], pts[:700] + [None] * 40 + pts[700:], 'float64', 'polygon',
                                      [[sq(p[0] - 1, p[1] - 1, p[0] + 1, p[1] + 1)] for p in pts], 'float64')
    fr = Frames(lspec, rspec, boxes_oracle=True)
    frames.append(fr)
    rep.count('large_left_frame')
    for how in (HOW3 if tier != 'quick' else ['inner']):
        run_call(rep, fr, how, ls, rs, batch, ('large', 'one query per row'), model=False)
    for lspec, rspec, ls, rs, hows, meta in large_cases(tier):
        fr = Frames(lspec, rspec)
        frames.append(fr)
        rep.count('large_left_frame')
        for how, with_model in hows:
            run_call(rep, fr, how, ls, rs, batch, meta, model=with_model)
    flush(rep, batch)
    check_guards(rep, frames)
    # coordinates that are not small integers (harness/c05_float.py): (Z) near-ties at magnitude
    # 2^8..2^25 against the model; (S) the same frames under exact maps v -> v*2^k + t against
    # their base run; (F) arbitrary float64 frames against the binary64 pair-table model
    F.run_near_ties(rep, batch, frames, tier)
    F.run_scaled(rep, batch, frames, tier)
    flush(rep, batch)
    check_guards(rep, frames)
    F.run_float(rep, tier)
    F.probe_degenerate_extent(rep)


def replay(rep, rp):
    import numba
    numba.set_num_threads(1)
    if rp.get('xform'):
        return F.replay_scaled(rep, rp)
    if rp.get('float_model'):
        return F.replay_float(rep, rp)
    if rp.get('validation'):
        validation_checks(rep)
        return not rep.violations
    if rp.get('guards_only'):
        lspec, _, _, _ = make_specs(META[0], [[1, 1]], 'float64', 'polygon', [], 'float64')
        check_guards(rep, [Frames(lspec, rp['right'])])
        for v in rep.violations:
            print(v['what'], v['replay'].get('expected'), v['replay'].get('model'))
        return not rep.violations
    try:
        fr = Frames(rp['left'], rp['right'])
    except ValueError:
        if rp.get('model', True):
            raise
        fr = Frames(rp['left'], rp['right'], export=False)      # non-integral coordinates
    batch = []
    run_call(rep, fr, rp['how'], rp['lsuffix'], rp['rsuffix'], batch, None, model=rp.get('model', True))
    for v in rep.violations:
        print('direct check:', v['signature'], '-', v['what'])
    ok = not rep.violations
    if batch:
        fr, how, ls, rs, res, _ = batch[0]
        term = case_term(fr, how, ls, rs)
        verdict = C.coq_eval(IMPORTS, f'{VERDICT} ({C.coq(term)}, {C.coq(res)})')
        print('impl :', C.coq(res))
        print('model:', C.coq_eval(IMPORTS, f'{FN} {C.coq(term)}'))
        print('verdict (0 agree, 1 differ, 2 excluded input, 3 column order only):', verdict)
        ok = ok and verdict.strip() in ('0', '2', '3', '0%nat', '2%nat', '3%nat')
    return ok
