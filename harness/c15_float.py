"""C15 on coordinates that are NOT small integers -- the part of the quantifier ("float and
signed-integer subtypes", every value such an array can hold) that the integer model
coq/Model/Orient.v and the float()-based comparisons of harness/c15.py cannot see.

Two classes, each a set of value families applied to the lattice shapes of c15.py (every
winding pattern of shells and holes, degenerate rings, 1..3 rings, 0..3 parts, missing, sliced):

* float coordinates: lattice * 2^e for e from -530 to 500 (+ a large dyadic offset, so that the
  extent is tiny relative to the magnitude): areas of 2^-28 (a 7 m footprint in degrees), 1e-30,
  subnormal, 1e300 -- all EXACT in binary64, so "non-zero area" is decided by exact rational
  arithmetic and the orientation / zero-area / idempotence / area clauses are checked without any
  tolerance; lon/lat-like many-digit decimals with steps of 1e-3..1e-9, decimals k/10, k/3,
  jittered 53-bit doubles, -0.0, coordinates around 2^52 / 1e16, products that overflow to inf
  or underflow to 0; the same for float32.
* integer coordinates at the edge of their dtype and beyond 2^53 (int64: +-2^53+1, 2^60, 2^62,
  +-(2^63-1); 2^31 / 2^40 inside an int64; int32 around 2^24 and 2^31; int16 around 2^11 and
  2^15), with steps 1, 3, 2^10, 2^20.  Values are compared as Python ints (never through
  float()): a ring must come back as exactly its vertices, in the same or reversed order.

Oracles.  (1) coq/Model/FloatOrient.v evaluated by the Coq kernel on the exported buffers: the
decision is taken on the binary64 areas of Model/FloatMeasures.v (bit exact), the values are moved
unconverted; the decoded elements of oriented() and oriented().oriented() must be equal bit for
bit / integer for integer (signature oriented-differs-exact:<kind>).  (2) On the real results, by
exact rational arithmetic: structure, missing, every ring kept or exactly reversed, input bytes
unchanged; and -- for arrays all of whose rings have a binary64 area (of the ring and of its
reverse) of the sign of the exact area, which the harness decides with a transcription of
compute_area in Python floats used ONLY to classify -- shells of non-zero area counter-clockwise,
holes clockwise, zero-area rings untouched, idempotence; in the exact (dyadic) families also
area = (|shell| - sum |holes|) / 2 exactly.  Arrays with a ring whose binary64 area loses the sign
(cancellation at 2^53, underflow) or is not finite (overflow) are outside what a float64 area can
decide: model = code is still compared, the class is counted (float_area_unreliable:*), never
reported.
"""
import math
from fractions import Fraction

import numpy as np

from . import common as C
from . import geomgen as G
from . import c14_util as U

IMPORTS = ('Model.Num Model.Arrow Model.Measures Model.Orient Model.FloatMeasures Model.FloatOrient '
           'Spec.MeasuresSpec.\nFrom Coq Require Import PrimFloat')
_DEC = 'list (option (list (list (list {t}))))'
F_FN = "fun '(k, a, fv) => f_oriented_float k a fv"
F_TY = 'kind * listarr * list float'
F_RES = f"option ({_DEC.format(t='float')} * {_DEC.format(t='float')})"
Z_FN = "fun '(k, a, zv) => f_oriented_int k a zv"
Z_TY = 'kind * listarr * list Z'
Z_RES = f"option ({_DEC.format(t='Z')} * {_DEC.format(t='Z')})"

VMAX = 33          # lattice coordinates of the shapes handed in are in [0, VMAX]
MAXV = 4           # violations reported per signature


class Ctx:
    def __init__(self):
        self.f = U.Batch(IMPORTS, F_FN, F_TY, F_RES)
        self.z = U.Batch(IMPORTS, Z_FN, Z_TY, Z_RES)
        self.nviol = {}

    def flush(self, rep):
        self.f.flush(rep, explain=3)
        self.z.flush(rep, explain=3)


def _violation(rep, ctx, sig, what, meta):
    ctx.nviol[sig] = ctx.nviol.get(sig, 0) + 1
    if ctx.nviol[sig] <= MAXV:
        rep.violation(sig, what, meta)
    else:
        rep.count('more:' + sig)


# ---------------------------------------------------------------------------
# exact values: Python int for the integer subtypes, Python float (exact widening) for floats
# ---------------------------------------------------------------------------
def flit(x):
    if x != x:
        return 'nan'
    if x == math.inf:
        return 'infinity'
    if x == -math.inf:
        return 'neg_infinity'
    return '(' + x.hex() + ')%float'


def _pv(v):
    return float(v) if isinstance(v, (np.floating, float)) else int(v)


def veq(a, b):
    """the same value: integers equal / floats the same bits (NaN = NaN, -0.0 != 0.0)"""
    if isinstance(a, float) != isinstance(b, float):
        return False
    if isinstance(a, float):
        if a != a or b != b:
            return a != a and b != b
        return a == b and math.copysign(1.0, a) == math.copysign(1.0, b)
    return a == b


def same(a, b):
    if isinstance(a, list) and isinstance(b, list):
        return len(a) == len(b) and all(same(x, y) for x, y in zip(a, b))
    if a is None or b is None or isinstance(a, list) or isinstance(b, list):
        return a is None and b is None
    return veq(a, b)


def decode_exact(arr):
    """U.decode without the float() round trip: elements as nested lists of exact values"""
    data = U.pa_of(arr)
    vb, offs, _ = U._levels(data)
    vals = U._vals(data)
    bits = C._bits(vb, data.offset + len(data))

    def rec(level, lo, hi):
        if level == len(offs):
            return [_pv(v) for v in vals[lo:hi]]
        o = offs[level]
        return [rec(level + 1, int(o[j]), int(o[j + 1])) for j in range(lo, hi)]
    out = []
    for i in range(len(data)):
        s = data.offset + i
        out.append(None if bits is not None and not bits[s] else rec(0, s, s + 1)[0])
    return out


def export_exact(arr):
    """(listarr without values, exact values of the values buffer)"""
    data = U.pa_of(arr)
    vb, offs, _ = U._levels(data)
    if not offs or U.is_null_typed(data):
        raise ValueError('null-typed array: not modelled')
    off, n = data.offset, len(data)
    bits = C._bits(vb, off + n)
    trimmed, need = U._trim(offs, off + n)
    rec = C.Rec('Build_listarr', C.Nat(off), C.Nat(n), None if bits is None else C.Some(bits),
                trimmed, [])
    return rec, [_pv(v) for v in U._vals(data)[:need]]


def coq_vals(vals, isf):
    return C.Raw('[' + '; '.join(flit(v) for v in vals) + ']') if isf else [int(v) for v in vals]


def coq_dec(kind, dec, isf):
    out = []
    for d in dec:
        if d is None:
            out.append(None)
        else:
            parts = d if kind == 'multipolygon' else [d]
            out.append(C.Some([[coq_vals(r, isf) for r in part] for part in parts]))
    return out


def jvals(e):
    """replay form: floats as hex strings, integers as integers"""
    if e is None:
        return None
    if isinstance(e, list):
        return [jvals(x) for x in e]
    if isinstance(e, float):
        return e.hex() if math.isfinite(e) else repr(e)
    return int(e)


def unjvals(e):
    if e is None:
        return None
    if isinstance(e, list):
        return [unjvals(x) for x in e]
    if isinstance(e, str):
        return float.fromhex(e) if 'x' in e else float(e)
    return int(e)


# ---------------------------------------------------------------------------
# areas: exact (rational) and as the code computes them (binary64, only to classify)
# ---------------------------------------------------------------------------
def area2_exact(r):
    """2 * compute_area of one ring in exact rational arithmetic"""
    n = len(r)
    if n < 6:
        return 0
    q = r if not isinstance(r[0], float) else [Fraction(v) for v in r]
    s = sum(q[k + 2] * (q[k + 5] - q[k + 1]) for k in range(0, n - 4, 2))
    return s + q[0] * (q[3] - q[n - 3])


def area_f64(r):
    """compute_area of one ring as the kernel evaluates it: np.float64(values[i]), left to right"""
    n = len(r)
    if n < 6:
        return 0.0
    f = [float(v) for v in r]
    area = 0.0
    for k in range(0, n - 4, 2):
        area += f[k + 2] * (f[k + 5] - f[k + 1])
    area += f[0] * (f[3] - f[n - 3])
    return area / 2.0


def _sgn(x):
    return (x > 0) - (x < 0)


def pts(r):
    return list(zip(r[0::2], r[1::2]))


def rev_ring(r):
    return [c for p in pts(r)[::-1] for c in p]


def ring_in_scope(r):
    return all(isinstance(v, int) or math.isfinite(v) for v in r) and \
        (len(r) < 6 or (veq(r[0], r[-2]) and veq(r[1], r[-1])))


def ring_class(r):
    """'ok' when the binary64 area of the ring and of its reverse have the sign of the exact
    area; else why not"""
    ex = area2_exact(r)
    a, b = area_f64(r), area_f64(rev_ring(r))
    if not (math.isfinite(a) and math.isfinite(b)):
        return 'overflow'
    if _sgn(a) != _sgn(ex) or _sgn(b) != -_sgn(ex):
        return 'underflow' if a == 0 and b == 0 else 'sign-lost'
    return 'ok'


def polygons_of(kind, el):
    if el is None:
        return None
    return [el] if kind == 'polygon' else list(el)


# ---------------------------------------------------------------------------
# all checks on one real array
# ---------------------------------------------------------------------------
def check_exact_arr(rep, ctx, kind, st, arr, meta, exact_area=False):
    isf = st.startswith('float')
    try:
        rec, vals = export_exact(arr)
    except ValueError:
        rep.count('exact:null_typed_skipped')
        return
    rep.evaluations += 1
    rep.count('exact:' + kind)
    rep.count('exact:subtype:' + st)
    if U.pa_of(arr).offset:
        rep.count('exact:nonzero_offset')
    before = U.buffers_bytes(arr)
    dec = decode_exact(arr)
    try:
        o1 = arr.oriented()
        o2 = o1.oriented()
        o1b = arr.oriented()
    except Exception as e:
        _violation(rep, ctx, f'raises:{kind}-oriented:{type(e).__name__}', f'oriented() raised: {e}', meta)
        return
    if U.buffers_bytes(arr) != before or not same(decode_exact(arr), dec):
        _violation(rep, ctx, f'oriented-mutates-input:{kind}', 'oriented() changed the buffers of its input', meta)
    if type(o1) is not type(arr) or o1.dtype != arr.dtype or len(o1) != len(arr):
        _violation(rep, ctx, f'oriented-type:{kind}', 'oriented() changed class / dtype / length',
                   {**meta, 'got': [type(o1).__name__, str(o1.dtype), len(o1)]})
        return
    if U.is_null_typed(U.pa_of(o1)) or U.is_null_typed(U.pa_of(o2)):
        rep.count('exact:null_typed_skipped')
        return
    d1, d2 = decode_exact(o1), decode_exact(o2)
    if not same(decode_exact(o1b), d1):
        _violation(rep, ctx, f'oriented-input-state:{kind}',
                   'a second oriented() of the same input gives another result', meta)
    # ---- model = code (binary64 decision, values moved unconverted), decoded elements
    K = C.Raw(U.KIND_CTOR[kind])
    (ctx.f if isf else ctx.z).add(
        (K, rec, coq_vals(vals, isf)), C.Some((coq_dec(kind, d1, isf), coq_dec(kind, d2, isf))),
        f'oriented-differs-exact:{kind}',
        f'{kind}[{st}].oriented() (once, twice) differs from the binary64 model: decision on the '
        'float64 ring areas without tolerance, vertices moved unconverted', meta)
    # ---- the property on the real result
    polys0 = [polygons_of(kind, d) for d in dec]
    polys1 = [polygons_of(kind, d) for d in d1]
    classes = set()
    nflip = 0
    for i, (p0, p1) in enumerate(zip(polys0, polys1)):
        if (p0 is None) != (p1 is None):
            _violation(rep, ctx, f'oriented-missing:{kind}', 'missing element not preserved', {**meta, 'row': i})
            return
        if p0 is None:
            continue
        if len(p0) != len(p1) or any(len(a) != len(b) for a, b in zip(p0, p1)) \
                or any(len(r) != len(s) for a, b in zip(p0, p1) for r, s in zip(a, b)):
            _violation(rep, ctx, f'oriented-structure:{kind}', 'parts / rings / vertex counts not preserved',
                       {**meta, 'row': i, 'after': jvals(d1[i])})
            return
        for poly0, poly1 in zip(p0, p1):
            for j, (r, s) in enumerate(zip(poly0, poly1)):
                kept = same(r, s)
                if not (kept or same(rev_ring(r), s)):
                    _violation(rep, ctx, f'oriented-ring-changed:{kind}',
                               'a ring is neither kept nor exactly reversed (values compared exactly: '
                               'integers as integers, floats bit for bit)',
                               {**meta, 'row': i, 'ring': jvals(r), 'after': jvals(s)})
                    return
                if not kept:
                    nflip += 1
                if not ring_in_scope(r):
                    classes.add('out-of-scope')
                    continue
                cls = ring_class(r)
                classes.add(cls)
                if cls != 'ok':
                    continue
                a0, a1 = area2_exact(r), area2_exact(s)
                info = {**meta, 'row': i, 'ring': jvals(r), 'after': jvals(s),
                        'area_before': float(a0) / 2, 'area_after': float(a1) / 2}
                if j == 0 and a0 != 0 and not a1 > 0:
                    _violation(rep, ctx, f'oriented-shell-not-ccw:{kind}',
                               f'a shell of non-zero area ({float(a0) / 2!r}) is not counter-clockwise after '
                               'oriented()', info)
                if j > 0 and not a1 <= 0:
                    _violation(rep, ctx, f'oriented-hole-not-cw:{kind}',
                               f'a hole (area {float(a0) / 2!r}) is counter-clockwise after oriented()', info)
                if a0 == 0 and not kept:
                    _violation(rep, ctx, f'oriented-flips-zero-area:{kind}', 'a zero-area ring was reversed', info)
    if nflip:
        rep.nontrivial(('exact', kind, st, C.stable_hash([jvals(vals), repr(rec)])))
        rep.count('exact:some_ring_flipped')
    for c in classes - {'ok'}:
        rep.count('float_area_unreliable:' + c)
    if classes <= {'ok'}:
        rep.count('exact:in_scope')
        if not same(d1, d2):
            _violation(rep, ctx, f'oriented-not-idempotent:{kind}', 'oriented().oriented() != oriented()',
                       {**meta, 'once': jvals(d1), 'twice': jvals(d2)})
        if exact_area:
            A1 = [float(x) for x in o1.area]
            for i, p1 in enumerate(polys1):
                if p1 is None:
                    if not math.isnan(A1[i]):
                        _violation(rep, ctx, f'oriented-missing:{kind}', 'area of a missing element is not NaN', meta)
                    continue
                want = sum((abs(area2_exact(poly[0])) - sum(abs(area2_exact(h)) for h in poly[1:]))
                           if poly else 0 for poly in p1)
                if not math.isfinite(A1[i]) or 2 * Fraction(A1[i]) != want:
                    _violation(rep, ctx, f'oriented-area:{kind}',
                               f'area after oriented() {A1[i]!r} != (|shell| - sum|holes|)/2 = {float(want) / 2!r} '
                               '(coordinates are small integers times a power of two: the float64 area is exact)',
                               {**meta, 'row': i})
    elif exact_area:
        rep.count('exact:exact-family-unreliable')      # must stay 0


# ---------------------------------------------------------------------------
# value families: lattice vertex (x, y), 0 <= x, y <= VMAX  ->  coordinate pair
# each returns (subtype, label, fn, exact_area)
# ---------------------------------------------------------------------------
def _f32(x):
    return float(np.float32(x))


def float_families(rng):
    fams = []

    def dyadic(e, M, st='float64'):
        sc = 2.0 ** e if -1022 <= e <= 1023 else None

        def f(x, y):
            return float(M[0] + x) * sc, float(M[1] + y) * sc
        return (st, f'dyadic:2^{e}' + (':offset' if M != (0, 0) else ''), f, True)

    for e in (-14, -14, -20, -30, -47, -100, -300, -500, -530, 7, 100, 400, 500):
        fams.append(dyadic(e, (0, 0)))
    for e in (-14, -20, -30, -60, -200, 3, 200):
        M = (rng.randint(-2 ** 36, 2 ** 36), rng.randint(-2 ** 36, 2 ** 36))
        fams.append(dyadic(e, M))
        fams.append(dyadic(e, (rng.randint(-4000, 4000), rng.randint(-4000, 4000))))
    for e in (-14, -20, -40, -60, 20):
        fams.append(dyadic(e, (0, 0), 'float32'))
        fams.append(dyadic(e, (rng.randint(-2 ** 17, 2 ** 17), rng.randint(-2 ** 17, 2 ** 17)), 'float32'))

    def negzero(x, y):
        return (float(x) if x else -0.0), (float(y) if y else -0.0)
    fams.append(('float64', 'negzero', negzero, True))

    def lonlat(step, st='float64'):
        lon0 = rng.uniform(-180, 179)
        lat0 = rng.uniform(-85, 85)
        lon0, lat0 = round(lon0, 7), round(lat0, 7)
        cast = _f32 if st == 'float32' else float

        def f(x, y):
            return cast(lon0 + x * step), cast(lat0 + y * step)
        return (st, f'lonlat:step={step:g}', f, False)
    for step in (1e-3, 6e-5, 1e-5, 1e-7, 1e-9, 1e-12):
        fams.append(lonlat(step))
    fams.append(lonlat(1e-3, 'float32'))
    fams.append(lonlat(6e-5, 'float32'))

    def decimal(a, b, st='float64'):
        cast = _f32 if st == 'float32' else float

        def f(x, y):
            return cast(x * a + b), cast(y * a - b)
        return (st, f'decimal:{a:g}x+{b:g}', f, False)
    for a, b in ((0.1, 0.0), (0.7, 0.3), (1.0 / 3.0, 0.0), (1e-11, 0.0), (1e-11, 1.0), (1e16 / 3, 0.0),
                 (1e-160, 0.0), (12.3, 1e6)):
        fams.append(decimal(a, b))
    fams.append(decimal(0.1, 0.0, 'float32'))
    fams.append(decimal(1e-11, 0.0, 'float32'))

    def jitter(amp):
        memo = {}

        def f(x, y):
            if (x, y) not in memo:
                memo[(x, y)] = (x + rng.uniform(-amp, amp), y + rng.uniform(-amp, amp))
            return memo[(x, y)]
        return ('float64', f'jitter:{amp:g}', f, False)
    for amp in (1e-3, 1e-9, 0.25):
        fams.append(jitter(amp))

    def big(base, step):
        def f(x, y):
            return float(base + x * step), float(base + 3 * step + y * step)
        return ('float64', f'big:{base:g}+{step}k', f, False)
    for base, step in ((2 ** 52, 1), (2 ** 53, 2), (2 ** 53, 2 ** 12), (10 ** 16, 2), (-2 ** 60, 2 ** 8),
                       (2 ** 24, 1), (2 ** 26, 1)):
        fams.append(big(base, step))
    fams.append(('float32', 'big32:2^24-40+k', lambda x, y: (float(2 ** 24 - 40 + x), float(2 ** 23 + y)), False))

    def extreme(sc, label):
        def f(x, y):
            return x * sc, y * sc
        return ('float64', label, f, False)
    fams.append(extreme(2.0 ** 511, 'overflow:2^511'))
    fams.append(extreme(1e200, 'overflow:1e200'))
    fams.append(extreme(2.0 ** 520, 'overflow:2^520'))
    fams.append(extreme(2.0 ** -540, 'underflow:2^-540'))
    fams.append(extreme(5e-324, 'underflow:subnormal'))
    return fams


INT_RANGE = {'int64': 2 ** 63, 'int32': 2 ** 31, 'int16': 2 ** 15}


def int_families(rng):
    fams = []

    def affine(st, bx, by, s):
        lim = INT_RANGE[st]
        for b in (bx, by):
            assert -lim <= b and b + s * VMAX <= lim - 1, (st, b, s)

        def f(x, y):
            return bx + s * x, by + s * y
        return (st, f'{st}:{bx}+{s}k', f, False)

    B = 2 ** 53
    for s in (1, 3, 2 ** 10 + 1, 2 ** 20):
        fams.append(affine('int64', B + 1, B + 3, s))
        fams.append(affine('int64', -(B + 5) - s * VMAX, -(B + 7) - s * VMAX, s))
        fams.append(affine('int64', 2 ** 63 - 1 - s * VMAX, 2 ** 62 + 1, s))
        fams.append(affine('int64', -2 ** 63, -2 ** 63 + 1, s))
    fams.append(affine('int64', 2 ** 60 + 5, 2 ** 57 + 1, 2 ** 30 + 1))
    fams.append(affine('int64', B - 20, B - 7, 1))                       # straddles 2^53
    fams.append(affine('int64', rng.randint(2 ** 53, 2 ** 62), -rng.randint(2 ** 53, 2 ** 62), 2 ** 16 + 1))
    fams.append(affine('int64', rng.randint(2 ** 53, 2 ** 62) | 1, rng.randint(2 ** 53, 2 ** 62) | 1, 2 ** 25 + 1))
    for s in (1, 2 ** 10 + 1):
        fams.append(affine('int64', 2 ** 31 + 1, -2 ** 31 - 3 - s * VMAX, s))       # beyond int32
        fams.append(affine('int64', 2 ** 40 + 1, 2 ** 24 + 1, s))                  # beyond float32
    for s in (1, 3, 2 ** 10 + 1, 2 ** 20):
        fams.append(affine('int32', 2 ** 31 - 1 - s * VMAX, -2 ** 31, s))
        fams.append(affine('int32', 2 ** 24 + 1, -(2 ** 24 + 3) - s * VMAX, s))
    fams.append(affine('int32', 2 ** 30 + 1, 2 ** 16 + 1, 2 ** 12 + 1))
    for s in (1, 3, 100):
        fams.append(affine('int16', 2 ** 15 - 1 - s * VMAX, -2 ** 15, s))
        fams.append(affine('int16', 2 ** 11 + 1, -(2 ** 11 + 3) - s * VMAX, s))
    return fams


def apply_family(f, poly, dx=0):
    """lattice polygon (list of flat rings) -> the same polygon in the family's coordinates"""
    out = []
    for r in poly:
        ring = []
        for x, y in zip(r[0::2], r[1::2]):
            X, Y = f(x + dx, y)
            ring += [X, Y]
        out.append(ring)
    return out


# ---------------------------------------------------------------------------
# the stream
# ---------------------------------------------------------------------------
def core_polygons(valid_polygon, tri):
    """always present: every (shell, hole) winding pattern of a valid polygon and a bare
    triangle in both directions"""
    out = [valid_polygon(sr, (hr,), 0) for sr in (False, True) for hr in (False, True)]
    out += [valid_polygon(True, (True, False, True), 0), [tri], [rev_ring(tri)]]
    return out


def make_elements(rng, kind, polys, k):
    """k elements (+ missing / empty ones) drawn from lattice polygons"""
    els = []
    for p in polys[:k]:
        if kind == 'polygon':
            els.append(('P', p, 0))
        else:
            parts = [(p, 0)]
            if rng.random() < 0.6:
                parts.append((rng.choice(polys), 20))
            if rng.random() < 0.15:
                parts.insert(rng.randint(0, len(parts)), ([], 0))
            els.append(('M', parts))
    if rng.random() < 0.6:
        els.insert(rng.randint(0, len(els)), None)
    if rng.random() < 0.15:
        els.insert(rng.randint(0, len(els)), ('E',))
    return els


def realise(f, els):
    out = []
    for e in els:
        if e is None:
            out.append(None)
        elif e[0] == 'E':
            out.append([])
        elif e[0] == 'P':
            out.append(apply_family(f, e[1], e[2]))
        else:
            out.append([apply_family(f, p, dx) for p, dx in e[1]])
    return out


def check_elements(rep, ctx, kind, st, els, desc, label, exact_area, nder=0):
    """build (or rebuild) the array from exact elements, derive, check"""
    meta = {'exact_values': True, 'kind': kind, 'subtype': st, 'elements': jvals(els),
            'family': label, 'exact_area': exact_area}
    try:
        arr = G.make_array(kind, els, st)
    except Exception as e:
        rep.count('exact:construct_error:' + type(e).__name__)
        return
    # the constructor must hold the values exactly, or the input is not the one meant
    if not same(decode_exact(arr), els):
        rep.count('exact:constructor-does-not-hold-values')
        return
    if desc is None:
        arr, desc = G.derive(rep.rng, arr, nder)
    else:
        arr = U.rebuild(kind, st, els, desc)
    meta['derivation'] = desc
    if desc:
        rep.count('exact:derived')
    rep.count('exact:family:' + label.split(':')[0])
    check_exact_arr(rep, ctx, kind, st, arr, meta, exact_area)


def run_exact(rep, ctx, lattice_polys, valid_polygon, tier):
    """lattice_polys: polygons (lists of flat rings, integer coordinates in [0, 12]) with every
    winding pattern, from c15.polygon_space"""
    rng = rep.rng
    quick = tier == 'quick'
    tri = [0, 0, 3, 0, 3, 4, 0, 0]
    core = core_polygons(valid_polygon, tri)
    nrand = 2 if quick else 12
    fams = float_families(rng) + int_families(rng)
    for st, label, f, exact in fams:
        for kind in ('polygon', 'multipolygon'):
            # the fixed core: two arrays holding every pattern
            for chunk in (core[:4], core[4:]):
                els = realise(f, make_elements(rng, kind, chunk, len(chunk)))
                check_elements(rep, ctx, kind, st, els, None, label, exact, nder=rng.choice([0, 0, 1]))
            for _ in range(nrand):
                polys = [rng.choice(lattice_polys) for _ in range(3)]
                els = realise(f, make_elements(rng, kind, polys, 3))
                check_elements(rep, ctx, kind, st, els, None, label, exact, nder=rng.choice([0, 0, 1, 2]))


def replay(rep, rp):
    ctx = Ctx()
    els = unjvals(rp['elements'])
    check_elements(rep, ctx, rp['kind'], rp['subtype'], els, rp.get('derivation') or [],
                   rp.get('family', 'replay'), bool(rp.get('exact_area')))
    ctx.flush(rep)
